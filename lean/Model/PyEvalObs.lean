/-
  Model/PyEvalObs.lean — a small total evaluator that RUNS the regenerated bookkeeping code of ListOfDicts
  (`Generated/CodeC17.lean`: `ListOfDicts_init / _new / _deepcopy / _copy / _mark_obsolete / _getattribute`,
  `deco_obsoletes_wrapper`, `deco_new_from_generator_wrapper`) on a heap of list objects — the `World` of
  `Model/Obsolete.lean` (`lists : List LObj`, reference = index; `vers` = the dict objects) — with an output log.
  `Lemmas/PyEvalObs.lean` proves that what the code computes is the state machine of `Model/Obsolete.lean`.

  * **values** `Val`: a reference to a list object, a sequence of dict identities, `None / True / False`, the KIND of an
    attribute name (what `__getattribute__` asks about it: does the name contain "obsolete"; is the value callable),
    and `opaque` (a value the bookkeeping never looks into: the attribute value, the group keys).
  * **configuration** `Cfg`: the local environment (`self`, `dicts`, `as_is`, `name`, `new`), the world, the output log.
  * **result** `Res`: `ok value cfg`, `raised cfg` (a Python exception propagates, the heap is what it was at the
    raise), `unsupported` (a term the evaluator does not know, a read of a missing object, or out of fuel).  Nothing is
    ever skipped: an effect that is not listed below makes the whole result `unsupported`.
  * **tests**: the regenerated functions take an interpretation `truth : Term → Bool` of their tests; the evaluator
    supplies `truthOf` — read off the heap at function entry (`isinstance(self._predecessor, ListOfDicts)` ⇔ `pred` is
    `some`; `self._obsolete`, `self._obsolete_warned` = the flags; `'obsolete' not in name`, `callable(value)` = the
    kind bound to `name`; `as_is` = the argument).  In every one of the eight functions all tests precede all effects in
    the source, so the entry state is the state Python tests.  A test `truthOf` does not know is answered by a default;
    `Proofs/EvalC17.lean` (`tests_are_known`) proves that no outcome of the eight functions depends on that default.
  * **attribute access**: every `x.attr` on a list object runs the regenerated `ListOfDicts_getattribute` (with `name`
    bound to the kind of `attr`) before the attribute is used — also the internal ones: `self.__class__` and `self._new`
    are callable, non-bookkeeping attributes (they CAN print the warning), `_mark_obsolete` / `_obsolete*` contain
    "obsolete", `_predecessor` / `_group_keys` are not callable.
  * **effects**: `setattr [target, attr, value]` for `_obsolete`, `_obsolete_warned` (True / False), `_predecessor`
    (None / a reference), `_group_keys` (accepted; `LObj` has no such field); `super().__init__ [dicts]` fills the items of
    `self`; `print [s]` appends `s` to the log; `._mark_obsolete [x]` is a recursive run of the regenerated
    `ListOfDicts_mark_obsolete` with `self` rebound (one unit of fuel per link of the chain).
  * **allocation**: `.__class__ [self, dicts, =as_is True]` appends a raw object (contents `Ctx.raw`: ARBITRARY — the
    theorems hold for every raw content, so the clean flags of a new list are the work of `__init__`) and runs the
    regenerated `ListOfDicts_init` on it.  The translator inlines the local `new = self.__class__(…)` at its uses, so
    that term DENOTES THE LOCAL `new`: its first evaluation allocates and binds `new`, the later ones read `new`.
    `map [copy.deepcopy, self]` allocates one fresh dict object per item.
  * `function [self, * args, =** kwargs]` — the wrapped method — is the parameter `Ctx.fn`.
  * **order of the wrapped call** (`call … hoist`): the translator also inlines `value = function(self, …)` into the
    `return`; Python runs it at its binding, BEFORE `self._mark_obsolete()`.  The term does not record that, so the order
    is an input of the evaluation: `deco_obsoletes_wrapper` is run with `hoist := true` (returned expression first, then
    the effects).  The order is observable — `Proofs/EvalC17.lean`, `obsoletes_order_matters`.
-/
import Model.PyCore
import Model.Obsolete
import Generated.CodeC17

namespace DI.PyEvalObs

open DI.Py DI.Gen DI.Obs

inductive Val where
  | ref (i : Nat)                          -- a ListOfDicts object
  | dicts (ds : List Nat)                  -- a sequence of dict objects (identities)
  | none
  | tt
  | ff
  | kind (bookkeeping callable : Bool)     -- an attribute name, by what `__getattribute__` asks about it
  | opaque                                 -- a value the bookkeeping never inspects
  deriving Repr, DecidableEq, Inhabited

abbrev Env := List (String × Val)

structure Cfg where
  env : Env
  w : World
  out : List String
  deriving Repr, DecidableEq, Inhabited

inductive Res where
  | ok (v : Val) (c : Cfg)
  | raised (c : Cfg)
  | unsupported
  deriving Repr, DecidableEq, Inhabited

def Res.bind (r : Res) (k : Val → Cfg → Res) : Res :=
  match r with
  | .ok v c => k v c
  | .raised c => .raised c
  | .unsupported => .unsupported

/-- leave a function: the caller's locals are back. -/
def Res.leave (r : Res) (env : Env) : Res :=
  match r with
  | .ok v c => .ok v { c with env := env }
  | .raised c => .raised { c with env := env }
  | .unsupported => .unsupported

/-- the printed text, as the translator records it (source text of the literal). -/
def warningText : String := "'Warning: A successor has modified the shared dicts'"

/-- the list object a value refers to. -/
def objOf (c : Cfg) : Val → Option LObj
  | .ref i => c.w.lists[i]?
  | _ => none

def setObj (c : Cfg) (i : Nat) (l : LObj) : Cfg := { c with w := { c.w with lists := c.w.lists.set i l } }

/-- `target.attr = value`. -/
def setAttr (tgt : Val) (attr : String) (v : Val) (c : Cfg) : Res :=
  match tgt with
  | .ref i =>
    match c.w.lists[i]? with
    | none => .unsupported
    | some l =>
      match attr, v with
      | "_obsolete", .tt => .ok .none (setObj c i { l with obsolete := true })
      | "_obsolete", .ff => .ok .none (setObj c i { l with obsolete := false })
      | "_obsolete_warned", .tt => .ok .none (setObj c i { l with warned := true })
      | "_obsolete_warned", .ff => .ok .none (setObj c i { l with warned := false })
      | "_predecessor", .none => .ok .none (setObj c i { l with pred := none })
      | "_predecessor", .ref p => .ok .none (setObj c i { l with pred := some p })
      | "_group_keys", .opaque => .ok .none c
      | _, _ => .unsupported
  | _ => .unsupported

/-- the dict objects an iterable yields: a sequence of dicts, or the items of a list object (`_new(self)`). -/
def asDicts (c : Cfg) : Val → Option (List Nat)
  | .dicts ds => some ds
  | .ref i => (c.w.lists[i]?).map (·.items)
  | _ => none

/-- the interpretation of the tests, read off the configuration (`dflt` answers what is not known). -/
def truthOf (dflt : Bool) (c : Cfg) : Term → Bool
  | .sym "as_is" =>
    match c.env.lookup "as_is" with
    | some .tt => true
    | some .ff => false
    | _ => dflt
  | .app "isinstance" [.app "._predecessor" [.sym "self"], .sym "ListOfDicts"] =>
    match (c.env.lookup "self").bind (objOf c) with
    | some l => l.pred.isSome
    | none => dflt
  | .app "NotIn" [.sym "'obsolete'", .sym "name"] =>
    match c.env.lookup "name" with
    | some (.kind bk _) => !bk
    | _ => dflt
  | .app "callable" [.app "super().__getattribute__" [.sym "name"]] =>
    match c.env.lookup "name" with
    | some (.kind _ cl) => cl
    | _ => dflt
  | .app "._obsolete" [.sym "self"] =>
    match (c.env.lookup "self").bind (objOf c) with
    | some l => l.obsolete
    | none => dflt
  | .app "._obsolete_warned" [.sym "self"] =>
    match (c.env.lookup "self").bind (objOf c) with
    | some l => l.warned
    | none => dflt
  | _ => dflt

/-- expression statements, in order. -/
def seq (e : Term → Cfg → Res) : List Term → Cfg → Res
  | [], c => .ok .none c
  | t :: ts, c => (e t c).bind fun _ c1 => seq e ts c1

/-- run a regenerated function `f` with the locals `env`; `e` evaluates its terms.  `hoist`: the returned expression is a
    local bound BEFORE the effects (see the header). -/
def call (e : Term → Cfg → Res) (hoist : Bool) (f : (Term → Bool) → Out) (env : Env) (c : Cfg) : Res :=
  let c0 : Cfg := { c with env := env }
  (match f (truthOf false c0) with
   | .ret effs t =>
     if hoist then (e t c0).bind fun v c1 => (seq e effs c1).bind fun _ c2 => .ok v c2
     else (seq e effs c0).bind fun _ c1 => e t c1
   | .fall effs => (seq e effs c0).bind fun _ c1 => .ok .none c1
   | .raise effs _ => (seq e effs c0).bind fun _ c1 => .raised c1).leave c.env

/-- `x.attr`: the regenerated `__getattribute__` runs on `x` (a list object) with `name` = the kind of `attr`. -/
def getAttr (e : Term → Cfg → Res) (v : Val) (bk cl : Bool) (c : Cfg) : Res :=
  match objOf c v with
  | none => .unsupported
  | some _ => call e false ListOfDicts_getattribute [("self", v), ("name", .kind bk cl)] c

/-- `cls(dicts, as_is=va)` with the arguments evaluated: a raw object is appended to the heap, the regenerated `__init__`
    runs on it, and the local `new` is bound to it.  `as_is` must be a boolean (it is tested). -/
def allocInit (raw : LObj) (e : Term → Cfg → Res) (vd va : Val) (c : Cfg) : Res :=
  match va with
  | .tt | .ff =>
    let i := c.w.lists.length
    let c5 : Cfg := { c with w := { c.w with lists := c.w.lists ++ [raw] } }
    (call e false ListOfDicts_init [("self", .ref i), ("dicts", vd), ("as_is", va)] c5).bind fun _ c6 =>
      .ok (.ref i) { c6 with env := ("new", .ref i) :: c6.env }
  | _ => .unsupported

/-- the parameters of an evaluation. -/
structure Ctx where
  /-- `function(self, *args, **kwargs)`, the wrapped method, applied to the value of `self`. -/
  fn : Val → Cfg → Res
  /-- the contents of a freshly allocated object before `__init__` has run. -/
  raw : LObj

/-- the evaluator (fuel: one unit per nesting level of terms and calls). -/
def ev (ctx : Ctx) : Nat → Term → Cfg → Res
  | 0, _, _ => .unsupported
  | fuel + 1, t, c =>
    let e := ev ctx fuel
    match t with
    | .sym "True" => .ok .tt c
    | .sym "False" => .ok .ff c
    | .sym "None" => .ok .none c
    | .sym s =>
      match c.env.lookup s with
      | some v => .ok v c
      | none => .unsupported
    | .app "tuple" [] => .ok .opaque c
    | .app "super().__getattribute__" [.sym "name"] =>
      match c.env.lookup "name" with
      | some (.kind _ _) => .ok .opaque c
      | _ => .unsupported
    | .app "print" [.sym s] => .ok .none { c with out := c.out ++ [s] }
    | .app "._group_keys" [x] =>
      (e x c).bind fun v c1 => (getAttr e v false false c1).bind fun _ c2 => .ok .opaque c2
    | .app "._predecessor" [x] =>
      (e x c).bind fun v c1 => (getAttr e v false false c1).bind fun _ c2 =>
        match objOf c2 v with
        | some l => .ok (match l.pred with | some p => .ref p | none => .none) c2
        | none => .unsupported
    | .app "setattr" [tgt, .sym a, val] =>
      (e tgt c).bind fun vt c1 => (e val c1).bind fun vv c2 => setAttr vt a vv c2
    | .app "super().__init__" [x] =>
      (e x c).bind fun vd c1 =>
        match c1.env.lookup "self", asDicts c1 vd with
        | some (.ref i), some ds =>
          match c1.w.lists[i]? with
          | some l => .ok .none (setObj c1 i { l with items := ds })
          | none => .unsupported
        | _, _ => .unsupported
    | .app "map" [.sym "copy.deepcopy", x] =>
      (e x c).bind fun v c1 =>
        match objOf c1 v with
        | some l =>
          let k := l.items.length
          .ok (.dicts ((List.range k).map (· + c1.w.vers.length)))
            { c1 with w := { c1.w with vers := c1.w.vers ++ List.replicate k 0 } }
        | none => .unsupported
    | .app ".__class__" [x, d, .app "=as_is" [a]] =>
      match c.env.lookup "new" with
      | some v => .ok v c
      | none =>
        (e x c).bind fun vx c1 => (getAttr e vx false true c1).bind fun _ c2 =>
        (e d c2).bind fun vd c3 => (e a c3).bind fun va c4 => allocInit ctx.raw e vd va c4
    | .app "._new" [x, d] =>
      (e x c).bind fun vx c1 => (getAttr e vx false true c1).bind fun _ c2 =>
      (e d c2).bind fun vd c3 => call e false ListOfDicts_new [("self", vx), ("dicts", vd)] c3
    | .app "._mark_obsolete" [x] =>
      (e x c).bind fun vx c1 => (getAttr e vx true true c1).bind fun _ c2 =>
        call e false ListOfDicts_mark_obsolete [("self", vx)] c2
    | .app "function" [x, .app "*" [.sym "args"], .app "=**" [.sym "kwargs"]] =>
      (e x c).bind fun vx c1 => ctx.fn vx c1
    | _ => .unsupported

/-! ### entry points: one method of one list object of a world -/

/-- enough fuel for every well-formed world (`Lemmas/PyEvalObs.lean`: one unit per link of a predecessor chain, and a
    chain of a world whose predecessors are older objects has at most `lists.length` links). -/
def fuelFor (w : World) : Nat := w.lists.length + 10

def start (w : World) : Cfg := { env := [], w := w, out := [] }

/-- a wrapped function that does nothing (for the methods that wrap nothing). -/
def noFn : Val → Cfg → Res := fun _ _ => .unsupported

/-- `r._mark_obsolete()`. -/
def runMarkObsolete (raw : LObj) (w : World) (r : Nat) : Res :=
  call (ev ⟨noFn, raw⟩ (fuelFor w)) false ListOfDicts_mark_obsolete [("self", .ref r)] (start w)

/-- `r.attr` for an attribute of the given kind. -/
def runGetattribute (raw : LObj) (w : World) (r : Nat) (bk cl : Bool) : Res :=
  getAttr (ev ⟨noFn, raw⟩ (fuelFor w)) (.ref r) bk cl (start w)

/-- `r._new(dicts)`. -/
def runNew (raw : LObj) (w : World) (r : Nat) (ds : List Nat) : Res :=
  call (ev ⟨noFn, raw⟩ (fuelFor w)) false ListOfDicts_new [("self", .ref r), ("dicts", .dicts ds)] (start w)

/-- `r.__deepcopy__()`. -/
def runDeepcopy (raw : LObj) (w : World) (r : Nat) : Res :=
  call (ev ⟨noFn, raw⟩ (fuelFor w)) false ListOfDicts_deepcopy [("self", .ref r)] (start w)

/-- `r.__copy__()`. -/
def runCopy (raw : LObj) (w : World) (r : Nat) : Res :=
  call (ev ⟨noFn, raw⟩ (fuelFor w)) false ListOfDicts_copy [("self", .ref r)] (start w)

/-- what a wrapped generator method does, seen from the bookkeeping: from the receiver and the world it yields dict
    objects (`some ds`) or raises (`none`), and leaves a world (it may have written into dicts / allocated dicts). -/
abbrev Gen := Nat → World → Option (List Nat) × World

/-- a generator as the value of `function(self, …)`. -/
def genFn (g : Gen) : Val → Cfg → Res
  | .ref r, c =>
    match g r c.w with
    | (some ds, w') => .ok (.dicts ds) { c with w := w' }
    | (none, w') => .raised { c with w := w' }
  | _, _ => .unsupported

/-- `@new_from_generator def m(self, …)` called on `self`: the regenerated wrapper around the generator `g`. -/
def nfgCall (raw : LObj) (fuel : Nat) (g : Gen) (self : Val) (c : Cfg) : Res :=
  call (ev ⟨genFn g, raw⟩ fuel) false deco_new_from_generator_wrapper [("self", self)] c

/-- `@obsoletes @new_from_generator def m(self, …)` called on `self`: the regenerated `obsoletes` wrapper around the
    regenerated `new_from_generator` wrapper around `g`.  `hoist` = true is Python's order. -/
def obsCall (raw : LObj) (fuel : Nat) (hoist : Bool) (g : Gen) (self : Val) (c : Cfg) : Res :=
  call (ev ⟨nfgCall raw fuel g, raw⟩ fuel) hoist deco_obsoletes_wrapper [("self", self)] c

/-- `r.m(…)` for a `@new_from_generator` method: the attribute access `r.m`, then the call. -/
def runDerived (raw : LObj) (w : World) (r : Nat) (g : Gen) : Res :=
  (getAttr (ev ⟨noFn, raw⟩ (fuelFor w)) (.ref r) false true (start w)).bind fun _ c =>
    nfgCall raw (fuelFor w) g (.ref r) c

/-- `r.m(…)` for an `@obsoletes @new_from_generator` method. -/
def runEditing (raw : LObj) (w : World) (r : Nat) (g : Gen) : Res :=
  (getAttr (ev ⟨noFn, raw⟩ (fuelFor w)) (.ref r) false true (start w)).bind fun _ c =>
    obsCall raw (fuelFor w) true g (.ref r) c

/-- `r.deepcopy()`. -/
def runDeepcopyMethod (raw : LObj) (w : World) (r : Nat) : Res :=
  (getAttr (ev ⟨noFn, raw⟩ (fuelFor w)) (.ref r) false true (start w)).bind fun _ c =>
    call (ev ⟨noFn, raw⟩ (fuelFor w)) false ListOfDicts_deepcopy [("self", .ref r)] c

/-! ### the generators of the model's ops, and the code-level step -/

/-- filter / sort / head / … / append: the items at `keep`, then `extra` brand-new dicts; writes nothing. -/
def genDerive (keep : List Nat) (extra : Nat) : Gen := fun r w =>
  match w.lists[r]? with
  | none => (none, w)
  | some l => (some (pick l.items keep ++ (List.range extra).map (· + w.vers.length)),
               { w with vers := w.vers ++ List.replicate extra 0 })

/-- modify / unselect / joins: writes into the items at `keep` and yields them. -/
def genEditInPlace (keep : List Nat) : Gen := fun r w =>
  match w.lists[r]? with
  | none => (none, w)
  | some l => (some (pick l.items keep), { w with vers := bump w.vers (pick l.items keep) })

/-- rename / select: yields one brand-new dict per item. -/
def genEditFresh : Gen := fun r w =>
  match w.lists[r]? with
  | none => (none, w)
  | some l => (some ((List.range l.items.length).map (· + w.vers.length)),
               { w with vers := w.vers ++ List.replicate l.items.length 0 })

/-- the observable outcome of a run that returned: the world and what was printed. -/
def Res.done : Res → Option (World × List String)
  | .ok _ c => some (c.w, c.out)
  | _ => none

/-- one call of the history, executed by the regenerated code. -/
def codeStep (raw : LObj) (w : World) : Op → Option (World × List String)
  | .use r => (runGetattribute raw w r false true).done
  | .poke r pos =>
    -- `r[pos][k] = v`: `list.__getitem__` is found on the type, no bookkeeping code runs
    match w.lists[r]? with
    | none => none
    | some l => some ({ w with vers := bump w.vers (pick l.items [pos]) }, [])
  | .derive r keep extra => (runDerived raw w r (genDerive keep extra)).done
  | .editInPlace r keep => (runEditing raw w r (genEditInPlace keep)).done
  | .editFresh r => (runEditing raw w r genEditFresh).done
  | .deepcopy r => (runDeepcopyMethod raw w r).done

/-- a history executed by the regenerated code: per call, what was printed and the world after it. -/
def codeRun (raw : LObj) (w : World) : List Op → Option (List (List String × World))
  | [] => some []
  | op :: ops =>
    match codeStep raw w op with
    | none => none
    | some (w', printed) => (codeRun raw w' ops).map fun rest => (printed, w') :: rest

/-- the world after a history executed by the regenerated code. -/
def codeFinal (raw : LObj) : World → List Op → Option World
  | w, [] => some w
  | w, op :: ops =>
    match codeStep raw w op with
    | none => none
    | some (w', _) => codeFinal raw w' ops

end DI.PyEvalObs

/-
  Model/Frame.lean — row-structural DataFrame operations (dataiter/data_frame.py) as
  computations of *row-id vectors*: every operation returns the list of input positions that
  make up the output rows, every column is then produced by the same `gather`
  (`np.take(column, rows)`, `column[rows]`, `np.delete(column, rows)` applied column by column).

  Key columns are lists of cells `Option Key` (`none` = missing).
-/
import Model.Basic
import Model.Vector

namespace DI

/-! ### C02: row subsetting -/

/-- NumPy element-wise `column == value`.  `naEq` says whether the missing value of this
    dtype equals itself (`""`, `None`: yes; NaN, NaT: no). -/
def eqMask (naEq : Bool) (col : List Cell) (v : Cell) : List Bool :=
  col.map (fun x => match x, v with
    | none, none => naEq
    | some a, some b => a == b
    | _, _ => false)

/-- `rows = True.repeat(nrow); for (c, v): rows &= (self[c] == v)`. -/
def andMasks (n : Nat) (masks : List (List Bool)) : List Bool :=
  (List.range n).map (fun i => masks.all (fun m => m[i]!))

/-- `filter(rows)`: `np.take(column, np.nonzero(rows)[0])`. -/
def filterIdx (mask : List Bool) : List Nat := nonzero mask

/-- `filter_out(rows)`: `np.delete(column, np.nonzero(rows)[0])`. -/
def filterOutIdx (mask : List Bool) : List Nat := deleteIdx mask.length (nonzero mask)

/-- NumPy index wrap-around: negative positions count from the end. -/
def wrapIdx (n : Nat) (i : Int) : Nat := if i < 0 then (i + n).toNat else i.toNat

/-- `slice(rows)`: `self[colname][rows]`. -/
def sliceIdx (n : Nat) (rows : List Int) : List Nat := rows.map (wrapIdx n)

/-- `slice_off(rows)`: `np.delete(self[colname], rows)`. -/
def sliceOffIdx (n : Nat) (rows : List Int) : List Nat := deleteIdx n (rows.map (wrapIdx n))

/-- `head(n)`: `slice(np.arange(min(nrow, n)))`. -/
def headIdx (nrow : Nat) (n : Nat) : List Nat := List.range (min nrow n)

/-- `tail(n)`: `slice(np.arange(nrow - n', nrow))`, `n' = min(nrow, n)`. -/
def tailIdx (nrow : Nat) (n : Nat) : List Nat :=
  (List.range (min nrow n)).map (fun k => nrow - min nrow n + k)

/-- `drop_na(cols)`: `drop |= is_na(col)` for every named column, then `filter_out(drop)`. -/
def dropNaIdx (n : Nat) (cols : List (List Cell)) : List Nat :=
  filterOutIdx ((List.range n).map (fun i => cols.any (fun c => isNa c[i]!)))

/-- `sample(n)`: `slice(np.sort(chosen))` (the random choice is an input). -/
def sampleIdx (chosen : List Nat) : List Nat := chosen.mergeSort (fun a b => a ≤ b)

/-- row tuples `list(zip(*columns))` (missing values already replaced by `None`, which is
    what `none` is). -/
def rowsOf (n : Nat) (cols : List (List Cell)) : List (List Cell) :=
  (List.range n).map (fun i => cols.map (fun c => c[i]!))

/-- the first-seen scan of `DataFrame.unique`:
    `for i in range(nrow): if rows[i] not in seen: seen.add(rows[i]); keep.append(i)`. -/
def uniqueScan [DecidableEq α] : List α → Nat → List α → List Nat
  | [], _, _ => []
  | r :: rs, i, seen =>
    if seen.contains r then uniqueScan rs (i + 1) seen
    else i :: uniqueScan rs (i + 1) (r :: seen)

def uniqueIdx (n : Nat) (cols : List (List Cell)) : List Nat :=
  uniqueScan (rowsOf n cols) 0 []

/-! ### C03: sort -/

/-- what `sort_key` needs to know about a column's dtype. -/
structure ColKind where
  isString : Bool      -- StringDType or fixed-width `<U`
  fastAsc : Bool       -- fixed str (after _optimize_for_argsort) | bool | bytes | datetime | float | int | timedelta
  isNumber : Bool      -- np.number: int, float, timedelta
  isInteger : Bool     -- int (not timedelta): `~column`
  deriving Repr, DecidableEq

/-- `~x` on integers / `-x` on the order-isomorphic float image and on timedelta ticks. -/
def invertKey (isInteger : Bool) : Cell → Cell
  | some (.i v) => some (.i (if isInteger then -v - 1 else -v))
  | c => c

/-- rank(method="min") as a key column (integers, no missing values). -/
def rankKey (xs : List Cell) : List Cell :=
  (vrank Key.le (.i 1) .min xs).map (fun (r : Nat) => some (Key.i (Int.ofNat r)))

/-- transcription of the inner `sort_key(colname, dir)` of `DataFrame.sort`. -/
def sortKey (k : ColKind) (desc : Bool) (col : List Cell) : List Cell :=
  -- strings with missing values are ranked first (missing last)
  let ranked := k.isString && col.any isNa
  let col1 := if ranked then rankKey col else col
  let fastAsc := if ranked then true else k.fastAsc          -- ranks are int64
  let isNumber := if ranked then true else k.isNumber
  let isInteger := if ranked then true else k.isInteger
  if !desc && fastAsc then col1 else
  let rankedNow := !isNumber
  let col2 := if rankedNow then rankKey col1 else col1
  let isInteger := if rankedNow then true else isInteger
  if !desc then col2 else col2.map (invertKey isInteger)

/-! Specification order of one sort key (what the property states):
    ascending: by value, missing last; descending: by value reversed, the missing values
    together at one end — first when `sort_key` ranks the column (strings, booleans, dates,
    objects), last when it negates a numeric column (floats, timedeltas). -/

/-- descending order of a numeric column whose missing value stays last. -/
def descNaLast : Cell → Cell → Bool
  | some a, some b => ltNaLast Key.le (some b) (some a)
  | some _, none => true
  | none, _ => false

/-- does `sort_key` rank this column at some point? -/
def rankedKey (k : ColKind) (col : List Cell) : Bool :=
  (k.isString && col.any isNa) || !k.isNumber

def specLt (k : ColKind) (desc : Bool) (col : List Cell) : Cell → Cell → Bool :=
  if !desc then ltNaLast Key.le
  else if rankedKey k col then (fun a b => ltNaLast Key.le b a)
  else descNaLast

/-- lexicographic `≤` over row tuples of key cells, missing last (`np.lexsort` treats NaN / NaT
    as largest; all other key columns have no missing values by construction). -/
def leLex : List Cell → List Cell → Bool
  | [], _ => true
  | _ :: _, [] => false
  | a :: as, b :: bs =>
    if ltNaLast Key.le a b then true
    else if ltNaLast Key.le b a then false
    else leLex as bs

/-- Specification: lexicographic `≤` of rows under per-column strict orders. -/
def leLexBy : List (Cell → Cell → Bool) → List Cell → List Cell → Bool
  | lt :: lts, a :: as, b :: bs =>
    if lt a b then true else if lt b a then false else leLexBy lts as bs
  | _, _, _ => true

/-- `np.lexsort(keys reversed)`: stable, first key primary. -/
def lexsortIdx (n : Nat) (keys : List (List Cell)) : List Nat :=
  argsort leLex (rowsOf n keys)

def dfSortIdx (n : Nat) (keys : List (ColKind × Bool × List Cell)) : List Nat :=
  lexsortIdx n (keys.map (fun k => sortKey k.1 k.2.1 k.2.2))

end DI

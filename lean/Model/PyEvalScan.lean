/-
  Model/PyEvalScan.lean — a meaning for the group scan of `dataiter/aggregate.py` (C07 / C08).

  `Proofs/TieC07.lean` (`yield_groups_code`) shows that the translation of the current source of `yield_groups` IS the
  term `groupScan isNa emit`; `Proofs/TieC08.lean` (`yield_groups_numba_code`) that `yield_groups_numba` is the same
  term with `is_na_numba` / `.append`:

      i = 0; n = len(x)
      for j in range(1, n + 1):
          if j < n and group[j] == group[i]: continue
          xij = x[i:j]
          if drop_na: xij = xij[~xij.is_na()]
          yield xij
          i = j

  Here:

  * `scan group x dropNa isNa`: the loop written directly in Lean, LITERALLY: the state is `(i, runs yielded so far)`,
    a fold over `j = 1 .. n` whose step either `continue`s (`j < n ∧ group[j] = group[i]`) or yields `x[i:j]` (after
    removing the missing elements when `dropNa`) and sets `i := j`;
  * a small, total, computable big-step evaluator (`evalE` / `evalS` / `evalB` / `run`) for exactly the statement
    forms of that term: `for` over `range(a, b)` with the `init` of the loop-carried integer, `block`, `if`, `continue`,
    `assign`, the slice `x[i:j]`, Boolean-mask indexing `xij[~isNa(xij)]`, `len`, `Add`, `Lt`, `Eq`, short-circuit `And`,
    `group[j]`, the two emit statements (`yield r`, `out.append(r)` — the translator writes the latter
    `.append [list [], r]`) and the two missing-value tests (`r.is_na()`, `is_na_numba(r)`), whose element-wise meaning
    is a parameter (`Prims`).  Everything else, and every Python error (index out of range, mask of the wrong length,
    a value of the wrong kind), is `none`;
  * `groupScan`: the term itself (the same text as `DI.Tie.C07.groupScan` / `DI.Tie.C08.groupScan`; `Proofs/EvalC07.lean`
    and `Proofs/EvalC08.lean` identify them by `rfl`), and its Python / Numba instances.

  `Lemmas/PyEvalScan.lean` proves `eval_groupScan_eq_scan` (evaluating the term = `scan`) and what `scan` computes.
-/
import Model.PyCore

namespace DI.PyEvalScan

open DI.Py

/-! ### the loop, literally -/

/-- `x[i:j]` for `0 ≤ i`, `0 ≤ j`. -/
def sliceNat {α : Type} (x : List α) (i j : Nat) : List α := (x.take j).drop i

/-- `xij[~isNa(xij)]` when `dropNa`, else `xij`. -/
def post {α : Type} (dropNa : Bool) (isNa : α → Bool) (xij : List α) : List α :=
  if dropNa then xij.filter (fun a => !isNa a) else xij

/-- one pass through the body of the `for` loop at `j`, from the state `(i, yielded so far)`. -/
def step {α : Type} (group : List Nat) (x : List α) (dropNa : Bool) (isNa : α → Bool)
    (st : Nat × List (List α)) (j : Nat) : Nat × List (List α) :=
  if j < x.length ∧ group[j]? = group[st.1]? then st                       -- `continue`
  else (j, st.2 ++ [post dropNa isNa (sliceNat x st.1 j)])                -- `yield xij; i = j`

/-- `yield_groups(x, group, drop_na)` / `yield_groups_numba(x, group, drop_na)`: `i = 0`, then `j = 1 .. len(x)`. -/
def scan {α : Type} (group : List Nat) (x : List α) (dropNa : Bool) (isNa : α → Bool) : List (List α) :=
  ((List.range' 1 x.length).foldl (step group x dropNa isNa) (0, [])).2

/-! ### values and primitives -/

inductive Val (α : Type) where
  | int (i : Int)
  | bool (b : Bool)
  | vec (xs : List α)          -- the column, a slice of it
  | ids (g : List Nat)         -- the array of group ids
  | mask (bs : List Bool)      -- a Boolean array
  deriving Repr, Inhabited, DecidableEq

/-- the element-wise meaning of the two missing-value tests (`Vector.is_na`, `is_na_numba`). -/
structure Prims (α : Type) where
  isNa : α → Bool
  isNaNumba : α → Bool

abbrev Env (α : Type) := List (String × Val α)

/-- Python's slice on a list, any integer bounds (step 1). -/
def pySlice {α : Type} (xs : List α) (a b : Int) : List α :=
  (xs.take (normBound xs.length b).toNat).drop (normBound xs.length a).toNat

/-- `xs[mask]`: the elements where the mask is True; the mask must have the length of `xs` (IndexError otherwise). -/
def maskSelect {α : Type} (xs : List α) (bs : List Bool) : Option (List α) :=
  if xs.length = bs.length then some (((xs.zip bs).filter (·.2)).map (·.1)) else none

/-- `g[k]` for an integer `k` (negative counts from the end; IndexError = `none`). -/
def idAt (g : List Nat) (k : Int) : Option Nat :=
  let j := if k < 0 then k + g.length else k
  if 0 ≤ j then g[j.toNat]? else none

/-! ### expressions -/

/-- the value of an expression term. -/
def evalE {α : Type} (P : Prims α) : Term → Env α → Option (Val α)
  | .int i, _ => some (.int i)
  | .sym x, ρ => ρ.lookup x
  | .app "len" [e], ρ =>
    (evalE P e ρ).bind fun v => match v with
      | .vec xs => some (.int xs.length) | .ids g => some (.int g.length) | .mask bs => some (.int bs.length) | _ => none
  | .app "Add" [a, b], ρ =>
    (evalE P a ρ).bind fun va => (evalE P b ρ).bind fun vb => match va, vb with
      | .int p, .int q => some (.int (p + q)) | _, _ => none
  | .app "Lt" [a, b], ρ =>
    (evalE P a ρ).bind fun va => (evalE P b ρ).bind fun vb => match va, vb with
      | .int p, .int q => some (.bool (decide (p < q))) | _, _ => none
  | .app "Eq" [a, b], ρ =>
    (evalE P a ρ).bind fun va => (evalE P b ρ).bind fun vb => match va, vb with
      | .int p, .int q => some (.bool (decide (p = q))) | _, _ => none
  | .app "And" [a, b], ρ =>                                   -- short circuit: `b` is not evaluated when `a` is False
    (evalE P a ρ).bind fun va => match va with
      | .bool false => some (.bool false)
      | .bool true => (evalE P b ρ).bind fun vb => match vb with | .bool q => some (.bool q) | _ => none
      | _ => none
  | .app "getitem" [x, .app "slice" [a, b]], ρ =>
    (evalE P x ρ).bind fun vx => (evalE P a ρ).bind fun va => (evalE P b ρ).bind fun vb => match vx, va, vb with
      | .vec xs, .int p, .int q => some (.vec (pySlice xs p q)) | _, _, _ => none
  | .app "getitem" [x, k], ρ =>
    (evalE P x ρ).bind fun vx => (evalE P k ρ).bind fun vk => match vx, vk with
      | .ids g, .int p => (idAt g p).map fun v => .int v
      | .vec xs, .mask bs => (maskSelect xs bs).map .vec
      | _, _ => none
  | .app "~" [e], ρ =>
    (evalE P e ρ).bind fun v => match v with | .mask bs => some (.mask (bs.map (!·))) | _ => none
  | .app ".is_na" [e], ρ =>
    (evalE P e ρ).bind fun v => match v with | .vec xs => some (.mask (xs.map P.isNa)) | _ => none
  | .app "is_na_numba" [e], ρ =>
    (evalE P e ρ).bind fun v => match v with | .vec xs => some (.mask (xs.map P.isNaNumba)) | _ => none
  | _, _ => none

/-! ### statements -/

structure St (α : Type) where
  env : Env α
  out : List (List α)          -- the runs handed on so far (yielded / appended to `out`), in order

/-- how a statement ended: normally, or with a `continue` that the enclosing loop consumes. -/
inductive Ctl where
  | normal
  | cont
  deriving DecidableEq, Repr

/-- `for v in <these integers>: body` (a `continue` in the body ends that iteration only). -/
def loopRange {α : Type} (body : St α → Option (Ctl × St α)) (v : String) : List Int → St α → Option (St α)
  | [], s => some s
  | j :: js, s => (body { s with env := (v, .int j) :: s.env }).bind fun r => loopRange body v js r.2

mutual
/-- one statement. -/
def evalS {α : Type} (P : Prims α) : Term → St α → Option (Ctl × St α)
  | .app "block" ss, s => evalB P ss s
  | .app "if" [c, a, b], s =>
    (evalE P c s.env).bind fun vc => match vc with
      | .bool true => evalS P a s
      | .bool false => evalS P b s
      | _ => none
  | .app "for" [.sym v, .app "range" [a, b], body, .app "init" [.sym w, .int k]], s =>
    let s0 : St α := { s with env := (w, .int k) :: s.env }        -- the assignment before the loop (`i = 0`)
    (evalE P a s0.env).bind fun va => (evalE P b s0.env).bind fun vb => match va, vb with
      | .int p, .int q => (loopRange (evalS P body) v (arange p q) s0).map fun s' => (Ctl.normal, s')
      | _, _ => none
  | .app "assign" [.sym x, e], s =>
    (evalE P e s.env).map fun v => (Ctl.normal, { s with env := (x, v) :: s.env })
  | .app "yield" [e], s =>
    (evalE P e s.env).bind fun v => match v with
      | .vec xs => some (Ctl.normal, { s with out := s.out ++ [xs] }) | _ => none
  | .app ".append" [.app "list" [], e], s =>                      -- `out.append(e)`, `out = []` inlined by the translator
    (evalE P e s.env).bind fun v => match v with
      | .vec xs => some (Ctl.normal, { s with out := s.out ++ [xs] }) | _ => none
  | .sym "continue", s => some (Ctl.cont, s)
  | _, _ => none
/-- a block: the statements in order; a `continue` skips the rest. -/
def evalB {α : Type} (P : Prims α) : List Term → St α → Option (Ctl × St α)
  | [], s => some (Ctl.normal, s)
  | t :: ts, s => (evalS P t s).bind fun r => match r.1 with | .normal => evalB P ts r.2 | .cont => some r
end

/-- the arguments of `yield_groups(x, group, drop_na)`. -/
def args {α : Type} (x : List α) (group : List Nat) (dropNa : Bool) : Env α :=
  [("x", .vec x), ("group", .ids group), ("drop_na", .bool dropNa)]

/-- run the effects of a body on the given arguments: the runs handed on, in order. -/
def run {α : Type} (P : Prims α) (effs : List Term) (ρ : Env α) : Option (List (List α)) :=
  (evalB P effs { env := ρ, out := [] }).map fun r => r.2.out

/-! ### the term -/

/-- the scan as a term (the text of `DI.Tie.C07.groupScan` = `DI.Tie.C08.groupScan`). -/
def groupScan (isNa emit : Term → Term) : Term :=
  Term.app "for" [Term.sym "j", Term.app "range" [Term.int 1, Term.app "Add" [Term.app "len" [Term.sym "x"], Term.int 1]], Term.app "block"
    [Term.app "if" [Term.app "And" [Term.app "Lt" [Term.sym "j", Term.app "len" [Term.sym "x"]],
        Term.app "Eq" [Term.app "getitem" [Term.sym "group", Term.sym "j"], Term.app "getitem" [Term.sym "group", Term.sym "i"]]],
      Term.app "block" [Term.sym "continue"], Term.app "block" []],
     Term.app "assign" [Term.sym "xij", Term.app "getitem" [Term.sym "x", Term.app "slice" [Term.sym "i", Term.sym "j"]]],
     Term.app "if" [Term.sym "drop_na", Term.app "block" [Term.app "assign" [Term.sym "xij",
        Term.app "getitem" [Term.sym "xij", Term.app "~" [isNa (Term.sym "xij")]]]], Term.app "block" []],
     emit (Term.sym "xij"),
     Term.app "assign" [Term.sym "i", Term.sym "j"]],
    Term.app "init" [Term.sym "i", Term.int 0]]

/-- `xij.is_na()` / `yield xij`: the Python generator. -/
def pyIsNa (r : Term) : Term := Term.app ".is_na" [r]
def pyEmit (r : Term) : Term := Term.app "yield" [r]
/-- `is_na_numba(xij)` / `out.append(xij)`: the Numba function. -/
def nbIsNa (r : Term) : Term := Term.app "is_na_numba" [r]
def nbEmit (r : Term) : Term := Term.app ".append" [Term.app "list" [], r]

end DI.PyEvalScan

/-
  Model/PyEvalArr.lean — a small total evaluator (denotational semantics) for the ARRAY terms that the source translator
  `harness/py2lean.py` emits for the bodies of `Vector.sort`, `Vector.rank`, `Vector.unique` (dataiter/vector.py):
  `Generated/CodeC11.lean`.

  `Proofs/TieC11.lean` shows that every regenerated body EQUALS one normal form (`sort_code`, `unique_code`, `rank_code` with
  `rankBody`).  Those normal forms are TERMS over NumPy calls.  This file says what such a term MEANS;
  `Proofs/EvalC11.lean` proves that the meaning is the hand-written model (`vsort`, `vrank`, `vunique` of
  `Model/Vector.lean`).

  * Values (`Val κ`): a data vector `keys xs` (`xs : List (Option κ)`, `none` = the missing value of the dtype: NaN / NaT /
    the blank string / None), an integer array `ints l` (`l : List Nat`: every integer array of these bodies holds counts,
    positions or ranks — never a negative number), a Boolean array `mask m`, an integer scalar `int i` (`Int`: `dir` may be
    negative, `[::-1]`), a Boolean scalar, `name s` (an object the semantics does not look into, or a string literal —
    both identified by their SOURCE TEXT: `int`, `object`, `str`, `None`, `'stable'`, `'min'`), `rev` (the slice `::-1`),
    pairs (2-tuples) and keyword arguments `kw name value`.
  * The order is a PARAMETER (`Ctx.le : κ → κ → Bool`, the same Boolean orders `Lemmas/Sort.lean` talks about:
    `PreOrd` / `LinOrd`), and so is the place where a raw NumPy sort puts the missing value (`Ctx.naFirst`: the blank
    string first, NaN / NaT last): a raw sort / `np.unique` of a data vector compares cells by `cle C = leRaw C.le C.naFirst`
    (`Model/Basic.lean`).
  * `_optimize_for_argsort` (the fixed-width copy `astype("U<n>")` of a string vector, the vector itself otherwise) is the
    element-wise map of a PARAMETER `Ctx.optKey : κ → κ` over the non-missing elements.  Nothing is assumed about it here;
    the theorems assume that it preserves the order (`OptPreservesOrder`, `Lemmas/PyEvalArr.lean`) and prove the results
    independent of it.
  * `self.fast(np.repeat(1, n))` — the constant vector that replaces an entirely missing one in `rank` — is then used as
    DATA (`is_na`, `np.unique`, `argsort`): the integers are read into the key type by the parameter `Ctx.ofNat`
    (for `Key`: `Key.i`).  `self.fast(lst, int)` (dtype given) stays an integer array.
  * `sorted(self, key=str, reverse=r)` (object vectors) stays a PRIMITIVE: the model's `argsortPy` over a parameter order
    `Ctx.leStr` on cells ("`str(a) <= str(b)`"); `Ctx.isObject` answers `self.is_object()`.
  * The translator inlines an assigned local into its later uses (`let` shadowing), so the arrays `out = np.zeros_like(self,
    int)` and `rank = np.zeros_like(indices)` appear as their defining expressions at every use, also as the target of
    `out[mask] = …`.  As in `Model/PyEvalLift.lean`, the store therefore maps such a TERM to the current contents of the
    array it created: a mask / index assignment `store [getitem [obj, ix], v]` records the new contents under the key
    `obj`, and an expression that is a key of the store denotes its current contents (latest binding first).
    Expressions have no effect.
  * **primitives — the trusted part; each is the obvious list specification of the NumPy call** (section "primitives"):
      - `a[m]` (`select`): the elements at the true entries of the mask, in order; `a[idx]` for an integer array `idx`:
        `gather` (IndexError outside = `none`); `a[::-1]`: the reversal;
      - `a[m] = b` (`maskWrite`): the true entries take the elements of `b` in order (`b` must have exactly that many);
        `a[m] = c` for a scalar (`maskFill`): broadcast; `a[idx] = b` (`fancyWrite`): `a[idx[j]] = b[j]` for `j = 0, 1, …`;
      - `np.unique(a, return_inverse=True)` = (sorted distinct values, for each element the INDEX of its value among the
        sorted distinct values) (`npUniqueInverse`: `List.idxOf`);
      - `np.unique(a, return_index=True)` = (sorted distinct values, for each of them the position of its FIRST occurrence)
        (the model's `uniqueIndex`; the missing value is one value: `equal_nan=True`);
      - `np.bincount(l)` = for `k = 0 … max l` the number of occurrences of `k` (empty for an empty `l`) (`npBincount`);
      - `.cumsum()` = running sums (the model's `cumsum`); `np.concatenate((a, b))` = `a ++ b`;
      - `.argsort(kind='stable')` = the model's own stable argsort (`argsort` of `Model/Basic.lean`: positions merge-sorted
        by value only);
      - `Vector.sort()` of an integer array (`indices.sort()` in `unique`: `indices` is a `Vector`, so this is
        `Vector.sort`, not the in-place `ndarray.sort`) = the ascending merge sort;
      - `.sum()` of a mask = the number of true entries; `.max()` = the largest entry (ValueError on an empty array =
        `none`); `len`, `.length`, `np.arange(n)`, `np.repeat(c, n)`, `np.zeros_like`, `+` (array + scalar, scalar + array,
        scalar + scalar), `==`, `<`, `~`, `.all()`, `.is_na()`, `.concat`, `.copy()`, `.view(cls)`.
  * statements: `store [getitem [obj, ix], v]` only (`execStmt`).  `runOut` = the value a translated body returns (or the
    exception it raises) after its statements (`Out.effs`) ran in order from the empty store.
  * `none` = unsupported form or Python exception inside a NumPy call (IndexError, shape mismatch, `max` of an empty array).
-/
import Model.PyCore
import Model.Vector
import Model.PyEvalLift

namespace DI.PyEvalArr

open DI DI.Py

/-- decidable equality of terms (the keys of the store): the one of `Model/PyEvalLift.lean`. -/
scoped instance : DecidableEq Term := DI.PyEvalLift.termDecEq

/-! ### values -/

inductive Val (κ : Type) where
  | keys (xs : List (Option κ))         -- a data vector; `none` = the missing value of its dtype
  | ints (l : List Nat)                 -- an integer array (counts / positions / ranks)
  | mask (m : List Bool)                -- a Boolean array
  | int (i : Int)                       -- an integer scalar
  | bool (b : Bool)
  | name (s : String)                   -- an opaque object or a string literal, by its source text
  | rev                                 -- the slice `::-1`
  | pair (a b : Val κ)                  -- a 2-tuple
  | kw (k : String) (v : Val κ)         -- a keyword argument `k=v`
  deriving DecidableEq, Repr, Inhabited

abbrev Env (κ : Type) := List (String × Val κ)

/-- the arrays written so far: defining term ↦ current contents, latest binding first. -/
abbrev Store (κ : Type) := List (Term × Val κ)

/-- the parameters of the semantics (see the header). -/
structure Ctx (κ : Type) where
  le : κ → κ → Bool                     -- the order of the non-missing values
  naFirst : Bool                        -- does a raw NumPy sort put the missing value first (`""`) or last (NaN, NaT)?
  optKey : κ → κ                        -- `_optimize_for_argsort`, element-wise
  ofNat : Nat → κ                       -- an integer as an element of a data vector
  isObject : Bool                       -- `self.is_object()`
  leStr : Option κ → Option κ → Bool    -- `str(a) <= str(b)` (object vectors)

/-- the result of running a body. -/
inductive Res (κ : Type) where
  | val (v : Val κ)
  | raise (exc : String)
  deriving DecidableEq, Repr, Inhabited

variable {κ : Type}

def Env.get? (env : Env κ) (x : String) : Option (Val κ) := (env.find? (fun p => p.1 == x)).map (·.2)

def Store.find : Store κ → Term → Option (Val κ)
  | [], _ => none
  | (k, v) :: r, t => if k = t then some v else Store.find r t

/-- a name: the binding of the environment, else `True` / `False`, else an object / literal known by its source text. -/
def lookupSym (env : Env κ) (s : String) : Val κ :=
  match env.get? s with
  | some v => v
  | none => if s = "True" then .bool true else if s = "False" then .bool false else .name s

/-- the order a raw NumPy sort of a data vector uses on cells. -/
def cle (C : Ctx κ) : Option κ → Option κ → Bool := leRaw C.le C.naFirst

/-! ### primitives (trusted part) -/

/-- `x[m]` for a Boolean mask of the same length: the elements at the true entries, in order. -/
def select {α : Type} : List Bool → List α → List α
  | true :: m, x :: xs => x :: select m xs
  | false :: m, _ :: xs => select m xs
  | _, _ => []

/-- `m.sum()`: the number of true entries. -/
def countTrue (m : List Bool) : Nat := (m.filter id).length

/-- `a[m] = vs`: the true entries take the values in order (one value per true entry). -/
def maskWrite {α : Type} : List Bool → List α → List α → List α
  | true :: m, _ :: o, v :: vs => v :: maskWrite m o vs
  | false :: m, x :: o, vs => x :: maskWrite m o vs
  | _, o, _ => o

/-- `a[m] = c` for a scalar `c`: broadcast to the true entries. -/
def maskFill {α : Type} : List Bool → List α → α → List α
  | true :: m, _ :: o, c => c :: maskFill m o c
  | false :: m, x :: o, c => x :: maskFill m o c
  | _, o, _ => o

/-- `a[idx] = vs` for an integer array `idx`: `a[idx[0]] = vs[0]`, then `a[idx[1]] = vs[1]`, … -/
def fancyWrite {α : Type} : List α → List Nat → List α → List α
  | o, i :: idx, v :: vs => fancyWrite (o.set i v) idx vs
  | o, _, _ => o

/-- the largest entry (0 for the empty list; callers test for emptiness). -/
def maxD : List Nat → Nat
  | [] => 0
  | x :: xs => max x (maxD xs)

/-- `np.bincount(l)`: for `k = 0 … max l` the number of occurrences of `k`; empty for the empty array. -/
def npBincount (l : List Nat) : List Nat :=
  if l = [] then [] else bincount l (maxD l + 1)

/-- `np.unique(xs, return_inverse=True)[1]`: for every element the index of its value among the sorted distinct
    values. -/
def npUniqueInverse {α : Type} [DecidableEq α] (le : α → α → Bool) (xs : List α) : List Nat :=
  xs.map (fun x => (sortedDistinct le xs).idxOf x)

/-- are all positions inside an array of length `n`? -/
def inBounds (idx : List Nat) (n : Nat) : Bool := idx.all (fun i => decide (i < n))

variable [DecidableEq κ]

/-- calls with evaluated arguments. -/
def prim (C : Ctx κ) : String → List (Val κ) → Option (Val κ)
  -- data vectors
  | ".is_na", [.keys xs] => some (.mask (xs.map isNa))
  | ".is_object", [.keys _] => some (.bool C.isObject)
  | ".length", [.keys xs] => some (.int xs.length)
  | "len", [.keys xs] => some (.int xs.length)
  | "len", [.ints l] => some (.int l.length)
  | "._optimize_for_argsort", [.keys xs] => some (.keys (xs.map (Option.map C.optKey)))
  | ".argsort", [.keys xs, .kw "kind" (.name "'stable'")] => some (.ints (argsort (cle C) xs))
  | "np.unique", [.keys xs, .kw "return_inverse" (.bool true)] =>
    some (.pair (.keys (sortedDistinct (cle C) xs)) (.ints (npUniqueInverse (cle C) xs)))
  | "np.unique", [.keys xs, .kw "return_index" (.bool true)] =>
    some (.pair (.keys (sortedDistinct (cle C) xs)) (.ints (uniqueIndex (cle C) xs)))
  | "sorted", [.keys xs, .kw "key" (.name "str"), .kw "reverse" (.bool r)] =>
    some (.keys (gather xs (argsortPy C.leStr r xs)))
  | ".fast", [.keys _, .keys ys, .name "object"] => some (.keys ys)
  | ".fast", [.keys _, .ints l, .name "int"] => some (.ints l)
  | ".fast", [.keys _, .ints l] => some (.keys (l.map (fun k => some (C.ofNat k))))
  | ".concat", [.keys a, .keys b] => some (.keys (a ++ b))
  | ".copy", [.keys xs] => some (.keys xs)
  | ".__class__", [.keys _] => some (.name "Vector")
  -- subscripts
  | "getitem", [.keys xs, .mask m] => if m.length = xs.length then some (.keys (select m xs)) else none
  | "getitem", [.keys xs, .ints idx] => if inBounds idx xs.length then some (.keys (gather xs idx)) else none
  | "getitem", [.keys xs, .rev] => some (.keys xs.reverse)
  | "getitem", [.ints l, .mask m] => if m.length = l.length then some (.ints (select m l)) else none
  | "getitem", [.ints l, .ints idx] => if inBounds idx l.length then some (.ints (gather l idx)) else none
  | "getitem", [.pair a b, .int i] => if i = 0 then some a else if i = 1 then some b else none
  | "item0", [.pair a _] => some a
  | "item1", [.pair _ b] => some b
  | "slice", [.name "None", .name "None", .int i] => if i = -1 then some .rev else none
  -- masks
  | "~", [.mask m] => some (.mask (m.map (!·)))
  | ".all", [.mask m] => some (.bool (m.all id))
  | ".sum", [.mask m] => some (.int (countTrue m))
  -- integer arrays
  | ".sort", [.ints l] => some (.ints (l.mergeSort (fun a b => decide (a ≤ b))))
  | "np.repeat", [.int c, .int n] => if 0 ≤ c ∧ 0 ≤ n then some (.ints (List.replicate n.toNat c.toNat)) else none
  | "np.arange", [.int n] => if 0 ≤ n then some (.ints (List.range n.toNat)) else none
  | "np.zeros_like", [.keys xs, .name "int"] => some (.ints (List.replicate xs.length 0))
  | "np.zeros_like", [.ints l] => some (.ints (List.replicate l.length 0))
  | "np.bincount", [.ints l] => some (.ints (npBincount l))
  | ".cumsum", [.ints l] => some (.ints (cumsum l))
  | "np.concatenate", [.pair (.ints a) (.ints b)] => some (.ints (a ++ b))
  | ".max", [.ints l] => if l = [] then none else some (.int (maxD l))
  | ".view", [.ints l, .name _] => some (.ints l)
  | "list", [] => some (.ints [])
  | "list", [.int i] => if 0 ≤ i then some (.ints [i.toNat]) else none
  | "tuple", [a, b] => some (.pair a b)
  -- arithmetic and tests
  | "Add", [.ints l, .int i] => if 0 ≤ i then some (.ints (l.map (· + i.toNat))) else none
  | "Add", [.int i, .ints l] => if 0 ≤ i then some (.ints (l.map (i.toNat + ·))) else none
  | "Add", [.int a, .int b] => some (.int (a + b))
  | "Eq", [.int a, .int b] => some (.bool (a == b))
  | "Eq", [.name a, .name b] => some (.bool (a == b))
  | "Lt", [.int a, .int b] => some (.bool (decide (a < b)))
  -- keyword arguments `name=value`
  | "=kind", [v] => some (.kw "kind" v)
  | "=return_inverse", [v] => some (.kw "return_inverse" v)
  | "=return_index", [v] => some (.kw "return_index" v)
  | "=key", [v] => some (.kw "key" v)
  | "=reverse", [v] => some (.kw "reverse" v)
  | _, _ => none

/-- `obj[ix] = v`: the new contents of `obj`. -/
def assign : Val κ → Val κ → Val κ → Option (Val κ)
  -- `out[mask] = values`: one value per true entry, in order
  | .ints o, .mask m, .ints vs =>
    if m.length = o.length ∧ vs.length = countTrue m then some (.ints (maskWrite m o vs)) else none
  -- `out[mask] = scalar`
  | .ints o, .mask m, .int c => if m.length = o.length ∧ 0 ≤ c then some (.ints (maskFill m o c.toNat)) else none
  -- `rank[indices] = values`
  | .ints o, .ints idx, .ints vs =>
    if idx.length = vs.length ∧ inBounds idx o.length then some (.ints (fancyWrite o idx vs)) else none
  | _, _, _ => none

/-! ### the evaluator -/

mutual
/-- expressions (no effect on the store). -/
def evalExpr (C : Ctx κ) (σ : Store κ) (env : Env κ) : Term → Option (Val κ)
  | .int i => some (.int i)
  | .rows _ => none
  | .slice _ _ => none
  | .sym s => some (lookupSym env s)
  | .app g args =>
    -- an array that has been written: its current contents
    match σ.find (.app g args) with
    | some v => some v
    | none =>
      match evalArgs C σ env args with
      | none => none
      | some vs => prim C g vs
def evalArgs (C : Ctx κ) (σ : Store κ) (env : Env κ) : List Term → Option (List (Val κ))
  | [] => some []
  | t :: ts => match evalExpr C σ env t, evalArgs C σ env ts with
    | some v, some vs => some (v :: vs)
    | _, _ => none
end

/-- statements: `obj[ix] = e` (the value first, then the target). -/
def execStmt (C : Ctx κ) (env : Env κ) : Term → Store κ → Option (Store κ)
  | .app "store" [.app "getitem" [obj, ix], e], σ =>
    match evalExpr C σ env e, evalExpr C σ env obj, evalExpr C σ env ix with
    | some v, some o, some i => (assign o i v).map (fun o' => (obj, o') :: σ)
    | _, _, _ => none
  | _, _ => none

def execBlock (C : Ctx κ) (env : Env κ) : List Term → Store κ → Option (Store κ)
  | [], σ => some σ
  | s :: ss, σ => match execStmt C env s σ with
    | none => none
    | some σ' => execBlock C env ss σ'

/-- the value a translated body returns / the exception it raises: its statements (`Out.effs`) run in order from the
    empty store, then the returned expression is evaluated. -/
def runOut (C : Ctx κ) (env : Env κ) : Out → Option (Res κ)
  | .ret effs t => match execBlock C env effs [] with
    | some σ => (evalExpr C σ env t).map Res.val
    | none => none
  | .raise effs exc => match execBlock C env effs [] with
    | some _ => some (.raise exc)
    | none => none
  | .fall _ => none

/-- the answer of the evaluator to a symbolic test (the tests of these bodies only read the arguments). -/
def truthOf (C : Ctx κ) (env : Env κ) (t : Term) : Bool :=
  match evalExpr C [] env t with
  | some (.bool b) => b
  | _ => false

/-- `truth` answers every test that has a Boolean value under the evaluator with that value. -/
def Agrees (C : Ctx κ) (env : Env κ) (truth : Term → Bool) : Prop :=
  ∀ t b, evalExpr C [] env t = some (.bool b) → truth t = b

end DI.PyEvalArr

/-
  Model/PyEvalRenderVec.lean — a meaning for `Vector.to_string` and `ListOfDicts.to_string` (C20) as the source translator
  `harness/py2lean.py` emits them (`Generated/CodeC20.lean`: `Vector_to_string`, `ListOfDicts_to_string`).

      print_width = util.get_print_width()
      def add_string_element(string, rows):
          if len(rows[-1]) <= 1: return rows[-1].append(string)
          row = " ".join(rows[-1] + [string])
          if util.ulen(row) < print_width: return rows[-1].append(string)
          return rows.append([" ", string])
      if max_elements is None: max_elements = dataiter.PRINT_MAX_ELEMENTS
      rows = [["["]]
      n = min(self.length, max_elements)
      for string in self[:n].to_strings(pad=True): add_string_element(string, rows)
      if max_elements < self.length: add_string_element("...", rows)
      add_string_element(f"] {self.dtype_label}", rows)
      if len(rows) == 1: rows[0] = [x.strip() for x in rows[0]]
      return "\n".join(" ".join(x) for x in rows)

      if max_items is None: max_items = dataiter.PRINT_MAX_ITEMS
      string = self.head(max_items).to_json()
      if max_items < len(self): string += f" ... {len(self)} items total"
      return string

  INPUTS (`St.args`).  `self` = a vector `Val.vec len label fmt`: `self.length`, `str(self.dtype_label)` and, for every slice
  bound `n`, THE LIST OF ALREADY FORMATTED ELEMENT STRINGS `fmt n` that `self[:n].to_strings(pad=True)` returns (the per-dtype
  formatting is not evaluated here, as for the cells of the frame renderer in `Model/PyEvalRender.lean`) — or a list
  `Val.lod len json`: `len(self)` and, for every `m`, the text `json m` of `self.head(m).to_json()`; `max_elements` /
  `max_items` (`None` or an integer), the module settings `dataiter.PRINT_MAX_ELEMENTS` / `dataiter.PRINT_MAX_ITEMS` and
  the value of the call `util.get_print_width()` (bound under that text; the translator inlines the local `print_width`
  into the local function).  `w : Char → Int` is `wcwidth.wcwidth`; `util.ulen` is a CALL of the translated helper
  (`DI.PyEvalRender.callUlen`).

  OBJECTS.  The translator inlines a local into its uses, so the local `rows`, which holds a MUTABLE list of lists, occurs
  as the term `[["["]]` that created it; that term DENOTES THAT ONE OBJECT (the convention of `Model/PyEvalRender.lean`):
  `St.rows`, created by its first evaluation as an argument of a call (`evalArg`), a reference `Val.rowsRef` afterwards.
  `rows[-1]` is an ALIAS of the last inner list: `rows[-1].append(x)` changes the object; read anywhere else it is the
  list's current value.  The rows are kept in Python's order (first row first).

  THE LOCAL FUNCTION is evaluated from the `local-def` term that the call sites carry: `call [local-def …, a, b]` evaluates
  the arguments in the caller's state, runs the body in a fresh frame that binds the two parameters (the list object is
  shared), and comes back to the caller's locals.  `return e` with `e` an effect (`….append(…)`, value None) ends the body.

  TESTS.  `max_elements < self.length` is answered on the arguments (`truthOf` on the entry state).  `len(rows) == 1`
  depends on what the loop did: it is answered IN THE STATE IN WHICH PYTHON MAKES IT — after the effects that precede the
  `if` (these are the effects of the branch that skips the `if`'s body) — see `evalVecToString`.
  `none` = unsupported form or a Python exception.
-/
import Model.PyEvalRender

namespace DI.PyEvalRenderVec

open DI DI.Py
open DI.PyEvalRender (Str pyJoin pyIdx intStr callUlen)

/-! ### values and state -/

inductive Val where
  | none
  | int (i : Int)
  | bool (b : Bool)
  | str (s : Str)
  | strs (xs : List Str)                                   -- a list of strings, by value (also a consumed generator)
  | vec (len : Int) (label : Str) (fmt : Int → List Str)   -- a vector: length, dtype label, `self[:n].to_strings(pad=True)`
  | lod (len : Int) (json : Int → Str)                     -- a list of dicts: length, `self.head(m).to_json()`
  | rowsRef                                                -- the list-of-lists object that `[["["]]` denotes (`rows`)
  deriving Inhabited

abbrev Env := List (String × Val)

structure St where
  args : Env                          -- the arguments and module settings: never assigned
  env : Env                           -- the locals of the running frame (latest binding first)
  rows : Option (List (List Str))     -- the object `rows` (`none`: not created yet)

/-- a name: an argument / module setting (these are never assigned in the translated bodies — the translator's
    single-assignment `let`s —, so they are looked up first, as in `Model/PyEvalRender.lean`) or a local of the running frame. -/
def St.lookup (s : St) (x : String) : Option Val :=
  match s.args.lookup x with
  | some v => some v
  | Option.none => s.env.lookup x

def St.bind (s : St) (x : String) (v : Val) : St := { s with env := (x, v) :: s.env }

/-- Python truth value. -/
def truthy (v : Val) (s : St) : Bool :=
  match v with
  | .none => false
  | .int i => i != 0
  | .bool b => b
  | .str x => !x.isEmpty
  | .strs xs => !xs.isEmpty
  | .vec len _ _ => len != 0
  | .lod len _ => len != 0
  | .rowsRef => match s.rows with | some r => !r.isEmpty | Option.none => false

/-- `str.isspace` of one character: what `str.strip()` removes. -/
def isPySpace (c : Char) : Bool :=
  let n := c.toNat
  (9 ≤ n && n ≤ 13) || (28 ≤ n && n ≤ 32) || n == 0x85 || n == 0xa0 || n == 0x1680 || (0x2000 ≤ n && n ≤ 0x200a)
    || n == 0x2028 || n == 0x2029 || n == 0x202f || n == 0x205f || n == 0x3000

/-- `s.strip()`. -/
def pyStrip (s : Str) : Str := ((s.dropWhile isPySpace).reverse.dropWhile isPySpace).reverse

/-- what iterating over a value yields. -/
def iterOf (s : St) : Val → Option (List Val)
  | .strs xs => some (xs.map Val.str)
  | .rowsRef => s.rows.map fun r => r.map Val.strs
  | _ => Option.none

/-- `f` on every element; every result must be a string. -/
def allStr {α : Type} (f : α → Option Val) : List α → Option (List Str)
  | [] => some []
  | a :: as => (f a).bind fun v => match v with
    | .str x => (allStr f as).map (fun xs => x :: xs)
    | _ => Option.none

/-- `str(v)` / `{v}`. -/
def strOf : Val → Option Val
  | .str x => some (.str x)
  | .int i => some (.str (intStr i))
  | _ => Option.none

/-! ### pure expressions -/

mutual
def evalP (w : Char → Int) : Term → St → Option Val
  | .int i, _ => some (.int i)
  | .sym "None", _ => some .none
  | .sym "True", _ => some (.bool true)
  | .sym "False", _ => some (.bool false)
  | .sym "'\\n'", _ => some (.str ['\n'])
  | .sym x, s => match DI.PyEvalWidth.literal? x with | some l => some (.str l) | Option.none => s.lookup x
  | .app "util.get_print_width" [], s => s.lookup "util.get_print_width()"
  | .app "min" [a, b], s =>
    (evalP w a s).bind fun va => (evalP w b s).bind fun vb => match va, vb with
      | .int p, .int q => some (.int (pmin p q)) | _, _ => Option.none
  | .app ".length" [e], s => (evalP w e s).bind fun v => match v with | .vec n _ _ => some (.int n) | _ => Option.none
  | .app ".dtype_label" [e], s =>
    (evalP w e s).bind fun v => match v with | .vec _ l _ => some (.str l) | _ => Option.none
  | .app ".to_strings" [.app "getitem" [c, .app "slice" [.sym "None", n]], .app "=pad" [.sym "True"]], s =>
    (evalP w c s).bind fun vc => (evalP w n s).bind fun vn => match vc, vn with
      | .vec _ _ fmt, .int k => some (.strs (fmt k)) | _, _ => Option.none
  | .app ".to_json" [.app ".head" [e, m]], s =>
    (evalP w e s).bind fun ve => (evalP w m s).bind fun vm => match ve, vm with
      | .lod _ json, .int k => some (.str (json k)) | _, _ => Option.none
  | .app "str" [e], s => (evalP w e s).bind strOf
  | .app "format" [e, .sym "", _], s => (evalP w e s).bind strOf           -- `{e}` in an f-string, no format spec
  | .app "fstring" ps, s => (evalPs w ps s).map fun xs => .str xs.flatten
  | .app "list" [.app "list" _], s => if s.rows.isSome then some .rowsRef else Option.none
  | .app "list" es, s => (evalPs w es s).map Val.strs
  | .app "Add" [a, b], s =>
    (evalP w a s).bind fun va => (evalP w b s).bind fun vb => match va, vb with
      | .str p, .str q => some (.str (p ++ q)) | .strs p, .strs q => some (.strs (p ++ q))
      | .int p, .int q => some (.int (p + q)) | _, _ => Option.none
  | .app "Add=" [a, b], s =>
    (evalP w a s).bind fun va => (evalP w b s).bind fun vb => match va, vb with
      | .str p, .str q => some (.str (p ++ q)) | .int p, .int q => some (.int (p + q)) | _, _ => Option.none
  | .app "util.ulen" [e], s =>
    (evalP w e s).bind fun v => match v with | .str x => (callUlen w x).map Val.int | _ => Option.none
  | .app "getitem" [e, i], s =>
    (evalP w e s).bind fun ve => (evalP w i s).bind fun vi => match ve, vi, s.rows with
      | .strs xs, .int k, _ => (pyIdx xs.length k).bind fun j => xs[j]?.map Val.str
      | .rowsRef, .int k, some r => (pyIdx r.length k).bind fun j => r[j]?.map Val.strs
      | _, _, _ => Option.none
  | .app "len" [e], s => (evalP w e s).bind fun v => match v, s.rows with
      | .strs xs, _ => some (.int xs.length)
      | .rowsRef, some r => some (.int r.length)
      | .lod n _, _ => some (.int n)
      | _, _ => Option.none
  | .app ".strip" [e], s => (evalP w e s).bind fun v => match v with | .str x => some (.str (pyStrip x)) | _ => Option.none
  | .app ".join" [sep, e], s =>
    (evalP w sep s).bind fun vs => (evalP w e s).bind fun ve => match vs, ve with
      | .str p, .strs xs => some (.str (pyJoin p xs))
      | _, _ => Option.none
  | .app "ListComp" [body, .app "in" [.sym x, it, .app "if" []]], s =>
    (evalP w it s).bind fun vi => (iterOf s vi).bind fun vs =>
      (allStr (fun v => evalP w body (s.bind x v)) vs).map Val.strs
  | .app "GeneratorExp" [body, .app "in" [.sym x, it, .app "if" []]], s =>
    (evalP w it s).bind fun vi => (iterOf s vi).bind fun vs =>
      (allStr (fun v => evalP w body (s.bind x v)) vs).map Val.strs
  | .app "Lt" [a, b], s =>
    (evalP w a s).bind fun va => (evalP w b s).bind fun vb => match va, vb with
      | .int p, .int q => some (.bool (decide (p < q))) | _, _ => Option.none
  | .app "LtE" [a, b], s =>
    (evalP w a s).bind fun va => (evalP w b s).bind fun vb => match va, vb with
      | .int p, .int q => some (.bool (decide (p ≤ q))) | _, _ => Option.none
  | .app "Eq" [a, b], s =>
    (evalP w a s).bind fun va => (evalP w b s).bind fun vb => match va, vb with
      | .int p, .int q => some (.bool (decide (p = q))) | _, _ => Option.none
  | _, _ => Option.none
def evalPs (w : Char → Int) : List Term → St → Option (List Str)
  | [], _ => some []
  | t :: ts, s => (evalP w t s).bind fun v => match v with
    | .str x => (evalPs w ts s).map (fun xs => x :: xs)
    | _ => Option.none
end

/-- an argument of a call: the term `[[…]]` creates the object `rows` at its first evaluation and refers to it afterwards. -/
def evalArg (w : Char → Int) : Term → St → Option (Val × St)
  | .app "list" [.app "list" es], s =>
    match s.rows with
    | some _ => some (.rowsRef, s)
    | Option.none => (evalPs w es s).map fun xs => (Val.rowsRef, { s with rows := some [xs] })
  | t, s => (evalP w t s).map fun v => (v, s)

/-! ### statements -/

/-- how a statement ended. -/
inductive Ctl where
  | normal
  | ret            -- `return` (of None: the value of an `….append(…)`)
  deriving DecidableEq, Repr

/-- `for x in <these values>: body`. -/
def loopOver (body : St → Option (Ctl × St)) (x : String) : List Val → St → Option (Ctl × St)
  | [], s => some (Ctl.normal, s)
  | a :: as, s =>
    (body (s.bind x a)).bind fun r =>
      match r.1 with
      | .normal => loopOver body x as r.2
      | .ret => some r

mutual
def evalS (w : Char → Int) : Term → St → Option (Ctl × St)
  | .app "block" ss, s => evalB w ss s
  | .app "if" [c, a, b], s =>
    (evalP w c s).bind fun vc => if truthy vc s then evalS w a s else evalS w b s
  | .app "for" [.sym v, it, body], s =>
    (evalP w it s).bind fun vi => (iterOf s vi).bind fun vs => loopOver (evalS w body) v vs s
  | .app "assign" [.sym x, e], s => (evalP w e s).map fun v => (Ctl.normal, s.bind x v)
  | .app "return" [e], s => (evalS w e s).bind fun r => match r.1 with | .normal => some (Ctl.ret, r.2) | .ret => Option.none
  | .app "call" [.app "local-def" [.app "def" [.sym _, .app "params" [.sym p, .sym q], body]], a, b], s =>
    (evalArg w a s).bind fun ra => (evalArg w b ra.2).bind fun rb =>
      (evalS w body { rb.2 with env := [(q, rb.1), (p, ra.1)] }).map fun r => (Ctl.normal, { r.2 with env := s.env })
  | .app ".append" [.app "getitem" [t, i], e], s =>             -- `rows[i].append(e)`: the inner list is changed in place
    (evalP w t s).bind fun vt => (evalP w i s).bind fun vi => (evalP w e s).bind fun ve => match vt, vi, ve, s.rows with
      | .rowsRef, .int k, .str v, some r =>
        (pyIdx r.length k).map fun j => (Ctl.normal, { s with rows := some (r.set j (r.getD j [] ++ [v])) })
      | _, _, _, _ => Option.none
  | .app ".append" [t, e], s =>                                  -- `rows.append(e)`
    (evalP w t s).bind fun vt => (evalP w e s).bind fun ve => match vt, ve, s.rows with
      | .rowsRef, .strs xs, some r => some (Ctl.normal, { s with rows := some (r ++ [xs]) })
      | _, _, _ => Option.none
  | .app "store" [.app "getitem" [t, i], e], s =>                -- `rows[i] = e`
    (evalP w t s).bind fun vt => (evalP w i s).bind fun vi => (evalP w e s).bind fun ve => match vt, vi, ve, s.rows with
      | .rowsRef, .int k, .strs xs, some r =>
        (pyIdx r.length k).map fun j => (Ctl.normal, { s with rows := some (r.set j xs) })
      | _, _, _, _ => Option.none
  | _, _ => Option.none
def evalB (w : Char → Int) : List Term → St → Option (Ctl × St)
  | [], s => some (Ctl.normal, s)
  | t :: ts, s => (evalS w t s).bind fun r => match r.1 with | .normal => evalB w ts r.2 | .ret => some r
end

/-- the state after the effects of a translated body. -/
def runEffs (w : Char → Int) : Out → St → Option St
  | .ret effs _, s => (evalB w effs s).bind fun r => match r.1 with | .normal => some r.2 | .ret => Option.none
  | _, _ => Option.none

/-- the value a translated body returns. -/
def runOut (w : Char → Int) : Out → St → Option Val
  | .ret effs t, s => (runEffs w (.ret effs t) s).bind fun s' => evalP w t s'
  | _, _ => Option.none

/-- a branch test, answered in the state `s`. -/
def truthOf (w : Char → Int) (s : St) (t : Term) : Bool :=
  match evalP w t s with
  | some v => truthy v s
  | Option.none => false

def initSt (args : Env) : St := { args := args, env := [], rows := Option.none }

/-- `None` or an integer argument. -/
def optArg : Option Int → Val
  | Option.none => .none
  | some i => .int i

/-! ### Vector.to_string -/

/-- the test `len(rows) == 1` (of the object `rows`). -/
def isLenTest : Term → Bool
  | .app "Eq" [.app "len" [.app "list" [.app "list" _]], .int 1] => true
  | _ => false

def lenTestT : Term := Term.app "Eq" [Term.app "len" [Term.app "list" [Term.app "list" [Term.sym "'['"]]], Term.int 1]

/-- the arguments of a call `self.to_string(max_elements=…)`; `dEl` is `dataiter.PRINT_MAX_ELEMENTS`, `dW` the value of
    `util.get_print_width()`. -/
def vecArgs (len : Int) (label : Str) (fmt : Int → List Str) (maxEl : Option Int) (dEl dW : Int) : Env :=
  [("self", .vec len label fmt), ("max_elements", optArg maxEl), ("dataiter.PRINT_MAX_ELEMENTS", .int dEl),
   ("util.get_print_width()", .int dW)]

/-- the tests of `Vector.to_string`: `len(rows) == 1` answered by `b`, the others on the entry state. -/
def vecTruth (w : Char → Int) (s0 : St) (b : Bool) (t : Term) : Bool := if isLenTest t then b else truthOf w s0 t

/-- **`Vector.to_string`**: the regenerated body evaluated on the arguments.  The effects that precede the statement
    `if len(rows) == 1:` are those of the branch that skips its body (answer `false`); the test is answered in the state
    they lead to, and the body is evaluated with that answer. -/
def evalVecToString (w : Char → Int) (len : Int) (label : Str) (fmt : Int → List Str) (maxEl : Option Int) (dEl dW : Int) :
    Option Str :=
  let s0 := initSt (vecArgs len label fmt maxEl dEl dW)
  match runEffs w (DI.Gen.Vector_to_string (vecTruth w s0 false) maxEl.isNone) s0 with
  | some s1 =>
    match runOut w (DI.Gen.Vector_to_string (vecTruth w s0 (truthOf w s1 lenTestT)) maxEl.isNone) s0 with
    | some (.str r) => some r
    | _ => Option.none
  | Option.none => Option.none

/-! ### ListOfDicts.to_string -/

def lodArgs (len : Int) (json : Int → Str) (maxItems : Option Int) (dItems : Int) : Env :=
  [("self", .lod len json), ("max_items", optArg maxItems), ("dataiter.PRINT_MAX_ITEMS", .int dItems)]

/-- **`ListOfDicts.to_string`**: the regenerated body evaluated on the arguments (no effects; the test on the entry state). -/
def evalLodToString (w : Char → Int) (len : Int) (json : Int → Str) (maxItems : Option Int) (dItems : Int) : Option Str :=
  let s0 := initSt (lodArgs len json maxItems dItems)
  match runOut w (DI.Gen.ListOfDicts_to_string (truthOf w s0) maxItems.isNone) s0 with
  | some (.str r) => some r
  | _ => Option.none

end DI.PyEvalRenderVec

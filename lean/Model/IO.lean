/-
  Model/IO.lean — file round trips (C12).  What is dataiter's own: the suffix dispatch of
  `util.xopen` and whether each `write_*` / `read_*` goes through it.  The formats and the
  compressors are abstract codecs whose round-trip law is a *hypothesis* (a structure field).
-/
namespace DI.IO

/-- a file format: what it writes for a table and how it parses it back (for representable data). -/
structure Codec (T B : Type) where
  enc : T → B
  dec : B → Option T
  law : ∀ t, dec (enc t) = some t

/-- suffix-driven (de)compression: `wrap ".gz"` = gzip, ..., `wrap ""` = identity. -/
structure Wrap (B : Type) where
  wrap : String → B → B
  unwrap : String → B → Option B
  law : ∀ s b, unwrap s (wrap s b) = some b

/-- `write_X(path)`: through `util.xopen` (then the suffix decides the compressor) or handing the
    path to the library. -/
def writeVia {T B : Type} (c : Codec T B) (w : Wrap B) (viaXopen : Bool) (suffix : String) (t : T) : B :=
  if viaXopen then w.wrap suffix (c.enc t) else c.enc t

def readVia {T B : Type} (c : Codec T B) (w : Wrap B) (viaXopen : Bool) (suffix : String) (b : B) : Option T :=
  if viaXopen then (w.unwrap suffix b).bind c.dec else c.dec b

/-- facts about one `read_*` / `write_*` method, read off the source. -/
structure Site where
  xopenModes : List String
  rawPath : List String
  delegates : List String

def Site.writesViaXopen (s : Site) : Bool :=
  s.rawPath.isEmpty && (s.xopenModes.any (fun m => m == "w" || m == "wt" || m == "wb") || !s.delegates.isEmpty)

def Site.readsViaXopen (s : Site) : Bool :=
  s.rawPath.isEmpty && s.xopenModes.any (fun m => m == "r" || m == "rt" || m == "rb")

def Site.rawOnly (s : Site) : Bool := s.xopenModes.isEmpty && !s.rawPath.isEmpty

/-- the two sides treat the path alike. -/
def symmetric (r w : Site) : Bool :=
  (r.readsViaXopen && w.writesViaXopen) || (r.rawOnly && w.rawOnly)

/-- the documented dispatch of `xopen`. -/
def xopenDocumented : List (String × String × List String × Bool) :=
  [(".bz2", "bz2.open", ["path", "mode"], true), (".gz", "gzip.open", ["path", "mode"], true),
   (".xz", "lzma.open", ["path", "mode"], true), ("", "open", ["path", "mode"], true)]

end DI.IO

/-
  Model/ReadRestrict.lean — column / key restriction in the readers (C14): `DataFrame.from_json`,
  `GeoJSON.read`, `ListOfDicts.from_json`, `ListOfDicts.read_csv`, and the decision predicate for
  the alias functions of dataiter/io.py.

  A parsed file is a list of records (association lists key -> value) or a header + rows.
-/
namespace DI.Read

abbrev Rec (β : Type) := List (String × β)

def lookup {β : Type} (r : Rec β) (k : String) : Option β := (r.find? (fun p => p.1 == k)).map (·.2)

/-- first-seen union of keys (`util.unique_keys(itertools.chain(*data))`). -/
def unionKeys {β : Type} (recs : List (Rec β)) : List String :=
  (recs.flatMap (fun r => r.map (·.1))).foldl (fun acc k => if acc.contains k then acc else acc ++ [k]) []

/-- `DataFrame.from_json(columns=...)` / `GeoJSON.read(columns=...)`: the kept keys, each with one
    value per record (`x.get(k, None)`). -/
def frameFromRecords {β : Type} (recs : List (Rec β)) (columns : List String) : List (String × List (Option β)) :=
  let keys := unionKeys recs
  let keys := if columns.isEmpty then keys else keys.filter (fun k => columns.contains k)
  keys.map (fun k => (k, recs.map (fun r => lookup r k)))

/-- read everything, then `select` the requested columns (those that exist), as a name -> values map. -/
def selectAfter {β : Type} (recs : List (Rec β)) (columns : List String) : String → Option (List (Option β)) :=
  fun k => if columns.contains k then ((frameFromRecords recs []).find? (fun p => p.1 == k)).map (·.2) else none

/-- `ListOfDicts.from_json(keys=...)`: every item loses the keys not requested. -/
def itemsRestricted {β : Type} (recs : List (Rec β)) (keys : List String) : List (Rec β) :=
  if keys.isEmpty then recs else recs.map (fun r => r.filter (fun p => keys.contains p.1))

/-- `ListOfDicts.read_csv(keys=...)`: the cells of the columns not requested are deleted from
    every row (`del row[i]` for the dropped positions, back to front), the remaining cells are
    named by the remaining header names in file order. -/
def keptCells (header : List String) (row : List String) (keys : List String) : List String :=
  ((header.zip row).filter (fun p => keys.contains p.1)).map (·.2)

def csvRestricted (header : List String) (rows : List (List String)) (keys : List String) : List (Rec String) :=
  if keys.isEmpty then rows.map (fun row => header.zip row)
  else rows.map (fun row => (header.filter (fun c => keys.contains c)).zip (keptCells header row keys))

/-! ### decision predicate for the io.py aliases (evaluated on the generated table) -/

structure AliasFacts where
  posParams : List String
  kwParams : List String
  defaults : List (String × String)
  varkw : Option String
  passedPos : List String
  passedKw : List (String × String)
  star : List String
  targetKw : List String
  targetDefaults : List (String × String)
  targetVarkw : Bool

/-- every parameter is forwarded by name and unchanged, nothing is substituted, defaults agree. -/
def forwardsAll (a : AliasFacts) : Bool :=
  a.passedPos == a.posParams &&
  a.passedKw == a.kwParams.map (fun k => (k, k)) &&
  a.kwParams == a.targetKw &&
  a.defaults == a.targetDefaults &&
  (match a.varkw with | some v => a.star == [v] && a.targetVarkw | none => a.star.isEmpty && !a.targetVarkw)

end DI.Read

/-
  Model/HeapSites.lean — from the regenerated site table to the heap model's effects (C06).
-/
import Model.Heap
import Generated.Sites

namespace DI.Heap

open DI.Gen

/-- provenance class of the table ↦ source of the result buffer. -/
def srcOfClass (cls : String) (i : Nat) : Src :=
  if cls == "fresh" || cls == "delegate" || cls == "scalar" then Src.fresh i else Src.recv i

/-- the effect of a method: one result column per result site, with the provenance the table
    records; one write per store site. -/
def effectOf (cls method : String) : Effect :=
  let sites := resultSites.filter (fun s => s.1 == cls && s.2.1 == method)
  let stores := storeSites.filter (fun s => s.1 == cls && s.2.1 == method)
  { writes := stores.map (fun s => if s.2.2.2 == "local" then Wr.localBuf else Wr.recv 0 0),
    outs := sites.zipIdx.map (fun (s, i) => (s.2.2.2.1, srcOfClass s.2.2.2.2 i)),
    group := [] }

def methodsOfTable : List (String × String) :=
  (resultSites.map (fun s => (s.1, s.2.1))).eraseDups.filter (fun m => m != ("DataFrame", "copy") && m != ("DataFrame", "group_by"))

def idsOf (f : Frame) : List Nat := f.cols.map (·.2)

def sharesWith (f g : Frame) : Bool := (idsOf f).any (fun a => (idsOf g).contains a)

end DI.Heap

/-
  Model/PyEvalStore.lean — a meaning for the column STORE path of `DataFrame` (C01), as the source translator
  `harness/py2lean.py` emits it (`Generated/CodeC01.lean`; normal forms in `Proofs/TieC01.lean`):

      def __setitem__(self, key, value):                      def _reconcile_column(self, column):
          value = self._reconcile_column(value)                   if isinstance(column, DataFrameColumn):
          if not self.__hasattr(key) and key.isidentifier():          if column.nrow == self.nrow:
              super().__setattr__(key, self.COLUMN_PLACEHOLDER)           return column
          return super().__setitem__(key, value)                  nrow = self.nrow if self else None
                                                                  return DataFrameColumn(column, nrow=nrow)
      def __new__(cls, object, dtype=None, nrow=None):        def __delitem__(self, key):     # pop: the same with
          object = util.sequencify(object)                        value = super().__delitem__(key)   #  super().pop(key)
          column = Vector(object, dtype)                          if hasattr(self, key):
          if nrow is not None and nrow != column.length:              if not self.__is_builtin_attr(key):
              if column.length != 1 or nrow < 1:                          super().__delattr__(key)
                  raise ValueError("Bad arguments for broadcast")  return value
              column = column[np.zeros(nrow, int)]
          return column.view(cls)

  The translated functions are DECISION functions: a parameter `truth : Term → Bool` answers their symbolic tests, integer
  atoms (`column_nrow`, `self_nrow`, `nrow`, `column_length`) are arguments, and the outcome is an `Out` of effect /
  return TERMS.  This file runs them on a frame state:

  * the state is the model's own `FS.State` (`Model/FrameState.lean`): the dict as an ordered list of (name, length of
    the column), and the instance attributes that hold the placeholder; the stored VALUE is described by its kind and
    length (`Value`: a `DataFrameColumn`, another one-dimensional sequence, a scalar, an array with `ndim ≠ 1`);
  * `truthOf` answers the tests from the state (trusted reading, section "tests"): `self` = the dict is non-empty,
    `isinstance(column, DataFrameColumn)` = the kind, `self.__hasattr(key)` = `FS.hasNonColumnAttr` ("an attribute exists
    and is not a column"), `key.isidentifier()` / `__is_builtin_attr(key)` = the static `Names`, `hasattr(self, key)` = a
    class attribute, an instance attribute, or (through `__getattr__`) a column of that name;
  * the atoms: `self.nrow` = `FS.State.nrow`; `column.nrow` = the length of a `DataFrameColumn` (ValueError for a
    two-dimensional view: `Vector.length` checks the dimensions); `column.length` after `Vector(sequencify(object))` = the
    length, 1 for a scalar, ValueError for `ndim ≠ 1` (`Vector.__init__` checks the dimensions);
  * the outcome terms: `column` (the value as it is), `DataFrameColumn(column, nrow=<int | None>)` (runs the translated
    `DataFrameColumn_new`), `Vector(…).view(cls)` (the vector's own length), `Vector(…)[np.zeros(n, int)].view(cls)`
    (`n` elements); the effects `super().__setattr__(key, self.COLUMN_PLACEHOLDER)` (adds the instance attribute),
    `super().__delattr__(key)` (removes it; AttributeError if there is none); the dict operations
    `super().__setitem__(key, value)` (an existing key keeps its position, a new key goes last),
    `super().__delitem__(key)` / `super().pop(key)` without default (KeyError for a missing key);
  * ORDER: the translator inlines an assigned local into its use, so `value = self._reconcile_column(value)` and
    `value = super().__delitem__(key)` appear inside the RETURN term although Python executes them FIRST.  The evaluator
    follows Python: the value is reconciled before any effect (a rejected value leaves the frame untouched), and the
    tests of `__delitem__` / `pop` (`hasattr(self, key)`) are answered in the state AFTER the dict deletion — before it
    the name would still resolve to the column through `__getattr__`.
  * `none` = a Python exception (ValueError / KeyError / AttributeError) or an unsupported form; the caller keeps the
    old state (`runCode`).

  `Lemmas/PyEvalStore.lean` proves that these evaluations are the model's `FS.setitem` / `FS.delitem`;
  `Proofs/EvalC01.lean` states it and lifts it to every history of operations.
-/
import Model.PyCore
import Model.FrameState
import Generated.CodeC01

namespace DI.PyEvalStore

open DI DI.Py DI.FS DI.Gen

/-! ### values -/

/-- the value of `data[key] = value`, by kind and length. -/
inductive Value where
  | column (len : Nat)          -- a `DataFrameColumn` (one-dimensional)
  | vector (len : Nat)          -- any other one-dimensional sequence: list, tuple, array, `Vector`, iterator
  | scalar                      -- `util.is_scalar`: `sequencify` wraps it into a list of one
  | nd (isColumn : Bool)        -- an array with `ndim ≠ 1` (a two-dimensional view of a column when `isColumn`)
  deriving Repr, DecidableEq, Inhabited

def Value.isColumn : Value → Bool
  | .column _ => true
  | .nd b => b
  | _ => false

/-- the model's view of the value. -/
def Value.shape : Value → Shape
  | .column n => .seq n
  | .vector n => .seq n
  | .scalar => .scalar
  | .nd _ => .nd

/-- `Vector(util.sequencify(object), dtype).length` — and `column.nrow` of a `DataFrameColumn` (= `Vector.length`, which
    checks the dimensions); `none` = ValueError "Bad dimensions". -/
def Value.vectorLen : Value → Option Nat
  | .column n => some n
  | .vector n => some n
  | .scalar => some 1
  | .nd _ => none

/-! ### tests (the trusted part) -/

/-- the answers to the symbolic tests of the translated functions, in state `s`, for the key `k`. -/
def truthOf (nm : Names) (s : State) (k : String) (isCol : Bool) : Term → Bool
  | .sym "self" => !s.cols.isEmpty
  | .app "isinstance" [.sym "column", .sym "DataFrameColumn"] => isCol
  | .app ".__hasattr" [.sym "self", .sym "key"] => hasNonColumnAttr nm s k
  | .app ".isidentifier" [.sym "key"] => nm.ident k
  | .app "hasattr" [.sym "self", .sym "key"] => nm.classAttr k || s.attrs.contains k || s.has k
  | .app ".__is_builtin_attr" [.sym "self", .sym "key"] => nm.classAttr k
  | _ => false

/-! ### `DataFrameColumn.__new__` and `_reconcile_column` -/

/-- the length of the column an outcome of `DataFrameColumn.__new__` returns, `len` being the length of
    `Vector(object, dtype)`; `none` = the outcome raises. -/
def viewLen (len : Nat) : Out → Option Nat
  | .ret [] (.app ".view" [.app "getitem" [.app "Vector" _, .app "np.zeros" [.int n, .sym "int"]], .sym "cls"]) => some n.toNat
  | .ret [] (.app ".view" [.app "Vector" _, .sym "cls"]) => some len
  | _ => none

/-- `DataFrameColumn(value, nrow=nrow)`. -/
def columnNew (truth : Term → Bool) (v : Value) (nrow : Option Int) : Option Nat :=
  v.vectorLen.bind fun len => viewLen len (DataFrameColumn_new truth nrow.isNone (nrow.getD 0) len)

/-- the keyword argument `nrow=…` of the call `_reconcile_column` makes. -/
def nrowArg : Term → Option (Option Int)
  | .int n => some (some n)
  | .sym "None" => some none
  | _ => none

/-- `self._reconcile_column(value)`: the length of the column that will be stored. -/
def reconcile (truth : Term → Bool) (s : State) (v : Value) : Option Nat :=
  (if v.isColumn then v.vectorLen else some 0).bind fun cn =>      -- `column.nrow` is read for a DataFrameColumn only
    match DataFrame_reconcile_column truth cn s.nrow with
    | .ret [] (.sym "column") => v.vectorLen
    | .ret [] (.app "DataFrameColumn" [.sym "column", .app "=nrow" [t]]) => (nrowArg t).bind (columnNew truth v)
    | _ => none

/-! ### effects and dict operations -/

/-- one effect statement on the attributes of the instance. -/
def evalEff (s : State) (k : String) : Term → Option State
  | .app "super().__setattr__" [.sym "key", .app ".COLUMN_PLACEHOLDER" [.sym "self"]] =>
    some (if s.attrs.contains k then s else { s with attrs := s.attrs ++ [k] })
  | .app "super().__delattr__" [.sym "key"] =>
    if s.attrs.contains k then some { s with attrs := s.attrs.filter (· != k) } else none
  | _ => none

def evalEffs (k : String) : List Term → State → Option State
  | [], s => some s
  | t :: ts, s => (evalEff s k t).bind (evalEffs k ts)

/-- `dict.__setitem__(key, column)`, the column having `n` elements. -/
def dictSet (s : State) (k : String) (n : Nat) : State :=
  if s.has k then { s with cols := s.cols.map (fun c => if c.1 == k then (k, n) else c) }
  else { s with cols := s.cols ++ [(k, n)] }

/-- `dict.__delitem__(key)` / `dict.pop(key)`; `none` = KeyError. -/
def dictDel (s : State) (k : String) : Option State :=
  if s.has k then some { s with cols := s.cols.filter (fun c => c.1 != k) } else none

/-! ### the three methods -/

/-- `data[k] = v`. -/
def evalSetitem (nm : Names) (s : State) (k : String) (v : Value) : Option State :=
  let truth := truthOf nm s k v.isColumn
  match DataFrame_setitem truth with
  | .ret effs (.app "super().__setitem__" [.sym "key", .app "._reconcile_column" [.sym "self", .sym "value"]]) =>
    (reconcile truth s v).bind fun n => (evalEffs k effs s).map fun s1 => dictSet s1 k n
  | _ => none

/-- `del data[k]`. -/
def evalDelitem (nm : Names) (s : State) (k : String) : Option State :=
  (dictDel s k).bind fun s1 =>
    match DataFrame_delitem (truthOf nm s1 k false) with
    | .ret effs (.app "super().__delitem__" [.sym "key"]) => evalEffs k effs s1
    | _ => none

/-- `data.pop(k)` (no default). -/
def evalPop (nm : Names) (s : State) (k : String) : Option State :=
  (dictDel s k).bind fun s1 =>
    match DataFrame_pop (truthOf nm s1 k false) with
    | .ret effs (.app "super().pop" [.sym "key", .app "*" [.sym "args"], .app "=**" [.sym "kwargs"]]) => evalEffs k effs s1
    | _ => none

/-! ### histories -/

/-- an operation of the store path, at the level of the code. -/
inductive COp where
  | setitem (k : String) (v : Value)
  | delitem (k : String)
  | pop (k : String)
  deriving Repr, DecidableEq

/-- the model's operation. -/
def COp.toModel : COp → Op
  | .setitem k v => .setitem k v.shape
  | .delitem k => .delitem k
  | .pop k => .pop k

def stepCode (nm : Names) (s : State) : COp → Option State
  | .setitem k v => evalSetitem nm s k v
  | .delitem k => evalDelitem nm s k
  | .pop k => evalPop nm s k

/-- a history: an operation that raises leaves the frame as it was. -/
def runCode (nm : Names) (s0 : State) (ops : List COp) : State :=
  ops.foldl (fun st op => (stepCode nm st op).getD st) s0

end DI.PyEvalStore

/-
  Model/PyEvalFrameJoin.lean — the evaluator of `Model/PyEvalFrame.lean` EXTENDED to the forms the regenerated generator
  bodies of the joins (`Generated/CodeC05.lean`: semi_join, anti_join, inner_join, left_join, `_split_join_by`) and of
  `cbind` / `update` (`Generated/CodeC09.lean`) use.  The mutual block of `Model/PyEvalFrame.lean` is left untouched (its
  value type has no list of frames, no `*args`, no scalar cell); this file is a second evaluator of the same shape:

  * the statement forms `for` / `yield` / `assign` / `if` / `continue` and the loop function are those of
    `Model/PyEvalFrame.lean`, word for word (`DI.PyEval.loop`, `DI.PyEval.Flow`, `bindPat`);
  * the list primitives are the same functions (`DI.PyEval.npTake`, `npDelete`, `normIdx`, `allSome`, `colOf?`, `nrow`);
  * NEW statement forms: `new[idx] = vals` (`store`, a write into the column bound to a local name: `npPut`) and
    `seen.add(x)` on the body's one `set()` object;
  * NEW expression forms: 2-tuples, `x if c else y`, `isinstance(x, str)`, a list comprehension of names, `*args`,
    `[x]` / `list(xs)` / `+` on lists of frames, `name in frame`, `Vector.fast([value], dtype).repeat(n)` for a scalar cell.

  TRUSTED LINKS (primitives whose meaning is taken from the hand-written model, as the task of `Proofs/EvalC05.lean` /
  `Proofs/EvalC09b.lean` says; read them here):

  * `other.drop_na(*by2)`   = the frame at the rows `dropNaIdx` (`Model/Frame.lean`) — rows without a missing key cell;
  * `frame.unique(*by2)`    = the frame at the rows `uniqueIdx` (`Model/Frame.lean`) — the first row of every key tuple
                              (`colnames or self.colnames`: without names ALL columns are the key);
    together: the rows `rightReduced` of `Model/Group.lean`;
  * `self._get_join_indices(other, by1, by2)` = `(found, src)` with `src[i]` = the position, in the frame `other` it is
    GIVEN (the reduced one), of the row with the key tuple of left row `i`, or -1: the dict lookup `other_by_id.get(id, -1)`
    of the model's `joinSrc` (`Model/Group.lean`) — `joinPos` below is that very `find?` expression; `found` = the
    positions `i` with `src[i] > -1` (`np.where(src > -1)`).  This is what `Tie.C05.get_join_indices_code` describes.
    (The datetime unit promotion of `_get_join_indices` is invisible here: a datetime cell is its instant.)
  * `self._split_join_by(*by)` = (left names, right names); `Eval.C05.split_join_by_eval` PROVES that the regenerated body
    of `_split_join_by` evaluates to exactly this pair.
  * `self._reconcile_column(column)` = the broadcast rule of `Bind.reconcile` (`Model/Bind.lean`) on cells: a column of the
    receiver's row count (or any column, for a receiver without columns) is kept, a one-element column is repeated
    `nrow` times (needs `nrow ≥ 1`), anything else is an error (`none`).
  * `column.na_value` = the parameter `naCell` of the evaluator (the missing value of the column's NA-capable dtype is kept
    abstract), `column.na_dtype` = an opaque dtype token.
  * `set()` — the translator replaces the local `found_colnames` by its defining expression `set()`; the body allocates
    exactly one set, and the term `set()` denotes THAT object: its current content is kept in the environment under the
    (non-identifier) name "set()", `.add` appends to it.
-/
import Model.PyEvalFrame
import Model.Group

namespace DI.PyEvalX

open DI DI.Py
open DI.PyEval (Frame nrow ncol names colOf? normIdx allSome npTake npDelete Flow)

/-- one `by` argument of a join: a name, or a pair (left name, right name). -/
inductive ByItem where
  | name (s : String)
  | pair (l r : String)
  deriving DecidableEq, Repr, Inhabited

def ByItem.left : ByItem → String
  | .name s => s
  | .pair l _ => l

def ByItem.right : ByItem → String
  | .name s => s
  | .pair _ r => r

/-- Python values of the join / bind bodies. -/
inductive XVal where
  | none
  | bool (b : Bool)
  | int (i : Int)
  | str (s : String)
  | cell (c : Cell)                        -- a scalar (`column.na_value`)
  | dtype                                  -- an opaque dtype
  | col (c : List Cell)                    -- a column
  | ints (l : List Int)                    -- an integer vector
  | strs (l : List String)                 -- a list / tuple / set of names
  | frame (f : Frame)
  | frames (l : List Frame)                -- a list / tuple of data frames
  | byspec (l : List ByItem)               -- the `*by` tuple of a join
  | items (v : XVal)                       -- `.items()` view
  | pair (a b : XVal)                      -- a 2-tuple
  | star (v : XVal)                        -- `*v` in an argument list
  deriving Inhabited

abbrev Env := List (String × XVal)

def Env.get? (env : Env) (x : String) : Option XVal := (env.find? (fun p => p.1 == x)).map (·.2)

/-! ### primitives (trusted part) -/

/-- the frame at the listed rows: every column gathered at the same positions. -/
def takeRows (f : Frame) (idx : List Nat) : Frame := f.map (fun p => (p.1, gather p.2 idx))

/-- `[frame[x] for x in cols]` (`none` = KeyError). -/
def keyCols (f : Frame) (cols : List String) : Option (List (List Cell)) := allSome (cols.map (colOf? f))

/-- `frame.drop_na(*cols)`. -/
def dropNaFrame (f : Frame) (cols : List String) : Option Frame :=
  (keyCols f cols).map (fun ks => takeRows f (dropNaIdx (nrow f) ks))

/-- `frame.unique(*cols)` (`colnames or self.colnames`). -/
def uniqueFrame (f : Frame) (cols : List String) : Option Frame :=
  (keyCols f (if cols.isEmpty then names f else cols)).map (fun ks => takeRows f (uniqueIdx (nrow f) ks))

/-- `other_by_id = {ids[i]: i}` (a later row of the same key wins), `src = [other_by_id.get(id, -1) for id in self_ids]`:
    the lookup expression of the model's `joinSrc`. -/
def joinPos (lrows rrows : List (List Cell)) : List Int :=
  lrows.map (fun r => match rrows.zipIdx.reverse.find? (fun p => p.1 == r) with
    | some p => ((p.2 : Nat) : Int)
    | none => -1)

/-- `np.where(src > -1)`. -/
def foundOf (src : List Int) : List Nat := (List.range src.length).filter (fun i => decide (src[i]! > -1))

/-- `self._get_join_indices(other, by1, by2)` = `(found, src)`.  Without key names the Python code raises (IndexError /
    ValueError) unless both frames have no rows: not modelled (`none`). -/
def joinIndices (a b : Frame) (by1 by2 : List String) : Option (List Int × List Int) :=
  if by1.isEmpty || by1.length != by2.length then none else
  match keyCols a by1, keyCols b by2 with
  | some lk, some rk =>
    let src := joinPos (rowsOf (nrow a) lk) (rowsOf (nrow b) rk)
    some ((foundOf src).map (fun (k : Nat) => (k : Int)), src)
  | _, _ => none

/-- `self._reconcile_column(column)`: the broadcast rule of `Bind.reconcile` on cells. -/
def reconcileCol (self : Frame) (c : List Cell) : Option (List Cell) :=
  if c.length = nrow self || self.isEmpty then some c
  else if c.length = 1 ∧ 1 ≤ nrow self then some (List.replicate (nrow self) c[0]!)
  else none

/-- `c[idx] = vals` for an integer vector `idx` and as many values: the writes happen in order (a repeated position keeps
    the last value); `none` = IndexError / shape mismatch. -/
def npPut {α : Type} (c : List α) (idx : List Int) (vals : List α) : Option (List α) :=
  if idx.length ≠ vals.length then none else
  match allSome (idx.map (normIdx c.length)) with
  | none => none
  | some ks => some ((ks.zip vals).foldl (fun acc p => acc.set p.1 p.2) c)

def ByItem.toVal : ByItem → XVal
  | .name s => .str s
  | .pair l r => .pair (.str l) (.str r)

/-- what iterating over a value yields. -/
def itemsOf : XVal → Option (List XVal)
  | .strs l => some (l.map XVal.str)
  | .ints l => some (l.map XVal.int)
  | .frame f => some (f.map (fun p => XVal.str p.1))
  | .frames l => some (l.map XVal.frame)
  | .byspec l => some (l.map ByItem.toVal)
  | .items (.frame f) => some (f.map (fun p => XVal.pair (.str p.1) (.col p.2)))
  | _ => none

/-- `enumerate(xs)`. -/
def enumerate (xs : List XVal) : List XVal := xs.zipIdx.map (fun p => XVal.pair (.int (p.2 : Nat)) p.1)

/-- calls with evaluated arguments; `naCell` is the missing value `column.na_value` stands for. -/
def prim (naCell : Cell) : String → List XVal → Option XVal
  | "np.take", [.col c, .ints r] => (npTake c r).map XVal.col
  | "np.delete", [.col c, .ints r] => (npDelete c r).map XVal.col
  | ".copy", [.col c] => some (.col c)
  | "getitem", [.frame f, .str n] => (colOf? f n).map XVal.col
  | "getitem", [.col c, .ints r] => (npTake c r).map XVal.col
  | "getitem", [.ints s, .ints r] => (npTake s r).map XVal.ints
  | "getitem", [.pair a _, .int 0] => some a
  | "getitem", [.pair _ b, .int 1] => some b
  | "item0", [.pair a _] => some a
  | "item1", [.pair _ b] => some b
  | "*", [v] => some (.star v)
  | ".items", [.frame f] => some (.items (.frame f))
  | ".colnames", [.frame f] => some (.strs (names f))
  | ".nrow", [.frame f] => some (.int (nrow f : Nat))
  | "In", [.str s, .strs l] => some (.bool (l.contains s))
  | "In", [.str s, .frame f] => some (.bool ((names f).contains s))          -- `name in frame`: a dict key
  -- list displays and list arithmetic on data frames
  | "list", [.frame f] => some (.frames [f])
  | "list()", [.frames l] => some (.frames l)
  | "Add", [.frames a, .frames b] => some (.frames (a ++ b))
  -- `Vector.fast([value], dtype).repeat(n)`
  | "list", [.cell c] => some (.col [c])
  | ".repeat", [.col c, .int n] => if 0 ≤ n then some (.col (c.flatMap (fun x => List.replicate n.toNat x))) else none
  | ".na_value", [.col _] => some (.cell naCell)
  | ".na_dtype", [.col _] => some .dtype
  -- the trusted links (see the header)
  | "._split_join_by", [.frame _, .star (.byspec l)] => some (.pair (.strs (l.map ByItem.left)) (.strs (l.map ByItem.right)))
  | ".drop_na", [.frame f, .star (.strs cols)] => (dropNaFrame f cols).map XVal.frame
  | ".unique", [.frame f, .star (.strs cols)] => (uniqueFrame f cols).map XVal.frame
  | "._get_join_indices", [.frame a, .frame b, .strs by1, .strs by2] =>
      (joinIndices a b by1 by2).map (fun r => XVal.pair (.ints r.1) (.ints r.2))
  | "._reconcile_column", [.frame self, .col c] => (reconcileCol self c).map XVal.col
  | _, _ => none

/-- a name: the constants, else the binding of the environment. -/
def lookupSym (env : Env) : String → Option XVal
  | "True" => some (.bool true)
  | "False" => some (.bool false)
  | "None" => some .none
  | x => env.get? x

/-- the content of the body's `set()` object. -/
def curSet (env : Env) : List String :=
  match env.get? "set()" with
  | some (.strs l) => l
  | _ => []

/-- bind a loop target (`x` or `(a, b)`) to an item. -/
def bindPat (env : Env) : Term → XVal → Option Env
  | .sym x, v => some ((x, v) :: env)
  | .app "tuple" [.sym a, .sym b], .pair x y => some ((b, y) :: (a, x) :: env)
  | _, _ => none

/-- run `step` over the items, threading the state; `none` as soon as a step fails (`DI.PyEval.loop` for `XVal`). -/
def loop {σ : Type} (step : σ → XVal → Option σ) : σ → List XVal → Option σ
  | s, [] => some s
  | s, v :: vs => match step s v with
    | none => none
    | some s' => loop step s' vs

/-! ### the evaluator -/

mutual

/-- expressions. -/
def evalExpr (naCell : Cell) (env : Env) : Term → Option XVal
  | .int i => some (.int i)
  | .rows l => some (.ints l)
  | .slice _ _ => none
  | .sym s => lookupSym env s
  | .app f args =>
    let vs := evalArgs naCell env args
    match f, args with
    -- `Vector.fast(x, dtype)`: the identity on a vector that already has that dtype
    | "Vector.fast", [x, .sym _] => evalExpr naCell env x
    -- the body's set object
    | "set()", [] => some (.strs (curSet env))
    | "tuple", [a, b] =>
      (match evalExpr naCell env a, evalExpr naCell env b with
       | some x, some y => some (.pair x y)
       | _, _ => none)
    | "ifexp", [c, a, b] =>
      (match evalExpr naCell env c with
       | some (.bool true) => evalExpr naCell env a
       | some (.bool false) => evalExpr naCell env b
       | _ => none)
    | "isinstance", [x, .sym "str"] =>
      (match evalExpr naCell env x with
       | some (.str _) => some (.bool true)
       | some _ => some (.bool false)
       | none => none)
    -- `[elem for pat in src]` for a list of names
    | "ListComp", [elem, .app "in" [pat, src, .app "if" []]] =>
      (match evalExpr naCell env src with
       | none => none
       | some s => match itemsOf s with
         | none => none
         | some xs =>
           (allSome (xs.map (fun x => match bindPat env pat x with
             | none => none
             | some env' => match evalExpr naCell env' elem with
               | some (.str n) => some n
               | _ => none))).map XVal.strs)
    | _, _ =>
      match vs with
      | none => none
      | some vs => prim naCell f vs

def evalArgs (naCell : Cell) (env : Env) : List Term → Option (List XVal)
  | [] => some []
  | t :: ts => match evalExpr naCell env t, evalArgs naCell env ts with
    | some v, some vs => some (v :: vs)
    | _, _ => none

/-- statements of a generator body: the environment and the pairs yielded so far are threaded through. -/
def execStmt (naCell : Cell) (env : Env) (out : Frame) : Term → Option (Flow × Env × Frame)
  | .sym "continue" => some (.cont, env, out)
  | .app "yield" [.app "tuple" [n, c]] =>
    match evalExpr naCell env n, evalExpr naCell env c with
    | some (.str n), some (.col c) => some (.next, env, out ++ [(n, c)])
    | _, _ => none
  | .app "assign" [.sym x, e] =>
    match evalExpr naCell env e with
    | some v => some (.next, (x, v) :: env, out)
    | none => none
  -- `x[idx] = vals`: a write into the column bound to the local name `x`
  | .app "store" [.app "getitem" [.sym x, ie], ve] =>
    match env.get? x, evalExpr naCell env ie, evalExpr naCell env ve with
    | some (.col c), some (.ints r), some (.col v) =>
      (match npPut c r v with
       | some c' => some (.next, (x, .col c') :: env, out)
       | none => none)
    | _, _, _ => none
  -- `seen.add(name)` on the body's set object
  | .app ".add" [.app "set()" [], e] =>
    match evalExpr naCell env e with
    | some (.str s) => some (.next, ("set()", .strs (curSet env ++ [s])) :: env, out)
    | _ => none
  | .app "if" [c, .app "block" a, .app "block" b] =>
    match evalExpr naCell env c with
    | some (.bool true) => execBlock naCell env out a
    | some (.bool false) => execBlock naCell env out b
    | _ => none
  | .app "for" [pat, iter, .app "block" body] =>
    let its : Option (List XVal) := match iter with
      | .app "enumerate" [e] => (match evalExpr naCell env e with | some v => (itemsOf v).map enumerate | none => none)
      | _ => (match evalExpr naCell env iter with | some v => itemsOf v | none => none)
    match its with
    | none => none
    | some its =>
      match loop (fun (st : Env × Frame) it => match bindPat st.1 pat it with
          | none => none
          | some env' => match execBlock naCell env' st.2 body with
            | none => none
            | some r => some (r.2.1, r.2.2)) (env, out) its with
      | none => none
      | some st => some (.next, st.1, st.2)
  | _ => none

def execBlock (naCell : Cell) (env : Env) (out : Frame) : List Term → Option (Flow × Env × Frame)
  | [] => some (.next, env, out)
  | s :: ss => match execStmt naCell env out s with
    | none => none
    | some (.cont, env', out') => some (.cont, env', out')
    | some (.next, env', out') => execBlock naCell env' out' ss

end

/-- the pairs a generator body yields, in order. -/
def runBody (naCell : Cell) (env : Env) : Out → Option Frame
  | .fall effs => match execBlock naCell env [] effs with
    | some (.next, _, out) => some out
    | _ => none
  | _ => none

/-- the value a function body without effects returns. -/
def runRet (naCell : Cell) (env : Env) : Out → Option XVal
  | .ret [] t => evalExpr naCell env t
  | _ => none

/-- the environment of a method call: the receiver and the named arguments. -/
def callEnv (self : Frame) (args : List (String × XVal)) : Env := ("self", .frame self) :: args

end DI.PyEvalX

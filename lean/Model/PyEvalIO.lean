/-
  Model/PyEvalIO.lean — a meaning for `util.xopen` and for the writers / readers of `dataiter/data_frame.py` and
  `dataiter/list_of_dicts.py` that go through it (C12), as the source translator `harness/py2lean.py` emits them
  (`Generated/CodeC12.lean`; normal forms in `Proofs/TieC12.lean`).

  * `util.xopen(path, mode, **kwargs)` is RUN on a path: the path is a list of characters (`str(path)`), the tests of the
    translated function are answered from it (`truthX`: `"b" not in mode` = no character `b` in the mode;
    `str(path).endswith(".gz")` = the characters of the quoted literal are a SUFFIX of the path, `List.isSuffixOf`), the
    `kwargs.setdefault(…)` effects are applied to the keyword arguments in order (`Kwargs`: `encoding`, `compresslevel`;
    a default never replaces a value the caller gave), and the returned call `bz2.open / gzip.open / lzma.open /
    open (path, mode, **kwargs)` becomes a `Handle`: which opener, in which mode, with which keyword arguments.
  * the writers are straight-line pipelines: every effect statement of the translated function is evaluated to the
    EVENTS it causes (`Event`): the directory made, a file opened (a `Handle`: `util.xopen` run on the method's `path`
    with the mode and the `encoding=` of the call), and the THIRD-PARTY calls with the data they are handed.  The third-party
    calls stay primitives (TRUSTED; they are the codecs of `Model/IO.lean`):
        pyarrow  `self.to_arrow()`, `csv.write_csv(table, f, write_options=WriteOptions(include_header, delimiter,
                 quoting_style))`, `pq.write_table(table, path, **kwargs)`
        numpy    `np.savez / np.savez_compressed(path, **self)`, `np.load(path, allow_pickle=…)`,
                 `np.array(v, v.dtype)` (the column as a plain array of its own dtype: the same cells)
        stdlib   `pickle.dump / pickle.load`, `json.JSONEncoder(**kwargs).iterencode`, `csv.DictWriter` (`writeheader`,
                 `writerow`: cells by field name), `codecs.lookup` (`Args.utf8Alias`), `bz2 / gzip / lzma / open`.
  * the data: a frame is the model's `List (Convert.Col β)` (columns in dict order), a list of dicts is the model's
    `List (Read.Rec (Option β))`; `self.to_list_of_dicts()` is `Convert.toRecords` (C13), `ListOfDicts.keys()` is the
    first-seen key union `Read.unionKeys`.
  * a test of a method (`compress`, `header`, `self`, `codecs.lookup(encoding) != codecs.lookup("utf-8")`) is answered
    from the arguments (`truthIO`).
  * `none` = an unsupported form or a Python exception (`ListOfDicts.write_csv` of an empty list: ValueError).

  `Lemmas/PyEvalIO.lean` proves what these evaluations compute; `Proofs/EvalC12.lean` states it.
-/
import Model.PyCore
import Model.IO
import Model.Convert
import Generated.CodeC12

namespace DI.PyEvalIO

open DI DI.Py DI.Read DI.Convert

abbrev Path := List Char

/-! ### `util.xopen` -/

inductive Opener where
  | bz2 | gzip | lzma | plain
  deriving DecidableEq, Repr, Inhabited

/-- the suffix that selects the opener (`Model/IO.lean`: the argument of `Wrap.wrap`). -/
def Opener.suffix : Opener → String
  | .bz2 => ".bz2"
  | .gzip => ".gz"
  | .lzma => ".xz"
  | .plain => ""

/-- the keyword arguments `xopen` looks at. -/
structure Kwargs where
  encoding : Option String := none
  compresslevel : Option Int := none
  deriving DecidableEq, Repr

/-- an open file: `opener(path, mode, **kwargs)`. -/
structure Handle where
  opener : Opener
  mode : List Char
  kwargs : Kwargs
  deriving DecidableEq, Repr

/-- the characters of a quoted source literal `'…'` (no escapes). -/
def unquote (x : String) : Option (List Char) :=
  match x.toList with
  | '\'' :: rest =>
    if rest.getLast? = some '\'' && !rest.dropLast.contains '\'' && !rest.dropLast.contains '\\' then some rest.dropLast
    else none
  | _ => none

/-- the answers to the tests of the translated `xopen`. -/
def truthX (path : Path) (mode : List Char) : Term → Bool
  | .app "NotIn" [.sym "'b'", .sym "mode"] => !mode.contains 'b'
  | .app ".endswith" [.app "str" [.sym "path"], .sym lit] =>
    match unquote lit with
    | some suf => suf.isSuffixOf path
    | none => false
  | _ => false

/-- `kwargs.setdefault(name, value)`: only when the caller gave none. -/
def setDefault (kw : Kwargs) : Term → Option Kwargs
  | .app ".setdefault" [.sym "kwargs", .sym "'encoding'", .sym v] =>
    (unquote v).map fun cs => { kw with encoding := some (kw.encoding.getD (String.ofList cs)) }
  | .app ".setdefault" [.sym "kwargs", .sym "'compresslevel'", .int n] =>
    some { kw with compresslevel := some (kw.compresslevel.getD n) }
  | _ => none

def openerOf : String → Option Opener
  | "bz2.open" => some .bz2
  | "gzip.open" => some .gzip
  | "lzma.open" => some .lzma
  | "open" => some .plain
  | _ => none

/-- **`util.xopen(path, mode, **kw)`**. -/
def evalXopen (path : Path) (mode : List Char) (kw : Kwargs) : Option Handle :=
  match DI.Gen.util_xopen (truthX path mode) with
  | .ret effs (.app f [.sym "path", .sym "mode", .app "=**" [.sym "kwargs"]]) =>
    (openerOf f).bind fun o => (effs.foldlM setDefault kw).map fun kw' => ⟨o, mode, kw'⟩
  | _ => none

/-! ### the arguments and the events of a writer -/

structure Args where
  path : Path
  encoding : String := "utf-8"          -- `encoding=`
  header : Bool := true                 -- `header=`
  sep : String := ","                   -- `sep=`
  compress : Bool := false              -- `compress=` (NPZ)
  utf8Alias : Bool := true              -- `codecs.lookup(encoding) == codecs.lookup("utf-8")`

inductive Event (β : Type) where
  | makedirs                                                                    -- `util.makedirs_for_file(path)`
  | opened (h : Handle)                                                         -- `with util.xopen(path, mode, …) as f`
  | arrowCsv (table : List (Col β)) (h : Handle) (header : Bool) (sep quoting : String)   -- `csv.write_csv(self.to_arrow(), f, …)`
  | copyText (src dst : Handle)                                                 -- `dst.write(src.read())`
  | jsonEncode (recs : List (Rec (Option β))) (h : Handle) (defaults : List (String × String))   -- `for chunk in JSONEncoder(**kwargs).iterencode(self): f.write(chunk)`
  | text (h : Handle) (s : List Char)                                           -- `f.write("\n")`
  | savez (compressed : Bool) (arrays : List (Col β))                           -- `np.savez[_compressed](path, **self)`: the path goes to NumPy
  | parquet (table : List (Col β))                                              -- `pq.write_table(self.to_arrow(), path, **kwargs)`: the path goes to Arrow
  | pickleTable (table : List (Col β)) (h : Handle)                             -- `pickle.dump({k: np.array(v, v.dtype) …}, f, HIGHEST_PROTOCOL)`
  | pickleItems (recs : List (Rec (Option β))) (h : Handle)                     -- `pickle.dump([dict(x) for x in self], f, HIGHEST_PROTOCOL)`
  | csvHeader (keys : List String) (h : Handle) (sep : String)                  -- `DictWriter(f, keys, dialect="unix", delimiter=sep, quoting=QUOTE_MINIMAL).writeheader()`
  | csvRow (row : List (String × Option β)) (h : Handle)                        -- `writer.writerow({**dict.fromkeys(keys), **item})`: the cells by field name
  deriving Repr, DecidableEq

/-- `with util.xopen(path, <mode>[, encoding=…]) as f`: the handle. -/
def evalOpen (a : Args) : Term → Option Handle
  | .app "with" [.app "util.xopen" [.sym "path", .sym m]] => (unquote m).bind fun mode => evalXopen a.path mode {}
  | .app "with" [.app "util.xopen" [.sym "path", .sym m, .app "=encoding" [.sym "encoding"]]] =>
    (unquote m).bind fun mode => evalXopen a.path mode { encoding := some a.encoding }
  | .app "with" [.app "util.xopen" [.sym "path", .sym m, .app "=encoding" [.sym e]]] =>
    (unquote m).bind fun mode => (unquote e).bind fun enc => evalXopen a.path mode { encoding := some (String.ofList enc) }
  | _ => none

/-- the answers to the tests of the writers. -/
def truthIO (a : Args) (nonEmpty : Bool) : Term → Bool
  | .app "NotEq" [.app "codecs.lookup" [.sym "encoding"], .app "codecs.lookup" [.sym "'utf-8'"]] => !a.utf8Alias
  | .sym "compress" => a.compress
  | .sym "header" => a.header
  | .sym "self" => nonEmpty
  | _ => false

/-! ### `DataFrame` -/

/-- one effect statement of a `DataFrame` writer, the frame being `cols`. -/
def evalDf {β : Type} (a : Args) (cols : List (Col β)) : Term → Option (List (Event β))
  | .app "util.makedirs_for_file" [.sym "path"] => some [.makedirs]
  | .app "with" args => (evalOpen a (.app "with" args)).map fun h => [.opened h]
  | .app "csv.write_csv" [.app ".to_arrow" [.sym "self"], f, .app "=write_options" [.app "csv.WriteOptions"
      [.app "=include_header" [.sym "header"], .app "=delimiter" [.sym "sep"], .app "=quoting_style" [.sym q]]]] =>
    (evalOpen a f).bind fun h => (unquote q).map fun qs => [.arrowCsv cols h a.header a.sep (String.ofList qs)]
  | .app ".write" [dst, .app ".read" [src]] =>
    (evalOpen a dst).bind fun hd => (evalOpen a src).map fun hs => [.copyText hs hd]
  | .app "call" [.sym "np.savez", .sym "path", .app "=**" [.sym "self"]] => some [.savez false cols]
  | .app "call" [.sym "np.savez_compressed", .sym "path", .app "=**" [.sym "self"]] => some [.savez true cols]
  | .app "pq.write_table" [.app ".to_arrow" [.sym "self"], .sym "path", .app "=**" [.sym "kwargs"]] => some [.parquet cols]
  | .app "pickle.dump" [.app "DictComp" [.app "pair" [.sym "k", .app "np.array" [.sym "v", .app ".dtype" [.sym "v"]]],
      .app "in" [.app "tuple" [.sym "k", .sym "v"], .app ".items" [.sym "self"], .app "if" []]], f, .sym "pickle.HIGHEST_PROTOCOL"] =>
    (evalOpen a f).map fun h => [.pickleTable (cols.map fun c => (c.1, c.2)) h]
  | _ => none

def runEffs {β : Type} (ev : Term → Option (List (Event β))) : List Term → Option (List (Event β))
  | [] => some []
  | t :: ts => (ev t).bind fun es => (runEffs ev ts).map (es ++ ·)

/-- a `DataFrame` writer that returns nothing. -/
def runDf {β : Type} (a : Args) (cols : List (Col β)) : Out → Option (List (Event β))
  | .fall effs => runEffs (evalDf a cols) effs
  | _ => none

def evalDfWriteCsv {β : Type} (a : Args) (cols : List (Col β)) : Option (List (Event β)) :=
  runDf a cols (DI.Gen.DataFrame_write_csv (truthIO a !cols.isEmpty))
def evalDfWriteNpz {β : Type} (a : Args) (cols : List (Col β)) : Option (List (Event β)) :=
  runDf a cols (DI.Gen.DataFrame_write_npz (truthIO a !cols.isEmpty))
def evalDfWriteParquet {β : Type} (a : Args) (cols : List (Col β)) : Option (List (Event β)) :=
  runDf a cols (DI.Gen.DataFrame_write_parquet (truthIO a !cols.isEmpty))
def evalDfWritePickle {β : Type} (a : Args) (cols : List (Col β)) : Option (List (Event β)) :=
  runDf a cols (DI.Gen.DataFrame_write_pickle (truthIO a !cols.isEmpty))

/-- `DataFrame.read_npz(path)`: `cls(**f)`, `f` = what `np.load(path, allow_pickle=…)` yields, in file order. -/
def evalDfReadNpz {β : Type} (a : Args) (loaded : List (Col β)) : Option (List (Col β)) :=
  match DI.Gen.DataFrame_read_npz (truthIO a true) with
  | .ret [.app "with" [.app "np.load" [.sym "path", .app "=allow_pickle" [.sym "allow_pickle"]]]]
      (.app "cls" [.app "=**" [.app "with" [.app "np.load" [.sym "path", .app "=allow_pickle" [.sym "allow_pickle"]]]]]) => some loaded
  | _ => none

/-- `DataFrame.read_pickle(path)`: `cls(pickle.load(f))`: the handle it reads from, and the frame. -/
def evalDfReadPickle {β : Type} (a : Args) (loaded : List (Col β)) : Option (Handle × List (Col β)) :=
  match DI.Gen.DataFrame_read_pickle (truthIO a true) with
  | .ret [f] (.app "cls" [.app "pickle.load" [_]]) => (evalOpen a f).map fun h => (h, loaded)
  | _ => none

/-! ### `ListOfDicts` -/

/-- `{**dict.fromkeys(keys), **item}` written by `DictWriter(f, keys)`: every field, in field order, `None` for a key the
    item lacks. -/
def fillRow {β : Type} (keys : List String) (r : Rec (Option β)) : List (String × Option β) :=
  keys.map fun k => (k, (lookup r k).join)

/-- one effect statement of a `ListOfDicts` writer, the list being `recs`; `kw` = the `kwargs.setdefault` defaults so far. -/
def evalLod {β : Type} (a : Args) (recs : List (Rec (Option β))) (kw : List (String × String)) :
    Term → Option (List (Event β) × List (String × String))
  | .app ".setdefault" [.sym "kwargs", .sym k, .sym v] => (unquote k).map fun key => ([], kw ++ [(String.ofList key, v)])
  | .app ".setdefault" [.sym "kwargs", .sym k, .int n] => (unquote k).map fun key => ([], kw ++ [(String.ofList key, toString n)])
  | .app "util.makedirs_for_file" [.sym "path"] => some ([.makedirs], kw)
  | .app "with" args => (evalOpen a (.app "with" args)).map fun h => ([.opened h], kw)
  | .app "for" [.sym "chunk", .app ".iterencode" [.app "json.JSONEncoder" [.app "=**" [.sym "kwargs"]], .sym "self"],
      .app "block" [.app ".write" [f, .sym "chunk"]]] => (evalOpen a f).map fun h => ([.jsonEncode recs h kw], kw)
  | .app ".write" [f, .sym "'\\n'"] => (evalOpen a f).map fun h => ([.text h ['\n']], kw)
  | .app "pickle.dump" [.app "ListComp" [.app "dict()" [.sym "x"], .app "in" [.sym "x", .sym "self", .app "if" []]], f,
      .sym "pickle.HIGHEST_PROTOCOL"] => (evalOpen a f).map fun h => ([.pickleItems recs h], kw)
  | .app ".writeheader" [.app "csv.DictWriter" [f, .app "list()" [.app ".keys" [.sym "self"]], .app "=dialect" [.sym "'unix'"],
      .app "=delimiter" [.sym "sep"], .app "=quoting" [.sym "csv.QUOTE_MINIMAL"]]] =>
    (evalOpen a f).map fun h => ([.csvHeader (unionKeys recs) h a.sep], kw)
  | .sym "None" => some ([], kw)
  | .app "for" [.sym "item", .sym "self", .app "block" [.app "assign" [.sym "item", .app "dict"
      [.app "**" [.app "dict.fromkeys" [.app "list()" [.app ".keys" [.sym "self"]]]], .app "**" [.sym "item"]]],
      .app ".writerow" [.app "csv.DictWriter" [f, .app "list()" [.app ".keys" [.sym "self"]], .app "=dialect" [.sym "'unix'"],
        .app "=delimiter" [.sym "sep"], .app "=quoting" [.sym "csv.QUOTE_MINIMAL"]], .sym "item"]]] =>
    (evalOpen a f).map fun h => (recs.map fun r => .csvRow (fillRow (unionKeys recs) r) h, kw)
  | _ => none

def runLodEffs {β : Type} (a : Args) (recs : List (Rec (Option β))) :
    List Term → List (String × String) → Option (List (Event β))
  | [], _ => some []
  | t :: ts, kw => (evalLod a recs kw t).bind fun r => (runLodEffs a recs ts r.2).map (r.1 ++ ·)

def runLod {β : Type} (a : Args) (recs : List (Rec (Option β))) : Out → Option (List (Event β))
  | .fall effs => runLodEffs a recs effs []
  | _ => none

def evalLodWriteJson {β : Type} (a : Args) (recs : List (Rec (Option β))) : Option (List (Event β)) :=
  runLod a recs (DI.Gen.ListOfDicts_write_json (truthIO a !recs.isEmpty))
def evalLodWriteCsv {β : Type} (a : Args) (recs : List (Rec (Option β))) : Option (List (Event β)) :=
  runLod a recs (DI.Gen.ListOfDicts_write_csv (truthIO a !recs.isEmpty))
def evalLodWritePickle {β : Type} (a : Args) (recs : List (Rec (Option β))) : Option (List (Event β)) :=
  runLod a recs (DI.Gen.ListOfDicts_write_pickle (truthIO a !recs.isEmpty))

def evalLodReadPickle {β : Type} (a : Args) (loaded : List (Rec (Option β))) : Option (Handle × List (Rec (Option β))) :=
  match DI.Gen.ListOfDicts_read_pickle (truthIO a true) with
  | .ret [f] (.app "cls" [.app "pickle.load" [_]]) => (evalOpen a f).map fun h => (h, loaded)
  | _ => none

/-- `DataFrame.write_json(path, encoding=…, **kwargs)`: `self.to_list_of_dicts().write_json(path, encoding=encoding, **kwargs)`
    — the `ListOfDicts` writer on the frame's records, `nrow` rows. -/
def evalDfWriteJson {β : Type} (a : Args) (cols : List (Col β)) (nrow : Nat) : Option (List (Event β)) :=
  match DI.Gen.DataFrame_write_json (truthIO a !cols.isEmpty) with
  | .ret [] (.app ".write_json" [.app ".to_list_of_dicts" [.sym "self"], .sym "path", .app "=encoding" [.sym "encoding"],
      .app "=**" [.sym "kwargs"]]) => evalLodWriteJson a (toRecords cols nrow)
  | _ => none

end DI.PyEvalIO

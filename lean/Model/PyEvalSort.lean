/-
  Model/PyEvalSort.lean — the evaluator of `Model/PyEvalFrame.lean` EXTENDED to the forms the regenerated bodies of
  `DataFrame.sort` (`Generated/CodeC03.lean`) and of `DataFrame.split` / the grouping part of `DataFrame.aggregate`
  (`Generated/CodeC04.lean`) use.  The mutual block of `Model/PyEvalFrame.lean` is left untouched (its value type has no
  tuple of key columns, no `**kwargs`, no list of index vectors); this file is a further evaluator of the same shape
  (as `Model/PyEvalFrameJoin.lean` is): statement forms `for` / `yield` / `assign` / `if` / `continue` word for word, the
  list primitives are the same functions (`DI.PyEval.npTake`, `normIdx`, `allSome`, `colOf?`, `nrow`).

  NEW expression forms
  * `tuple(elem for pat in src)` for key columns, `reversed(d.items())`, `*x`, `**d`, `dict.fromkeys(names, 1)`,
    `x[a:b]`, `np.split`, the attribute reads `._index_` / `._sorted_index_` (`DataFrame.__getattr__`: the column of that
    name), string literals `'_index_'` / `'_group_'`;
  * the local function `sort_key` of `DataFrame.sort` as a VALUE (a closure over the receiver) and its call.

  NEW: method bodies that RETURN a value after attribute writes (`Out.ret effs t`).  `data._index_ = v` on a data frame is
  `DataFrame.__setattr__` → `__setitem__`: the column `_index_` is added to (or replaced in) the OBJECT `data`.  The
  translator does not model objects: a later read of `data` is the same defining term again.  Here the objects written
  to are kept in a store, defining term ↦ current contents, and a term that is a key of the store denotes that object
  (sound when no two distinct objects of the body have the same defining term: in `split` / `aggregate` every such term
  is `let`-bound once in the source).

  TRUSTED READINGS (primitives whose meaning is taken as a DEFINITION; read them here):

  * `np.lexsort(keys)` — NumPy: "the last key in the sequence is used for the primary sort order, ties are broken by the
    second-to-last key, and so on"; it is an indirect STABLE sort.  Reading: start from `0 … n-1` and make one stable pass
    per key, FIRST key first (`lexsortPasses`: `perm := perm[argsort(key[perm], kind="stable")]`, the model's stable
    `argsort`, cells ordered with the missing value — NaN / NaT — last, as `np.lexsort` does), so that the LAST key, sorted
    last, is the primary one.  No key: TypeError (`none`); keys of different lengths: ValueError (`none`).
    `Lemmas/PyEvalSort.lean` PROVES that these passes are ONE stable sort by the lexicographic order of the reversed key
    list (`lexsortPasses_eq`), i.e. the model's `lexsortIdx`.
  * `sort_key(colname, dir)` (the local function of `sort`) = the model's `sortKey (kinds colname) (dir = -1) self[colname]`
    (`Model/Frame.lean`), ValueError (`none`) for any other `dir`, KeyError (`none`) for a missing column.  This is what
    `Tie.C03.sort_key_code` + `Tie.C03.sort_key_refines` prove about the regenerated `DataFrame_sort_key`; the dtype facts
    `kinds : String → ColKind` of the receiver's columns are a parameter of the evaluator (frames here carry cells only).
    `Eval.C03.sort_key_term_eval` moreover evaluates the TERM the regenerated `sort_key` returns with the column
    primitives `.rank(method='min')` = `rankKey` (the keyword argument `method='min'` is the pair ("method", "min")),
    `._optimize_for_argsort()` = identity on values, `~` / unary `-` = `invertKey` — they exist only for that theorem.
  * `frame.sort(**pairs)` = `sortFrame`: every column gathered at the ONE permutation `np.lexsort` returns for the keys
    `sort_key(*x) for x in reversed(pairs.items())` — `Eval.C03.sort_eval` PROVES that the regenerated body of `sort`
    evaluates to exactly this frame.
  * `frame.unique(*cols)` = `DI.PyEvalX.uniqueFrame` (the rows `uniqueIdx` of `Model/Frame.lean`: the first row of every
    key tuple, in order); `frame.select(*cols)` = the named columns in the requested order through the constructor's
    `dict` (KeyError = `none`; `Eval.C09.select_eval`); `frame.unselect(*cols)` (`Eval.C09.unselect_eval`).
  * `np.split(arr, cuts)` = `npSplit`: `arr[:c0], arr[c0:c1], …, arr[ck:]` (Python slices: an EMPTY `arr` with no cuts gives
    ONE empty chunk).  Negative cut positions are not modelled (`none`).
  * `data.attr = v` (`setCol`): `_reconcile_column` (`DI.PyEvalX.reconcileCol`), then the dict store `dictPut` (an
    existing name keeps its position).
-/
import Model.PyEvalFrame
import Model.PyEvalFrameJoin
import Model.PyEvalLift
import Model.Group

namespace DI.PyEvalS

open DI DI.Py
open DI.PyEval (Frame nrow ncol names colOf? normIdx allSome npTake Flow)
open DI.PyEvalX (uniqueFrame reconcileCol)

/-- Python values of the sort / grouping bodies. -/
inductive SVal where
  | none
  | bool (b : Bool)
  | int (i : Int)
  | str (s : String)
  | slice (a b : Option Int)               -- `a:b` inside a subscript
  | col (c : List Cell)                    -- a column
  | cols (l : List (List Cell))            -- a tuple of (key) columns
  | ints (l : List Int)                    -- an integer vector
  | chunks (l : List (List Int))           -- a list of integer vectors (`np.split`)
  | strs (l : List String)                 -- a tuple / list of names
  | frame (f : Frame)
  | dirs (d : List (String × Int))         -- a dict name → int in insertion order (`**colname_dir_pairs`)
  | items (v : SVal)                       -- `.items()` view (`reversed(...)` of it: the same view of the reversed dict)
  | pair (a b : SVal)                      -- a 2-tuple
  | star (v : SVal)                        -- `*v` in an argument list
  | kwargs (v : SVal)                      -- `**v` in an argument list
  | sortKeyFn (self : Frame)               -- the local function `sort_key` of `sort`, closed over the receiver
  deriving Inhabited

abbrev Env := List (String × SVal)

def Env.get? (env : Env) (x : String) : Option SVal := (env.find? (fun p => p.1 == x)).map (·.2)

/-- the objects written to so far: defining term ↦ current contents, latest first. -/
abbrev Store := List (Term × SVal)

def Store.find : Store → Term → Option SVal
  | [], _ => none
  | (k, v) :: r, t => if (DI.PyEvalLift.termDecEq k t).decide then some v else Store.find r t

/-! ### primitives (trusted part) -/

/-- one pass of `np.lexsort`: the index vector `perm` re-ordered by a STABLE sort of the key cells it points at
    (`perm[np.argsort(key[perm], kind="stable")]`), missing value last. -/
def stablePass (key : List Cell) (perm : List Nat) : List Nat :=
  gather perm (argsort (leNaLast Key.le) (gather key perm))

/-- `np.lexsort(keys)` for `n` rows: one stable pass per key, the FIRST key first — so the LAST key is the primary one. -/
def lexsortPasses (n : Nat) (keys : List (List Cell)) : List Nat :=
  keys.foldl (fun perm key => stablePass key perm) (List.range n)

/-- `np.lexsort(keys)`: TypeError without keys, ValueError for keys of different lengths. -/
def npLexsort : List (List Cell) → Option (List Nat)
  | [] => none
  | k :: ks => if ks.all (fun c => c.length == k.length) then some (lexsortPasses k.length (k :: ks)) else none

/-- `sort_key(colname, dir)` of `DataFrame.sort` (see the header). -/
def sortKeyCall (kinds : String → ColKind) (self : Frame) (name : String) (dir : Int) : Option (List Cell) :=
  if dir = 1 then (colOf? self name).map (sortKey (kinds name) false)
  else if dir = -1 then (colOf? self name).map (sortKey (kinds name) true)
  else none

/-- `frame.sort(**pairs)`: the keys are `sort_key(*x)` for the pairs in REVERSED order, the rows those of `np.lexsort`. -/
def sortFrame (kinds : String → ColKind) (f : Frame) (pairs : List (String × Int)) : Option Frame :=
  match allSome (pairs.reverse.map (fun p => sortKeyCall kinds f p.1 p.2)) with
  | none => none
  | some ks => (npLexsort ks).map (fun idx => f.map (fun p => (p.1, gather p.2 idx)))

/-- `d[n] = c` on an insertion-ordered dict of columns: an existing name keeps its position. -/
def dictPut (d : Frame) (n : String) (c : List Cell) : Frame :=
  if d.any (fun q => q.1 == n) then d.map (fun q => if q.1 == n then (n, c) else q) else d ++ [(n, c)]

/-- `frame.select(*cols)`: KeyError (`none`) for a name that is not a column; the constructor's `dict`. -/
def selectFrame (f : Frame) (cols : List String) : Option Frame :=
  (allSome (cols.map (fun n => (colOf? f n).map (fun c => (n, c))))).map
    (fun ps => ps.foldl (fun d p => dictPut d p.1 p.2) [])

/-- `frame.unselect(*cols)`. -/
def unselectFrame (f : Frame) (cols : List String) : Frame := f.filter (fun p => !cols.contains p.1)

/-- `frame.name = c` (`__setattr__` → `__setitem__`). -/
def setCol (f : Frame) (n : String) (c : List Cell) : Option Frame := (reconcileCol f c).map (dictPut f n)

/-- `dict.fromkeys(names, i)`: a repeated name is one key. -/
def fromKeys (l : List String) (i : Int) : List (String × Int) :=
  l.foldl (fun d k => if d.any (fun q => q.1 == k) then d else d ++ [(k, i)]) []

/-- `l[a:b]` (step 1), Python slice bounds. -/
def pySlice {α : Type} (l : List α) (a b : Option Int) : List α :=
  let n : Int := l.length
  let lo : Int := match a with | none => 0 | some s => normBound n s
  let hi : Int := match b with | none => n | some s => normBound n s
  (l.take hi.toNat).drop lo.toNat

def npSplitGo {α : Type} (arr : List α) (prev : Nat) : List Nat → List (List α)
  | [] => [arr.drop prev]
  | c :: cs => ((arr.take c).drop prev) :: npSplitGo arr c cs

/-- `np.split(arr, cuts)`: `arr[:c0], arr[c0:c1], …, arr[ck:]`. -/
def npSplit {α : Type} (arr : List α) (cuts : List Nat) : List (List α) := npSplitGo arr 0 cuts

/-- an integer column as an integer vector (`none`: a missing or non-integer cell). -/
def cellsToInts (c : List Cell) : Option (List Int) :=
  allSome (c.map (fun x => match x with | some (.i v) => some v | _ => none))

def asInts : SVal → Option (List Int)
  | .ints l => some l
  | .col c => cellsToInts c
  | _ => none

/-- an integer vector as a column. -/
def asCol : SVal → Option (List Cell)
  | .col c => some c
  | .ints l => some (l.map (fun i => some (Key.i i)))
  | _ => none

def natCuts (cuts : List Int) : Option (List Nat) :=
  if cuts.all (fun c => decide (0 ≤ c)) then some (cuts.map Int.toNat) else none

/-- the names of an argument list `'a', *names, …`. -/
def flatNames : List SVal → Option (List String)
  | [] => some []
  | .str s :: r => (flatNames r).map (fun l => s :: l)
  | .star (.strs l) :: r => (flatNames r).map (fun l' => l ++ l')
  | _ => none

/-- what iterating over a value yields. -/
def itemsOf : SVal → Option (List SVal)
  | .strs l => some (l.map SVal.str)
  | .frame f => some (f.map (fun p => SVal.str p.1))
  | .items (.frame f) => some (f.map (fun p => SVal.pair (.str p.1) (.col p.2)))
  | .items (.dirs d) => some (d.map (fun p => SVal.pair (.str p.1) (.int p.2)))
  | _ => none

/-- calls with evaluated arguments. -/
def prim (kinds : String → ColKind) : String → List SVal → Option SVal
  | ".copy", [.col c] => some (.col c)
  | "getitem", [.frame f, .str n] => (colOf? f n).map SVal.col
  | "getitem", [.col c, .ints r] => (npTake c r).map SVal.col
  | "getitem", [.col c, .slice a b] => some (.col (pySlice c a b))
  | "getitem", [.ints l, .slice a b] => some (.ints (pySlice l a b))
  | ".items", [.frame f] => some (.items (.frame f))
  | ".items", [.dirs d] => some (.items (.dirs d))
  | "reversed", [.items (.dirs d)] => some (.items (.dirs d.reverse))
  | "*", [v] => some (.star v)
  | "=**", [v] => some (.kwargs v)
  | "dict.fromkeys", [.strs l, .int i] => some (.dirs (fromKeys l i))
  | ".colnames", [.frame f] => some (.strs (names f))
  | ".nrow", [.frame f] => some (.int (nrow f : Nat))
  | "np.arange", [.int n] => some (.ints (arange 0 n))
  | "Gt", [.int a, .int b] => some (.bool (decide (a > b)))
  | "list", [] => some (.chunks [])
  -- the sort
  | "np.lexsort", [.cols ks] => (npLexsort ks).map (fun idx => SVal.ints (idx.map (fun (k : Nat) => (k : Int))))
  | "call", [.sortKeyFn self, .star (.pair (.str n) (.int d))] => (sortKeyCall kinds self n d).map SVal.col
  | ".sort", [.frame f, .kwargs (.dirs d)] => (sortFrame kinds f d).map SVal.frame
  -- the column primitives of the term `sort_key` returns
  | ".rank", [.col c, .pair (.str "method") (.str "min")] => some (.col (rankKey c))
  | "=method", [v] => some (.pair (.str "method") v)
  | "._optimize_for_argsort", [.col c] => some (.col c)
  | "~", [.col c] => some (.col (c.map (invertKey true)))
  | "neg", [.col c] => some (.col (c.map (invertKey false)))
  -- grouping
  | ".unique", [.frame f, .star (.strs l)] => (uniqueFrame f l).map SVal.frame
  | ".select", .frame f :: rest => (flatNames rest).bind (fun l => (selectFrame f l).map SVal.frame)
  | ".unselect", .frame f :: rest => (flatNames rest).map (fun l => SVal.frame (unselectFrame f l))
  | "._index_", [.frame f] => (colOf? f "_index_").map SVal.col
  | "._sorted_index_", [.frame f] => (colOf? f "_sorted_index_").map SVal.col
  | "np.split", [a, b] =>
    (match asInts a, asInts b with
     | some arr, some cuts => (natCuts cuts).map (fun cs => SVal.chunks (npSplit arr cs))
     | _, _ => none)
  | _, _ => none

/-- the names whose application is a special form of `evalS` (everything else: arguments, then `prim`). -/
def specialNames : List String := ["tuple()", "local-def", "._group_colnames"]

/-- a name: the constants, the two string literals of `aggregate`, else the binding of the environment. -/
def lookupSym (env : Env) : String → Option SVal
  | "True" => some (.bool true)
  | "False" => some (.bool false)
  | "None" => some .none
  | "'_index_'" => some (.str "_index_")
  | "'_group_'" => some (.str "_group_")
  | "'min'" => some (.str "min")
  | x => env.get? x

/-- bind a loop target (`x` or `(a, b)`) to an item. -/
def bindPat (env : Env) : Term → SVal → Option Env
  | .sym x, v => some ((x, v) :: env)
  | .app "tuple" [.sym a, .sym b], .pair x y => some ((b, y) :: (a, x) :: env)
  | _, _ => none

/-- run `step` over the items, threading the state; `none` as soon as a step fails (`DI.PyEval.loop` for `SVal`). -/
def loop {σ : Type} (step : σ → SVal → Option σ) : σ → List SVal → Option σ
  | s, [] => some s
  | s, v :: vs => match step s v with
    | none => none
    | some s' => loop step s' vs

/-! ### the evaluator -/

mutual

/-- expressions; `st`: the objects written to so far. -/
def evalS (kinds : String → ColKind) (st : Store) (env : Env) : Term → Option SVal
  | .int i => some (.int i)
  | .rows l => some (.ints l)
  | .slice a b => some (.slice a b)
  | .sym s => lookupSym env s
  | .app f args =>
    match st.find (.app f args) with
    | some v => some v                          -- an object that was written to: its current contents
    | none =>
      if specialNames.contains f then
        match f, args with
        -- `tuple(elem for pat in src)` of columns
        | "tuple()", [.app "GeneratorExp" [elem, .app "in" [pat, src, .app "if" []]]] =>
          (match evalS kinds st env src with
           | none => none
           | some s => match itemsOf s with
             | none => none
             | some xs =>
               (allSome (xs.map (fun x => match bindPat env pat x with
                 | none => none
                 | some env' => match evalS kinds st env' elem with
                   | some (.col c) => some c
                   | _ => none))).map SVal.cols)
        -- the local function `sort_key`: a closure over the receiver
        | "local-def", [.app "def" (.sym "sort_key" :: _)] =>
          (match env.get? "self" with
           | some (.frame self) => some (.sortKeyFn self)
           | _ => none)
        -- `self._group_colnames`: an attribute of the receiver that is not a column
        | "._group_colnames", [.sym "self"] => env.get? "self._group_colnames"
        | _, _ => none
      else
        match evalArgsS kinds st env args with
        | none => none
        | some vs => prim kinds f vs

def evalArgsS (kinds : String → ColKind) (st : Store) (env : Env) : List Term → Option (List SVal)
  | [] => some []
  | t :: ts => match evalS kinds st env t, evalArgsS kinds st env ts with
    | some v, some vs => some (v :: vs)
    | _, _ => none

/-- statements of a generator body: the environment and the pairs yielded so far are threaded through. -/
def execStmtS (kinds : String → ColKind) (st : Store) (env : Env) (out : Frame) : Term → Option (Flow × Env × Frame)
  | .sym "continue" => some (.cont, env, out)
  | .app "yield" [.app "tuple" [n, c]] =>
    match evalS kinds st env n, evalS kinds st env c with
    | some (.str n), some (.col c) => some (.next, env, out ++ [(n, c)])
    | _, _ => none
  | .app "assign" [.sym x, e] =>
    match evalS kinds st env e with
    | some v => some (.next, (x, v) :: env, out)
    | none => none
  | .app "if" [c, .app "block" a, .app "block" b] =>
    match evalS kinds st env c with
    | some (.bool true) => execBlockS kinds st env out a
    | some (.bool false) => execBlockS kinds st env out b
    | _ => none
  | .app "for" [pat, iter, .app "block" body] =>
    match (match evalS kinds st env iter with | some v => itemsOf v | none => none) with
    | none => none
    | some its =>
      match loop (fun (s : Env × Frame) it => match bindPat s.1 pat it with
          | none => none
          | some env' => match execBlockS kinds st env' s.2 body with
            | none => none
            | some r => some (r.2.1, r.2.2)) (env, out) its with
      | none => none
      | some s => some (.next, s.1, s.2)
  | _ => none

def execBlockS (kinds : String → ColKind) (st : Store) (env : Env) (out : Frame) : List Term → Option (Flow × Env × Frame)
  | [] => some (.next, env, out)
  | s :: ss => match execStmtS kinds st env out s with
    | none => none
    | some (.cont, env', out') => some (.cont, env', out')
    | some (.next, env', out') => execBlockS kinds st env' out' ss

end

/-- the pairs a generator body yields, in order. -/
def runBody (kinds : String → ColKind) (env : Env) : Out → Option Frame
  | .fall effs => match execBlockS kinds [] env [] effs with
    | some (.next, _, out) => some out
    | _ => none
  | _ => none

/-- one effect of a method body: `obj.attr = value` on a data frame.  Any other effect is outside the fragment. -/
def runEff (kinds : String → ColKind) (env : Env) (st : Store) : Term → Option Store
  | .app "setattr" [obj, .sym a, v] =>
    match evalS kinds st env obj, evalS kinds st env v with
    | some (.frame f), some val =>
      (match asCol val with
       | none => none
       | some c => (setCol f a c).map (fun f' => (obj, SVal.frame f') :: st))
    | _, _ => none
  | _ => none

/-- the effects in order. -/
def runEffs (kinds : String → ColKind) (env : Env) : Store → List Term → Option Store
  | st, [] => some st
  | st, e :: es => match runEff kinds env st e with
    | none => none
    | some st' => runEffs kinds env st' es

/-- the value a method body returns after its effects. -/
def runRet (kinds : String → ColKind) (env : Env) : Out → Option SVal
  | .ret effs t => match runEffs kinds env [] effs with
    | none => none
    | some st => evalS kinds st env t
  | _ => none

/-- the environment of a method call: the receiver and the named arguments. -/
def callEnv (self : Frame) (args : List (String × SVal)) : Env := ("self", .frame self) :: args

end DI.PyEvalS

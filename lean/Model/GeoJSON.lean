/-
  Model/GeoJSON.lean — `GeoJSON.write` as a token stream and `GeoJSON.read` at record level (C18).

  JSON values produced by `json.dumps` (member values, whole features) are opaque, already
  well-formed `blob`s; member names are `json.dumps(key)` strings.  What is dataiter's own is the
  hand-assembled skeleton: braces, the `"features"` member, brackets and — above all — commas.
-/
import Model.ReadRestrict

namespace DI.Geo

inductive Tok where
  | lbrace | rbrace | lbrack | rbrack | colon | comma
  | str (s : String)          -- a JSON string token (a member name)
  | blob (v : String)         -- a complete JSON value as produced by json.dumps
  deriving Repr, DecidableEq

/-- `for i, item in enumerate(data): ... comma = "," if i < len(data) - 1 else ""`, started at
    index `k` with the bound `n = len(data) - 1`. -/
def featTokensFrom (k n : Nat) : List String → List Tok
  | [] => []
  | f :: rest => Tok.blob f :: ((if k < n then [Tok.comma] else []) ++ featTokensFrom (k + 1) n rest)

def featTokens (feats : List String) : List Tok := featTokensFrom 0 (feats.length - 1) feats

/-- `GeoJSON.write`: `{`, every metadata member followed by a comma, `"features": [`, the
    features, `]`, `}`. -/
def writeTokens (metadata : List (String × String)) (feats : List String) : List Tok :=
  [Tok.lbrace] ++ metadata.flatMap (fun (k, v) => [Tok.str k, Tok.colon, Tok.blob v, Tok.comma]) ++
  [Tok.str "\"features\"", Tok.colon, Tok.lbrack] ++ featTokens feats ++ [Tok.rbrack, Tok.rbrace]

/-- a JSON member value: an opaque value or an array of opaque values. -/
inductive Val where
  | blob (v : String)
  | arr (vs : List String)
  deriving Repr, DecidableEq

/-- grammar of a comma-separated, non-empty list of array elements. -/
inductive Elems : List Tok → List String → Prop where
  | one (v : String) : Elems [Tok.blob v] [v]
  | cons (v : String) (ts : List Tok) (vs : List String) : Elems ts vs → Elems (Tok.blob v :: Tok.comma :: ts) (v :: vs)

/-- grammar of a JSON value (as far as the writer produces them). -/
inductive Value : List Tok → Val → Prop where
  | blob (v : String) : Value [Tok.blob v] (Val.blob v)
  | emptyArr : Value [Tok.lbrack, Tok.rbrack] (Val.arr [])
  | arr (ts : List Tok) (vs : List String) : Elems ts vs → Value (Tok.lbrack :: ts ++ [Tok.rbrack]) (Val.arr vs)

/-- grammar of a comma-separated, non-empty member list (no trailing comma). -/
inductive Members : List Tok → List (String × Val) → Prop where
  | one (k : String) (ts : List Tok) (v : Val) : Value ts v → Members (Tok.str k :: Tok.colon :: ts) [(k, v)]
  | cons (k : String) (ts : List Tok) (v : Val) (rest : List Tok) (ms : List (String × Val)) :
      Value ts v → Members rest ms → Members (Tok.str k :: Tok.colon :: ts ++ Tok.comma :: rest) ((k, v) :: ms)

/-- a JSON object with exactly these members, in this order. -/
inductive Object : List Tok → List (String × Val) → Prop where
  | mk (ts : List Tok) (ms : List (String × Val)) : Members ts ms → Object (Tok.lbrace :: ts ++ [Tok.rbrace]) ms

/-! ### read -/

/-- a feature: its properties and its geometry (opaque). -/
structure Feature where
  props : Read.Rec String
  geometry : String
  deriving Repr, DecidableEq

/-- `GeoJSON.read`: property columns (first-seen union, optional restriction, None where a feature
    lacks the key) and the geometry column. -/
def readColumns (feats : List Feature) (columns : List String) : List (String × List (Option String)) × List String :=
  (Read.frameFromRecords (feats.map (·.props)) columns, feats.map (·.geometry))

/-- `del raw.features; data.metadata = raw`. -/
def readMetadata (members : List (String × String)) : List (String × String) :=
  members.filter (fun m => m.1 != "features")

end DI.Geo

/-
  Model/LoD.lean — ListOfDicts (dataiter/list_of_dicts.py): transformations (C15) and
  joins / aggregate (C16) on lists of tagged dicts.

  An item is an `AttributeDict` object: its identity is `tag`, its content an association
  list in insertion order.  Values: None, integers, strings (what the harness generates).
-/
import Model.Basic

namespace DI.LoD

inductive Val where
  | none
  | i (v : Int)
  | s (v : String)
  deriving DecidableEq, Repr, Inhabited

abbrev Dict := List (String × Val)

structure Item where
  tag : Nat
  kv : Dict
  deriving DecidableEq, Repr, Inhabited

/-! ### dict primitives (Python dict semantics, insertion order) -/

def Dict.get? (d : Dict) (k : String) : Option Val :=
  (d.find? (fun p => p.1 == k)).map (·.2)

def Dict.has (d : Dict) (k : String) : Bool := d.any (fun p => p.1 == k)

/-- `d[k] = v`: an existing key keeps its position, a new key is appended. -/
def Dict.set (d : Dict) (k : String) (v : Val) : Dict :=
  if d.has k then d.map (fun p => if p.1 == k then (k, v) else p) else d ++ [(k, v)]

def Dict.del (d : Dict) (k : String) : Dict := d.filter (fun p => p.1 != k)

/-- `dict(pairs)`. -/
def Dict.ofPairs (ps : List (String × Val)) : Dict := ps.foldl (fun d p => d.set p.1 p.2) []

/-- `d.update(other)`. -/
def Dict.update (d : Dict) (o : Dict) : Dict := o.foldl (fun d p => d.set p.1 p.2) d

/-- `operator.itemgetter(*keys)(item)` (every key is present in all uses). -/
def extract (keys : List String) (it : Item) : List Val :=
  keys.map (fun k => (it.kv.get? k).getD .none)

/-! ### C15: transformations -/

def filterMask (xs : List Item) (mask : List Bool) : List Item :=
  (xs.zip mask).filterMap (fun p => if p.2 then some p.1 else none)

def filterOutMask (xs : List Item) (mask : List Bool) : List Item :=
  (xs.zip mask).filterMap (fun p => if p.2 then none else some p.1)

/-- `filter(**key_value_pairs)`: `extract(item) == values`. -/
def filterKv (xs : List Item) (kvs : List (String × Val)) : List Item :=
  xs.filter (fun it => extract (kvs.map (·.1)) it == kvs.map (·.2))

def filterOutKv (xs : List Item) (kvs : List (String × Val)) : List Item :=
  xs.filter (fun it => extract (kvs.map (·.1)) it != kvs.map (·.2))

/-- order of values inside one kind (ints numerically, strings by code point). -/
def Val.le : Val → Val → Bool
  | .none, _ => true
  | _, .none => false
  | .i a, .i b => a ≤ b
  | .s a, .s b => a ≤ b
  | .i _, .s _ => true
  | .s _, .i _ => false

/-- Python comparison of the sort keys `(item[key] is None, item[key])` (ascending pass) and
    `(item[key] is not None, item[key])` (descending pass, used with `reverse=True`). -/
def passLe (desc : Bool) (a b : Val) : Bool :=
  let fa := if desc then a != .none else a == .none
  let fb := if desc then b != .none else b == .none
  if fa == fb then (if a == .none then true else Val.le a b) else (!fa && fb)

/-- one pass of `sorted(data, key=sort_key, reverse=dir < 0)`. -/
def sortPass (xs : List Item) (key : String) (desc : Bool) : List Item :=
  let vals := xs.map (fun it => (it.kv.get? key).getD .none)
  gather xs (argsortPy (passLe desc) desc vals)

/-- `sort(**key_dir_pairs)`: one stable pass per key, last key first. -/
def sort (xs : List Item) (keys : List (String × Bool)) : List Item :=
  keys.reverse.foldl (fun acc k => sortPass acc k.1 k.2) xs

/-- `unique(*keys)`: first item per key combination. -/
def uniqueScan : List Item → List String → List (List Val) → List Item
  | [], _, _ => []
  | it :: rest, keys, seen =>
    let id := extract keys it
    if seen.contains id then uniqueScan rest keys seen
    else it :: uniqueScan rest keys (id :: seen)

def unique (xs : List Item) (keys : List String) : List Item := uniqueScan xs keys []

/-- `select(*keys)`: new dicts `{x: item[x] for x in keys if x in item}`; `freshTags` are the
    identities of the new objects. -/
def select (xs : List Item) (keys : List String) (fresh : List Nat) : List Item :=
  (xs.zip fresh).map (fun p =>
    { tag := p.2, kv := keys.filterMap (fun k => (p.1.kv.get? k).map (fun v => (k, v))) |> Dict.ofPairs })

/-- `unselect(*keys)`: keys deleted in place. -/
def unselect (xs : List Item) (keys : List String) : List Item :=
  xs.map (fun it => { it with kv := keys.foldl (fun d k => d.del k) it.kv })

/-- `rename(**to_from)`: `renames = {from: to}` (later pair wins), new dicts from
    `zip(renamed keys, values)`. -/
def rename (xs : List Item) (toFrom : List (String × String)) (fresh : List Nat) : List Item :=
  let renames : List (String × String) := toFrom.foldl (fun acc p =>
      if acc.any (fun q => q.1 == p.2) then acc.map (fun q => if q.1 == p.2 then (p.2, p.1) else q)
      else acc ++ [(p.2, p.1)]) []
  (xs.zip fresh).map (fun p =>
    { tag := p.2, kv := Dict.ofPairs (p.1.kv.map (fun e =>
        (((renames.find? (fun q => q.1 == e.1)).map (·.2)).getD e.1, e.2))) })

/-- `modify(key=function)`: `item[key] = function(item)`, the values computed by Python. -/
def modify (xs : List Item) (key : String) (vals : List Val) : List Item :=
  (xs.zip vals).map (fun p => { p.1 with kv := p.1.kv.set key p.2 })

def modifyIf (xs : List Item) (mask : List Bool) (key : String) (vals : List Val) : List Item :=
  ((xs.zip mask).zip vals).map (fun p =>
    if p.1.2 then { p.1.1 with kv := p.1.1.kv.set key p.2 } else p.1.1)

/-- `fill_missing_keys(**kv)`: only keys not yet in the item are added. -/
def fillMissing (xs : List Item) (kvs : List (String × Val)) : List Item :=
  xs.map (fun it => { it with kv := kvs.foldl (fun d p => if d.has p.1 then d else d.set p.1 p.2) it.kv })

/-- all keys in first-seen order: `ListOfDicts.keys()`. -/
def allKeys (xs : List Item) : List String :=
  (xs.flatMap (fun it => it.kv.map (·.1))).foldl (fun acc k => if acc.contains k then acc else acc ++ [k]) []

def fillMissingAll (xs : List Item) : List Item :=
  fillMissing xs ((allKeys xs).map (fun k => (k, Val.none)))

/-! list operations -/

def append (xs : List Item) (it : Item) : List Item := xs ++ [it]
def extend (xs ys : List Item) : List Item := xs ++ ys
def add (xs ys : List Item) : List Item := xs ++ ys
def mul (xs : List Item) (n : Nat) : List Item := (List.replicate n xs).flatten
def reverse (xs : List Item) : List Item := xs.reverse

/-- `items = list(self); items.insert(index, item)`: Python clamps the index to `[0, len]`
    after wrapping negative ones. -/
def insertPos (len : Nat) (index : Int) : Nat :=
  if index < 0 then (if index + len < 0 then 0 else (index + len).toNat)
  else min index.toNat len

def insert (xs : List Item) (index : Int) (it : Item) : List Item :=
  let p := insertPos xs.length index
  xs.take p ++ [it] ++ xs.drop p

/-- `head(n)`: `self[:min(len, n)]`. -/
def head (xs : List Item) (n : Nat) : List Item := xs.take (min xs.length n)

/-- `tail(n)`: `self[len - min(len, n):]`. -/
def tail (xs : List Item) (n : Nat) : List Item := xs.drop (xs.length - min xs.length n)

/-- `self[a:b]` for `0 ≤ a`, `0 ≤ b`. -/
def slice (xs : List Item) (a b : Nat) : List Item := (xs.drop a).take (b - a)

/-! ### C16: joins and aggregate -/

/-- `{extract2(x): x for x in reversed(other)}` then `.get(id)`: the *first* item of `other`
    with that key (the dict is built back to front, so the earliest item is written last). -/
def lookupRev (other : List Item) (by2 : List String) (id : List Val) : Option Item :=
  -- dict built from the reversed list: later writes win
  other.reverse.foldl (fun acc x => if extract by2 x == id then some x else acc) none

def nonKey (d : Dict) (by2 : List String) : Dict := d.filter (fun p => !by2.contains p.1)

/-- `left_join`: every left item, updated in place with the non-key entries of its match. -/
def leftJoin (xs other : List Item) (by1 by2 : List String) : List Item :=
  xs.map (fun it =>
    match lookupRev other by2 (extract by1 it) with
    | some m => { it with kv := it.kv.update (nonKey m.kv by2) }
    | none => it)

def innerJoin (xs other : List Item) (by1 by2 : List String) : List Item :=
  xs.filterMap (fun it =>
    match lookupRev other by2 (extract by1 it) with
    | some m => some { it with kv := it.kv.update (nonKey m.kv by2) }
    | none => none)

def semiJoin (xs other : List Item) (by1 by2 : List String) : List Item :=
  xs.filter (fun it => (other.map (extract by2)).contains (extract by1 it))

def antiJoin (xs other : List Item) (by1 by2 : List String) : List Item :=
  xs.filter (fun it => !(other.map (extract by2)).contains (extract by1 it))

/-- source tags of a full join row: (left tag, right tag). -/
structure Pair where
  l : Option Nat
  r : Option Nat
  kv : Dict
  deriving DecidableEq, Repr, Inhabited

def leOptNat : Option Nat → Option Nat → Bool
  | none, _ => true
  | some _, none => false
  | some a, some b => a ≤ b

/-- `full_join` as written: ids `_aid_` (1..) / `_bid_` (1..), left join of deep copies,
    bogus `_bid_` (len(b)+1) for unmatched left items, right items whose `_bid_` is unused,
    their left join with `a` by the reversed keys, bogus `_aid_`, `(ab + ba).sort(_aid_, _bid_)`.
    Positions stand for the ids; the result carries the source positions of every row.
    The two lookups are written with `find?` (first match): by `C16.reversed_dict_first`
    that is what the reversed-dict lookup of `left_join` returns. -/
def fullJoin (xs other : List Item) (by1 by2 : List String) : List Pair :=
  let ab : List Pair := xs.zipIdx.map (fun (it, i) =>
    match (other.zipIdx.find? (fun q => extract by2 q.1 == extract by1 it)) with
    | some (m, j) => { l := some i, r := some j, kv := it.kv.update (nonKey m.kv by2) }
    | none => { l := some i, r := none, kv := it.kv })
  let used := ab.filterMap (·.r)
  let rest := other.zipIdx.filter (fun q => !used.contains q.2)
  if rest.isEmpty then ab else
  let ba : List Pair := rest.map (fun (it, j) =>
    match (xs.zipIdx.find? (fun q => extract by1 q.1 == extract by2 it)) with
    | some (m, i) => { l := some i, r := some j, kv := it.kv.update (nonKey m.kv by1) }
    | none => { l := none, r := some j, kv := it.kv })
  -- sort(_aid_=1, _bid_=1): bogus ids are larger than every real id, i.e. `none` last
  let le (p q : Pair) : Bool :=
    let key (o : Option Nat) : Nat × Nat := match o with | some v => (0, v) | none => (1, 0)
    let (a1, a2) := key p.l; let (b1, b2) := key q.l
    let (c1, c2) := key p.r; let (d1, d2) := key q.r
    if (a1, a2) == (b1, b2) then (c1 < d1 || (c1 == d1 && c2 ≤ d2)) else (a1 < b1 || (a1 == b1 && a2 ≤ b2))
  let all := ab ++ ba
  gather all (argsort le all)

/-- `aggregate`: one group per distinct key combination, ordered by the keys with None last,
    each listing its items (by tag) in original order. -/
def aggregate (xs : List Item) (keys : List String) : List (List Val × List Nat) :=
  let groups := unique xs keys                     -- first item of each key combination
  let sorted := sort (groups.map (fun it => { it with kv := (keys.map (fun k => (k, (it.kv.get? k).getD .none))) }))
                  (keys.map (fun k => (k, false)))
  sorted.map (fun g =>
    let id := extract keys g
    (id, (xs.filter (fun it => extract keys it == id)).map (·.tag)))

end DI.LoD

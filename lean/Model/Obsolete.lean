/-
  Model/Obsolete.lean — the shared-dict discipline of ListOfDicts (C17) as a state machine.

  World: every ListOfDicts object ever created (index = its id) with the identities of the
  dict objects it holds, its `_predecessor`, `_obsolete`, `_obsolete_warned`; and a version
  counter per dict object that is bumped whenever a method writes into that dict.
-/
namespace DI.Obs

structure LObj where
  items : List Nat          -- identities of the item dicts, in order
  pred : Option Nat         -- `_predecessor`
  obsolete : Bool
  warned : Bool
  deriving Repr, DecidableEq, Inhabited

structure World where
  lists : List LObj
  vers : List Nat           -- version of dict object d = vers[d]
  deriving Repr, DecidableEq, Inhabited

inductive Op where
  /-- a non-modifying method on list `r` returning a new list through `_new` that holds the
      item objects at positions `keep` of `r` (filter, sort, unique, head, tail, slicing, copy,
      reverse, sample, semi/anti join) followed by `extra` brand-new dicts (append, extend, +). -/
  | derive (r : Nat) (keep : List Nat) (extra : Nat)
  /-- an `@obsoletes` method that edits the items at positions `keep` in place and returns them
      (modify, modify_if, unselect, fill_missing_keys, left_join, inner_join). -/
  | editInPlace (r : Nat) (keep : List Nat)
  /-- an `@obsoletes` method that returns brand-new dicts (rename, select). -/
  | editFresh (r : Nat)
  /-- `deepcopy`: fresh dicts, no predecessor. -/
  | deepcopy (r : Nat)
  /-- any other attribute access that yields a callable (e.g. `r.pluck`). -/
  | use (r : Nat)
  /-- the user writes into the item at position `pos` of `r` directly (`r[pos]["k"] = v`, or
      into a nested value of it): `list.__getitem__` is not a callable attribute, no warning. -/
  | poke (r : Nat) (pos : Nat)
  deriving Repr, DecidableEq

def init (n : Nat) : World :=
  { lists := [{ items := List.range n, pred := none, obsolete := false, warned := false }],
    vers := List.replicate n 0 }

/-- `__getattribute__`: the warning is printed iff obsolete and not yet warned. -/
def touch (w : World) (r : Nat) : World × Bool :=
  match w.lists[r]? with
  | none => (w, false)
  | some l =>
    if l.obsolete && !l.warned then
      ({ w with lists := w.lists.set r { l with warned := true } }, true)
    else (w, false)

/-- `_mark_obsolete`: the receiver and every list on its `_predecessor` chain (fuel = number of
    lists; the chain is acyclic because predecessors are always older objects). -/
def markChain : Nat → List LObj → Nat → List LObj
  | 0, ls, _ => ls
  | fuel + 1, ls, r =>
    match ls[r]? with
    | none => ls
    | some l =>
      let ls' := match l.pred with
        | some p => markChain fuel ls p
        | none => ls
      match ls'[r]? with
      | none => ls'
      | some l' => ls'.set r { l' with obsolete := true }

def pick (items : List Nat) (keep : List Nat) : List Nat := keep.filterMap (fun i => items[i]?)

def bump (vers : List Nat) (ds : List Nat) : List Nat :=
  vers.zipIdx.map (fun (v, i) => if ds.contains i then v + 1 else v)

/-- one call; returns the new world and whether the warning was printed. -/
def step (w : World) (op : Op) : World × Bool :=
  match op with
  | .use r => touch w r
  | .poke r pos =>
    match w.lists[r]? with
    | none => (w, false)
    | some l => ({ w with vers := bump w.vers (pick l.items [pos]) }, false)
  | .derive r keep extra =>
    let (w1, warn) := touch w r
    match w1.lists[r]? with
    | none => (w1, warn)
    | some l =>
      let nd := w1.vers.length
      let new : LObj := { items := pick l.items keep ++ (List.range extra).map (· + nd), pred := some r,
                          obsolete := false, warned := false }
      ({ lists := w1.lists ++ [new], vers := w1.vers ++ List.replicate extra 0 }, warn)
  | .editInPlace r keep =>
    let (w1, warn) := touch w r
    match w1.lists[r]? with
    | none => (w1, warn)
    | some l =>
      let its := pick l.items keep
      let new : LObj := { items := its, pred := some r, obsolete := false, warned := false }
      let ls := markChain (w1.lists.length) w1.lists r
      ({ lists := ls ++ [new], vers := bump w1.vers its }, warn)
  | .editFresh r =>
    let (w1, warn) := touch w r
    match w1.lists[r]? with
    | none => (w1, warn)
    | some l =>
      let nd := w1.vers.length
      let k := l.items.length
      let new : LObj := { items := (List.range k).map (· + nd), pred := some r, obsolete := false, warned := false }
      let ls := markChain (w1.lists.length) w1.lists r
      ({ lists := ls ++ [new], vers := w1.vers ++ List.replicate k 0 }, warn)
  | .deepcopy r =>
    let (w1, warn) := touch w r
    match w1.lists[r]? with
    | none => (w1, warn)
    | some l =>
      let nd := w1.vers.length
      let k := l.items.length
      let new : LObj := { items := (List.range k).map (· + nd), pred := none, obsolete := false, warned := false }
      ({ lists := w1.lists ++ [new], vers := w1.vers ++ List.replicate k 0 }, warn)

/-- run a history, collecting per step (warning printed?, world after the step). -/
def run (w : World) : List Op → List (Bool × World)
  | [] => []
  | op :: ops =>
    let (w', warn) := step w op
    (warn, w') :: run w' ops

/-- the `_predecessor` chain of `r` (including `r`). -/
def chain : Nat → List LObj → Nat → List Nat
  | 0, _, _ => []
  | fuel + 1, ls, r =>
    match ls[r]? with
    | none => []
    | some l => r :: (match l.pred with | some p => chain fuel ls p | none => [])

end DI.Obs

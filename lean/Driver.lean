import Driver.Main

import Generated.HelperTable
import Generated.IoAliases

import Generated.HelperTable
import Generated.IoAliases
import Generated.IoSites
import Generated.ProxyTable
import Generated.Sites

import Proofs.C11

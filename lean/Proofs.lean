import Proofs.C02
import Proofs.C03
import Proofs.C04
import Proofs.C05
import Proofs.C11

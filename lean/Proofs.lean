import Proofs.C02
import Proofs.C03
import Proofs.C04
import Proofs.C05
import Proofs.C11
import Proofs.C15
import Proofs.C16
import Proofs.C17

import Lemmas.Sort
import Lemmas.Key
import Lemmas.Vector
import Lemmas.Rank
import Lemmas.Frame
import Lemmas.DfSort
import Lemmas.Group

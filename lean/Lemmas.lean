import Lemmas.Sort
import Lemmas.Key
import Lemmas.Vector
import Lemmas.Rank

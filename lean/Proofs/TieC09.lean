/-
  Proofs/TieC09.lean — obligations over `Generated/CodeC09.lean`, the translation of the *current* source of the generator
  bodies of `select`, `unselect`, `rename`, `cbind` and `update`: which columns are yielded, under which name, in which
  order — and that every yielded column is a `.copy()` of a whole column (never a part of one, never re-ordered rows).
-/
import Generated.CodeC09

namespace DI.Tie.C09

open DI.Py DI.Gen

def ownCopy (name : Term) : Term := Term.app ".copy" [Term.app "getitem" [Term.sym "self", name]]

/-- select: the REQUESTED names in the REQUESTED order, each with a copy of the whole column of that name. -/
theorem select_code (truth : Term → Bool) :
    DataFrame_select truth = Out.fall [Term.app "for" [Term.sym "colname", Term.sym "colnames",
      Term.app "block" [Term.app "yield" [Term.app "tuple" [Term.sym "colname", ownCopy (Term.sym "colname")]]]]] := rfl

/-- unselect: the receiver's columns in their own order, skipping exactly the names given (membership in the argument
    tuple: a name is a key, not a pattern); the others whole. -/
theorem unselect_code (truth : Term → Bool) :
    DataFrame_unselect truth = Out.fall [Term.app "for" [Term.sym "colname", Term.app ".colnames" [Term.sym "self"],
      Term.app "block" [Term.app "if" [Term.app "NotIn" [Term.sym "colname", Term.sym "colnames"],
        Term.app "block" [Term.app "yield" [Term.app "tuple" [Term.sym "colname", ownCopy (Term.sym "colname")]]],
        Term.app "block" []]]]] := rfl

/-- rename: the receiver's columns in their own order; each whole column under `from_to.get(name, name)`, where `from_to`
    inverts the `to=from` keyword pairs (all pairs at once, so swaps are honoured). -/
theorem rename_code (truth : Term → Bool) :
    DataFrame_rename truth =
      let fromTo := Term.app "DictComp" [Term.app "pair" [Term.sym "v", Term.sym "k"],
        Term.app "in" [Term.app "tuple" [Term.sym "k", Term.sym "v"], Term.app ".items" [Term.sym "to_from_pairs"], Term.app "if" []]]
      Out.fall [Term.app "for" [Term.sym "fm", Term.app ".colnames" [Term.sym "self"],
        Term.app "block" [Term.app "assign" [Term.sym "to", Term.app ".get" [fromTo, Term.sym "fm", Term.sym "fm"]],
          Term.app "yield" [Term.app "tuple" [Term.sym "to", ownCopy (Term.sym "fm")]]]]] := rfl

/-- cbind: frames in argument order (receiver first), columns in each frame's order; a name seen before is skipped (the
    first of duplicate names is kept); every kept column is reconciled to the receiver's row count and copied. -/
theorem cbind_code (truth : Term → Bool) :
    DataFrame_cbind truth =
      let seen := Term.app "set()" []
      Out.fall [Term.app "for" [Term.app "tuple" [Term.sym "i", Term.sym "data"],
        Term.app "enumerate" [Term.app "Add" [Term.app "list" [Term.sym "self"], Term.app "list()" [Term.sym "others"]]],
        Term.app "block" [Term.app "for" [Term.app "tuple" [Term.sym "colname", Term.sym "column"], Term.app ".items" [Term.sym "data"],
          Term.app "block" [Term.app "if" [Term.app "In" [Term.sym "colname", seen], Term.app "block" [Term.sym "continue"], Term.app "block" []],
            Term.app ".add" [seen, Term.sym "colname"],
            Term.app "assign" [Term.sym "column", Term.app "._reconcile_column" [Term.sym "self", Term.sym "column"]],
            Term.app "yield" [Term.app "tuple" [Term.sym "colname", Term.app ".copy" [Term.sym "column"]]]]]]]] := rfl

/-- update: first the receiver's columns that `other` does not have (whole, own order), then all of `other`'s columns,
    reconciled to the receiver's row count and copied. -/
theorem update_code (truth : Term → Bool) :
    DataFrame_update truth = Out.fall
      [Term.app "for" [Term.app "tuple" [Term.sym "colname", Term.sym "column"], Term.app ".items" [Term.sym "self"],
        Term.app "block" [Term.app "if" [Term.app "In" [Term.sym "colname", Term.sym "other"], Term.app "block" [Term.sym "continue"], Term.app "block" []],
          Term.app "yield" [Term.app "tuple" [Term.sym "colname", Term.app ".copy" [Term.sym "column"]]]]],
       Term.app "for" [Term.app "tuple" [Term.sym "colname", Term.sym "column"], Term.app ".items" [Term.sym "other"],
        Term.app "block" [Term.app "assign" [Term.sym "column", Term.app "._reconcile_column" [Term.sym "self", Term.sym "column"]],
          Term.app "yield" [Term.app "tuple" [Term.sym "colname", Term.app ".copy" [Term.sym "column"]]]]]] := rfl

/-- signatures: `rename(**to_from_pairs)` takes the NEW column names as keyword names; select / unselect / cbind take
    names and frames positionally. -/
theorem reshaping_signatures :
    DataFrame_rename_signature = ["self", "**to_from_pairs"] ∧ DataFrame_select_signature = ["self", "*colnames"] ∧
    DataFrame_unselect_signature = ["self", "*colnames"] ∧ DataFrame_cbind_signature = ["self", "*others"] ∧
    DataFrame_update_signature = ["self", "other"] :=
  ⟨rfl, rfl, rfl, rfl, rfl⟩

/-! ### evaluation order -/

/-- `update` yields the receiver's kept columns before it reconciles `other`'s; `cbind` records a name as found before the
    column is reconciled and copied. -/
theorem bind_call_order :
    DataFrame_update_call_order = ["self.items", "column.copy", "other.items", "self._reconcile_column", "column.copy"] ∧
    DataFrame_cbind_call_order = ["set", "list", "enumerate", "data.items", "found_colnames.add", "self._reconcile_column", "column.copy"] := ⟨rfl, rfl⟩

end DI.Tie.C09

/-
  Proofs/EvalC04b.lean — the TRUSTED READING `frame.unique(*cols) = uniqueFrame` of `Model/PyEvalSort.lean` (used by
  `Eval.C04.split_eval` and `Eval.C04.aggregate_groups_eval`) discharged: the regenerated body of `DataFrame.unique`
  (`Generated/CodeC02.lean`) is EVALUATED (`Model/PyEvalKeys.lean`, `Eval.C02.unique_eval`) and what it evaluates to is exactly
  the value that primitive returns.

  * `unique_primitive_justified`     for every rectangular frame and every list of names that are columns of it: the
                                     primitive `.unique` of the sort / grouping evaluator = the evaluated regenerated body;
  * `split_unique_justified`         the one call `sorted.unique(*by)` of `split` (on the sorted, numbered key frame
                                     `splitS2`): the evaluated body yields that frame at the model's group starts `splitStarts`;
  * `aggregate_unique_justified`     the one call `data.unique(*group_colnames)` of `aggregate` (on the sorted, numbered
                                     frame `aggD1`): likewise.

  Statements only; the proofs cite `Lemmas/PyEvalKeys.lean` / `Lemmas/PyEvalSort.lean`.
-/
import Generated.CodeC02
import Proofs.EvalC04
import Proofs.EvalC02b
import Lemmas.PyEvalKeys

namespace DI.Eval.C04

open DI DI.Py DI.Gen DI.PyEvalS
open DI.PyEval (Frame nrow names colOf colOf? Rect wholeRows)
open DI.PyEvalKeys (DT)

/-- **the primitive `frame.unique(*cols)` of the sort / grouping evaluator is the value of the regenerated body of
    `unique`**, for every rectangular frame, all dtypes `dt`, every `cast`. -/
theorem unique_primitive_justified (truth : Term → Bool) (cast : DT → DT → List Cell → List Cell)
    (kinds : String → ColKind) (f : Frame) (dt : String → DT) (cols : List String)
    (hnames : ∀ c ∈ cols, c ∈ names f) (hrect : Rect f) :
    prim kinds ".unique" [.frame f, .star (.strs cols)] =
      (DI.PyEvalKeys.runBody cast (DI.PyEvalKeys.callEnv f dt [("colnames", .strs cols)]) (DataFrame_unique truth)).map
        SVal.frame := by
  rw [← DI.Eval.C02.unique_primitive_justified truth cast f dt cols hnames hrect]
  rfl

/-- **split**: the call `sorted.unique(*by)` — the regenerated body of `unique`, evaluated on the sorted key frame
    `splitS2` (key columns, `_index_`, `_sorted_index_`), yields that frame at the model's group starts, which is what
    `split_eval` used. -/
theorem split_unique_justified (truth : Term → Bool) (cast : DT → DT → List Cell → List Cell)
    (kinds : String → ColKind) (env : Env) (self : Frame) (bys : List String) (dt : String → DT)
    (h : SplitCtx env self bys) :
    DI.PyEvalKeys.runBody cast (DI.PyEvalKeys.callEnv (splitS2 kinds self bys) dt [("colnames", .strs bys)])
        (DataFrame_unique truth) =
      some (wholeRows (splitS2 kinds self bys) (splitStarts kinds self bys)) ∧
    prim kinds ".unique" [.frame (splitS2 kinds self bys), .star (.strs bys)] =
      some (.frame (wholeRows (splitS2 kinds self bys) (splitStarts kinds self bys))) := by
  obtain ⟨hn1, _, hc, _, _⟩ := s2_facts (kinds := kinds) h
  have hnames : ∀ b ∈ bys, b ∈ names (splitS2 kinds self bys) := fun b hb => mem_names_of_colOf? (hc b hb)
  have hrect : Rect (splitS2 kinds self bys) := by
    unfold splitS2
    exact rect_dictPut (rect_takeRows _ _) _ _ (by rw [idxCol_length, hn1]; simp)
  have hu := unique_s2 (kinds := kinds) h
  rw [DI.PyEvalX.takeRows_eq_wholeRows] at hu
  refine ⟨?_, ?_⟩
  · rw [← DI.Eval.C02.unique_primitive_justified truth cast _ dt bys hnames hrect, hu]
  · show (DI.PyEvalX.uniqueFrame (splitS2 kinds self bys) bys).map SVal.frame = _
    rw [hu]; rfl

/-- **aggregate**: the call `data.unique(*self._group_colnames)` — the regenerated body of `unique`, evaluated on the sorted,
    numbered frame `aggD1`, yields that frame at the model's group starts, which is what `aggregate_groups_eval` used. -/
theorem aggregate_unique_justified (truth : Term → Bool) (cast : DT → DT → List Cell → List Cell)
    (kinds : String → ColKind) (env : Env) (self : Frame) (bys : List String) (dt : String → DT)
    (h : AggCtx env self bys) :
    DI.PyEvalKeys.runBody cast (DI.PyEvalKeys.callEnv (aggD1 kinds self bys) dt [("colnames", .strs bys)])
        (DataFrame_unique truth) =
      some (wholeRows (aggD1 kinds self bys) (splitStarts kinds self bys)) ∧
    prim kinds ".unique" [.frame (aggD1 kinds self bys), .star (.strs bys)] =
      some (.frame (wholeRows (aggD1 kinds self bys) (splitStarts kinds self bys))) := by
  obtain ⟨hn0, _, hc, _⟩ := d1_facts (kinds := kinds) h
  have hnames : ∀ b ∈ bys, b ∈ names (aggD1 kinds self bys) := fun b hb => mem_names_of_colOf? (hc b hb)
  have hrect : Rect (aggD1 kinds self bys) := by
    unfold aggD1
    exact rect_dictPut (rect_takeRows _ _) _ _ (by rw [idxCol_length, hn0]; simp)
  have hu := unique_d1 (kinds := kinds) h
  rw [DI.PyEvalX.takeRows_eq_wholeRows] at hu
  refine ⟨?_, ?_⟩
  · rw [← DI.Eval.C02.unique_primitive_justified truth cast _ dt bys hnames hrect, hu]
  · show (DI.PyEvalX.uniqueFrame (aggD1 kinds self bys) bys).map SVal.frame = _
    rw [hu]; rfl

/-! ### non-vacuity: the frame of `Proofs/EvalC03.lean` sorted by `x` has the keys 1, 1, 2, 3, 3 — group starts 0, 2, 3 -/

example : uniqueIdx 5 [[some (.i 1), some (.i 1), some (.i 2), some (.i 3), some (.i 3)]] = [0, 2, 3] := by decide

example : DI.PyEvalKeys.runBody (fun _ _ c => c)
    (DI.PyEvalKeys.callEnv [("x", [some (.i 1), some (.i 1), some (.i 2), some (.i 3), some (.i 3)]),
        ("_index_", [some (.i 1), some (.i 3), some (.i 2), some (.i 0), some (.i 4)])] (fun _ => ⟨.other, 0⟩)
      [("colnames", .strs ["x"])]) (DataFrame_unique (fun _ => false)) =
    some [("x", [some (.i 1), some (.i 2), some (.i 3)]), ("_index_", [some (.i 1), some (.i 2), some (.i 0)])] := by
  decide +kernel

end DI.Eval.C04

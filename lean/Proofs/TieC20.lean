/-
  Proofs/TieC20.lean — obligation over `Generated/CodeC20.lean`, the translation of the *current* source
  of `util.ulen`: the display width is `wcswidth(string)`, and 0 when wcwidth reports a non-printable
  string (-1) — the `ulen` the rendering model (`Model/Render.lean`) takes as its width function is
  therefore never negative, which is what the padding arithmetic of the layout theorems relies on.
-/
import Generated.CodeC20
import Lemmas.PyCore

namespace DI.Tie.C20

open DI.Py DI.Gen

theorem ulen_refines (truth : Term → Bool) (w : Int) :
    util_ulen truth w = Out.ret [] (Term.int (max w 0)) := by
  unfold util_ulen
  by_cases h : w ≥ 0
  · have : max w 0 = w := by omega
    simp [h, this]
  · have : max w 0 = 0 := by omega
    simp [h, this]

theorem ulen_nonneg (truth : Term → Bool) (w : Int) :
    ∃ v : Int, util_ulen truth w = Out.ret [] (Term.int v) ∧ 0 ≤ v :=
  ⟨max w 0, ulen_refines truth w, by omega⟩

/-- **upad as written**: the target width is the greatest DISPLAY width (`ulen`) of the strings; each string gets
    `width - ulen(value)` spaces (computed per string with `ulen`, never with `len` or `str.ljust`), in front for right
    alignment, behind otherwise — `Render.upad`. -/
theorem upad_code (truth : Term → Bool) :
    util_upad truth =
      let width := Term.app "max" [Term.app "GeneratorExp" [Term.app "ulen" [Term.sym "x"], Term.app "in" [Term.sym "x", Term.sym "strings", Term.app "if" []]]]
      Out.fall [Term.app "for" [Term.sym "value", Term.sym "strings", Term.app "block"
        [Term.app "assign" [Term.sym "padding", Term.app "Mult" [Term.sym "' '", Term.app "Sub" [width, Term.app "ulen" [Term.sym "value"]]]],
         Term.app "yield" [Term.app "ifexp" [Term.app "Eq" [Term.sym "align", Term.sym "'right'"],
           Term.app "Add" [Term.sym "padding", Term.sym "value"], Term.app "Add" [Term.sym "value", Term.sym "padding"]]]]]] := rfl

/-- **utruncate as written**: the first prefix `string[:i]` (i = 1 .. len-1) whose display width exceeds `width` decides:
    the result is the prefix one character shorter; if no proper prefix overflows, the whole string (the whole string
    itself is never measured: `Render.utruncate`, `C20.utruncate_last_char_quirk`). -/
theorem utruncate_code (truth : Term → Bool) :
    util_utruncate truth = Out.ret [Term.app "for" [Term.sym "i", Term.app "range" [Term.int 1, Term.app "len" [Term.sym "string"]], Term.app "block"
      [Term.app "if" [Term.app "Gt" [Term.app "ulen" [Term.app "getitem" [Term.sym "string", Term.app "slice" [Term.sym "None", Term.sym "i"]]], Term.sym "width"],
        Term.app "block" [Term.app "return" [Term.app "getitem" [Term.sym "string", Term.app "slice" [Term.sym "None", Term.app "Sub" [Term.sym "i", Term.int 1]]]]],
        Term.app "block" []]]]] (Term.sym "string") := rfl

/-- the renderers take their options by keyword only, every one defaulting to None (= "use the PRINT_* setting"). -/
theorem renderer_signatures :
    DataFrame_to_string_signature = ["self", "*", "max_rows=None", "max_width=None", "truncate_width=None"] ∧
    Vector_to_string_signature = ["self", "*", "max_elements=None"] ∧
    ListOfDicts_to_string_signature = ["self", "*", "max_items=None"] := ⟨rfl, rfl, rfl⟩

/-! ### evaluation order -/

/-- `upad` measures every string for the common width BEFORE the loop that pads (so an empty list raises at `max`, a case the
    inlined term cannot show: `Eval.C20.upad_width_of_empty_raises`); `utruncate` is a bounded `for` over `range`. -/
theorem width_helpers_call_order :
    util_upad_call_order = ["ulen", "max", "ulen"] ∧ util_utruncate_call_order = ["len", "range", "ulen"] ∧
    util_ulen_call_order = ["wcwidth.wcswidth"] := ⟨rfl, rfl, rfl⟩

end DI.Tie.C20

/-
  Proofs/TieC20.lean — obligation over `Generated/CodeC20.lean`, the translation of the *current* source
  of `util.ulen`: the display width is `wcswidth(string)`, and 0 when wcwidth reports a non-printable
  string (-1) — the `ulen` the rendering model (`Model/Render.lean`) takes as its width function is
  therefore never negative, which is what the padding arithmetic of the layout theorems relies on.
-/
import Generated.CodeC20
import Lemmas.PyCore

namespace DI.Tie.C20

open DI.Py DI.Gen

theorem ulen_refines (truth : Term → Bool) (w : Int) :
    util_ulen truth w = Out.ret [] (Term.int (max w 0)) := by
  unfold util_ulen
  by_cases h : w ≥ 0
  · have : max w 0 = w := by omega
    simp [h, this]
  · have : max w 0 = 0 := by omega
    simp [h, this]

theorem ulen_nonneg (truth : Term → Bool) (w : Int) :
    ∃ v : Int, util_ulen truth w = Out.ret [] (Term.int v) ∧ 0 ≤ v :=
  ⟨max w 0, ulen_refines truth w, by omega⟩

end DI.Tie.C20

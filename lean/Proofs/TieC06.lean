/-
  Proofs/TieC06.lean — refinement obligations over `Generated/CodeC06.lean`, the translation of the
  *current* source of `Vector.head` and `Vector.tail`: the result is `self[<positions>].copy()` — a fancy
  index (fresh array) that is copied again — with the positions of the first / last `min(n, length)`
  elements; so the result never aliases the receiver (C06) and holds the right elements.
-/
import Generated.CodeC06
import Model.Frame
import Lemmas.PyCore

namespace DI.Tie.C06

open DI DI.Py DI.Gen

theorem vector_head_refines (truth : Term → Bool) (isNone : Bool) (dflt len n : Nat) :
    Vector_head truth isNone dflt len n =
      Out.ret [] (Term.app ".copy" [Term.app "getitem" [Term.sym "self",
        Term.rows ((headIdx len (if isNone then dflt else n)).map (fun (k : Nat) => (k : Int)))]]) := by
  unfold Vector_head headIdx
  cases isNone <;> simp only [if_true, if_false, Bool.false_eq_true, pmin_cast, arange_zero]

theorem vector_tail_refines (truth : Term → Bool) (isNone : Bool) (dflt len n : Nat) :
    Vector_tail truth isNone dflt len n =
      Out.ret [] (Term.app ".copy" [Term.app "getitem" [Term.sym "self",
        Term.rows ((tailIdx len (if isNone then dflt else n)).map (fun (k : Nat) => (k : Int)))]]) := by
  have key : ∀ m : Nat, arange ((len : Int) - ((min len m : Nat) : Int)) (len : Int) =
      (tailIdx len m).map (fun (k : Nat) => (k : Int)) := by
    intro m
    have h := arange_nat (len - min len m) (min len m) (len : Int) (by omega)
    have e : ((len - min len m : Nat) : Int) = (len : Int) - ((min len m : Nat) : Int) := by omega
    rw [e] at h
    rw [h]
    simp [tailIdx, List.map_map, Function.comp_def]
  unfold Vector_tail
  cases isNone <;> simp only [if_true, if_false, Bool.false_eq_true, pmin_cast, key]

end DI.Tie.C06

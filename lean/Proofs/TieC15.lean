/-
  Proofs/TieC15.lean — refinement obligations over `Generated/CodeC15.lean`, the translation of the
  *current* source of `ListOfDicts.head` and `ListOfDicts.tail`: the slices the code takes select
  exactly the items of the model functions `LoD.head` / `LoD.tail` (the C15 theorems are about those),
  for every list, every `n` and the `n is None` default.  Python slice semantics is `Py.sliceIdx`.
-/
import Generated.CodeC15
import Model.LoD
import Lemmas.PyCore

namespace DI.Tie.C15

open DI DI.Py DI.Gen

/-- `ListOfDicts.head(n)` as written returns `self._new(self[:min(len, n)])` … -/
theorem head_code (truth : Term → Bool) (isNone : Bool) (dflt len n : Nat) :
    ListOfDicts_head truth isNone dflt len n =
      Out.ret [] (Term.app "._new" [Term.sym "self", Term.app "getitem" [Term.sym "self",
        Term.slice none (some ((min len (if isNone then dflt else n) : Nat) : Int))]]) := by
  unfold ListOfDicts_head
  cases isNone <;> simp only [if_true, if_false, Bool.false_eq_true, pmin_cast]

/-- … and that slice holds exactly the items of the model's `LoD.head`. -/
theorem head_refines (xs : List LoD.Item) (m : Nat) :
    gatherI xs (sliceIdx xs.length none (some ((min xs.length m : Nat) : Int))) = LoD.head xs m := by
  rw [gatherI_slice_take]; rfl

/-- `ListOfDicts.tail(n)` as written returns `self._new(self[len - min(len, n):])` … -/
theorem tail_code (truth : Term → Bool) (isNone : Bool) (dflt len n : Nat) :
    ListOfDicts_tail truth isNone dflt len n =
      Out.ret [] (Term.app "._new" [Term.sym "self", Term.app "getitem" [Term.sym "self",
        Term.slice (some ((len - min len (if isNone then dflt else n) : Nat) : Int)) none]]) := by
  have e : ∀ m : Nat, (len : Int) - ((min len m : Nat) : Int) = ((len - min len m : Nat) : Int) := by
    intro m; omega
  unfold ListOfDicts_tail
  cases isNone <;> simp only [if_true, if_false, Bool.false_eq_true, pmin_cast, e]

/-- … and that slice holds exactly the items of the model's `LoD.tail` (also for `n = 0`: nothing). -/
theorem tail_refines (xs : List LoD.Item) (m : Nat) :
    gatherI xs (sliceIdx xs.length (some ((xs.length - min xs.length m : Nat) : Int)) none) = LoD.tail xs m := by
  rw [gatherI_slice_drop]; rfl

/-! ### filter / filter_out / unique: the generator bodies -/

/-- `for item in self: if <test item>: yield item` — the items themselves (same objects), in order, that pass the test. -/
def keepIf (test : Term) : Term :=
  Term.app "for" [Term.sym "item", Term.sym "self", Term.app "block"
    [Term.app "if" [test, Term.app "block" [Term.app "yield" [Term.sym "item"]], Term.app "block" []]]]

def kvExtract : Term := Term.app "operator.itemgetter" [Term.app "*" [Term.app ".keys" [Term.sym "key_value_pairs"]]]
def kvValues (truth : Term → Bool) : Term :=
  let vs := Term.app "tuple()" [Term.app ".values" [Term.sym "key_value_pairs"]]
  if truth (Term.app "Eq" [Term.app "len" [vs], Term.int 1]) then Term.app "getitem" [vs, Term.int 0] else vs

/-- filter as written: with a callable, the items for which it is truthy; with key=value pairs, the items whose
    `itemgetter(*keys)` equals the values (one value unwrapped, as `itemgetter` does for one key) — ALL pairs must match. -/
theorem filter_code (truth : Term → Bool) :
    ListOfDicts_filter truth =
      if truth (Term.app "callable" [Term.sym "function"]) then Out.fall [keepIf (Term.app "function" [Term.sym "item"])]
      else if truth (Term.sym "key_value_pairs") then
        Out.fall [keepIf (Term.app "Eq" [Term.app "call" [kvExtract, Term.sym "item"], kvValues truth])]
      else Out.fall [] := by
  unfold ListOfDicts_filter kvValues
  cases truth (Term.app "callable" [Term.sym "function"]) <;> cases truth (Term.sym "key_value_pairs") <;>
    cases truth (Term.app "Eq" [Term.app "len" [Term.app "tuple()" [Term.app ".values" [Term.sym "key_value_pairs"]]], Term.int 1]) <;> rfl

/-- filter_out is the exact complement: `not function(item)` / `extract(item) != values` (the negation of the WHOLE
    conjunction: an item matching only some pairs is kept). -/
theorem filter_out_code (truth : Term → Bool) :
    ListOfDicts_filter_out truth =
      if truth (Term.app "callable" [Term.sym "function"]) then
        Out.fall [keepIf (Term.app "not" [Term.app "function" [Term.sym "item"]])]
      else if truth (Term.sym "key_value_pairs") then
        Out.fall [keepIf (Term.app "NotEq" [Term.app "call" [kvExtract, Term.sym "item"], kvValues truth])]
      else Out.fall [] := by
  unfold ListOfDicts_filter_out kvValues
  cases truth (Term.app "callable" [Term.sym "function"]) <;> cases truth (Term.sym "key_value_pairs") <;>
    cases truth (Term.app "Eq" [Term.app "len" [Term.app "tuple()" [Term.app ".values" [Term.sym "key_value_pairs"]]], Term.int 1]) <;> rfl

/-- the first-seen scan of `unique`: an item is yielded exactly when its key tuple has not been seen; the keys are the given
    ones, or — only when none are given — the keys common to all items.  Nothing else (no grouping state) enters. -/
theorem unique_code (truth : Term → Bool) (hne : truth (Term.sym "self") = true) (hkeys : truth (Term.sym "keys") = true) :
    ListOfDicts_unique truth =
      let seen := Term.app "set()" []
      let extract := Term.app "operator.itemgetter" [Term.app "*" [Term.sym "keys"]]
      Out.fall [Term.app "for" [Term.sym "item", Term.sym "self", Term.app "block"
        [Term.app "assign" [Term.sym "id", Term.app "call" [extract, Term.sym "item"]],
         Term.app "if" [Term.app "NotIn" [Term.sym "id", seen],
           Term.app "block" [Term.app ".add" [seen, Term.sym "id"], Term.app "yield" [Term.sym "item"]], Term.app "block" []]]]] := by
  unfold ListOfDicts_unique
  simp [hne, hkeys]

/-! ### sort: one stable pass per key, last key first -/

def itemKey : Term := Term.app "getitem" [Term.sym "item", Term.sym "key"]

/-- the key function of one pass: ascending `(v is None, v)`, descending `(v is not None, v)` under `reverse=True` — so a
    `None` is last in both directions (`C15.sort_nones_last`), and `sorted` (stable) keeps ties in their previous order. -/
def sortKeyDef : Term :=
  Term.app "def" [Term.sym "sort_key", Term.app "params" [Term.sym "item"], Term.app "block"
    [Term.app "return" [Term.app "ifexp" [Term.app "Gt" [Term.sym "dir", Term.int 0],
      Term.app "tuple" [Term.app "Is" [itemKey, Term.sym "None"], itemKey],
      Term.app "tuple" [Term.app "IsNot" [itemKey, Term.sym "None"], itemKey]]]]]

/-- **sort as written**: starting from the receiver's items, for each `(key, dir)` pair taken in REVERSED order
    (`list(items)[::-1]`: the last key is sorted first, the first key last = most significant), reject a `dir` other
    than 1 / -1, then `data = sorted(data, key=sort_key, reverse=dir < 0)`; the result is `_new` of the last `data`
    (the item objects themselves). -/
theorem sort_code (truth : Term → Bool) :
    ListOfDicts_sort truth =
      let loop := Term.app "for" [Term.app "tuple" [Term.sym "key", Term.sym "dir"],
        Term.app "getitem" [Term.app "list()" [Term.app ".items" [Term.sym "key_dir_pairs"]],
          Term.app "slice" [Term.sym "None", Term.sym "None", Term.int (-1)]],
        Term.app "block"
          [Term.app "if" [Term.app "NotIn" [Term.sym "dir", Term.app "list" [Term.int 1, Term.int (-1)]],
             Term.app "block" [Term.app "raise" [Term.sym "ValueError"]], Term.app "block" []],
           sortKeyDef,
           Term.app "assign" [Term.sym "data", Term.app "sorted" [Term.sym "data", Term.app "=key" [Term.sym "sort_key"],
             Term.app "=reverse" [Term.app "Lt" [Term.sym "dir", Term.int 0]]]]],
        Term.app "init" [Term.sym "data", Term.sym "self"]]
      Out.ret [loop] (Term.app "._new" [Term.sym "self", Term.app "value-after-loop" [Term.sym "data", loop]]) := rfl

/-! ### the in-place editors: one pass in list order, each position edited when it is reached and then yielded -/

/-- `for item in self: <edit>; yield item`: the items are visited in list order, the edit of one position is complete
    before the next position is looked at, and the object itself is handed on.  (An object that occurs at two positions
    is therefore edited twice, the second time as the first visit left it — plain-loop semantics.) -/
def onePass (edit : List Term) : Term :=
  Term.app "for" [Term.sym "item", Term.sym "self", Term.app "block" (edit ++ [Term.app "yield" [Term.sym "item"]])]

def setItem (key value : Term) : Term := Term.app "store" [Term.app "getitem" [Term.sym "item", key], value]

/-- `for key, function in pairs: item[key] = function(item)` — the pairs in the order given, each function seeing the
    item as the previous pairs left it. -/
def applyPairs : Term :=
  Term.app "for" [Term.app "tuple" [Term.sym "key", Term.sym "function"], Term.app ".items" [Term.sym "key_function_pairs"],
    Term.app "block" [setItem (Term.sym "key") (Term.app "call" [Term.sym "function", Term.sym "item"])]]

theorem modify_code (truth : Term → Bool) : ListOfDicts_modify truth = Out.fall [onePass [applyPairs]] := rfl

/-- modify_if tests the predicate on the item AT THE MOMENT IT IS REACHED (inside the one pass), not up front. -/
theorem modify_if_code (truth : Term → Bool) :
    ListOfDicts_modify_if truth = Out.fall [onePass
      [Term.app "if" [Term.app "predicate" [Term.sym "item"], Term.app "block" [applyPairs], Term.app "block" []]]] := rfl

/-- fill_missing_keys writes only keys the item does not have (`key not in item`); with no pairs, the keys are those of
    `self.keys()` with value None. -/
theorem fill_missing_keys_code (truth : Term → Bool) :
    ListOfDicts_fill_missing_keys truth =
      let pairs := if truth (Term.sym "key_value_pairs") then Term.sym "key_value_pairs"
                   else Term.app "dict.fromkeys" [Term.app ".keys" [Term.sym "self"], Term.sym "None"]
      Out.fall [onePass [Term.app "for" [Term.app "tuple" [Term.sym "key", Term.sym "value"], Term.app ".items" [pairs],
        Term.app "block" [Term.app "if" [Term.app "NotIn" [Term.sym "key", Term.sym "item"],
          Term.app "block" [setItem (Term.sym "key") (Term.sym "value")], Term.app "block" []]]]]] := by
  unfold ListOfDicts_fill_missing_keys
  cases truth (Term.sym "key_value_pairs") <;> rfl

/-- unselect deletes exactly the named keys that are present, from the item itself. -/
theorem unselect_code (truth : Term → Bool) :
    ListOfDicts_unselect truth = Out.fall [onePass [Term.app "for" [Term.sym "key", Term.sym "keys",
      Term.app "block" [Term.app "if" [Term.app "In" [Term.sym "key", Term.sym "item"],
        Term.app "block" [Term.app "del" [Term.app "getitem" [Term.sym "item", Term.sym "key"]]], Term.app "block" []]]]]] := rfl

/-! ### the methods that build new items or only rearrange -/

/-- select: a NEW item per position holding the requested keys that are present, in the REQUESTED order. -/
theorem select_code (truth : Term → Bool) :
    ListOfDicts_select truth = Out.fall [Term.app "for" [Term.sym "item", Term.sym "self", Term.app "block"
      [Term.app "yield" [Term.app "AttributeDict" [Term.app "DictComp" [Term.app "pair" [Term.sym "x", Term.app "getitem" [Term.sym "item", Term.sym "x"]],
        Term.app "in" [Term.sym "x", Term.sym "keys", Term.app "if" [Term.app "In" [Term.sym "x", Term.sym "item"]]]]]]]]] := rfl

/-- rename: a NEW item per position; keys mapped through the inverted `to=from` pairs (all at once), values and key
    order kept. -/
theorem rename_code (truth : Term → Bool) :
    ListOfDicts_rename truth =
      let renames := Term.app "DictComp" [Term.app "pair" [Term.sym "v", Term.sym "k"],
        Term.app "in" [Term.app "tuple" [Term.sym "k", Term.sym "v"], Term.app ".items" [Term.sym "to_from_pairs"], Term.app "if" []]]
      Out.fall [Term.app "for" [Term.sym "item", Term.sym "self", Term.app "block"
        [Term.app "assign" [Term.sym "keys", Term.app "ListComp" [Term.app ".get" [renames, Term.sym "x", Term.sym "x"],
           Term.app "in" [Term.sym "x", Term.app ".keys" [Term.sym "item"], Term.app "if" []]]],
         Term.app "yield" [Term.app "AttributeDict" [Term.app "zip" [Term.sym "keys", Term.app ".values" [Term.sym "item"]]]]]]] := rfl

/-- append / extend / + : the receiver's items followed by the new ones (`itertools.chain`), the new item wrapped as an
    AttributeDict when it is not one. -/
theorem append_code (truth : Term → Bool) :
    ListOfDicts_append truth =
      let it := if truth (Term.app "isinstance" [Term.sym "item", Term.sym "AttributeDict"]) then Term.sym "item"
                else Term.app "AttributeDict" [Term.sym "item"]
      Out.fall [Term.app "yield-from" [Term.app "itertools.chain" [Term.sym "self", Term.app "list" [it]]]] := by
  unfold ListOfDicts_append
  cases truth (Term.app "isinstance" [Term.sym "item", Term.sym "AttributeDict"]) <;> rfl

theorem extend_code (truth : Term → Bool) :
    ListOfDicts_extend truth =
      let o := if truth (Term.app "isinstance" [Term.sym "other", Term.app ".__class__" [Term.sym "self"]]) then Term.sym "other"
               else Term.app ".__class__" [Term.sym "self", Term.sym "other"]
      Out.fall [Term.app "yield-from" [Term.app "itertools.chain" [Term.sym "self", o]]] := by
  unfold ListOfDicts_extend
  cases truth (Term.app "isinstance" [Term.sym "other", Term.app ".__class__" [Term.sym "self"]]) <;> rfl

theorem add_code (truth : Term → Bool) :
    ListOfDicts_add truth =
      if truth (Term.app "isinstance" [Term.sym "other", Term.sym "ListOfDicts"]) then
        Out.fall [Term.app "yield-from" [Term.app "itertools.chain" [Term.sym "self", Term.sym "other"]]]
      else Out.raise [] "TypeError" := by
  unfold ListOfDicts_add
  cases truth (Term.app "isinstance" [Term.sym "other", Term.sym "ListOfDicts"]) <;> rfl

/-- insert IS `list.insert` on a copy of the item list (so every index — negative, beyond either end — means what it means
    for a Python list). -/
theorem insert_code (truth : Term → Bool) :
    ListOfDicts_insert truth =
      let it := if truth (Term.app "isinstance" [Term.sym "item", Term.sym "AttributeDict"]) then Term.sym "item"
                else Term.app "AttributeDict" [Term.sym "item"]
      let items := Term.app "list()" [Term.sym "self"]
      Out.fall [Term.app ".insert" [items, Term.sym "index", it], Term.app "yield-from" [items]] := by
  unfold ListOfDicts_insert
  cases truth (Term.app "isinstance" [Term.sym "item", Term.sym "AttributeDict"]) <;> rfl

/-- `*`: the item sequence repeated `other` times (the same objects each time); `n * list` is the same call. -/
theorem mul_code (truth : Term → Bool) :
    ListOfDicts_mul truth =
      if truth (Term.app "isinstance" [Term.sym "other", Term.sym "int"]) then
        Out.fall [Term.app "for" [Term.sym "i", Term.app "range" [Term.sym "other"], Term.app "block" [Term.app "yield-from" [Term.sym "self"]]]]
      else Out.raise [] "TypeError" := by
  unfold ListOfDicts_mul
  cases truth (Term.app "isinstance" [Term.sym "other", Term.sym "int"]) <;> rfl

theorem rmul_code (truth : Term → Bool) :
    ListOfDicts_rmul truth = Out.ret [] (Term.app ".__mul__" [Term.sym "self", Term.sym "other"]) := rfl

theorem reverse_code (truth : Term → Bool) :
    ListOfDicts_reverse truth = Out.fall [Term.app "yield-from" [Term.app "reversed" [Term.sym "self"]]] := rfl

/-- indexing IS list indexing: an integer index gives the item itself, a slice gives `_new` of the list slice. -/
theorem getitem_code (truth : Term → Bool) :
    ListOfDicts_getitem truth =
      let value := Term.app "super().__getitem__" [Term.sym "index"]
      Out.ret [] (if truth (Term.app "isinstance" [value, Term.sym "list"]) then Term.app "._new" [Term.sym "self", value] else value) := rfl

/-! ### signatures: where data names travel as keyword names, the method has no named parameter of its own

  `sort(**key_dir_pairs)`, `modify(**key_function_pairs)`, `filter(function=None, **key_value_pairs)` … take KEYS of the
  items as keyword names (and `aggregate` hands its group keys to `sort` that way).  Every additional named parameter is
  a key name that can no longer be used; the signatures are therefore part of the obligation. -/
theorem keyword_carrying_signatures :
    ListOfDicts_sort_signature = ["self", "**key_dir_pairs"] ∧
    ListOfDicts_modify_signature = ["self", "**key_function_pairs"] ∧
    ListOfDicts_modify_if_signature = ["self", "predicate", "**key_function_pairs"] ∧
    ListOfDicts_fill_missing_keys_signature = ["self", "**key_value_pairs"] ∧
    ListOfDicts_rename_signature = ["self", "**to_from_pairs"] ∧
    ListOfDicts_filter_signature = ["self", "function=None", "**key_value_pairs"] ∧
    ListOfDicts_filter_out_signature = ["self", "function=None", "**key_value_pairs"] ∧
    ListOfDicts_unique_signature = ["self", "*keys"] ∧ ListOfDicts_select_signature = ["self", "*keys"] ∧
    ListOfDicts_unselect_signature = ["self", "*keys"] ∧
    ListOfDicts_append_signature = ["self", "item"] ∧ ListOfDicts_extend_signature = ["self", "other"] ∧
    ListOfDicts_insert_signature = ["self", "index", "item"] ∧
    ListOfDicts_head_signature = ["self", "n=None"] ∧ ListOfDicts_tail_signature = ["self", "n=None"] := by
  refine ⟨rfl, rfl, rfl, rfl, rfl, rfl, rfl, rfl, rfl, rfl, rfl, rfl, rfl, rfl, rfl⟩

example : sliceIdx 5 (some (5 - 0)) none = [] ∧ sliceIdx 5 (some (-0)) none = [0, 1, 2, 3, 4] := by decide

end DI.Tie.C15

/-
  Proofs/TieC15.lean — refinement obligations over `Generated/CodeC15.lean`, the translation of the
  *current* source of `ListOfDicts.head` and `ListOfDicts.tail`: the slices the code takes select
  exactly the items of the model functions `LoD.head` / `LoD.tail` (the C15 theorems are about those),
  for every list, every `n` and the `n is None` default.  Python slice semantics is `Py.sliceIdx`.
-/
import Generated.CodeC15
import Model.LoD
import Lemmas.PyCore

namespace DI.Tie.C15

open DI DI.Py DI.Gen

/-- `ListOfDicts.head(n)` as written returns `self._new(self[:min(len, n)])` … -/
theorem head_code (truth : Term → Bool) (isNone : Bool) (dflt len n : Nat) :
    ListOfDicts_head truth isNone dflt len n =
      Out.ret [] (Term.app "._new" [Term.sym "self", Term.app "getitem" [Term.sym "self",
        Term.slice none (some ((min len (if isNone then dflt else n) : Nat) : Int))]]) := by
  unfold ListOfDicts_head
  cases isNone <;> simp only [if_true, if_false, Bool.false_eq_true, pmin_cast]

/-- … and that slice holds exactly the items of the model's `LoD.head`. -/
theorem head_refines (xs : List LoD.Item) (m : Nat) :
    gatherI xs (sliceIdx xs.length none (some ((min xs.length m : Nat) : Int))) = LoD.head xs m := by
  rw [gatherI_slice_take]; rfl

/-- `ListOfDicts.tail(n)` as written returns `self._new(self[len - min(len, n):])` … -/
theorem tail_code (truth : Term → Bool) (isNone : Bool) (dflt len n : Nat) :
    ListOfDicts_tail truth isNone dflt len n =
      Out.ret [] (Term.app "._new" [Term.sym "self", Term.app "getitem" [Term.sym "self",
        Term.slice (some ((len - min len (if isNone then dflt else n) : Nat) : Int)) none]]) := by
  have e : ∀ m : Nat, (len : Int) - ((min len m : Nat) : Int) = ((len - min len m : Nat) : Int) := by
    intro m; omega
  unfold ListOfDicts_tail
  cases isNone <;> simp only [if_true, if_false, Bool.false_eq_true, pmin_cast, e]

/-- … and that slice holds exactly the items of the model's `LoD.tail` (also for `n = 0`: nothing). -/
theorem tail_refines (xs : List LoD.Item) (m : Nat) :
    gatherI xs (sliceIdx xs.length (some ((xs.length - min xs.length m : Nat) : Int)) none) = LoD.tail xs m := by
  rw [gatherI_slice_drop]; rfl

example : sliceIdx 5 (some (5 - 0)) none = [] ∧ sliceIdx 5 (some (-0)) none = [0, 1, 2, 3, 4] := by decide

end DI.Tie.C15

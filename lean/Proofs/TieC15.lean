/-
  Proofs/TieC15.lean — refinement obligations over `Generated/CodeC15.lean`, the translation of the
  *current* source of `ListOfDicts.head` and `ListOfDicts.tail`: the slices the code takes select
  exactly the items of the model functions `LoD.head` / `LoD.tail` (the C15 theorems are about those),
  for every list, every `n` and the `n is None` default.  Python slice semantics is `Py.sliceIdx`.
-/
import Generated.CodeC15
import Model.LoD
import Lemmas.PyCore

namespace DI.Tie.C15

open DI DI.Py DI.Gen

/-- `ListOfDicts.head(n)` as written returns `self._new(self[:min(len, n)])` … -/
theorem head_code (truth : Term → Bool) (isNone : Bool) (dflt len n : Nat) :
    ListOfDicts_head truth isNone dflt len n =
      Out.ret [] (Term.app "._new" [Term.sym "self", Term.app "getitem" [Term.sym "self",
        Term.slice none (some ((min len (if isNone then dflt else n) : Nat) : Int))]]) := by
  unfold ListOfDicts_head
  cases isNone <;> simp only [if_true, if_false, Bool.false_eq_true, pmin_cast]

/-- … and that slice holds exactly the items of the model's `LoD.head`. -/
theorem head_refines (xs : List LoD.Item) (m : Nat) :
    gatherI xs (sliceIdx xs.length none (some ((min xs.length m : Nat) : Int))) = LoD.head xs m := by
  rw [gatherI_slice_take]; rfl

/-- `ListOfDicts.tail(n)` as written returns `self._new(self[len - min(len, n):])` … -/
theorem tail_code (truth : Term → Bool) (isNone : Bool) (dflt len n : Nat) :
    ListOfDicts_tail truth isNone dflt len n =
      Out.ret [] (Term.app "._new" [Term.sym "self", Term.app "getitem" [Term.sym "self",
        Term.slice (some ((len - min len (if isNone then dflt else n) : Nat) : Int)) none]]) := by
  have e : ∀ m : Nat, (len : Int) - ((min len m : Nat) : Int) = ((len - min len m : Nat) : Int) := by
    intro m; omega
  unfold ListOfDicts_tail
  cases isNone <;> simp only [if_true, if_false, Bool.false_eq_true, pmin_cast, e]

/-- … and that slice holds exactly the items of the model's `LoD.tail` (also for `n = 0`: nothing). -/
theorem tail_refines (xs : List LoD.Item) (m : Nat) :
    gatherI xs (sliceIdx xs.length (some ((xs.length - min xs.length m : Nat) : Int)) none) = LoD.tail xs m := by
  rw [gatherI_slice_drop]; rfl

/-! ### filter / filter_out / unique: the generator bodies -/

/-- `for item in self: if <test item>: yield item` — the items themselves (same objects), in order, that pass the test. -/
def keepIf (test : Term) : Term :=
  Term.app "for" [Term.sym "item", Term.sym "self", Term.app "block"
    [Term.app "if" [test, Term.app "block" [Term.app "yield" [Term.sym "item"]], Term.app "block" []]]]

def kvExtract : Term := Term.app "operator.itemgetter" [Term.app "*" [Term.app ".keys" [Term.sym "key_value_pairs"]]]
def kvValues (truth : Term → Bool) : Term :=
  let vs := Term.app "tuple" [Term.app ".values" [Term.sym "key_value_pairs"]]
  if truth (Term.app "Eq" [Term.app "len" [vs], Term.int 1]) then Term.app "getitem" [vs, Term.int 0] else vs

/-- filter as written: with a callable, the items for which it is truthy; with key=value pairs, the items whose
    `itemgetter(*keys)` equals the values (one value unwrapped, as `itemgetter` does for one key) — ALL pairs must match. -/
theorem filter_code (truth : Term → Bool) :
    ListOfDicts_filter truth =
      if truth (Term.app "callable" [Term.sym "function"]) then Out.fall [keepIf (Term.app "function" [Term.sym "item"])]
      else if truth (Term.sym "key_value_pairs") then
        Out.fall [keepIf (Term.app "Eq" [Term.app "call" [kvExtract, Term.sym "item"], kvValues truth])]
      else Out.fall [] := by
  unfold ListOfDicts_filter kvValues
  cases truth (Term.app "callable" [Term.sym "function"]) <;> cases truth (Term.sym "key_value_pairs") <;>
    cases truth (Term.app "Eq" [Term.app "len" [Term.app "tuple" [Term.app ".values" [Term.sym "key_value_pairs"]]], Term.int 1]) <;> rfl

/-- filter_out is the exact complement: `not function(item)` / `extract(item) != values` (the negation of the WHOLE
    conjunction: an item matching only some pairs is kept). -/
theorem filter_out_code (truth : Term → Bool) :
    ListOfDicts_filter_out truth =
      if truth (Term.app "callable" [Term.sym "function"]) then
        Out.fall [keepIf (Term.app "not" [Term.app "function" [Term.sym "item"]])]
      else if truth (Term.sym "key_value_pairs") then
        Out.fall [keepIf (Term.app "NotEq" [Term.app "call" [kvExtract, Term.sym "item"], kvValues truth])]
      else Out.fall [] := by
  unfold ListOfDicts_filter_out kvValues
  cases truth (Term.app "callable" [Term.sym "function"]) <;> cases truth (Term.sym "key_value_pairs") <;>
    cases truth (Term.app "Eq" [Term.app "len" [Term.app "tuple" [Term.app ".values" [Term.sym "key_value_pairs"]]], Term.int 1]) <;> rfl

/-- the first-seen scan of `unique`: an item is yielded exactly when its key tuple has not been seen; the keys are the given
    ones, or — only when none are given — the keys common to all items.  Nothing else (no grouping state) enters. -/
theorem unique_code (truth : Term → Bool) (hne : truth (Term.sym "self") = true) (hkeys : truth (Term.sym "keys") = true) :
    ListOfDicts_unique truth =
      let seen := Term.app "set" []
      let extract := Term.app "operator.itemgetter" [Term.app "*" [Term.sym "keys"]]
      Out.fall [Term.app "for" [Term.sym "item", Term.sym "self", Term.app "block"
        [Term.app "assign" [Term.sym "id", Term.app "call" [extract, Term.sym "item"]],
         Term.app "if" [Term.app "NotIn" [Term.sym "id", seen],
           Term.app "block" [Term.app ".add" [seen, Term.sym "id"], Term.app "yield" [Term.sym "item"]], Term.app "block" []]]]] := by
  unfold ListOfDicts_unique
  simp [hne, hkeys]

/-! ### sort: one stable pass per key, last key first -/

def itemKey : Term := Term.app "getitem" [Term.sym "item", Term.sym "key"]

/-- the key function of one pass: ascending `(v is None, v)`, descending `(v is not None, v)` under `reverse=True` — so a
    `None` is last in both directions (`C15.sort_nones_last`), and `sorted` (stable) keeps ties in their previous order. -/
def sortKeyDef : Term :=
  Term.app "def" [Term.sym "sort_key", Term.app "params" [Term.sym "item"], Term.app "block"
    [Term.app "return" [Term.app "ifexp" [Term.app "Gt" [Term.sym "dir", Term.int 0],
      Term.app "tuple" [Term.app "Is" [itemKey, Term.sym "None"], itemKey],
      Term.app "tuple" [Term.app "IsNot" [itemKey, Term.sym "None"], itemKey]]]]]

/-- **sort as written**: starting from the receiver's items, for each `(key, dir)` pair taken in REVERSED order
    (`list(items)[::-1]`: the last key is sorted first, the first key last = most significant), reject a `dir` other
    than 1 / -1, then `data = sorted(data, key=sort_key, reverse=dir < 0)`; the result is `_new` of the last `data`
    (the item objects themselves). -/
theorem sort_code (truth : Term → Bool) :
    ListOfDicts_sort truth =
      let loop := Term.app "for" [Term.app "tuple" [Term.sym "key", Term.sym "dir"],
        Term.app "getitem" [Term.app "list" [Term.app ".items" [Term.sym "key_dir_pairs"]],
          Term.app "slice" [Term.sym "None", Term.sym "None", Term.int (-1)]],
        Term.app "block"
          [Term.app "if" [Term.app "NotIn" [Term.sym "dir", Term.app "list" [Term.int 1, Term.int (-1)]],
             Term.app "block" [Term.app "raise" [Term.sym "ValueError"]], Term.app "block" []],
           sortKeyDef,
           Term.app "assign" [Term.sym "data", Term.app "sorted" [Term.sym "data", Term.app "=key" [Term.sym "sort_key"],
             Term.app "=reverse" [Term.app "Lt" [Term.sym "dir", Term.int 0]]]]],
        Term.app "init" [Term.sym "data", Term.sym "self"]]
      Out.ret [loop] (Term.app "._new" [Term.sym "self", Term.app "value-after-loop" [Term.sym "data", loop]]) := rfl

example : sliceIdx 5 (some (5 - 0)) none = [] ∧ sliceIdx 5 (some (-0)) none = [0, 1, 2, 3, 4] := by decide

end DI.Tie.C15

/-
  Proofs/C11.lean — property C11: Vector.sort, rank and unique are total and mutually
  consistent.  Statements only; proofs cite Lemmas/*.

  Quantification: every list `xs : List (Option κ)` (any length, any pattern of missing
  values `none`), every linear order `le` on the non-missing values, both directions.
  `Key.le_linOrd` instantiates `κ := Key` (the cells the driver and the harness use).
-/
import Model.Vector
import Lemmas.Vector
import Lemmas.Rank
import Lemmas.Key
import Lemmas.VectorOrd

namespace DI.C11

open DI

variable {κ : Type} [DecidableEq κ]

/-- Vector.sort returns a permutation of the elements (as positions into the input). -/
theorem vsort_perm (le : κ → κ → Bool) (naFirst desc : Bool) (xs : List (Option κ)) :
    (vsort le naFirst desc xs).Perm (List.range xs.length) :=
  vsort_perm' le naFirst desc xs

/-- ... ordered in the requested direction, with missing values last in both directions;
    wherever the raw NumPy sort puts the missing value (`naFirst`). -/
theorem vsort_ordered {le : κ → κ → Bool} (h : LinOrd le) (naFirst desc : Bool)
    (xs : List (Option κ)) :
    (gather xs (vsort le naFirst desc xs)).Pairwise (fun a b => ordDir le desc a b) :=
  vsort_ordered' h.pre naFirst desc xs

/-- rank 'min': an element's rank is one plus the number of elements ordered strictly before
    it, missing values after all others (the whole `unique/inverse/bincount/cumsum` pipeline,
    including the empty and the all-missing guards). -/
theorem rank_min_spec {le : κ → κ → Bool} (h : LinOrd le) (one : κ) (xs : List (Option κ)) :
    vrank le one .min xs = rankMinSpec le xs :=
  vrank_min_spec h one xs

/-- rank 'max': the number of elements ordered before or equal to it. -/
theorem rank_max_spec {le : κ → κ → Bool} (h : LinOrd le) (one : κ) (xs : List (Option κ)) :
    vrank le one .max xs = rankMaxSpec le xs :=
  vrank_max_spec h one xs

/-- The hypotheses are satisfiable by the concrete cell order. -/
theorem key_order_is_linear : LinOrd Key.le := Key.le_linOrd

/-- non-vacuity / sanity on a concrete vector with ties and missing values. -/
example : rankMinSpec Key.le [some (.i 1), some (.i 1), none, none, some (.i 0)]
    = [2, 2, 4, 4, 1] := by decide
example : rankMaxSpec Key.le [some (.i 1), some (.i 1), none, none, some (.i 0)]
    = [3, 3, 5, 5, 1] := by decide
example : [some (Key.i 3), some (.i 2), some (.i 1), some (.i 1), none].Pairwise
    (fun a b => ordDir Key.le true a b) := by decide

/-! ### rank 'ordinal' -/

/-- rank 'ordinal' breaks ties by position: position by position the rank is one plus the
    number of elements ordered strictly before the element plus the number of *earlier*
    equivalent elements; missing values are ranked after all others, in position order
    (`rankOrdSpec`, Lemmas/VectorOrd.lean).  Covers the empty and the all-missing guards of
    `Vector.rank`.  Only totality and transitivity of the order are needed. -/
theorem rank_ordinal_spec {le : κ → κ → Bool} (h : PreOrd le) (one : κ) (xs : List (Option κ)) :
    vrank le one .ordinal xs = rankOrdSpec le xs :=
  vrank_ordinal_spec h one xs

/-- ... giving a permutation of `1..n`. -/
theorem rank_ordinal_perm {le : κ → κ → Bool} (h : PreOrd le) (one : κ) (xs : List (Option κ)) :
    (vrank le one .ordinal xs).Perm (List.range' 1 xs.length) :=
  vrank_ordinal_perm h one xs

/-- ... consistent with sort: the element the ascending `Vector.sort` puts at place `k` (0-based)
    has ordinal rank `k + 1`.  Holds for both raw-sort conventions (`naFirst = false`: NaN / NaT
    sort last; `naFirst = true`: `""` sorts first and is relocated) and for every vector: for
    an entirely missing vector `rank` replaces the values by a constant, and both `sort` and the
    ordinal ranks are then in position order. -/
theorem rank_ordinal_consistent_with_sort {le : κ → κ → Bool} (h : PreOrd le) (one : κ)
    (naFirst : Bool) (xs : List (Option κ)) :
    (vsort le naFirst false xs).map (fun i => (vrank le one .ordinal xs)[i]!)
      = List.range' 1 xs.length :=
  vrank_ordinal_sort h one naFirst xs

/-- the same as an equation between the two results: the ordinal ranks are the inverse
    permutation (plus one) of the ascending sort. -/
theorem rank_ordinal_inverse_of_sort {le : κ → κ → Bool} (h : PreOrd le) (one : κ)
    (naFirst : Bool) (xs : List (Option κ)) :
    vrank le one .ordinal xs = invPermPlus1 (vsort le naFirst false xs) := by
  rw [vsort_asc_eq_argsort h]; exact vrank_ordinal_eq_invPerm h one xs

/-! ### stability of sort -/

omit [DecidableEq κ] in
/-- ascending `Vector.sort` *is* the stable sort for the order "missing value last", whichever
    way the raw NumPy sort treats the missing value. -/
theorem vsort_asc_is_stable_sort {le : κ → κ → Bool} (h : PreOrd le) (naFirst : Bool)
    (xs : List (Option κ)) :
    vsort le naFirst false xs = argsort (leNaLast le) xs :=
  vsort_asc_eq_argsort h naFirst xs

omit [DecidableEq κ] in
/-- stability, ascending: of two output places holding equivalent values (equivalent
    non-missing values, or two missing values) the one that was earlier in the input comes
    first. -/
theorem vsort_stable {le : κ → κ → Bool} (h : PreOrd le) (naFirst : Bool) (xs : List (Option κ)) :
    (vsort le naFirst false xs).Pairwise
      (fun i j => leNaLast le xs[j]! xs[i]! = true → i < j) :=
  vsort_asc_stable h naFirst xs

omit [DecidableEq κ] in
/-- descending: the raw stable sort is reversed (`new[::-1]`), so equivalent non-missing values
    come out in *reverse* input order. -/
theorem vsort_desc_ties_reversed {le : κ → κ → Bool} (h : PreOrd le) (naFirst : Bool)
    (xs : List (Option κ)) :
    (vsort le naFirst true xs).Pairwise
      (fun i j => ∀ a b, xs[i]! = some a → xs[j]! = some b → le a b = true → j < i) :=
  vsort_desc_ties h naFirst xs

/-! ### object vectors -/

/-- object-vector `Vector.sort` (`sorted(key=str, reverse=dir<0)`, missing values relocated)
    returns a permutation of the positions. -/
theorem vsortObj_perm {σ : Type} (le : σ → σ → Bool) (desc : Bool) (keys : List σ)
    (na : List Bool) :
    (vsortObj le desc keys na).Perm (List.range keys.length) :=
  vsortObj_perm' le desc keys na

/-- ... the keys of the non-missing part are ordered ascending / descending and missing values
    are last in both directions: the cells (`none` where the mask says missing, else the key)
    read at the returned positions are ordered by the same `ordDir` as for `vsort_ordered`. -/
theorem vsortObj_ordered {σ : Type} [Inhabited σ] {le : σ → σ → Bool} (h : PreOrd le)
    (desc : Bool) (keys : List σ) (na : List Bool) :
    ((vsortObj le desc keys na).map (objCell keys na)).Pairwise
      (fun a b => ordDir le desc a b) :=
  vsortObj_ordered' h desc keys na

/-- ... missing last, stated on the mask alone. -/
theorem vsortObj_missing_last {σ : Type} (le : σ → σ → Bool) (desc : Bool) (keys : List σ)
    (na : List Bool) :
    (vsortObj le desc keys na).Pairwise (fun i j => na[i]! = true → na[j]! = true) :=
  vsortObj_na_last le desc keys na

/-- ... and stable in both directions (Python's `sorted(reverse=True)` keeps the input order of
    equal keys): two positions of the same kind with equivalent keys keep their input order. -/
theorem vsortObj_stable {σ : Type} [Inhabited σ] {le : σ → σ → Bool} (h : PreOrd le)
    (desc : Bool) (keys : List σ) (na : List Bool) :
    (vsortObj le desc keys na).Pairwise
      (fun i j => na[i]! = na[j]! → leDir le desc keys[j]! keys[i]! = true → i < j) :=
  vsortObj_stable' h desc keys na

/-! ### unique -/

/-- unique returns each distinct value once, in order of first occurrence: the returned
    positions are exactly the positions whose value did not occur earlier (the missing value is
    a value equal to itself), increasing. -/
theorem vunique_first_occurrence {le : κ → κ → Bool} (h : LinOrd le) (naFirst : Bool)
    (xs : List (Option κ)) :
    vunique le naFirst xs = firstOcc xs :=
  vunique_eq_firstOcc h naFirst xs

/-- spelled out on the values: no value twice, every value of the input present, positions
    increasing. -/
theorem vunique_each_value_once {le : κ → κ → Bool} (h : LinOrd le) (naFirst : Bool)
    (xs : List (Option κ)) :
    (gather xs (vunique le naFirst xs)).Nodup
      ∧ (∀ x ∈ xs, x ∈ gather xs (vunique le naFirst xs))
      ∧ (vunique le naFirst xs).Pairwise (fun i j => i < j) := by
  rw [vunique_eq_firstOcc h]
  exact ⟨firstOcc_values_nodup xs, firstOcc_covers xs, firstOcc_sorted xs⟩

/-- the weaker hypothesis used above is satisfiable as well. -/
theorem key_order_is_preorder : PreOrd Key.le := Key.le_linOrd.pre

/-- non-vacuity / sanity on concrete vectors with ties and missing values. -/
example : rankOrdSpec Key.le [some (.i 1), some (.i 1), none, none, some (.i 0)]
    = [2, 3, 4, 5, 1] := by decide
example : rankOrdSpec Key.le ([none, none, none] : List Cell) = [1, 2, 3] := by decide
example : firstOcc [some (Key.i 1), none, some (.i 1), none, some (.i 0)] = [0, 1, 4] := by decide
example : ([1, 3, 0, 2].map (objCell [Key.i 1, .i 2, .i 0, .i 2] [false, false, true, false])).Pairwise
    (fun a b => ordDir Key.le true a b) := by decide
example : [1, 3, 0, 2].Pairwise (fun i j => [false, false, true, false][i]! = [false, false, true, false][j]!
    → leDir Key.le true [Key.i 1, .i 2, .i 0, .i 2][j]! [Key.i 1, .i 2, .i 0, .i 2][i]! = true → i < j) := by
  decide

end DI.C11

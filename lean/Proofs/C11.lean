/-
  Proofs/C11.lean — property C11: Vector.sort, rank and unique are total and mutually
  consistent.  Statements only; proofs cite Lemmas/*.

  Quantification: every list `xs : List (Option κ)` (any length, any pattern of missing
  values `none`), every linear order `le` on the non-missing values, both directions.
  `Key.le_linOrd` instantiates `κ := Key` (the cells the driver and the harness use).
-/
import Model.Vector
import Lemmas.Vector
import Lemmas.Rank
import Lemmas.Key

namespace DI.C11

open DI

variable {κ : Type} [DecidableEq κ]

/-- Vector.sort returns a permutation of the elements (as positions into the input). -/
theorem vsort_perm (le : κ → κ → Bool) (naFirst desc : Bool) (xs : List (Option κ)) :
    (vsort le naFirst desc xs).Perm (List.range xs.length) :=
  vsort_perm' le naFirst desc xs

/-- ... ordered in the requested direction, with missing values last in both directions;
    wherever the raw NumPy sort puts the missing value (`naFirst`). -/
theorem vsort_ordered {le : κ → κ → Bool} (h : LinOrd le) (naFirst desc : Bool)
    (xs : List (Option κ)) :
    (gather xs (vsort le naFirst desc xs)).Pairwise (fun a b => ordDir le desc a b) :=
  vsort_ordered' h.pre naFirst desc xs

/-- rank 'min': an element's rank is one plus the number of elements ordered strictly before
    it, missing values after all others (the whole `unique/inverse/bincount/cumsum` pipeline,
    including the empty and the all-missing guards). -/
theorem rank_min_spec {le : κ → κ → Bool} (h : LinOrd le) (one : κ) (xs : List (Option κ)) :
    vrank le one .min xs = rankMinSpec le xs :=
  vrank_min_spec h one xs

/-- rank 'max': the number of elements ordered before or equal to it. -/
theorem rank_max_spec {le : κ → κ → Bool} (h : LinOrd le) (one : κ) (xs : List (Option κ)) :
    vrank le one .max xs = rankMaxSpec le xs :=
  vrank_max_spec h one xs

/-- The hypotheses are satisfiable by the concrete cell order. -/
theorem key_order_is_linear : LinOrd Key.le := Key.le_linOrd

/-- non-vacuity / sanity on a concrete vector with ties and missing values. -/
example : rankMinSpec Key.le [some (.i 1), some (.i 1), none, none, some (.i 0)]
    = [2, 2, 4, 4, 1] := by decide
example : rankMaxSpec Key.le [some (.i 1), some (.i 1), none, none, some (.i 0)]
    = [3, 3, 5, 5, 1] := by decide
example : [some (Key.i 3), some (.i 2), some (.i 1), some (.i 1), none].Pairwise
    (fun a b => ordDir Key.le true a b) := by decide

end DI.C11

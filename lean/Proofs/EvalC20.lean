/-
  Proofs/EvalC20.lean — property C20, the width helpers of `dataiter/util.py` EVALUATED.

  `Proofs/TieC20.lean` shows the translation of the current source of `util.ulen` / `util.upad` / `util.utruncate`
  (`Generated/CodeC20.lean`) equal to fixed terms.  With the evaluator of `Model/PyEvalWidth.lean` (parameter
  `w : Char → Int` = `wcwidth.wcwidth` per character; `wcswidth` = the sum, -1 if some width is negative) these terms MEAN:

  * `ulen_eval`: `max(wcswidth(s), 0)` = the model's `Render.ulen` at `wcOf w`; never negative; the plain sum for a
    printable string and 0 (NOT `len`) for a string with a non-printable character;
  * `upad_eval`: every string gets `width - ulen(x)` spaces, in front for `align="right"`, behind for any other value,
    `width = max ulen` — the model's `Render.upad` / `Render.upadLeft`; with spaces one column wide and printable strings
    every padded string is exactly `width` wide (`upad_width`);
  * `utruncate_eval`: the loop `for i in range(1, len(s))` is a `for` over a finite range, NOT a `while`: it terminates for
    every width function (zero and negative widths included), every string and every integer width (`utruncate_total`),
    returns a prefix, namely `s[:k-1]` for the first `k ∈ 1 … len-1` with `ulen(s[:k]) > width` and `s` itself if there is
    none; for `width ≥ 0` this is the model's `Render.utruncate` (`utruncate_eval_model`), for `width < 0` it is `""`
    (or `s` when `len(s) ≤ 1`: `utruncate_negative_width`);
  * for printable strings: the LONGEST fitting prefix — except that the whole string is never measured, so a string too
    wide only by its last character is returned whole (`utruncate_longest_prefix`).  Hence "the result fits" is false as
    first written: `utruncate_fits_partial` + `utruncate_fits_counterexample` (the known last-character finding of
    `Proofs/C20.lean`, here at the level of the evaluated code).  "A string that fits is returned unchanged" holds for
    printable strings (`utruncate_fitting_unchanged`) and fails with a non-printable character
    (`utruncate_fitting_unchanged_counterexample`: `"abc\x01"` has `ulen` 0 but is cut to `"a"` at width 1).

  Statements only; proofs cite `Lemmas/PyEvalWidth.lean`.
-/
import Generated.CodeC20
import Model.PyEvalWidth
import Lemmas.PyEvalWidth
import Proofs.TieC20

namespace DI.Eval.C20

open DI DI.Py DI.Gen DI.PyEvalWidth

/-- the terms of `Proofs/TieC20.lean` (`upad_code`, `utruncate_code`) are the terms evaluated here. -/
theorem width_terms (truth : Term → Bool) :
    util_upad truth = Out.fall [Term.app "for" [Term.sym "value", Term.sym "strings", upadBody]] ∧
    util_utruncate truth =
      Out.ret [Term.app "for" [Term.sym "i", Term.app "range" [Term.int 1, Term.app "len" [Term.sym "string"]], truncBody]]
        (Term.sym "string") := ⟨rfl, rfl⟩

/-! ### ulen -/

/-- **ulen, evaluated**: `wcswidth(s)` cut off at 0 — the display width `Render.ulen` of the model at `wcOf w`, for every
    width function and string. -/
theorem ulen_eval (truth : Term → Bool) (w : Char → Int) (s : Str) :
    evalUlen truth w s = some (max (wcswidth w s) 0) ∧
    evalUlen truth w s = some ((Render.ulen (wcOf w) s : Nat) : Int) :=
  ⟨evalUlen_eq truth w s, by rw [evalUlen_eq, ulenI_eq_render]⟩

/-- `ulen` is never negative. -/
theorem ulen_nonneg (truth : Term → Bool) (w : Char → Int) (s : Str) :
    ∃ v : Int, evalUlen truth w s = some v ∧ 0 ≤ v := ⟨_, evalUlen_eq truth w s, ulenI_nonneg w s⟩

/-- a printable string measures the sum of its character widths; a string with ONE non-printable character measures 0
    (not its `len`). -/
theorem ulen_cases (truth : Term → Bool) (w : Char → Int) (s : Str) :
    ((∀ c ∈ s, 0 ≤ w c) → evalUlen truth w s = some (s.map w).sum) ∧
    ((∃ c ∈ s, w c < 0) → evalUlen truth w s = some 0) :=
  ⟨fun h => by rw [evalUlen_eq, ulenI_printable w s h], fun h => by rw [evalUlen_eq, ulenI_nonprintable w s h]⟩

/-! ### upad -/

/-- **upad, evaluated** (`align` any string): string by string, `width - ulen(x)` spaces in front (`align == "right"`) or
    behind (otherwise), `width` the greatest `ulen` — for every list, the empty one included (see
    `upad_width_of_empty_raises`). -/
theorem upad_eval (truth : Term → Bool) (w : Char → Int) (xs : List Str) (al : Str) :
    evalUpad truth w xs al = some (xs.map (fun x =>
      if al = alignRight then Render.spaces (Render.maxWidth (wcOf w) xs - Render.ulen (wcOf w) x) ++ x
      else x ++ Render.spaces (Render.maxWidth (wcOf w) xs - Render.ulen (wcOf w) x))) := by
  by_cases hal : al = alignRight
  · subst hal
    simp only [if_true]
    exact evalUpad_right truth w xs
  · simp only [hal, if_false]
    exact evalUpad_left truth w xs al hal

/-- … which is the model's `upad` (the default, `align="right"`) and `upadLeft` (any other `align`). -/
theorem upad_eval_model (truth : Term → Bool) (w : Char → Int) (xs : List Str) :
    evalUpad truth w xs alignRight = some (Render.upad (wcOf w) xs) ∧
    (∀ al, al ≠ alignRight → evalUpad truth w xs al = some (Render.upadLeft (wcOf w) xs)) :=
  ⟨evalUpad_right truth w xs, fun al hal => evalUpad_left truth w xs al hal⟩

/-- with a space one column wide and printable strings, EVERY padded string is exactly `width = max ulen` wide (and no
    input is wider than that), for both alignments. -/
theorem upad_width (truth : Term → Bool) (w : Char → Int) (hsp : w ' ' = 1) (xs : List Str)
    (hp : ∀ x ∈ xs, ∀ c ∈ x, 0 ≤ w c) (al : Str) :
    ∃ ys, evalUpad truth w xs al = some ys ∧ ys.length = xs.length ∧
      (∀ x ∈ xs, Render.ulen (wcOf w) x ≤ Render.maxWidth (wcOf w) xs) ∧
      (∀ y ∈ ys, evalUlen truth w y = some ((Render.maxWidth (wcOf w) xs : Nat) : Int)) := by
  refine ⟨_, upad_eval truth w xs al, by simp, fun x hx => Render.ulen_le_maxWidth hx, ?_⟩
  intro y hy
  obtain ⟨x, hx, rfl⟩ := List.mem_map.mp hy
  have h := ulen_padded (wcOf_space w hsp) ((printable_iff w x).mpr (hp x hx)) (Render.ulen_le_maxWidth (wc := wcOf w) hx)
  rw [(ulen_eval truth w _).2]
  split
  · rw [h.1]
  · rw [h.2]

/-- DISCREPANCY translation / Python (not model / code): Python evaluates `width = max(...)` BEFORE the loop, so
    `upad([])` raises ValueError ("max() iterable argument is empty"); the translator inlines `width` into the loop body,
    which an empty list never enters — the translated body, like the model, gives `[]`.  The width expression itself is
    an error on an empty list, also here.  (No renderer calls `upad` with an empty list.) -/
theorem upad_width_of_empty_raises (truth : Term → Bool) (w : Char → Int) (ρ : Env) (al : Str)
    (h : ρ.lookup "strings" = some (.strs [])) :
    evalE w widthT ρ = none ∧ evalUpad truth w [] al = some [] :=
  ⟨by rw [widthT_eval w ρ [] h]; rfl, by rw [evalUpad_eq]; rfl⟩

/-! ### utruncate -/

/-- **utruncate, evaluated**, for every width function (negative and zero widths included), string and integer width:
    the result is a prefix of the string, nothing is appended; it is `s[:k-1]` for the FIRST `k` in `1 … len(s)-1` whose
    prefix `s[:k]` is wider than `width`, and `s` itself when there is no such `k` (`s[:len(s)]` is never measured). -/
theorem utruncate_eval (truth : Term → Bool) (w : Char → Int) (s : Str) (n : Int) :
    ∃ r, evalUtruncate truth w s n = some r ∧ r <+: s ∧
      ((∃ k, 1 ≤ k ∧ k < s.length ∧ n < ulenI w (s.take k) ∧
          (∀ j, 1 ≤ j → j < k → ulenI w (s.take j) ≤ n) ∧ r = s.take (k - 1)) ∨
       ((∀ j, 1 ≤ j → j < s.length → ulenI w (s.take j) ≤ n) ∧ r = s)) :=
  ⟨_, evalUtruncate_eq truth w s n, utruncateSpec_exact w s n⟩

/-- **termination**: the loop is a `for` over `range(1, len(s))`; the evaluation ends with a value for EVERY input —
    no fuel, no hypothesis on the widths. -/
theorem utruncate_total (truth : Term → Bool) (w : Char → Int) (s : Str) (n : Int) :
    ∃ r, evalUtruncate truth w s n = some r := ⟨_, evalUtruncate_eq truth w s n⟩

/-- for a width `≥ 0` the evaluated code IS the model's `Render.utruncate` — so every theorem of `Proofs/C20.lean`
    about it (`utruncate_spec`, `utruncate_longest_fitting_prefix`, the last-character quirk, `truncated_cell_width`)
    is a theorem about the code. -/
theorem utruncate_eval_model (truth : Term → Bool) (w : Char → Int) (s : Str) (m : Nat) :
    evalUtruncate truth w s (m : Int) = some (Render.utruncate (wcOf w) s m) := by
  rw [evalUtruncate_eq, utruncateSpec_nonneg]

/-- a negative width (`truncate_width = 0` gives `utruncate(…, -1)`): the empty string, except that a string of at most
    one character is returned as it is (the loop body is never entered). -/
theorem utruncate_negative_width (truth : Term → Bool) (w : Char → Int) (s : Str) (n : Int) (hn : n < 0) :
    evalUtruncate truth w s n = some (if s.length ≤ 1 then s else []) := by
  rw [evalUtruncate_eq, utruncateSpec_neg w s n hn]

/-- printable strings, width `m ≥ 0`: either the string without its last character fits and the string is returned
    WHOLE, or the result is the LONGEST prefix that fits (`s[:k]` fits, `s[:k+1]` does not, no fitting prefix is longer). -/
theorem utruncate_longest_prefix (truth : Term → Bool) (w : Char → Int) (s : Str) (hp : ∀ c ∈ s, 0 ≤ w c) (m : Nat) :
    ∃ r, evalUtruncate truth w s (m : Int) = some r ∧
      ((Render.ulen (wcOf w) s.dropLast ≤ m ∧ r = s) ∨
       (m < Render.ulen (wcOf w) s.dropLast ∧ ∃ k, k + 1 < s.length ∧ r = s.take k ∧
          Render.ulen (wcOf w) (s.take k) ≤ m ∧ m < Render.ulen (wcOf w) (s.take (k + 1)) ∧
          ∀ p, p <+: s → Render.ulen (wcOf w) p ≤ m → p.length ≤ k)) :=
  ⟨_, utruncate_eval_model truth w s m, Render.utruncate_spec_printable ((printable_iff w s).mpr hp) m⟩

/-- "the result is at most `width` wide" holds for a printable string that fits already or does not fit even without
    its last character … -/
theorem utruncate_fits_partial (truth : Term → Bool) (w : Char → Int) (s : Str) (hp : ∀ c ∈ s, 0 ≤ w c) (m : Nat)
    (h : Render.ulen (wcOf w) s ≤ m ∨ m < Render.ulen (wcOf w) s.dropLast) :
    ∃ r, evalUtruncate truth w s (m : Int) = some r ∧ Render.ulen (wcOf w) r ≤ m :=
  ⟨_, utruncate_eval_model truth w s m, Render.utruncate_fits_partial ((printable_iff w s).mpr hp) m h⟩

/-- … and is FALSE without that hypothesis (`utruncate("ab中", 2) == "ab中"`, 4 columns: the whole string is never
    measured) — the known finding of `Proofs/C20.lean`, here for the evaluated code. -/
theorem utruncate_fits_counterexample (truth : Term → Bool) :
    ¬ (∀ (w : Char → Int) (s : Str) (m : Nat), (∀ c ∈ s, 0 ≤ w c) →
        ∀ r, evalUtruncate truth w s (m : Int) = some r → ulenI w r ≤ m) := by
  intro h
  have h1 : evalUtruncate truth wDemo "ab中".toList ((2 : Nat) : Int) = some "ab中".toList := by
    rw [evalUtruncate_eq]; decide
  exact absurd (h wDemo "ab中".toList 2 (by decide) _ h1) (by decide)

/-- a printable string that fits is returned unchanged … -/
theorem utruncate_fitting_unchanged (truth : Term → Bool) (w : Char → Int) (s : Str) (hp : ∀ c ∈ s, 0 ≤ w c) (m : Nat)
    (h : Render.ulen (wcOf w) s ≤ m) : evalUtruncate truth w s (m : Int) = some s := by
  rw [utruncate_eval_model]
  have hs := (printable_iff w s).mpr hp
  have := Render.ulen_prefix_mono (List.dropLast_prefix s) hs
  rw [Render.utruncate_last_char_quirk_general hs m (by omega)]

/-- … but not a string with a non-printable character: `ulen("abc\x01") = 0` "fits" every width, yet the prefixes before
    the control character are measured as usual and the string is cut (`utruncate("abc\x01", 1) == "a"`). -/
theorem utruncate_fitting_unchanged_counterexample (truth : Term → Bool) :
    evalUlen truth wDemo ['a', 'b', 'c', '\x01'] = some 0 ∧
    evalUtruncate truth wDemo ['a', 'b', 'c', '\x01'] 1 = some ['a'] := by
  refine ⟨by rw [evalUlen_eq]; decide, by rw [evalUtruncate_eq]; decide⟩

/-! ### non-vacuity -/

/-- one wide, one zero-width character; both alignments; the evaluator run on the regenerated bodies. -/
example :
    evalUpad (fun _ => false) wDemo ["a".toList, "中".toList, "éf".toList] alignRight =
      some [" a".toList, "中".toList, "éf".toList] ∧
    evalUpad (fun _ => false) wDemo ["a".toList, "中".toList] "left".toList = some ["a ".toList, "中".toList] ∧
    evalUlen (fun _ => false) wDemo "a中é".toList = some 4 ∧
    evalUtruncate (fun _ => false) wDemo "abcdef".toList 3 = some "abc".toList ∧
    evalUtruncate (fun _ => false) wDemo "a中中".toList 2 = some "a".toList ∧
    evalUtruncate (fun _ => false) wDemo "ab中".toList 2 = some "ab中".toList ∧
    evalUtruncate (fun _ => false) wDemo "abc".toList (-1) = some [] ∧
    evalUtruncate (fun _ => false) wDemo [] 5 = some [] := by decide

end DI.Eval.C20

/-
  Proofs/EvalC08.lean — property C08, the Numba instance of the group scan.

  `Proofs/TieC08.lean` (`yield_groups_numba_code`) shows the translation of the current source of
  `yield_groups_numba` equal to the SAME term `groupScan`, with `is_na_numba(xij)` for `xij.is_na()` and
  `out.append(xij)` for `yield xij`.  With the evaluator of `Model/PyEvalScan.lean` (`P.isNaNumba` = the element-wise
  meaning of `is_na_numba`, `P.isNa` that of `Vector.is_na`):

  * `eval_groupScan_numba_eq_scan`: evaluating the translated body of `yield_groups_numba` gives `scan` with the Numba
    missing-value test — so every theorem of `Proofs/EvalC07.lean` about `scan` (concatenation, maximal runs, = the model's
    `chunks`, sorted ids ⇒ groups, count, drop after the cut) holds for the Numba path as well;
  * `numba_scan_same`: whenever the two missing-value tests agree on the elements of the column, the Numba function
    collects exactly the runs the Python generator yields — for every column, id list and `drop_na`.

  Statements only; proofs cite `Lemmas/PyEvalScan.lean`.
-/
import Generated.CodeC07
import Generated.CodeC08
import Model.PyEvalScan
import Lemmas.PyEvalScan
import Proofs.TieC07
import Proofs.TieC08
import Proofs.EvalC07

namespace DI.Eval.C08

open DI DI.Py DI.Gen DI.PyEvalScan

/-- the term of `Proofs/TieC08.lean` (`yield_groups_numba_code`) is the term evaluated here. -/
theorem groupScan_numba_term :
    Tie.C08.groupScan (fun r => Term.app "is_na_numba" [r]) (fun r => Term.app ".append" [Term.app "list" [], r]) =
      groupScan nbIsNa nbEmit := rfl

/-- the Python and the Numba function are one scan: the two terms differ in the missing-value test and in the emit
    statement only. -/
theorem groupScan_one_term (isNa emit : Term → Term) : Tie.C08.groupScan isNa emit = Tie.C07.groupScan isNa emit := rfl

/-- **evaluation = the loop (Numba)**: running the translated body of `yield_groups_numba` collects the runs of `scan`
    taken with the Numba missing-value test, for every column, every id list at least as long, both `drop_na`. -/
theorem eval_groupScan_numba_eq_scan {α : Type} (truth : Term → Bool) (P : Prims α) (x : List α) (group : List Nat)
    (dropNa : Bool) (hlen : x.length ≤ group.length) :
    run P (agg_yield_groups_numba truth).effs (args x group dropNa) = some (scan group x dropNa P.isNaNumba) := by
  rw [Tie.C08.yield_groups_numba_code]
  exact PyEvalScan.eval_groupScan_eq_scan P nbIsNa nbEmit P.isNaNumba (nbIsNa_term P) (nbEmit_term P) x group dropNa hlen

/-- **the Numba scan = the Python scan**: if `is_na_numba` and `Vector.is_na` agree on every element of the column,
    `yield_groups_numba` returns the list of runs that `yield_groups` yields (both succeed). -/
theorem numba_scan_same {α : Type} (truth truth' : Term → Bool) (P : Prims α) (x : List α) (group : List Nat)
    (dropNa : Bool) (hlen : group.length = x.length) (hagree : ∀ a ∈ x, P.isNaNumba a = P.isNa a) :
    run P (agg_yield_groups_numba truth).effs (args x group dropNa) =
      run P (agg_yield_groups truth').effs (args x group dropNa) := by
  rw [eval_groupScan_numba_eq_scan truth P x group dropNa (by omega),
    C07.eval_groupScan_eq_scan truth' P x group dropNa (by omega),
    scan_congr group x hlen dropNa P.isNaNumba P.isNa hagree]

/-- where the tests differ the two paths can differ — and only through `drop_na`: with `drop_na = False` the runs are
    the same whatever the tests. -/
theorem numba_scan_same_without_drop {α : Type} (truth truth' : Term → Bool) (P : Prims α) (x : List α)
    (group : List Nat) (hlen : group.length = x.length) :
    run P (agg_yield_groups_numba truth).effs (args x group false) =
      run P (agg_yield_groups truth').effs (args x group false) := by
  rw [eval_groupScan_numba_eq_scan truth P x group false (by omega),
    C07.eval_groupScan_eq_scan truth' P x group false (by omega),
    scan_eq_runs group x hlen, scan_eq_runs group x hlen, post_false, post_false]

/-! ### non-vacuity -/

/-- the 6-element column, three groups, two missing values: the Numba body collects the same three runs. -/
example :
    run C07.exPrims (agg_yield_groups_numba (fun _ => true)).effs
        (args [some 1, none, some 3, some 4, none, some 6] [0, 0, 1, 1, 1, 2] true) =
      some [[some 1], [some 3, some 4], [some 6]] ∧
    run C07.exPrims (agg_yield_groups_numba (fun _ => true)).effs
        (args [some 1, none, some 3, some 4, none, some 6] [0, 0, 1, 1, 1, 2] false) =
      some [[some 1, none], [some 3, some 4, none], [some 6]] := by decide

/-- the hypothesis of `numba_scan_same` is needed: a Numba test that misses a missing value keeps it in its run. -/
example :
    run (⟨fun c => c.isNone, fun _ => false⟩ : Prims (Option Nat)) (agg_yield_groups_numba (fun _ => true)).effs
        (args [some 1, none] [0, 0] true) = some [[some 1, none]] ∧
    run (⟨fun c => c.isNone, fun _ => false⟩ : Prims (Option Nat)) (agg_yield_groups (fun _ => true)).effs
        (args [some 1, none] [0, 0] true) = some [[some 1]] := by decide

end DI.Eval.C08

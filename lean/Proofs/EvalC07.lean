/-
  Proofs/EvalC07.lean — property C07, "code ⇒ semantics ⇒ model" for the group scan of `dataiter/aggregate.py`.

  `Generated/CodeC07.lean` is the translation of the current source of `yield_groups`; `Proofs/TieC07.lean`
  (`yield_groups_code`) shows it equal to the term `groupScan isNa emit`; `Model/PyEvalScan.lean` gives that term a
  meaning (`run`: the runs handed on, in order) and writes the loop directly in Lean (`scan`: state `(i, runs so far)`,
  fold over `j = 1 .. n`, the `continue` test `j < n ∧ group[j] = group[i]`).  Here, for ALL columns (any element
  type), ALL lists of group ids of the same length, both values of `drop_na` and ANY element-wise missing-value test:

  (a) `eval_groupScan_eq_scan`: evaluating the translated body of `yield_groups` yields exactly `scan`;
  (b) `scan_concat`: the runs concatenate to the column (`drop_na = False`) / to the column without its missing
      elements (`drop_na = True`);
  (c) `scan_runs_maximal`: every run is a block of CONSECUTIVE positions with one group id, neighbouring runs have
      different ids (no sortedness needed); `scan_eq_model_chunks` / `group_form_is_kernel_of_scan`: the runs are the
      model's `chunks` (Model/Aggregate.lean) — for every id list, in particular every sorted one —, so the model's
      `groupForm` is its kernel applied to the runs of the scan; `scan_sorted_runs_are_groups`: for sorted ids the runs
      are the groups — one per distinct id, ids strictly increasing, each run the elements of its id in their original
      relative order;
  (d) `scan_count`: sorted ids ⇒ number of runs = number of distinct ids; zero rows ⇒ zero runs;
  (e) `scan_drop_after_cut`: missing elements are dropped run by run AFTER the cut (a run may become empty, the number
      of runs does not change); with `drop_na = False` no run is empty.

  Statements only; proofs cite `Lemmas/PyEvalScan.lean`.
-/
import Generated.CodeC07
import Model.PyEvalScan
import Model.Group
import Lemmas.PyEvalScan
import Proofs.TieC07

namespace DI.Eval.C07

open DI DI.Py DI.Gen DI.PyEvalScan

/-- the term of `Proofs/TieC07.lean` (`yield_groups_code`) is the term evaluated here. -/
theorem groupScan_term :
    Tie.C07.groupScan (fun r => Term.app ".is_na" [r]) (fun r => Term.app "yield" [r]) = groupScan pyIsNa pyEmit := rfl

/-- **(a) evaluation = the loop**: for every interpretation `truth` of the translator, every element type and
    missing-value test (`P.isNa` is the element-wise meaning of `xij.is_na()`), every column `x`, every list of group ids
    at least as long as the column and both values of `drop_na`: running the translated body of `yield_groups` on these
    arguments succeeds and yields the runs of `scan`, in order. -/
theorem eval_groupScan_eq_scan {α : Type} (truth : Term → Bool) (P : Prims α) (x : List α) (group : List Nat)
    (dropNa : Bool) (hlen : x.length ≤ group.length) :
    run P (agg_yield_groups truth).effs (args x group dropNa) = some (scan group x dropNa P.isNa) := by
  rw [Tie.C07.yield_groups_code]
  exact PyEvalScan.eval_groupScan_eq_scan P pyIsNa pyEmit P.isNa (pyIsNa_term P) (pyEmit_term P) x group dropNa hlen

/-- **(b) nothing lost, nothing repeated, order kept**: with `drop_na = False` the concatenation of the runs is the
    column; with `drop_na = True` it is the column with the missing elements removed. -/
theorem scan_concat {α : Type} (group : List Nat) (x : List α) (hlen : group.length = x.length) (isNa : α → Bool) :
    (scan group x false isNa).flatten = x ∧
    (scan group x true isNa).flatten = x.filter (fun a => !isNa a) :=
  ⟨scan_flatten group x hlen isNa, scan_flatten_drop group x hlen isNa⟩

/-- **(c) the runs are maximal runs of equal ids** (any id list, sorted or not).  Cut the column of pairs
    `(group[k], x[k])` with the same scan; then
    * forgetting the ids gives back the runs of `x` (the cut depends on the ids only),
    * the runs of pairs concatenate to `zip group x` — each run is a block of CONSECUTIVE positions,
    * within a run all ids are equal,
    * any element of a run and any element of the NEXT run have different ids (a run cannot be extended). -/
theorem scan_runs_maximal {α : Type} (group : List Nat) (x : List α) (hlen : group.length = x.length)
    (isNa : α → Bool) (isNa' : Nat × α → Bool) :
    let R := scan group (group.zip x) false isNa'
    R.map (List.map Prod.snd) = scan group x false isNa ∧
    R.flatten = group.zip x ∧
    (∀ r ∈ R, ∀ b ∈ r, ∀ c ∈ r, b.1 = c.1) ∧
    (∀ k (hk : k + 1 < R.length), ∀ b ∈ R[k], ∀ c ∈ R[k + 1], b.1 ≠ c.1) := by
  obtain ⟨h1, h2, h3, h4⟩ := scan_keyed group x hlen isNa isNa'
  exact ⟨h1, h2, h3, fun k hk => adjacent_getElem _ _ h4 k hk⟩

/-- **(c) the scan computes the model's splitting function**: on numeric cells with `is_na` = "is None", for EVERY id
    list of the column's length (in particular every sorted one, as `DataFrame.aggregate` passes), the runs of the scan
    are the model's `chunks`, each put through the model's `handleNa`. -/
theorem scan_eq_model_chunks (ids : List Nat) (xs : List Agg.Num) (hlen : ids.length = xs.length) (dropNa : Bool) :
    scan ids xs dropNa (fun c => c.isNone) = (Agg.chunks ids xs).map (fun xg => Agg.handleNa xg dropNa) :=
  scan_eq_chunks ids xs hlen dropNa

/-- hence the model's group-wise form of every helper is its kernel (then `None -> default`) on the runs of the scan,
    called with `drop_na and data[x].is_na().any()` as the closure does. -/
theorem group_form_is_kernel_of_scan (h : Agg.Helper) (drop : Bool) (xs : List Agg.Num) (ids : List Nat)
    (hlen : ids.length = xs.length) :
    Agg.groupForm h drop xs ids =
      (scan ids xs (drop && Agg.hasNa xs) (fun c => c.isNone)).map (fun xg =>
        match Agg.kernel h xg with
        | some r => r
        | none => Agg.defaultOf h) :=
  groupForm_eq_scan h drop xs ids hlen

/-- **(c) sorted ids ⇒ the runs are the groups**: when `group` is non-decreasing the scan yields one run per distinct
    id, the ids (`group.eraseDups`) strictly increasing, and the run of `id` is `pick id group x` — the elements of `x`
    at the positions whose id is `id`, in their original relative order — minus its missing elements when `drop_na`. -/
theorem scan_sorted_runs_are_groups {α : Type} (group : List Nat) (x : List α) (hlen : group.length = x.length)
    (hs : group.Pairwise (· ≤ ·)) (dropNa : Bool) (isNa : α → Bool) :
    scan group x dropNa isNa = group.eraseDups.map (fun id => post dropNa isNa (pick id group x)) ∧
    group.eraseDups.Pairwise (· < ·) ∧
    (∀ id, pick id group x = ((group.zip x).filter (fun p => p.1 == id)).map (·.2)) :=
  ⟨scan_sorted group x hlen hs dropNa isNa, eraseDups_sorted group hs, fun _ => rfl⟩

/-- **(d) number of runs**: for sorted ids it is the number of distinct ids, whatever `drop_na`; a column with zero
    rows gives zero runs (the loop body never runs — an `np.split`-style cut gives one empty run, see the example). -/
theorem scan_count {α : Type} (group : List Nat) (x : List α) (hlen : group.length = x.length)
    (hs : group.Pairwise (· ≤ ·)) (dropNa : Bool) (isNa : α → Bool) :
    (scan group x dropNa isNa).length = group.eraseDups.length ∧
    scan group ([] : List α) dropNa isNa = [] :=
  ⟨PyEvalScan.scan_count group x hlen hs dropNa isNa, scan_nil group dropNa isNa⟩

/-- **(e) the drop happens after the cut**: the runs with `drop_na = True` are the runs with `drop_na = False`, each
    filtered on its own — the same number of runs, a run may become empty but never merges with a neighbour; with
    `drop_na = False` every run is non-empty. -/
theorem scan_drop_after_cut {α : Type} (group : List Nat) (x : List α) (hlen : group.length = x.length)
    (isNa : α → Bool) :
    scan group x true isNa = (scan group x false isNa).map (List.filter (fun a => !isNa a)) ∧
    (scan group x true isNa).length = (scan group x false isNa).length ∧
    (∀ r ∈ scan group x false isNa, r ≠ []) :=
  ⟨scan_drop group x hlen isNa, by rw [scan_drop group x hlen isNa, List.length_map], scan_ne_nil group x hlen isNa⟩

/-! ### non-vacuity: concrete runs -/

/-- `is_na` = "is None" on optional naturals. -/
def exPrims : Prims (Option Nat) := ⟨fun c => c.isNone, fun c => c.isNone⟩

/-- a 6-element column, three groups, two missing values: the translated `yield_groups` evaluates to the three runs
    (with and without the drop), which are `scan`, the model's `chunks`, and the per-id picks. -/
example :
    run exPrims (agg_yield_groups (fun _ => true)).effs
        (args [some 1, none, some 3, some 4, none, some 6] [0, 0, 1, 1, 1, 2] true) =
      some [[some 1], [some 3, some 4], [some 6]] ∧
    run exPrims (agg_yield_groups (fun _ => true)).effs
        (args [some 1, none, some 3, some 4, none, some 6] [0, 0, 1, 1, 1, 2] false) =
      some [[some 1, none], [some 3, some 4, none], [some 6]] ∧
    scan [0, 0, 1, 1, 1, 2] [some 1, none, some 3, some 4, none, some 6] false (fun c => c.isNone) =
      [[some 1, none], [some 3, some 4, none], [some 6]] ∧
    [0, 0, 1, 1, 1, 2].eraseDups.map (fun id => pick id [0, 0, 1, 1, 1, 2] [some 1, none, some 3, some 4, none, some 6]) =
      [[some 1, none], [some 3, some 4, none], [some 6]] := by decide

/-- a run whose elements are all missing becomes EMPTY, it does not merge with its neighbours; unsorted ids: the runs
    are the maximal blocks, an id can come back. -/
example :
    scan [0, 1, 2] [some 1, none, some 3] true (fun c => c.isNone) = [[some 1], [], [some 3]] ∧
    scan [0, 1, 0] [some 1, none, some 3] false (fun c => c.isNone) = [[some 1], [none], [some 3]] ∧
    scan [7, 7, 7] [some 1, none, some 3] false (fun c => c.isNone) = [[some 1, none, some 3]] := by decide

/-- zero rows: zero runs — where `np.split(index, starts[1:])` (the cut of `DataFrame.split`, `DI.splitAt`) gives one
    empty piece. -/
example : scan [] ([] : List Nat) false (fun _ => false) = [] ∧ DI.splitAt [] [] = [[]] := by decide

/-- the ids longer than the column is still fine (only `group[j]`, `j < len(x)`, is read); shorter ids raise. -/
example :
    run exPrims (agg_yield_groups (fun _ => true)).effs (args [some 1, some 2] [0, 1, 5] false) = some [[some 1], [some 2]] ∧
    run exPrims (agg_yield_groups (fun _ => true)).effs (args [some 1, some 2] [0] false) = none := by decide

end DI.Eval.C07

/-
  Proofs/TieC19b.lean — obligations over `Generated/CodeC19.lean` for the functions added to the regenerated file last:
  the eight remaining extractors of `dataiter/dt.py` (`day`, `hour`, `isoweek`, `isoweekday`, `microsecond`, `minute`,
  `month`, `second`), the constructors `new`, `now`, `today`, the three proxy classes of `dataiter/vector.py` (`DtProxy`,
  `ReProxy`, `StrProxy`: which functions they bind, and how), the properties `Vector.dt` / `.re` / `.str` that hand them out,
  and `as_vector` (+ its inner `wrapper`).

  Property C19: the `dt` and `regex` functions act element-wise like `datetime` / `re`.  An extractor IS `_pull_int` applied
  to a one-attribute lambda (`extractor_codes_b`) and `_pull_int` is the model's `DtRe.pull` (`Eval.C19.pull_eval`), so the
  only thing an extractor can get wrong is the attribute it reads: `extractors_read_their_own_attribute`.  A proxy method IS
  the module function with the vector bound (`proxy_init_codes`), for every function that takes a vector
  (`dt_proxy_covers_public_functions`, `re_proxy_covers_public_functions`), and the regenerated `ProxyTable` is what the
  translated constructors say (`proxy_rows_eq_table`).
-/
import Generated.CodeC19
import Generated.ProxyTable
import Model.DtRegex
import Proofs.TieC19
import Proofs.C19
import Proofs.EvalC19

namespace DI.Tie.C19

open DI.Py DI.Gen

/-! ### the extractors -/

/-- `_pull_int(x, lambda y: <body>)`. -/
def pullIntOf (body : Term) : Out :=
  Out.ret [] (Term.app "_pull_int" [Term.sym "x", Term.app "lambda" [Term.app "params" [Term.sym "y"], body]])

/-- `y.<name>` (an attribute) or `y.<name>()` (a method without arguments) of one `datetime` object. -/
def ofY (name : String) : Term := Term.app ("." ++ name) [Term.sym "y"]

/-- **the eight extractors**: each is `_pull_int` of ONE attribute / method of the Python `datetime` object of an element —
    `.day`, `.hour`, `.microsecond`, `.minute`, `.month`, `.second`, `.isoweekday()` (Monday = 1 … Sunday = 7; not
    `weekday()`, Monday = 0), and for `isoweek` the SECOND component of `.isocalendar()` (year, week, weekday) — and nothing
    else: no test, no arithmetic, no effect of their own. -/
theorem extractor_codes_b (truth : Term → Bool) :
    dt_day truth = pullIntOf (ofY "day") ∧ dt_hour truth = pullIntOf (ofY "hour") ∧
    dt_isoweek truth = pullIntOf (Term.app "getitem" [ofY "isocalendar", Term.int 1]) ∧
    dt_isoweekday truth = pullIntOf (ofY "isoweekday") ∧ dt_microsecond truth = pullIntOf (ofY "microsecond") ∧
    dt_minute truth = pullIntOf (ofY "minute") ∧ dt_month truth = pullIntOf (ofY "month") ∧
    dt_second truth = pullIntOf (ofY "second") := ⟨rfl, rfl, rfl, rfl, rfl, rfl, rfl, rfl⟩

/-- the body of the lambda handed to `_pull_int`. -/
def pulledBody : Out → Option Term
  | .ret [] (.app "_pull_int" [.sym "x", .app "lambda" [.app "params" [.sym "y"], body]]) => some body
  | _ => none

/-- the name read from the element: `.name` directly, or through `isocalendar()[k]`. -/
def attrName : Term → Option String
  | .app f [.sym "y"] => some f
  | .app "getitem" [.app f [.sym "y"], .int k] => some (f ++ "[" ++ toString k ++ "]")
  | _ => none

/-- **every extractor reads the attribute it is named after**, all ten of them (with `year` and `weekday` of
    `Proofs/TieC19.lean`): no two share an attribute, so no two can have been swapped. -/
theorem extractors_read_their_own_attribute (truth : Term → Bool) :
    [("year", dt_year truth), ("month", dt_month truth), ("day", dt_day truth), ("hour", dt_hour truth),
     ("minute", dt_minute truth), ("second", dt_second truth), ("microsecond", dt_microsecond truth),
     ("weekday", dt_weekday truth), ("isoweekday", dt_isoweekday truth), ("isoweek", dt_isoweek truth)].map
      (fun p => (p.1, (pulledBody p.2).bind attrName)) =
    [("year", some ".year"), ("month", some ".month"), ("day", some ".day"), ("hour", some ".hour"),
     ("minute", some ".minute"), ("second", some ".second"), ("microsecond", some ".microsecond"),
     ("weekday", some ".weekday"), ("isoweekday", some ".isoweekday"), ("isoweek", some ".isocalendar[1]")] := rfl

/-- one parameter, the vector (or scalar) itself; no decorator; the one call is `_pull_int`. -/
theorem extractor_signatures :
    [dt_day_signature, dt_hour_signature, dt_isoweek_signature, dt_isoweekday_signature, dt_microsecond_signature,
     dt_minute_signature, dt_month_signature, dt_second_signature].all (· == ["x"]) = true ∧
    [dt_day_call_order, dt_hour_call_order, dt_isoweek_call_order, dt_isoweekday_call_order, dt_microsecond_call_order,
     dt_minute_call_order, dt_month_call_order, dt_second_call_order].all (· == ["_pull_int"]) = true ∧
    [dt_day_decorators, dt_hour_decorators, dt_isoweek_decorators, dt_isoweekday_decorators, dt_microsecond_decorators,
     dt_minute_decorators, dt_month_decorators, dt_second_decorators].all (· == []) = true := by decide

open DI.PyEvalLift DI.DtRe in
/-- **REFINEMENT — an extractor is the model's element-wise lifting of its attribute**: each of the eight is
    `_pull_int(x, λ)` (first part), and the regenerated `_pull_int`, run on the vector `xs` with `function` denoting the
    attribute reader `C.f`, returns `C.f` of every non-missing element at its own position and the missing marker at the NaT
    positions — as an integer vector when there is at least one element and none is missing, as a float vector otherwise
    (`Eval.C19.pull_eval`, i.e. `DtRe.pull` / `C19.dt_elementwise` / `C19.extractor_result_type`). -/
theorem extractor_semantics {ε ρ : Type} (C : Ctx ε ρ) (truth : Term → Bool) (xs : List (Option ε))
    (ht : Agrees C (pullEnv xs) truth) :
    (∀ E ∈ [dt_day, dt_hour, dt_isoweek, dt_isoweekday, dt_microsecond, dt_minute, dt_month, dt_second],
      ∃ body, E truth = pullIntOf body) ∧
    runOut C (pullEnv xs) (dt_pull_int truth) =
      some (if !xs.isEmpty && xs.all (·.isSome) then .iout ((xs.filterMap id).map C.f)
            else .out (xs.map (fun x => x.map C.f))) := by
  refine ⟨?_, (Eval.C19.pull_eval C truth xs ht).2⟩
  intro E hE
  simp only [List.mem_cons, List.mem_nil_iff, or_false] at hE
  rcases hE with h | h | h | h | h | h | h | h <;> subst h <;> exact ⟨_, rfl⟩

/-! ### new / now / today -/

/-- **new**: a scalar ⇒ `np.datetime64(x)`; anything else ⇒ `np.datetime64` applied to EVERY element (no mask, no `_pull`:
    a missing element goes through `np.datetime64` like the others, which turns `None` / the blank string into NaT), the
    results collected into a datetime vector (`Vector.fast(…, np.datetime64)`: NumPy picks the common unit). -/
theorem new_code (truth : Term → Bool) :
    dt_new truth = (if truth (Term.app "util.is_scalar" [Term.sym "x"]) then Out.ret [] (Term.app "np.datetime64" [Term.sym "x"])
      else Out.ret [] (Term.app "Vector.fast" [Term.app "map" [Term.sym "np.datetime64", Term.sym "x"], Term.sym "np.datetime64"])) ∧
    dt_new_signature = ["x"] ∧ dt_new_call_order = ["util.is_scalar", "np.datetime64", "map", "Vector.fast"] := by
  refine ⟨?_, rfl, rfl⟩
  unfold dt_new; split <;> rfl

/-- **now / today**: `np.datetime64(datetime.datetime.now())` — the local wall clock, no time zone, microsecond unit — and
    `np.datetime64(datetime.date.today())` — a DATE (day unit), not midnight as a datetime; no parameters; the clock is read
    first, then converted. -/
theorem now_today_code (truth : Term → Bool) :
    dt_now truth = Out.ret [] (Term.app "np.datetime64" [Term.app "datetime.datetime.now" []]) ∧
    dt_today truth = Out.ret [] (Term.app "np.datetime64" [Term.app "datetime.date.today" []]) ∧
    dt_now_signature = [] ∧ dt_today_signature = [] ∧
    dt_now_call_order = ["datetime.datetime.now", "np.datetime64"] ∧
    dt_today_call_order = ["datetime.date.today", "np.datetime64"] := ⟨rfl, rfl, rfl, rfl, rfl, rfl⟩

/-! ### the proxies -/

/-- `lambda f: functools.partial(f, vector)`: the vector becomes the FIRST positional argument. -/
def wrapDt : Term :=
  Term.app "lambda" [Term.app "params" [Term.sym "f"], Term.app "functools.partial" [Term.sym "f", Term.sym "vector"]]

/-- `lambda f: functools.partial(f, string=vector)`: the vector becomes the KEYWORD argument `string`. -/
def wrapRe : Term :=
  Term.app "lambda" [Term.app "params" [Term.sym "f"],
    Term.app "functools.partial" [Term.sym "f", Term.app "=string" [Term.sym "vector"]]]

/-- `lambda name: as_vector(functools.partial(getattr(np.strings, name, not_implemented), vector))`: the NumPy function of
    that name if this NumPy has one — otherwise a stand-in that raises `NotImplementedError` WHEN CALLED, not when the proxy
    is built —, the vector as first positional argument, the result viewed as a `Vector`. -/
def wrapStr : Term :=
  Term.app "lambda" [Term.app "params" [Term.sym "name"], Term.app "as_vector" [Term.app "functools.partial"
    [Term.app "getattr" [Term.sym "np.strings", Term.sym "name", Term.sym "not_implemented"], Term.sym "vector"]]]

/-- `self.<n> = wrap(<target n>)` for every name, in order; nothing else; `__init__` returns None. -/
def bindAll (wrap : Term) (names : List String) (target : String → Term) : Out :=
  Out.fall (names.map fun n => Term.app "setattr" [Term.sym "self", Term.sym n, Term.app "call" [wrap, target n]])

def dtNames : List String :=
  ["day", "from_string", "hour", "isoweek", "isoweekday", "microsecond", "minute", "month", "new", "quarter", "replace",
   "second", "to_string", "weekday", "year"]

def reNames : List String := ["findall", "fullmatch", "match", "search", "split", "sub", "subn"]

def strNames : List String :=
  ["add", "capitalize", "center", "count", "decode", "encode", "endswith", "equal", "expandtabs", "find", "greater",
   "greater_equal", "index", "isalnum", "isalpha", "isdecimal", "isdigit", "islower", "isnumeric", "isspace", "istitle",
   "isupper", "less", "less_equal", "ljust", "lower", "lstrip", "mod", "multiply", "not_equal", "replace", "rfind", "rindex",
   "rjust", "rstrip", "startswith", "str_len", "strip", "swapcase", "title", "translate", "upper", "zfill"]

/-- **the three constructors**: every attribute is bound to the function OF THE SAME NAME — `self.X = partial(dt.X, vector)`,
    `self.X = partial(regex.X, string=vector)`, `self.X = as_vector(partial(np.strings.X, vector))` — for exactly the names
    listed; so `v.dt.X(a…)` is `dt.X(v, a…)`, `v.re.X(a…)` is `regex.X(a…, string=v)`, `v.str.X(a…)` is
    `np.strings.X(v, a…).view(Vector)`.  The vector is captured at construction (the proxy of a vector is about THAT vector). -/
theorem proxy_init_codes (truth : Term → Bool) :
    DtProxy_init truth = bindAll wrapDt dtNames (fun n => Term.sym ("dt." ++ n)) ∧
    ReProxy_init truth = bindAll wrapRe reNames (fun n => Term.sym ("regex." ++ n)) ∧
    StrProxy_init truth = bindAll wrapStr strNames (fun n => Term.sym ("'" ++ n ++ "'")) ∧
    DtProxy_init_signature = ["self", "vector"] ∧ ReProxy_init_signature = ["self", "vector"] ∧
    StrProxy_init_signature = ["self", "vector"] := ⟨rfl, rfl, rfl, rfl, rfl, rfl⟩

/-- **DtProxy lists every public function of `dt` that takes a vector**: of the seventeen public functions of
    `dataiter/dt.py` (each named here through its regenerated signature, so a removed function breaks this file) the ones
    whose first parameter is `x` are exactly the fifteen bound ones; the two left out, `now` and `today`, take no argument. -/
theorem dt_proxy_covers_public_functions :
    ([("day", dt_day_signature), ("from_string", dt_from_string_signature), ("hour", dt_hour_signature),
      ("isoweek", dt_isoweek_signature), ("isoweekday", dt_isoweekday_signature), ("microsecond", dt_microsecond_signature),
      ("minute", dt_minute_signature), ("month", dt_month_signature), ("new", dt_new_signature), ("now", dt_now_signature),
      ("quarter", dt_quarter_signature), ("replace", dt_replace_signature), ("second", dt_second_signature),
      ("to_string", dt_to_string_signature), ("today", dt_today_signature), ("weekday", dt_weekday_signature),
      ("year", dt_year_signature)].filter (fun p => p.2.head? == some "x")).map (·.1) = dtNames := by decide

/-- **ReProxy lists every public function of `regex`**, and binding the vector BY KEYWORD is right for all seven: each has a
    parameter called `string`, first parameter `pattern`; `string` is the second parameter of five and the THIRD of `sub` /
    `subn` (after `repl`), which is why it cannot be bound by position.  (Consequence: through the proxy everything after
    `string` — `flags`, `count`, `maxsplit` — must be passed by keyword.) -/
theorem re_proxy_covers_public_functions :
    [("findall", regex_findall_signature), ("fullmatch", regex_fullmatch_signature), ("match", regex_match_signature),
     ("search", regex_search_signature), ("split", regex_split_signature), ("sub", regex_sub_signature),
     ("subn", regex_subn_signature)].map (fun p => (p.1, p.2.head?, p.2.idxOf "string")) =
    reNames.map (fun n => (n, some "pattern", if n = "sub" ∨ n = "subn" then 2 else 1)) := by decide

/-- how a wrapper binds the vector, in the words of the regenerated proxy table. -/
def bindingKind : Term → String
  | .app "lambda" [.app "params" [.sym "f"], .app "functools.partial" [.sym "f", .sym "vector"]] => "partial-first"
  | .app "lambda" [.app "params" [.sym "f"], .app "functools.partial" [.sym "f", .app "=string" [.sym "vector"]]] =>
    "partial-string-kw"
  | .app "lambda" [.app "params" [.sym "name"], .app "as_vector" [.app "functools.partial"
      [.app "getattr" [.sym "np.strings", .sym "name", .sym "not_implemented"], .sym "vector"]]] => "np.strings-partial-first"
  | _ => "?"

/-- the rows of the proxy table a translated constructor stands for. -/
def proxyRows (cls : String) (o : Out) : List (String × String × String × String) :=
  o.effs.filterMap fun
    | .app "setattr" [.sym "self", .sym attr, .app "call" [wrap, .sym target]] => some (cls, attr, target, bindingKind wrap)
    | _ => none

/-- **the regenerated proxy table is what the translated constructors say** (so `C19.proxies_call_module_functions` is a
    statement about the translated code): same rows, same order, nothing missing, nothing extra. -/
theorem proxy_rows_eq_table (truth : Term → Bool) :
    proxyRows "DtProxy" (DtProxy_init truth) ++ proxyRows "ReProxy" (ReProxy_init truth) ++
      proxyRows "StrProxy" (StrProxy_init truth) = proxyTable := rfl

/-! ### Vector.dt / Vector.re / Vector.str -/

/-- `if not hasattr(self, slot): self.<slot> = Cls(self)`; `return self.<slot>` — built on first use, then cached on the
    vector itself. -/
def lazyProxy (truth : Term → Bool) (cls slot quotedSlot : String) : Out :=
  if truth (Term.app "hasattr" [Term.sym "self", Term.sym quotedSlot]) then Out.ret [] (Term.app ("." ++ slot) [Term.sym "self"])
  else Out.ret [Term.app "setattr" [Term.sym "self", Term.sym slot, Term.app cls [Term.sym "self"]]] (Term.app cls [Term.sym "self"])

/-- **Vector.dt / .re / .str**: read-only properties that build the proxy of THIS vector on first access (`DtProxy(self)` …),
    keep it in `_dt` / `_re` / `_str`, and return the kept one afterwards; the ONLY test is `hasattr(self, '_dt')` …: -/
theorem proxy_properties (truth : Term → Bool) :
    Vector_dt truth = lazyProxy truth "DtProxy" "_dt" "'_dt'" ∧
    Vector_re truth = lazyProxy truth "ReProxy" "_re" "'_re'" ∧
    Vector_str truth = lazyProxy truth "StrProxy" "_str" "'_str'" ∧
    Vector_dt_decorators = ["property"] ∧ Vector_re_decorators = ["property"] ∧ Vector_str_decorators = ["property"] ∧
    Vector_dt_call_order = ["hasattr", "DtProxy"] ∧ Vector_re_call_order = ["hasattr", "ReProxy"] ∧
    Vector_str_call_order = ["hasattr", "StrProxy"] := by
  refine ⟨?_, ?_, ?_, rfl, rfl, rfl, rfl, rfl, rfl⟩
  · unfold Vector_dt lazyProxy; cases truth (Term.app "hasattr" [Term.sym "self", Term.sym "'_dt'"]) <;> rfl
  · unfold Vector_re lazyProxy; cases truth (Term.app "hasattr" [Term.sym "self", Term.sym "'_re'"]) <;> rfl
  · unfold Vector_str lazyProxy; cases truth (Term.app "hasattr" [Term.sym "self", Term.sym "'_str'"]) <;> rfl

/-- … **there is NO dtype guard at the property**: whatever the tests answer, `.dt` / `.re` / `.str` return a proxy and never
    raise — a `.dt` on a vector of integers or strings is handed out like any other.  The type check happens later, inside
    the function called: the two `assert`s of `_pull_*` / `from_string` / `_prep` (`pull`, `from_string_code`, `prep_code` of
    `Proofs/TieC19.lean`; they vanish under `python -O`) or NumPy's own error for `np.strings`. -/
theorem proxy_properties_never_raise (truth : Term → Bool) :
    (∃ e t, Vector_dt truth = Out.ret e t) ∧ (∃ e t, Vector_re truth = Out.ret e t) ∧
    (∃ e t, Vector_str truth = Out.ret e t) := by
  refine ⟨?_, ?_, ?_⟩
  · unfold Vector_dt; split <;> exact ⟨_, _, rfl⟩
  · unfold Vector_re; split <;> exact ⟨_, _, rfl⟩
  · unfold Vector_str; split <;> exact ⟨_, _, rfl⟩

/-! ### as_vector -/

/-- **as_vector.wrapper**: calls the wrapped function with the arguments unchanged and returns `array.view(Vector)` — a VIEW of
    whatever array came back (no copy, no dtype conversion: `str_len` gives an integer vector, `isalpha` a Boolean one), the
    call first, the view second. -/
theorem as_vector_wrapper_code (truth : Term → Bool) :
    vector_as_vector_wrapper truth = Out.ret [] (Term.app ".view"
      [Term.app "function" [Term.app "*" [Term.sym "args"], Term.app "=**" [Term.sym "kwargs"]], Term.sym "Vector"]) ∧
    vector_as_vector_wrapper_signature = ["*args", "**kwargs"] ∧
    vector_as_vector_wrapper_decorators = ["functools.wraps(function)"] ∧
    vector_as_vector_wrapper_call_order = ["function", "array.view"] := ⟨rfl, rfl, rfl, rfl⟩

/-- **as_vector**: returns that wrapper (a `functools.wraps` copy of the function) and does nothing else. -/
theorem as_vector_code (truth : Term → Bool) :
    vector_as_vector truth = Out.ret [] (Term.app "local-def" [Term.app "def"
      [Term.app "decorator" [Term.app "functools.wraps" [Term.sym "function"]], Term.sym "wrapper",
       Term.app "params" [Term.sym "*args", Term.sym "**kwargs"],
       Term.app "block" [Term.app "assign" [Term.sym "array", Term.app "function" [Term.app "*" [Term.sym "args"], Term.app "=**" [Term.sym "kwargs"]]],
                         Term.app "return" [Term.app ".view" [Term.sym "array", Term.sym "Vector"]]]]]) ∧
    vector_as_vector_signature = ["function"] ∧ vector_as_vector_decorators = [] := ⟨rfl, rfl, rfl⟩

end DI.Tie.C19

/-
  Proofs/TieC07b.lean — obligations over `Generated/CodeC07.lean` for the aggregation helpers that were added to the
  regenerated file last: `all`, `any`, `count`, `count_unique`, `first`, `last`, `max`, `mean`, `min`, `mode`, `quantile`,
  the decorator `composite` (+ its inner `wrapper`) and the inner `aggregate` of `generic`.

  Every helper is ONE test, `isinstance(x, str)`:
    * false ⇒ the VECTOR form: the statistic of the vector itself (`*_vector_form`): which NumPy function, whether the
      missing values are dropped first (`handle_na(x, drop_na)`), which length guard, which value for too few elements;
    * true  ⇒ the GROUP form (`*_group_form`): a closure `aggregate(data)` marked `group_aware`, which picks a kernel pair
      (`genericClosure`: `(generic, generic_numba)` applied to a NumPy function; `applyClosure`: a dedicated pair), stores
      `aggregate.default` and calls the kernel with the column, the group ids, `drop_na=`, and for the generic pair
      `default=` / `nrequired=`.
  From these normal forms: the row of the regenerated helper table (`code_rows_eq_helper_table`), the instances of
  `generic` of the model (`generic_call_sites_b`), the model's `Agg.defaultOf` (`stored_default_eq_model`), which kernel
  runs with Numba (`kernel_pairs`), and — under the interpretation `vecTruth` of the length tests — the model's
  `Agg.vectorForm` for all fifteen statistics (`vector_forms_refine_model`).
-/
import Generated.CodeC07
import Generated.HelperTable
import Model.Aggregate
import Lemmas.PyEvalAgg
import Proofs.TieC07
import Proofs.EvalC07b

namespace DI.Tie.C07

open DI.Py DI.Gen

/-! ### recurring sub-terms -/

/-- the one test every helper makes: is `x` a column name? -/
abbrev isStr : Term := Term.app "isinstance" [Term.sym "x", Term.sym "str"]

/-- `data._group_`: the group id of every row. -/
def dataGroup : Term := Term.app "._group_" [Term.sym "data"]

/-- `len(handle_na(x, drop_na)) >= k`: the vector forms count AFTER the drop. -/
def keptAtLeast (k : Int) : Term := Term.app "GtE" [Term.app "len" [kept], Term.int k]

/-- a closure on the GENERIC kernel pair: `f = select((generic, generic_numba), data, sel)(npf)`; `aggregate.default = stored`;
    `return f(col, data._group_, drop, default=dflt, nrequired=nreq)`. -/
def genericClosure (npf : String) (sel col drop stored dflt : Term) (nreq : Int) : Out :=
  groupAware
    [Term.app "assign" [Term.sym "f", Term.app "tuple" [Term.sym "generic", Term.sym "generic_numba"]],
     Term.app "assign" [Term.sym "f", Term.app "call" [Term.app "select" [Term.sym "f", Term.sym "data", sel], Term.sym npf]],
     Term.app "store" [Term.sym "aggregate.default", stored],
     Term.app "return" [Term.app "call" [Term.sym "f", col, dataGroup, drop, Term.app "=default" [dflt], Term.app "=nrequired" [Term.int nreq]]]]

/-- a closure on a DEDICATED kernel pair: `f = select((py, nb), data, x)`; `aggregate.default = stored`; `return f(args…)`
    — no `default=` / `nrequired=`: the kernel has its own length test (or none). -/
def applyClosure (py nb : String) (stored : Term) (args : List Term) : Out :=
  groupAware
    [Term.app "assign" [Term.sym "f", Term.app "tuple" [Term.sym py, Term.sym nb]],
     Term.app "assign" [Term.sym "f", Term.app "select" [Term.sym "f", Term.sym "data", Term.sym "x"]],
     Term.app "store" [Term.sym "aggregate.default", stored],
     Term.app "return" [Term.app "call" (Term.sym "f" :: args)]]

/-- `x or '_group_'`: the column `count()` counts when no name is given. -/
def xOrGroup : Term := Term.app "Or" [Term.sym "x", Term.sym "'_group_'"]

/-! ### all / any -/

/-- **all / any, vector form**: `np.all(x.as_boolean()).item()` / `np.any(…)` on the WHOLE vector: no `handle_na` (a missing
    value is cast to a Boolean like any other element), no length guard (NumPy's own value for the empty vector). -/
theorem all_any_vector_form (truth : Term → Bool) (h : truth isStr = false) :
    agg_all truth = Out.ret [] (Term.app ".item" [Term.app "np.all" [Term.app ".as_boolean" [Term.sym "x"]]]) ∧
    agg_any truth = Out.ret [] (Term.app ".item" [Term.app "np.any" [Term.app ".as_boolean" [Term.sym "x"]]]) := by
  constructor
  · unfold agg_all; simp only [h, Bool.false_eq_true, if_false]
  · unfold agg_any; simp only [h, Bool.false_eq_true, if_false]

/-- **all / any, group form**: the generic pair on `np.all` / `np.any`, the column cast with `as_boolean()`, `drop_na=False`
    ALWAYS (not `drop_na and …`: these two helpers have no such parameter), `nrequired=0`, and for the empty group the
    neutral element: `default=True` for all, `default=False` for any (the same value is stored as `aggregate.default`). -/
theorem all_any_group_form (truth : Term → Bool) (h : truth isStr = true) :
    agg_all truth = genericClosure "np.all" (Term.sym "x") (Term.app ".as_boolean" [colX])
      (Term.app "=drop_na" [Term.sym "False"]) (Term.sym "True") (Term.sym "True") 0 ∧
    agg_any truth = genericClosure "np.any" (Term.sym "x") (Term.app ".as_boolean" [colX])
      (Term.app "=drop_na" [Term.sym "False"]) (Term.sym "False") (Term.sym "False") 0 := by
  constructor
  · unfold agg_all; simp only [h, if_true]; rfl
  · unfold agg_any; simp only [h, if_true]; rfl

/-! ### count / count_unique -/

/-- **count / count_unique, vector form**: `len(kept)` / `len(set(kept))` where `kept = handle_na(x, drop_na)`; no guard
    (0 for the empty vector by `len` itself). -/
theorem count_vector_form (truth : Term → Bool) (h : truth isStr = false) :
    agg_count truth = Out.ret [] (Term.app "len" [kept]) ∧
    agg_count_unique truth = Out.ret [] (Term.app "len" [Term.app "set()" [kept]]) := by
  constructor
  · unfold agg_count; simp only [h, Bool.false_eq_true, if_false, kept]
  · unfold agg_count_unique; simp only [h, Bool.false_eq_true, if_false, kept]

/-- **count, group form**: the generic pair on `len`, on column `x or '_group_'` (the blank default name counts the rows of
    the group through the group-id column itself); `drop_na = drop_na and x and data[x].is_na().any()` — in THIS order, so that
    with the blank name `data['']` is never looked up; `default=0`, `nrequired=0`. -/
theorem count_group_form (truth : Term → Bool) (h : truth isStr = true) :
    agg_count truth = genericClosure "len" xOrGroup (Term.app "getitem" [Term.sym "data", xOrGroup])
      (Term.app "=drop_na" [Term.app "And" [Term.sym "drop_na", Term.sym "x", Term.app ".any" [Term.app ".is_na" [colX]]]])
      (Term.int 0) (Term.int 0) 0 := by
  unfold agg_count; simp only [h, if_true]; rfl

/-- **count_unique, group form**: the dedicated pair `(count_unique_apply, count_unique_apply_numba)` on the column as it is,
    `drop_na` only when asked for AND something is missing; `aggregate.default = 0`. -/
theorem count_unique_group_form (truth : Term → Bool) (h : truth isStr = true) :
    agg_count_unique truth = applyClosure "count_unique_apply" "count_unique_apply_numba" (Term.int 0) [colX, dataGroup, dropIfAny] := by
  unfold agg_count_unique; simp only [h, if_true]; rfl

/-! ### first / last -/

/-- **first / last**: `nth(x, 0, drop_na=drop_na)` / `nth(x, -1, drop_na=drop_na)` for BOTH forms (no test of their own: the
    vector / group split, the `IndexError → missing` rule and the kernel pair are `nth`'s — `nth_group_form`); `drop_na` is
    handed on by keyword. -/
theorem first_last_code (truth : Term → Bool) :
    agg_first truth = Out.ret [] (Term.app "nth" [Term.sym "x", Term.int 0, Term.app "=drop_na" [Term.sym "drop_na"]]) ∧
    agg_last truth = Out.ret [] (Term.app "nth" [Term.sym "x", Term.int (-1), Term.app "=drop_na" [Term.sym "drop_na"]]) :=
  ⟨rfl, rfl⟩

/-! ### max / min / mean -/

/-- **max / min / mean, vector form**: NumPy's `amax` / `amin` / `mean` of the kept elements when there is at least ONE;
    otherwise the vector's own missing value `kept.na_value` (max, min) / `np.nan` (mean). -/
theorem max_min_mean_vector_form (truth : Term → Bool) (h : truth isStr = false) :
    agg_max truth = Out.ret [] (if truth (keptAtLeast 1) then Term.app ".item" [Term.app "np.amax" [kept]] else Term.app ".na_value" [kept]) ∧
    agg_min truth = Out.ret [] (if truth (keptAtLeast 1) then Term.app ".item" [Term.app "np.amin" [kept]] else Term.app ".na_value" [kept]) ∧
    agg_mean truth = Out.ret [] (if truth (keptAtLeast 1) then Term.app ".item" [Term.app "np.mean" [kept]] else Term.sym "np.nan") := by
  refine ⟨?_, ?_, ?_⟩
  · unfold agg_max; simp only [h, Bool.false_eq_true, if_false, kept, keptAtLeast]; rfl
  · unfold agg_min; simp only [h, Bool.false_eq_true, if_false, kept, keptAtLeast]; rfl
  · unfold agg_mean; simp only [h, Bool.false_eq_true, if_false, kept, keptAtLeast]; rfl

/-- **max / min / mean, group form**: the generic pair on `np.amax` / `np.amin` / `np.mean`, `nrequired=1`; max / min pass
    `default=None` and store the COLUMN's missing value `data[x].na_value` as `aggregate.default` (what `None` is replaced
    with afterwards); mean passes and stores `np.nan`. -/
theorem max_min_mean_group_form (truth : Term → Bool) (h : truth isStr = true) :
    agg_max truth = genericClosure "np.amax" (Term.sym "x") colX dropIfAny (Term.app ".na_value" [colX]) (Term.sym "None") 1 ∧
    agg_min truth = genericClosure "np.amin" (Term.sym "x") colX dropIfAny (Term.app ".na_value" [colX]) (Term.sym "None") 1 ∧
    agg_mean truth = genericClosure "np.mean" (Term.sym "x") colX dropIfAny (Term.sym "np.nan") (Term.sym "np.nan") 1 := by
  refine ⟨?_, ?_, ?_⟩
  · unfold agg_max; simp only [h, if_true]; rfl
  · unfold agg_min; simp only [h, if_true]; rfl
  · unfold agg_mean; simp only [h, if_true]; rfl

/-! ### mode / quantile -/

/-- **mode / quantile, vector form**: `mode1(kept)` (most common, ties by first occurrence — `mode_apply_code`) /
    `np.quantile(kept.as_float(), q).item()` when at least ONE element is kept; the vector's missing value / `np.nan`
    otherwise.  The cast to float comes AFTER the drop. -/
theorem mode_quantile_vector_form (truth : Term → Bool) (h : truth isStr = false) :
    agg_mode truth = Out.ret [] (if truth (keptAtLeast 1) then Term.app "mode1" [kept] else Term.app ".na_value" [kept]) ∧
    agg_quantile truth = Out.ret [] (if truth (keptAtLeast 1)
      then Term.app ".item" [Term.app "np.quantile" [Term.app ".as_float" [kept], Term.sym "q"]] else Term.sym "np.nan") := by
  constructor
  · unfold agg_mode; simp only [h, Bool.false_eq_true, if_false, kept, keptAtLeast]; rfl
  · unfold agg_quantile; simp only [h, Bool.false_eq_true, if_false, kept, keptAtLeast]; rfl

/-- **mode / quantile, group form**: the dedicated pairs `(mode_apply, mode_apply_numba)` on the column as it is /
    `(quantile_apply, quantile_apply_numba)` on `data[x].as_float()` with `q`; the missing-value test of `drop_na` is made on
    the ORIGINAL column (`data[x].is_na().any()`), not on the cast one; `aggregate.default` = the column's missing value /
    `np.nan`. -/
theorem mode_quantile_group_form (truth : Term → Bool) (h : truth isStr = true) :
    agg_mode truth = applyClosure "mode_apply" "mode_apply_numba" (Term.app ".na_value" [colX]) [colX, dataGroup, dropIfAny] ∧
    agg_quantile truth = applyClosure "quantile_apply" "quantile_apply_numba" (Term.sym "np.nan")
      [Term.app ".as_float" [colX], dataGroup, Term.sym "q", dropIfAny] := by
  constructor
  · unfold agg_mode; simp only [h, if_true]; rfl
  · unfold agg_quantile; simp only [h, if_true]; rfl

/-- `nth`, `median`, `sum` of `Proofs/TieC07.lean` in the same vocabulary. -/
theorem nth_median_sum_closures (truth : Term → Bool) (h : truth isStr = true) :
    agg_nth truth = applyClosure "nth_apply" "nth_apply_numba" (Term.app ".na_value" [colX]) [colX, dataGroup, Term.sym "index", dropIfAny] ∧
    agg_median truth = genericClosure "np.median" (Term.sym "x") colX dropIfAny (Term.sym "np.nan") (Term.sym "np.nan") 1 ∧
    agg_sum truth = genericClosure "np.sum" (Term.sym "x") colX dropIfAny (Term.int 0)
      (Term.app ".type" [Term.app ".dtype" [colX], Term.int 0]) 0 :=
  ⟨nth_group_form truth h, (median_sum_group_form truth h).1, (median_sum_group_form truth h).2⟩

/-! ### signatures and decorators -/

/-- **the `drop_na` defaults are those of the signatures**: keyword-only (after `*`) everywhere; `True` for max, mean, min,
    mode, quantile; `False` for count, count_unique, first, last; all / any have NO such parameter; `count` alone has a
    default for `x` (the blank name); `quantile` takes `q` positionally. -/
theorem helper_signatures :
    agg_all_signature = ["x"] ∧ agg_any_signature = ["x"] ∧
    agg_count_signature = ["x=''", "*", "drop_na=False"] ∧ agg_count_unique_signature = ["x", "*", "drop_na=False"] ∧
    agg_first_signature = ["x", "*", "drop_na=False"] ∧ agg_last_signature = ["x", "*", "drop_na=False"] ∧
    agg_max_signature = ["x", "*", "drop_na=True"] ∧ agg_mean_signature = ["x", "*", "drop_na=True"] ∧
    agg_min_signature = ["x", "*", "drop_na=True"] ∧ agg_mode_signature = ["x", "*", "drop_na=True"] ∧
    agg_quantile_signature = ["x", "q", "*", "drop_na=True"] :=
  ⟨rfl, rfl, rfl, rfl, rfl, rfl, rfl, rfl, rfl, rfl, rfl⟩

/-- **who is wrapped by `composite`** (the `Vector`-or-`str` type check): all, any, count_unique, last, max, mean, min, mode,
    quantile.  NOT `count` (on purpose: it may be called without `x`) and NOT `first` — which only delegates to `nth`, itself
    wrapped, so the check still happens one call later (`first_last_code`). -/
theorem helper_decorators :
    agg_all_decorators = ["composite"] ∧ agg_any_decorators = ["composite"] ∧ agg_count_decorators = [] ∧
    agg_count_unique_decorators = ["composite"] ∧ agg_first_decorators = [] ∧ agg_last_decorators = ["composite"] ∧
    agg_max_decorators = ["composite"] ∧ agg_mean_decorators = ["composite"] ∧ agg_min_decorators = ["composite"] ∧
    agg_mode_decorators = ["composite"] ∧ agg_quantile_decorators = ["composite"] ∧ agg_nth_decorators = ["composite"] :=
  ⟨rfl, rfl, rfl, rfl, rfl, rfl, rfl, rfl, rfl, rfl, rfl, rfl⟩

/-- in the vector forms the missing values are dropped BEFORE the length is taken and the statistic computed. -/
theorem vector_call_orders :
    agg_max_call_order = ["isinstance", "handle_na", "len", "np.amax", "np.amax(x).item"] ∧
    agg_min_call_order = ["isinstance", "handle_na", "len", "np.amin", "np.amin(x).item"] ∧
    agg_mean_call_order = ["isinstance", "handle_na", "len", "np.mean", "np.mean(x).item"] ∧
    agg_mode_call_order = ["isinstance", "handle_na", "len", "mode1"] ∧
    agg_quantile_call_order = ["isinstance", "handle_na", "len", "x.as_float", "np.quantile", "np.quantile(x.as_float(), q).item"] ∧
    agg_count_call_order = ["isinstance", "handle_na", "len"] ∧
    agg_count_unique_call_order = ["isinstance", "handle_na", "set", "len"] ∧
    agg_all_call_order = ["isinstance", "x.as_boolean", "np.all", "np.all(x).item"] ∧
    agg_any_call_order = ["isinstance", "x.as_boolean", "np.any", "np.any(x).item"] :=
  ⟨rfl, rfl, rfl, rfl, rfl, rfl, rfl, rfl, rfl⟩

/-! ### composite -/

/-- `function(x, *args, **kwargs)`. -/
def passOn : Term := Term.app "function" [Term.sym "x", Term.app "*" [Term.sym "args"], Term.app "=**" [Term.sym "kwargs"]]

/-- `isinstance(x, (Vector, str))`. -/
def isVectorOrStr : Term := Term.app "isinstance" [Term.sym "x", Term.app "tuple" [Term.sym "Vector", Term.sym "str"]]

/-- **composite.wrapper**: anything but a `Vector` or a `str` as first argument ⇒ `TypeError`, raised BEFORE the helper is
    entered; otherwise the helper's own result with all arguments handed on unchanged. -/
theorem composite_wrapper_code (truth : Term → Bool) :
    agg_composite_wrapper truth = (if truth isVectorOrStr then Out.ret [] passOn else Out.raise [] "TypeError") ∧
    agg_composite_wrapper_call_order = ["isinstance", "TypeError", "function"] ∧
    agg_composite_wrapper_signature = ["x", "*args", "**kwargs"] ∧
    agg_composite_wrapper_decorators = ["functools.wraps(function)"] := by
  refine ⟨?_, rfl, rfl, rfl⟩
  unfold agg_composite_wrapper isVectorOrStr passOn
  cases truth (Term.app "isinstance" [Term.sym "x", Term.app "tuple" [Term.sym "Vector", Term.sym "str"]]) <;> rfl

/-- **composite**: returns that wrapper (a `functools.wraps` copy of the helper, so name / docstring / signature shown are
    the helper's) and nothing else: no effect at decoration time. -/
theorem composite_code (truth : Term → Bool) :
    agg_composite truth = Out.ret [] (Term.app "local-def" [Term.app "def"
      [Term.app "decorator" [Term.app "functools.wraps" [Term.sym "function"]], Term.sym "wrapper",
       Term.app "params" [Term.sym "x", Term.sym "*args", Term.sym "**kwargs"],
       Term.app "block" [Term.app "if" [Term.app "not" [isVectorOrStr], Term.app "block" [Term.app "raise" [Term.sym "TypeError"]], Term.app "block" []],
                         Term.app "return" [passOn]]]]) ∧
    agg_composite_signature = ["function"] ∧ agg_composite_decorators = [] := ⟨rfl, rfl, rfl⟩

/-! ### generic.aggregate -/

/-- **generic.aggregate** (the closure `generic` returns, translated as a function of its own): per run of the scan the
    statistic when the run has at least `nrequired` elements, `default` otherwise; it is the body `generic_code` shows, the body
    `Proofs/EvalC07b.lean` evaluates (`genericBody`, `generic_eval`, `generic_instances_eq_model`); made a list by
    `deco.listify`; all five parameters positional, none with a default. -/
theorem generic_aggregate_code (truth : Term → Bool) :
    agg_generic_aggregate truth = Out.fall [perGroup (Term.app "ifexp" [Term.app "GtE" [Term.app "len" [Term.sym "xg"], Term.sym "nrequired"],
      Term.app "function" [Term.sym "xg", Term.app "=**" [Term.sym "kwargs"]], Term.sym "default"])] ∧
    PyEvalAgg.closureBody (agg_generic truth) = some (agg_generic_aggregate truth).effs ∧
    Eval.C07.genericBody truth = (agg_generic_aggregate truth).effs ∧
    agg_generic_aggregate_decorators = ["deco.listify"] ∧
    agg_generic_aggregate_signature = ["x", "group", "drop_na", "default", "nrequired"] ∧
    agg_generic_aggregate_call_order = ["yield_groups", "len", "function"] := ⟨rfl, rfl, rfl, rfl, rfl, rfl⟩

/-! ### reading a row of the helper table off the translated closure -/

/-- the statements of the closure `aggregate(data)` a helper returns for a column name. -/
def groupBody : Out → Option (List Term)
  | .ret _ (.app "local-def" [.app "def" [_, _, .app "block" body]]) => some body
  | _ => none

/-- how the kernel is named in the helper table: `py/numba:function` for the generic pair, `py/numba` for a dedicated one. -/
def kernelName (a b : String) : Term → Option String
  | .app "call" [.app "select" [.sym "f", .sym "data", _], .sym fn] => some (a ++ "/" ++ b ++ ":" ++ fn)
  | .app "select" [.sym "f", .sym "data", _] => some (a ++ "/" ++ b)
  | _ => none

/-- `f = (py, numba); f = select(f, data, …)[(function)]` at the head of the closure (for std / var: in the `ddof == 0` arm). -/
def kernelOfBody : List Term → Option String
  | .app "assign" [.sym "f", .app "tuple" [.sym a, .sym b]] :: .app "assign" [.sym "f", rhs] :: _ => kernelName a b rhs
  | .app "if" [_, .app "block" (.app "assign" [.sym "f", .app "tuple" [.sym a, .sym b]] :: .app "assign" [.sym "f", rhs] :: _), _] :: _ =>
    kernelName a b rhs
  | _ => none

/-- the kernel pair itself: (pure Python, Numba). -/
def pairOfBody : List Term → Option (String × String)
  | .app "assign" [.sym "f", .app "tuple" [.sym a, .sym b]] :: _ => some (a, b)
  | .app "if" [_, .app "block" (.app "assign" [.sym "f", .app "tuple" [.sym a, .sym b]] :: _), _] :: _ => some (a, b)
  | _ => none

/-- `aggregate.default = …`. -/
def storedDefault : List Term → Option Term
  | [] => none
  | .app "store" [.sym "aggregate.default", t] :: _ => some t
  | _ :: rest => storedDefault rest

/-- the arguments of the final `return f(…)`. -/
def callArgs (body : List Term) : Option (List Term) :=
  match body.getLast? with
  | some (.app "return" [.app "call" (_ :: as)]) => some as
  | some (.app "return" [.app "f" as]) => some as
  | _ => none

/-- the helper table's name for a stored default. -/
def defaultClass : Term → String
  | .sym "True" => "true"
  | .sym "False" => "false"
  | .int 0 => "zero"
  | .sym "np.nan" => "nan"
  | .app ".na_value" [.app "getitem" [.sym "data", .sym "x"]] => "colna"
  | _ => "?"

/-- the cast applied to the column handed to the kernel. -/
def castOf : List Term → String
  | .app ".as_boolean" _ :: _ => "bool"
  | .app ".as_float" _ :: _ => "float"
  | _ => "none"

/-- `nrequired=` of the call (−1: not passed). -/
def nreqOf (as : List Term) : Int :=
  match Eval.C07.kwarg "nrequired" as with
  | some (.int n) => n
  | _ => -1

/-- the default of `drop_na` in a signature. -/
def dropNaOf (sig : List String) : String :=
  if sig.contains "drop_na=True" then "true" else if sig.contains "drop_na=False" then "false" else "none"

/-- the value a vector form returns. -/
def retTerm : Out → Option Term
  | .ret _ t => some t
  | _ => none

/-- does a vector form's result compute a statistic (rather than hand back the too-few-elements value)? -/
def isStat : Option Term → Bool
  | some (.app ".item" _) => true
  | some (.app "mode1" _) => true
  | some (.app "len" _) => true
  | _ => false

/-- the interpretation in which only `len(kept) >= k` holds (`x` is not a string, every other test fails). -/
def onlyAtLeast (k : Int) : Term → Bool
  | .app "GtE" [.app "len" [.app "handle_na" [.sym "x", .sym "drop_na"]], .int k'] => k' == k
  | _ => false

/-- **the vector form's own length guard**, found by running the translated helper: the `k` (1 or 2) such that the statistic
    is computed when exactly the test `len(kept) >= k` holds and not when no test holds; −1 when there is no such guard. -/
def vecNreqOf (f : (Term → Bool) → Out) : Int :=
  if isStat (retTerm (f fun _ => false)) then -1
  else if isStat (retTerm (f (onlyAtLeast 1))) then 1
  else if isStat (retTerm (f (onlyAtLeast 2))) then 2
  else -1

/-- the row of the helper table for a helper with a closure of its own. -/
def rowOf (name : String) (sig : List String) (group : Out) (vec : Int) : Option HelperRow :=
  (groupBody group).bind fun body => (kernelOfBody body).bind fun k => (storedDefault body).bind fun d =>
    (callArgs body).map fun as => ⟨name, dropNaOf sig, defaultClass d, nreqOf as, k, castOf as, vec⟩

/-- the row for a helper that only delegates to `nth` with a fixed index. -/
def delegateRow (name : String) (sig : List String) : Out → Option HelperRow
  | .ret [] (.app "nth" [.sym "x", .int i, .app "=drop_na" [.sym "drop_na"]]) =>
    some ⟨name, dropNaOf sig, "delegate", -1, "nth:" ++ toString i, "none", -1⟩
  | _ => none

/-- the sixteen rows read off the translated helpers, in the table's (alphabetical) order. -/
def codeRows (truth : Term → Bool) : List (Option HelperRow) :=
  [rowOf "all" agg_all_signature (agg_all truth) (vecNreqOf agg_all),
   rowOf "any" agg_any_signature (agg_any truth) (vecNreqOf agg_any),
   rowOf "count" agg_count_signature (agg_count truth) (vecNreqOf agg_count),
   rowOf "count_unique" agg_count_unique_signature (agg_count_unique truth) (vecNreqOf agg_count_unique),
   delegateRow "first" agg_first_signature (agg_first truth),
   delegateRow "last" agg_last_signature (agg_last truth),
   rowOf "max" agg_max_signature (agg_max truth) (vecNreqOf agg_max),
   rowOf "mean" agg_mean_signature (agg_mean truth) (vecNreqOf agg_mean),
   rowOf "median" agg_median_signature (agg_median truth) (vecNreqOf agg_median),
   rowOf "min" agg_min_signature (agg_min truth) (vecNreqOf agg_min),
   rowOf "mode" agg_mode_signature (agg_mode truth) (vecNreqOf agg_mode),
   rowOf "nth" agg_nth_signature (agg_nth truth) (-1),
   rowOf "quantile" agg_quantile_signature (agg_quantile truth) (vecNreqOf agg_quantile),
   rowOf "std" agg_std_signature (agg_std truth) (vecNreqOf agg_std),
   rowOf "sum" agg_sum_signature (agg_sum truth) (vecNreqOf agg_sum),
   rowOf "var" agg_var_signature (agg_var truth) (vecNreqOf agg_var)]

/-- the vector forms' guards, computed from the translated code: "at least 1" for max, mean, median, min, mode, quantile; "at
    least 2" for std, var; none for all, any, count, count_unique, sum. -/
theorem vector_guards :
    vecNreqOf agg_all = -1 ∧ vecNreqOf agg_any = -1 ∧ vecNreqOf agg_count = -1 ∧ vecNreqOf agg_count_unique = -1 ∧
    vecNreqOf agg_max = 1 ∧ vecNreqOf agg_mean = 1 ∧ vecNreqOf agg_median = 1 ∧ vecNreqOf agg_min = 1 ∧
    vecNreqOf agg_mode = 1 ∧ vecNreqOf agg_quantile = 1 ∧ vecNreqOf agg_std = 2 ∧ vecNreqOf agg_sum = -1 ∧
    vecNreqOf agg_var = 2 := by
  refine ⟨?_, ?_, ?_, ?_, ?_, ?_, ?_, ?_, ?_, ?_, ?_, ?_, ?_⟩ <;> decide

/-- **the regenerated helper table is what the translated helpers say**: for every helper — the signature default of
    `drop_na`, the stored `aggregate.default`, `nrequired=`, the kernel pair and the NumPy function it is applied to, the cast
    of the column, and the length guard of the vector form — read off `Generated/CodeC07.lean` equal the row of
    `Generated/HelperTable.lean` (extracted independently by `harness/extract_ast.py`), row by row, nothing missing, nothing
    extra.  So `DI.C07.helper_table_documented`, `vector_guard_matches_nrequired` and
    `Eval.C07.generic_instances_match_helper_table` are statements about the translated code. -/
theorem code_rows_eq_helper_table (truth : Term → Bool) (h : truth isStr = true) :
    codeRows truth = helperTable.map some := by
  have hstd : ∀ v, rowOf "std" agg_std_signature (agg_std truth) v =
      some ⟨"std", "true", "nan", 2, "generic/generic_numba:np.std", "none", v⟩ := by
    intro v; unfold agg_std; simp only [h, if_true]; rfl
  have hvar : ∀ v, rowOf "var" agg_var_signature (agg_var truth) v =
      some ⟨"var", "true", "nan", 2, "generic/generic_numba:np.var", "none", v⟩ := by
    intro v; unfold agg_var; simp only [h, if_true]; rfl
  unfold codeRows
  rw [(all_any_group_form truth h).1, (all_any_group_form truth h).2, count_group_form truth h,
    count_unique_group_form truth h, (max_min_mean_group_form truth h).1, (max_min_mean_group_form truth h).2.1,
    (max_min_mean_group_form truth h).2.2, (mode_quantile_group_form truth h).1, (mode_quantile_group_form truth h).2,
    (nth_median_sum_closures truth h).1, (nth_median_sum_closures truth h).2.1, (nth_median_sum_closures truth h).2.2,
    hstd, hvar, (first_last_code truth).1, (first_last_code truth).2]
  decide

/-- **which kernel runs**: each closure builds the pair (pure Python, Numba) below and takes `pair[use_numba(data[x])]`
    (`select_code`: index `False` = 0 = the Python kernel, `True` = 1 = the Numba kernel; `use_numba`: `TieC08`); with Numba on
    and an eligible column that is `generic_numba(np.…)` for all / any / count / max / mean / min and
    `count_unique_apply_numba` / `mode_apply_numba` / `quantile_apply_numba` for the other three. -/
theorem kernel_pairs (truth : Term → Bool) (h : truth isStr = true) :
    ((groupBody (agg_all truth)).bind pairOfBody = some ("generic", "generic_numba")) ∧
    ((groupBody (agg_any truth)).bind pairOfBody = some ("generic", "generic_numba")) ∧
    ((groupBody (agg_count truth)).bind pairOfBody = some ("generic", "generic_numba")) ∧
    ((groupBody (agg_max truth)).bind pairOfBody = some ("generic", "generic_numba")) ∧
    ((groupBody (agg_mean truth)).bind pairOfBody = some ("generic", "generic_numba")) ∧
    ((groupBody (agg_min truth)).bind pairOfBody = some ("generic", "generic_numba")) ∧
    ((groupBody (agg_count_unique truth)).bind pairOfBody = some ("count_unique_apply", "count_unique_apply_numba")) ∧
    ((groupBody (agg_mode truth)).bind pairOfBody = some ("mode_apply", "mode_apply_numba")) ∧
    ((groupBody (agg_quantile truth)).bind pairOfBody = some ("quantile_apply", "quantile_apply_numba")) := by
  rw [(all_any_group_form truth h).1, (all_any_group_form truth h).2, count_group_form truth h,
    count_unique_group_form truth h, (max_min_mean_group_form truth h).1, (max_min_mean_group_form truth h).2.1,
    (max_min_mean_group_form truth h).2.2, (mode_quantile_group_form truth h).1, (mode_quantile_group_form truth h).2]
  exact ⟨rfl, rfl, rfl, rfl, rfl, rfl, rfl, rfl, rfl⟩

/-! ### the model's descriptors -/

open DI.Agg DI.PyEvalAgg in
/-- the value of a `default=` argument in the evaluator of `Model/PyEvalAgg.lean` (the zero of the column's dtype is read as
    the number 0, as in `Eval.C07.generic_call_sites`). -/
def defaultVal : Term → Option (Val Num Res)
  | .sym "True" => some (.bool true)
  | .sym "False" => some (.bool false)
  | .int n => some (.int n)
  | .sym "np.nan" => some .nan
  | .sym "None" => some .pyNone
  | .app ".type" [.app ".dtype" [_], .int 0] => some (.res (.val 0))
  | _ => none

open DI.Agg DI.PyEvalAgg in
/-- `(nrequired, default)` of a call site as the model's `genericInst` lists them. -/
def readSite : Term × Term → Option (Int × Val Num Res)
  | (d, .int n) => (defaultVal d).map fun v => (n, v)
  | _ => none

open DI.Agg DI.PyEvalAgg in
/-- **the instances of `generic` as written = the model's `genericInst`** for the six helpers `Eval.C07.generic_call_sites`
    could not yet read off the code: in the translated closures of all, any, count, min, max, mean the generic kernel is called
    with `(nrequired, default)` = (0, True), (0, False), (0, 0), (1, None), (1, None), (1, NaN) — the pairs with which
    `Eval.C07.generic_instances_eq_model` proves the executed kernel equal to `Agg.groupForm`. -/
theorem generic_call_sites_b (truth : Term → Bool) (h : truth isStr = true) :
    (Eval.C07.defaultAndNrequired (agg_all truth)).bind readSite = (genericInst .all).map (·.2) ∧
    (Eval.C07.defaultAndNrequired (agg_any truth)).bind readSite = (genericInst .any).map (·.2) ∧
    (Eval.C07.defaultAndNrequired (agg_count truth)).bind readSite = (genericInst .count).map (·.2) ∧
    (Eval.C07.defaultAndNrequired (agg_min truth)).bind readSite = (genericInst .min).map (·.2) ∧
    (Eval.C07.defaultAndNrequired (agg_max truth)).bind readSite = (genericInst .max).map (·.2) ∧
    (Eval.C07.defaultAndNrequired (agg_mean truth)).bind readSite = (genericInst .mean).map (·.2) := by
  rw [(all_any_group_form truth h).1, (all_any_group_form truth h).2, count_group_form truth h,
    (max_min_mean_group_form truth h).1, (max_min_mean_group_form truth h).2.1, (max_min_mean_group_form truth h).2.2]
  exact ⟨rfl, rfl, rfl, rfl, rfl, rfl⟩

open DI.Agg in
/-- the model's reading of a stored `aggregate.default`: a count is a natural number, a sum a number; NaN and the column's
    missing value are both "missing". -/
def defaultRes (isCount : Bool) : Term → Option Res
  | .sym "True" => some (.bool true)
  | .sym "False" => some (.bool false)
  | .int 0 => some (if isCount then .nat 0 else .val 0)
  | .sym "np.nan" => some .missing
  | .app ".na_value" [.app "getitem" [.sym "data", .sym "x"]] => some .missing
  | _ => none

open DI.Agg in
/-- **`aggregate.default` as stored = the model's `Agg.defaultOf`** (what `DataFrame.aggregate` puts where a kernel left
    `None`), for the nine helpers of this file with a closure of their own. -/
theorem stored_default_eq_model (truth : Term → Bool) (h : truth isStr = true) (naD : Bool) (q : Rat) :
    ((groupBody (agg_all truth)).bind storedDefault).bind (defaultRes false) = some (defaultOf .all) ∧
    ((groupBody (agg_any truth)).bind storedDefault).bind (defaultRes false) = some (defaultOf .any) ∧
    ((groupBody (agg_count truth)).bind storedDefault).bind (defaultRes true) = some (defaultOf .count) ∧
    ((groupBody (agg_count_unique truth)).bind storedDefault).bind (defaultRes true) = some (defaultOf (.countUnique naD)) ∧
    ((groupBody (agg_max truth)).bind storedDefault).bind (defaultRes false) = some (defaultOf .max) ∧
    ((groupBody (agg_min truth)).bind storedDefault).bind (defaultRes false) = some (defaultOf .min) ∧
    ((groupBody (agg_mean truth)).bind storedDefault).bind (defaultRes false) = some (defaultOf .mean) ∧
    ((groupBody (agg_mode truth)).bind storedDefault).bind (defaultRes false) = some (defaultOf .mode) ∧
    ((groupBody (agg_quantile truth)).bind storedDefault).bind (defaultRes false) = some (defaultOf (.quantile q)) := by
  rw [(all_any_group_form truth h).1, (all_any_group_form truth h).2, count_group_form truth h,
    count_unique_group_form truth h, (max_min_mean_group_form truth h).1, (max_min_mean_group_form truth h).2.1,
    (max_min_mean_group_form truth h).2.2, (mode_quantile_group_form truth h).1, (mode_quantile_group_form truth h).2]
  exact ⟨rfl, rfl, rfl, rfl, rfl, rfl, rfl, rfl, rfl⟩

/-! ### the vector forms refine the model's `Agg.vectorForm` -/

open DI.Agg in
/-- the arrays a vector form works on, over the model's cells: `x`, `handle_na(x, drop_na)`; the casts `as_boolean()` /
    `as_float()` keep the cells (the model's `npAll` / `npAny` apply the truth value themselves, its numbers are exact). -/
def arrOf (xs : List Num) (drop : Bool) : Term → Option (List Num)
  | .sym "x" => some xs
  | .app ".as_boolean" [.sym "x"] => some xs
  | .app "handle_na" [.sym "x", .sym "drop_na"] => some (handleNa xs drop)
  | .app ".as_float" [.app "handle_na" [.sym "x", .sym "drop_na"]] => some (handleNa xs drop)
  | _ => none

open DI.Agg in
/-- the result expressions of the vector forms, with NumPy's functions read as the model's `np*` (characterised in
    `Proofs/C07.lean`), `mode1` as `modeOf`, `len(set(·))` as `countUniqueOf`, `np.nan` and `.na_value` as "missing". -/
def statOf (xs : List Num) (drop : Bool) (q : Rat) (ddof : Nat) (naD : Bool) : Term → Option Res
  | .app ".item" [.app "np.all" [a]] => (arrOf xs drop a).map npAll
  | .app ".item" [.app "np.any" [a]] => (arrOf xs drop a).map npAny
  | .app ".item" [.app "np.amax" [a]] => (arrOf xs drop a).map npMax
  | .app ".item" [.app "np.amin" [a]] => (arrOf xs drop a).map npMin
  | .app ".item" [.app "np.mean" [a]] => (arrOf xs drop a).map npMean
  | .app ".item" [.app "np.median" [a]] => (arrOf xs drop a).map npMedian
  | .app ".item" [.app "np.sum" [a]] => (arrOf xs drop a).map npSum
  | .app ".item" [.app "np.std" [a, .app "=ddof" [.sym "ddof"]]] => (arrOf xs drop a).map (npStd ddof)
  | .app ".item" [.app "np.var" [a, .app "=ddof" [.sym "ddof"]]] => (arrOf xs drop a).map (npVar ddof)
  | .app ".item" [.app "np.quantile" [a, .sym "q"]] => (arrOf xs drop a).map (npQuantile q)
  | .app "len" [.app "set()" [a]] => (arrOf xs drop a).map fun l => .nat (countUniqueOf naD l)
  | .app "len" [a] => (arrOf xs drop a).map fun l => .nat l.length
  | .app "mode1" [a] => (arrOf xs drop a).map modeOf
  | .sym "np.nan" => some .missing
  | .app ".na_value" [_] => some .missing
  | _ => none

open DI.Agg in
/-- the interpretation of the tests for a vector argument: `isinstance(x, str)` is false; `len(a) >= k` is what it says. -/
def vecTruth (xs : List Num) (drop : Bool) : Term → Bool
  | .app "GtE" [.app "len" [a], .int k] =>
    match arrOf xs drop a with
    | some l => decide (k ≤ (l.length : Int))
    | none => false
  | _ => false

open DI.Agg in
/-- what a translated helper returns for the vector `xs`, as a result of the model. -/
def vecEval (xs : List Num) (drop : Bool) (q : Rat) (ddof : Nat) (naD : Bool) (f : (Term → Bool) → Out) : Option Res :=
  (retTerm (f (vecTruth xs drop))).bind (statOf xs drop q ddof naD)

open DI.Agg in
private theorem ge_int (n : Nat) (k : Nat) : decide ((k : Int) ≤ (n : Int)) = decide (n ≥ k) := by
  by_cases h : n ≥ k
  · have : (k : Int) ≤ (n : Int) := by omega
    simp [h, this]
  · have : ¬ (k : Int) ≤ (n : Int) := by omega
    simp [h, this]

open DI.Agg in
/-- a guarded vector form: the statistic `r` of the kept elements when there are at least `k`, "missing" otherwise. -/
private theorem guard_eval (xs : List Num) (drop : Bool) (q : Rat) (ddof : Nat) (naD : Bool) (k : Nat) (A B : Term)
    (r : List Num → Res) (hA : statOf xs drop q ddof naD A = some (r (handleNa xs drop)))
    (hB : statOf xs drop q ddof naD B = some .missing) :
    (retTerm (Out.ret [] (if vecTruth xs drop (keptAtLeast (k : Nat)) then A else B))).bind (statOf xs drop q ddof naD) =
      some (if (handleNa xs drop).length ≥ k then r (handleNa xs drop) else .missing) := by
  have ht : vecTruth xs drop (keptAtLeast (k : Nat)) = decide ((handleNa xs drop).length ≥ k) := ge_int _ k
  rw [ht]
  by_cases hk : (handleNa xs drop).length ≥ k <;> simp [hk, hA, hB, retTerm]

open DI.Agg in
/-- **REFINEMENT — the vector forms are the model's `Agg.vectorForm`**: for EVERY vector `xs` of cells and both values of
    `drop_na`, each translated helper, run with the tests read as what they say (`vecTruth`) and NumPy's functions read as
    the model's, returns exactly `Agg.vectorForm helper drop_na xs` — the drop before the count, the guard (1 / 2 / none),
    the too-few-elements value, the statistic.  (`first` / `last` are `nth` with index 0 / −1: `first_last_code`.)  So every
    theorem of `Proofs/C07.lean` about `vectorForm` (`too_few_elements_default`, `missing_propagates`,
    `group_form_eq_vector_form`, …) is a theorem about the translated vector forms. -/
theorem vector_forms_refine_model (xs : List Num) (drop : Bool) (q : Rat) (ddof : Nat) (naD : Bool) :
    vecEval xs drop q ddof naD agg_all = some (vectorForm .all drop xs) ∧
    vecEval xs drop q ddof naD agg_any = some (vectorForm .any drop xs) ∧
    vecEval xs drop q ddof naD agg_count = some (vectorForm .count drop xs) ∧
    vecEval xs drop q ddof naD agg_count_unique = some (vectorForm (.countUnique naD) drop xs) ∧
    vecEval xs drop q ddof naD agg_max = some (vectorForm .max drop xs) ∧
    vecEval xs drop q ddof naD agg_min = some (vectorForm .min drop xs) ∧
    vecEval xs drop q ddof naD agg_mean = some (vectorForm .mean drop xs) ∧
    vecEval xs drop q ddof naD agg_mode = some (vectorForm .mode drop xs) ∧
    vecEval xs drop q ddof naD agg_quantile = some (vectorForm (.quantile q) drop xs) ∧
    vecEval xs drop q ddof naD agg_median = some (vectorForm .median drop xs) ∧
    vecEval xs drop q ddof naD agg_std = some (vectorForm (.std ddof) drop xs) ∧
    vecEval xs drop q ddof naD agg_var = some (vectorForm (.var ddof) drop xs) ∧
    vecEval xs drop q ddof naD agg_sum = some (vectorForm .sum drop xs) := by
  have hf : vecTruth xs drop isStr = false := rfl
  refine ⟨?_, ?_, ?_, ?_, ?_, ?_, ?_, ?_, ?_, ?_, ?_, ?_, ?_⟩
  · unfold vecEval; rw [(all_any_vector_form _ hf).1]; rfl
  · unfold vecEval; rw [(all_any_vector_form _ hf).2]; rfl
  · unfold vecEval; rw [(count_vector_form _ hf).1]; rfl
  · unfold vecEval; rw [(count_vector_form _ hf).2]; rfl
  · unfold vecEval; rw [(max_min_mean_vector_form _ hf).1]; exact guard_eval xs drop q ddof naD 1 _ _ npMax rfl rfl
  · unfold vecEval; rw [(max_min_mean_vector_form _ hf).2.1]; exact guard_eval xs drop q ddof naD 1 _ _ npMin rfl rfl
  · unfold vecEval; rw [(max_min_mean_vector_form _ hf).2.2]; exact guard_eval xs drop q ddof naD 1 _ _ npMean rfl rfl
  · unfold vecEval; rw [(mode_quantile_vector_form _ hf).1]; exact guard_eval xs drop q ddof naD 1 _ _ modeOf rfl rfl
  · unfold vecEval; rw [(mode_quantile_vector_form _ hf).2]; exact guard_eval xs drop q ddof naD 1 _ _ (npQuantile q) rfl rfl
  · unfold vecEval; rw [(median_sum_vector_form _ hf).1]; exact guard_eval xs drop q ddof naD 1 _ _ npMedian rfl rfl
  · unfold vecEval; rw [(std_var_vector_form _ hf).1]; exact guard_eval xs drop q ddof naD 2 _ _ (npStd ddof) rfl rfl
  · unfold vecEval; rw [(std_var_vector_form _ hf).2]; exact guard_eval xs drop q ddof naD 2 _ _ (npVar ddof) rfl rfl
  · unfold vecEval; rw [(median_sum_vector_form _ hf).2]; rfl

open DI.Agg in
/-- non-vacuity: concrete vectors through the translated helpers — max of `[3, NA, 5]` with the drop is 5, without it
    missing; mean of the all-missing vector with the drop is missing (nothing kept); std of one element is missing, var of two
    elements a number; count / count_unique / all / any. -/
example :
    vecEval [some 3, none, some 5] true 0 0 true agg_max = some (.val 5) ∧
    vecEval [some 3, none, some 5] false 0 0 true agg_max = some .missing ∧
    vecEval [none, none] true 0 0 true agg_mean = some .missing ∧
    vecEval [some 1] true 0 0 true agg_std = some .missing ∧
    (vecEval [some 1, some 3] true 0 0 true agg_var).map (fun r => match r with | .val _ => true | _ => false) = some true ∧
    vecEval [some 1, none, some 1] true 0 0 true agg_count = some (.nat 2) ∧
    vecEval [some 1, none, some 1] false 0 0 true agg_count_unique = some (.nat 2) ∧
    vecEval [some 1, some 0] false 0 0 true agg_all = some (.bool false) ∧
    vecEval [some 0, none] false 0 0 true agg_any = some (.bool true) := by
  refine ⟨?_, ?_, ?_, ?_, ?_, ?_, ?_, ?_, ?_⟩ <;> decide

end DI.Tie.C07

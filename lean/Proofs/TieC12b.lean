/-
  Proofs/TieC12b.lean — obligations over `util.makedirs_for_file` as regenerated into `Generated/CodeC12.lean`, and over where
  the writers call it.
-/
import Generated.CodeC12
import Generated.CodeC18
import Proofs.TieC12

namespace DI.Tie.C12

open DI.Py DI.Gen

/-- **makedirs_for_file as written**: the directory made is the PARENT of the path (`Path(path).parent`, never the path
    itself), with all missing ancestors (`parents=True`) and without complaint when it is already there (`exist_ok=True`:
    writing a second file into the same directory does not raise FileExistsError). -/
theorem makedirs_for_file_code (truth : Term → Bool) :
    util_makedirs_for_file truth = Out.ret [] (Term.app ".mkdir"
      [Term.app ".parent" [Term.app "Path" [Term.sym "path"]], Term.app "=parents" [Term.sym "True"], Term.app "=exist_ok" [Term.sym "True"]]) ∧
    util_makedirs_for_file_signature = ["path"] ∧ util_makedirs_for_file_decorators = [] ∧
    util_makedirs_for_file_call_order = ["Path", "Path(path).parent.mkdir"] := ⟨rfl, rfl, rfl, rfl⟩

/-- in the call order `calls`, does `a` run before the first of the calls `bs` (and does it run at all)? -/
def runsBeforeAll (a : String) (bs : List String) (calls : List String) : Bool :=
  (calls.takeWhile (fun c => !bs.contains c)).contains a

/-- the calls that create or open the output file. -/
def openers : List String := ["util.xopen", "savez", "pq.write_table", "csv.write_csv", "pickle.dump", "f.write"]

/-- **the directory is made before the file is opened**: in every writer that touches the file system itself — the data
    frame's CSV / NPZ / Parquet / pickle writers, the list's CSV / JSON / pickle writers and the GeoJSON writer —
    `util.makedirs_for_file` runs before the first `util.xopen` / `savez` / `pq.write_table` / write (`DataFrame.write_json`
    delegates to the list's writer and makes no file-system call of its own). -/
theorem writers_make_the_directory_first :
    runsBeforeAll "util.makedirs_for_file" openers DataFrame_write_csv_call_order = true ∧
    runsBeforeAll "util.makedirs_for_file" openers DataFrame_write_npz_call_order = true ∧
    runsBeforeAll "util.makedirs_for_file" openers DataFrame_write_parquet_call_order = true ∧
    runsBeforeAll "util.makedirs_for_file" openers DataFrame_write_pickle_call_order = true ∧
    runsBeforeAll "util.makedirs_for_file" openers ListOfDicts_write_csv_call_order = true ∧
    runsBeforeAll "util.makedirs_for_file" openers ListOfDicts_write_json_call_order = true ∧
    runsBeforeAll "util.makedirs_for_file" openers ListOfDicts_write_pickle_call_order = true ∧
    runsBeforeAll "util.makedirs_for_file" openers GeoJSON_write_call_order = true ∧
    DataFrame_write_json_call_order = ["self.to_list_of_dicts", "self.to_list_of_dicts().write_json"] := by
  refine ⟨?_, ?_, ?_, ?_, ?_, ?_, ?_, ?_, rfl⟩ <;> decide

/-- ... and after every check that can refuse the data: the list's CSV writer raises for an empty list, the GeoJSON writer
    for a frame without geometry, BEFORE any directory is made (a refused write leaves no empty directory behind). -/
theorem refusals_come_before_the_directory :
    runsBeforeAll "ValueError" ["util.makedirs_for_file"] ListOfDicts_write_csv_call_order = true ∧
    runsBeforeAll "ValueError" ["util.makedirs_for_file"] GeoJSON_write_call_order = true := by
  refine ⟨?_, ?_⟩ <;> decide

end DI.Tie.C12

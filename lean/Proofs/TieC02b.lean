/-
  Proofs/TieC02b.lean — code theorems over the part of `Generated/CodeC02.lean` that `Proofs/TieC02.lean` does not cover:
  the position parsers `_parse_cols_from_boolean`, `_parse_cols_from_integer`, `_parse_rows_from_integer`, the random row
  subset `sample`, and the unchecked row view `_view_rows` (used by the grouped paths of `aggregate` / `modify`).

  Refinements against `Model/Frame.lean` / `Model/Basic.lean`: a Boolean column mask of the right length denotes the
  model's `nonzero` positions and any other length is rejected (`boolean_cols_refines`); `sample` hands `slice` the model's
  `sampleIdx` of whatever `np.random.choice` chose (`sample_refines`), drawn WITHOUT replacement from `range(nrow)` and
  at most `nrow` many.
-/
import Generated.CodeC02
import Model.Frame
import Lemmas.PyCore
import Proofs.TieC02

namespace DI.Tie.C02

open DI DI.Py DI.Gen

/-! ### position parsers -/

/-- `Vector.fast(np.nonzero(Vector.fast(v, bool))[0], int)`: the positions at which the mask named `v` is true. -/
def maskPositions (v : String) : Term :=
  Term.app "Vector.fast" [Term.app "getitem" [Term.app "np.nonzero" [Term.app "Vector.fast" [Term.sym v, Term.sym "bool"]], Term.int 0],
    Term.sym "int"]

/-- the length test of the Boolean column parser. -/
def colsLengthDiffers : Term :=
  Term.app "NotEq" [Term.app "len" [Term.app "Vector.fast" [Term.sym "cols", Term.sym "bool"]], Term.app ".ncol" [Term.sym "self"]]

/-- a Boolean column mask as written: rejected when its length (after the cast to bool) differs from `self.ncol`;
    otherwise the positions where it is true. -/
theorem boolean_cols_guard (truth : Term → Bool) :
    DataFrame_parse_cols_from_boolean truth =
      if truth colsLengthDiffers then Out.raise [] "ValueError" else Out.ret [] (maskPositions "cols") := by
  unfold DataFrame_parse_cols_from_boolean colsLengthDiffers maskPositions; rfl

/-- the column parser is the row parser (`boolean_rows_guard`) with `cols` / `ncol` for `rows` / `nrow`: the same
    positions expression, the same exception. -/
theorem boolean_parsers_agree (truth : Term → Bool) (n : Int) :
    DataFrame_parse_rows_from_boolean truth n n = Out.ret [] (maskPositions "rows") ∧
    (truth colsLengthDiffers = false → DataFrame_parse_cols_from_boolean truth = Out.ret [] (maskPositions "cols")) ∧
    (truth colsLengthDiffers = true → DataFrame_parse_cols_from_boolean truth = Out.raise [] "ValueError") ∧
    DataFrame_parse_cols_from_boolean_signature = ["self", "cols"] ∧
    DataFrame_parse_rows_from_boolean_signature = ["self", "rows"] := by
  refine ⟨?_, ?_, ?_, rfl, rfl⟩
  · unfold DataFrame_parse_rows_from_boolean maskPositions; simp
  · intro h; rw [boolean_cols_guard, h]; rfl
  · intro h; rw [boolean_cols_guard, h]; rfl

/-- the positions an outcome of the Boolean column parser denotes for the mask `mask` (`none` = it raises). -/
def colsDenote (mask : List Bool) : Out → Option (List Nat)
  | .ret [] (.app "Vector.fast" [.app "getitem" [.app "np.nonzero" [.app "Vector.fast" [.sym "cols", .sym "bool"]], .int 0], .sym "int"]) =>
    some (nonzero mask)
  | _ => none

/-- **refinement**: when the length test is answered for a mask of `mask.length` entries on a frame of `ncol` columns, the
    parser returns the model's `nonzero mask` for a mask of the right length and raises for every other length. -/
theorem boolean_cols_refines (truth : Term → Bool) (mask : List Bool) (ncol : Nat)
    (h : truth colsLengthDiffers = decide (mask.length ≠ ncol)) :
    colsDenote mask (DataFrame_parse_cols_from_boolean truth) = if mask.length = ncol then some (nonzero mask) else none := by
  rw [boolean_cols_guard, h]
  by_cases hl : mask.length = ncol <;> simp [hl, colsDenote, maskPositions]

/-- integer positions, rows and columns alike, are only cast: `Vector.fast(x, int)` — no bounds check and no
    normalisation of negative positions here (NumPy's own indexing wraps them: the model's `wrapIdx`). -/
theorem integer_parsers_code (truth : Term → Bool) :
    DataFrame_parse_rows_from_integer truth = Out.ret [] (Term.app "Vector.fast" [Term.sym "rows", Term.sym "int"]) ∧
    DataFrame_parse_cols_from_integer truth = Out.ret [] (Term.app "Vector.fast" [Term.sym "cols", Term.sym "int"]) ∧
    DataFrame_parse_rows_from_integer_signature = ["self", "rows"] ∧
    DataFrame_parse_cols_from_integer_signature = ["self", "cols"] := ⟨rfl, rfl, rfl, rfl⟩

/-! ### `sample` -/

/-- `min(self.nrow, n)`, `n` defaulting to `dataiter.DEFAULT_PEEK_ROWS` (the default of `head` / `tail`): never more rows
    than there are — which `np.random.choice(…, replace=False)` would refuse. -/
def sampleSize (nNone : Bool) : Term :=
  Term.app "min" [Term.app ".nrow" [Term.sym "self"], if nNone then Term.sym "dataiter.DEFAULT_PEEK_ROWS" else Term.sym "n"]

/-- `np.random.choice(self.nrow, size, replace=False)`: `size` DISTINCT positions out of `range(nrow)`. -/
def sampleChoice (size : Term) : Term :=
  Term.app "np.random.choice" [Term.app ".nrow" [Term.sym "self"], size, Term.app "=replace" [Term.sym "False"]]

/-- `sample(n)` as written: the chosen positions are SORTED and handed to `slice` — whole rows (`slice_whole_rows`), in
    their original relative order, no row twice. -/
theorem sample_code (truth : Term → Bool) (nNone : Bool) :
    DataFrame_sample truth nNone =
      Out.ret [] (Term.app ".slice" [Term.sym "self", Term.app "np.sort" [sampleChoice (sampleSize nNone)]]) := by
  cases nNone <;> rfl

/-- the row positions `sample` hands to `slice` when `np.random.choice` returned `chosen`. -/
def sampleRows (chosen : List Nat) : Out → Option (List Nat)
  | .ret [] (.app ".slice" [.sym "self", .app "np.sort" [.app "np.random.choice" [.app ".nrow" [.sym "self"], _, .app "=replace" [.sym "False"]]]]) =>
    some (chosen.mergeSort (fun a b => a ≤ b))
  | _ => none

/-- **refinement**: for every choice, both forms of `n`, the positions are the model's `sampleIdx chosen` (`C02.sample_rows`,
    `sample_rows_unique`: THE increasing arrangement of the chosen positions — `replace=False` is what makes them distinct). -/
theorem sample_refines (truth : Term → Bool) (nNone : Bool) (chosen : List Nat) :
    sampleRows chosen (DataFrame_sample truth nNone) = some (sampleIdx chosen) := by
  cases nNone <;> rfl

theorem sample_signature :
    DataFrame_sample_signature = ["self", "n=None"] ∧ DataFrame_sample_signature = DataFrame_head_signature ∧
    DataFrame_sample_decorators = [] ∧
    DataFrame_sample_call_order = ["min", "np.random.choice", "np.sort", "self.slice"] := ⟨rfl, rfl, rfl, rfl⟩

/-! ### `_view_rows` -/

/-- `_view_rows(rows)` as written: a BLANK instance of the receiver's class (so ungrouped, `init_code`), filled with
    `dict.update` — not `__setitem__`, not the constructor: no reconciliation, no dimension check, no placeholder
    attributes — from `{x: self[x][rows] for x in self}`: every column, in dict order, indexed with the ONE `rows`
    expression (whole rows), NOT copied (a slice gives views of the receiver's columns).  The instance is returned. -/
theorem view_rows_code (truth : Term → Bool) :
    DataFrame_view_rows truth =
      let blank := Term.app ".__class__" [Term.sym "self"]
      Out.ret [Term.app "dict.update" [blank, Term.app "DictComp"
          [Term.app "pair" [Term.sym "x", Term.app "getitem" [Term.app "getitem" [Term.sym "self", Term.sym "x"], Term.sym "rows"]],
           Term.app "in" [Term.sym "x", Term.sym "self", Term.app "if" []]]]]
        blank := rfl

theorem view_rows_signature :
    DataFrame_view_rows_signature = ["self", "rows"] ∧ DataFrame_view_rows_decorators = [] ∧
    DataFrame_view_rows_call_order = ["self.__class__", "dict.update"] := ⟨rfl, rfl, rfl⟩

example : nonzero [true, false, true] = [0, 2] := by decide

end DI.Tie.C02

/-
  Proofs/EvalC04.lean — what the REGENERATED bodies of `DataFrame.split` and of the grouping part of `DataFrame.aggregate`
  (`Generated/CodeC04.lean`, translated from the current Python source on every run) DENOTE under the evaluator of
  `Model/PyEvalSort.lean`: "code ⇒ semantics ⇒ model".

  The two bodies are straight-line: attribute writes `data._index_ = np.arange(data.nrow)` (a column is added to the object:
  the evaluator's store), then one expression.  Meanings: `.select` / `.unselect` (the columns named; `Eval.C09`),
  `.sort(**dict.fromkeys(by, 1))` = `sortFrame`, which `Eval.C03.sort_eval_total` PROVES to be the regenerated body of
  `sort`; `.unique(*by)` = the first row of every key tuple, in order (`uniqueFrame`, the model's `uniqueIdx`); `np.arange`;
  `x[1:]`; `np.split(index, cuts)` = `npSplit` (cut the list at the given positions; an EMPTY index gives ONE empty chunk).

  * `split_eval`               the value `split(*by)` returns is the list of the model's groups `groupsOf` — with
                               `split_eval_groups`: a partition of the row numbers, one chunk per distinct key combination,
                               chunks in ascending key order, rows inside a chunk in original order;
  * `split_empty_frame`        a frame without rows gives ONE empty chunk (what Python returns: `[array([], dtype=int64)]`);
  * `split_no_keys`            `split()` raises (the TypeError of `np.lexsort(())`);
  * `split_reserved_name`      `by` must not contain `_index_`: the method overwrites that column with the row numbers BEFORE
                               it sorts (Python: `DataFrame(_index_=[5,5,7,7]).split("_index_")` gives four singletons);
  * `aggregate_code`           the grouping part of `aggregate` as written, `indices` included;
  * `aggregate_groups_eval`    the summary frame has one row per group, in the order of the groups (ascending keys:
                               `aggregate_summary_ascending`), carrying the key cells of the FIRST row of its group; the row
                               views are cut at the group starts; no rows ⇒ no group.

  Statements only; the proofs cite `Lemmas/PyEvalSort.lean`.
-/
import Generated.CodeC04
import Proofs.TieC04
import Proofs.C04
import Proofs.EvalC03
import Lemmas.PyEvalSort

namespace DI.Eval.C04

open DI DI.Py DI.Gen DI.PyEvalS DI.Tie.C04
open DI.PyEval (Frame nrow names colOf colOf? Rect)

/-! ### split -/

/-- **split as written** (`Tie.C04.split_code`), in the names of `Lemmas/PyEvalSort.lean`. -/
theorem split_body (truth : Term → Bool) : DataFrame_split truth = Out.ret splitEffs splitRetT := rfl

/-- **split(*by)**: the chunks are exactly the model's groups `groupsOf` for the key columns `by` (`gkeys`: dtype flags
    and column of every name) — for every frame with any number of rows (also none) and columns, any number ≥ 1 of
    distinct key names, any missing values. -/
theorem split_eval (truth : Term → Bool) (kinds : String → ColKind) (env : Env) (self : Frame) (bys : List String)
    (h : SplitCtx env self bys) :
    runRet kinds env (DataFrame_split truth) =
      some (.chunks ((groupsOf (nrow self) (gkeys kinds self bys)).map
        (fun g => g.map (fun (k : Nat) => (k : Int))))) := by
  rw [split_body]; exact run_split kinds h

/-- **the chunks are the groups of the rows** (with `Proofs/C04.lean`): the value is a list `G` of lists of row numbers
    that (1) is a partition of the row numbers, (2) has all rows of a chunk carry the same key tuple and (3) never splits
    a key tuple over two chunks — one chunk per distinct key combination —, (4) lists the chunks in strictly ascending
    key order and (5) the rows inside a chunk in original order. -/
theorem split_eval_groups (truth : Term → Bool) (kinds : String → ColKind) (env : Env) (self : Frame)
    (bys : List String) (h : SplitCtx env self bys)
    (hcoded : ∀ b ∈ bys, (kinds b).isNumber = true → IntCoded (colOf self b)) :
    ∃ G : List (List Nat),
      runRet kinds env (DataFrame_split truth) = some (.chunks (G.map (fun g => g.map (fun (k : Nat) => (k : Int))))) ∧
      G.flatten.Perm (List.range (nrow self)) ∧
      (∀ g ∈ G, ∀ a ∈ g, ∀ b ∈ g, keyRow (gkeys kinds self bys) a = keyRow (gkeys kinds self bys) b) ∧
      (∀ g1 ∈ G, ∀ g2 ∈ G, ∀ a ∈ g1, ∀ b ∈ g2,
        keyRow (gkeys kinds self bys) a = keyRow (gkeys kinds self bys) b → g1 = g2) ∧
      (∀ i j, i < j → j < G.length → ∀ a ∈ G[i]!, ∀ b ∈ G[j]!,
        leLexBy (specLts (ascKeys (gkeys kinds self bys))) (keyRow (gkeys kinds self bys) a)
          (keyRow (gkeys kinds self bys) b) = true ∧
        leLexBy (specLts (ascKeys (gkeys kinds self bys))) (keyRow (gkeys kinds self bys) b)
          (keyRow (gkeys kinds self bys) a) = false) ∧
      (∀ g ∈ G, g.Pairwise (· < ·)) := by
  have hwf := gkeys_wf kinds self bys h.hnames h.hrect hcoded
  refine ⟨_, split_eval truth kinds env self bys h, DI.C04.groups_partition _ _,
    fun g hg a ha b hb => DI.C04.groups_homogeneous _ _ hwf g hg a b ha hb,
    fun g1 h1 g2 h2 a ha b hb he => DI.C04.one_group_per_key _ _ hwf g1 g2 h1 h2 a b ha hb he,
    fun i j hij hj a ha b hb => ?_,
    fun g hg => DI.C04.group_rows_in_original_order _ _ hwf g hg⟩
  have := DI.C04.groups_ascending _ _ hwf i j hij hj a b ha hb
  exact ⟨this.1, this.2.1⟩

/-- a frame WITHOUT rows: ONE empty chunk (`np.split` of an empty array; Python returns `[array([], dtype=int64)]`) —
    `split` has no guard like the one of `aggregate`. -/
theorem split_empty_frame (truth : Term → Bool) (kinds : String → ColKind) (env : Env) (self : Frame)
    (bys : List String) (h : SplitCtx env self bys) (hn : nrow self = 0) :
    runRet kinds env (DataFrame_split truth) = some (.chunks [[]]) := by
  rw [split_eval truth kinds env self bys h, groupsOf_eq_splitAt, splitStarts_empty kinds self bys hn]
  have : splitOrder kinds self bys = [] := by
    have := splitOrder_length kinds self bys
    rw [hn] at this
    exact List.eq_nil_of_length_eq_zero this
  rw [this]
  rfl

/-- **split() without names raises**: the key frame has no columns and its `sort()` no key (`np.lexsort(())`: TypeError;
    Python: "need sequence of keys with len > 0 in lexsort"). -/
theorem split_no_keys (truth : Term → Bool) (kinds : String → ColKind) (env : Env) (self : Frame)
    (hself : env.get? "self" = some (.frame self)) (hby : env.get? "by" = some (.strs [])) :
    runRet kinds env (DataFrame_split truth) = none := by
  rw [split_body]; exact run_split_no_keys kinds env self hself hby

/-- **why `_index_` must not be a key name**: whatever the names are, after `data._index_ = np.arange(data.nrow)` the
    column `_index_` of the key frame is the row numbers — a key column of that name is gone before the sort sees it. -/
theorem split_reserved_name (self : Frame) (bys : List String) :
    colOf? (splitK1 self bys) "_index_" = some (idxCol (List.range (nrow self))) := by
  rw [splitK1, colOf?_dictPut]; simp

/-! ### aggregate, the grouping part -/

/-- `indices = np.split(data._index_, stat._index_[1:]) if stat.nrow > 0 else []`. -/
def aggIndices (truth : Term → Bool) : Term :=
  if truth (.app "Gt" [.app ".nrow" [statT], .int 0]) then aggSplitT else aggEmptyT

/-- `[data._view_rows(x) for x in indices]`: the groups the aggregation functions are applied to. -/
def slicesOf (indices : Term) : Term :=
  .app "ListComp" [.app "._view_rows" [dataT, .sym "x"], .app "in" [.sym "x", indices, .app "if" []]]

/-- is this application the term `t`? -/
def isTerm (t : Term) : String → List Term → Bool :=
  fun f args => (DI.PyEvalLift.termDecEq (.app f args) t).decide

/-- **aggregate as written, the grouping part** (`Tie.C04.aggregate_grouping` with `indices` made explicit): the first
    effect numbers the rows of the sorted frame `data`, the result is `stat` without the bookkeeping columns, and the
    later effects build the row views from `indices`, which is `np.split(...)` guarded by `stat.nrow > 0`. -/
theorem aggregate_code (truth : Term → Bool) :
    ∃ effs, DataFrame_aggregate truth = Out.ret (aggEff0 :: effs) aggResT ∧
      Term.anyAppList (isTerm (slicesOf (aggIndices truth))) effs = true := by
  unfold DataFrame_aggregate aggIndices
  cases h1 : truth (.app "Gt" [.app ".nrow" [statT], .int 0]) <;>
  cases h2 : truth (Term.app "any" [Term.app "ListComp" [Term.app "getattr" [Term.sym "x", Term.sym "'group_aware'",
    Term.sym "False"], Term.app "in" [Term.sym "x", Term.app ".values" [Term.sym "colname_function_pairs"],
    Term.app "if" []]]]) <;>
  · simp only [statT, dataT, gT, byOnes] at h1
    simp only [h1, h2]
    refine ⟨_, rfl, ?_⟩
    decide

/-- **the groups of `aggregate`**: after the first effect, in its store `st`,
    (1) the returned frame has the group columns, every one holding the key cells of the FIRST row of every group
        (`firstRows`, original row numbers) — one summary row per group, in the order of the groups;
    (2) the guard `stat.nrow > 0` is "the frame has rows";
    (3) for an interpretation `truth` that reads the guard so, `indices` is the list of the sorted POSITIONS cut at the
        group starts when there are rows — read through the sort permutation these chunks are the model's groups
        `groupsOf` — and the EMPTY list when there are none: no rows ⇒ no group (where `np.split` alone would give one
        empty group, as in `split_empty_frame`). -/
theorem aggregate_groups_eval (truth : Term → Bool) (kinds : String → ColKind) (env : Env) (self : Frame)
    (bys : List String) (h : AggCtx env self bys)
    (htruth : truth (.app "Gt" [.app ".nrow" [statT], .int 0]) = decide (0 < nrow self)) :
    ∃ st, runEffs kinds env [] [aggEff0] = some st ∧
      evalS kinds st env aggResT =
        some (.frame (bys.map (fun b => (b, gather (colOf self b) (firstRows kinds self bys))))) ∧
      evalS kinds st env (.app "Gt" [.app ".nrow" [statT], .int 0]) = some (.bool (decide (0 < nrow self))) ∧
      ∃ P : List (List Nat),
        evalS kinds st env (aggIndices truth) = some (.chunks (P.map (fun g => g.map (fun (k : Nat) => (k : Int))))) ∧
        (0 < nrow self → P.map (fun c => gather (splitOrder kinds self bys) c) =
          groupsOf (nrow self) (gkeys kinds self bys)) ∧
        (nrow self = 0 → P = []) := by
  obtain ⟨st, hr, hres, hgt, hsp, hem⟩ := run_aggregate_groups kinds h
  have hlen : decide (0 < (splitStarts kinds self bys).length) = decide (0 < nrow self) := by
    by_cases hn : 0 < nrow self
    · have := splitStarts_head kinds self bys hn
      cases hs : splitStarts kinds self bys with
      | nil => rw [hs] at this; cases this
      | cons a t => simp [hn]
    · have hn0 : nrow self = 0 := by omega
      rw [splitStarts_empty kinds self bys hn0]
      simp [hn0]
  rw [hlen] at hgt
  refine ⟨st, hr, hres, hgt, ?_⟩
  unfold aggIndices
  by_cases hn : 0 < nrow self
  · have ht : truth (.app "Gt" [.app ".nrow" [statT], .int 0]) = true := by rw [htruth]; simpa using hn
    rw [ht]
    exact ⟨_, hsp, fun _ => agg_chunks_are_groups kinds self bys, fun h0 => by omega⟩
  · have ht : truth (.app "Gt" [.app ".nrow" [statT], .int 0]) = false := by rw [htruth]; simpa using hn
    rw [ht]
    exact ⟨[], hem, fun h0 => absurd h0 hn, fun _ => rfl⟩

/-- **the summary rows are the first rows of the model's groups**, group by group; so (with `C04.groups_homogeneous`)
    every summary row carries the key tuple of all the rows of its group. -/
theorem aggregate_summary_first_rows (kinds : String → ColKind) (self : Frame) (bys : List String)
    (hn : 0 < nrow self) :
    firstRows kinds self bys = (groupsOf (nrow self) (gkeys kinds self bys)).map (fun g => g.head!) :=
  firstRows_heads kinds self bys hn

/-- row `g` of the summary column `b` is the cell of column `b` in the first row of group `g`. -/
theorem aggregate_summary_cell (kinds : String → ColKind) (self : Frame) (bys : List String) (b : String) (g : Nat)
    (hg : g < (firstRows kinds self bys).length) :
    (gather (colOf self b) (firstRows kinds self bys))[g]! = (colOf self b)[(firstRows kinds self bys)[g]!]! :=
  gather_get _ _ g hg

/-- **summary rows in ascending key order** (with `C04.groups_ascending`): the key tuple of an earlier summary row is
    strictly before the key tuple of a later one (ascending per key, first key primary, missing last). -/
theorem aggregate_summary_ascending (kinds : String → ColKind) (self : Frame) (bys : List String)
    (hnames : ∀ b ∈ bys, b ∈ names self) (hrect : Rect self)
    (hcoded : ∀ b ∈ bys, (kinds b).isNumber = true → IntCoded (colOf self b)) (hn : 0 < nrow self)
    (g1 g2 : Nat) (h12 : g1 < g2) (h2 : g2 < (firstRows kinds self bys).length) :
    leLexBy (specLts (ascKeys (gkeys kinds self bys))) (keyRow (gkeys kinds self bys) (firstRows kinds self bys)[g1]!)
        (keyRow (gkeys kinds self bys) (firstRows kinds self bys)[g2]!) = true ∧
    leLexBy (specLts (ascKeys (gkeys kinds self bys))) (keyRow (gkeys kinds self bys) (firstRows kinds self bys)[g2]!)
        (keyRow (gkeys kinds self bys) (firstRows kinds self bys)[g1]!) = false ∧
    keyRow (gkeys kinds self bys) (firstRows kinds self bys)[g1]! ≠
      keyRow (gkeys kinds self bys) (firstRows kinds self bys)[g2]! :=
  firstRows_ascending kinds self bys (gkeys_wf kinds self bys hnames hrect hcoded) hn g1 g2 h12 h2

/-! ### non-vacuity: the frame of `Proofs/EvalC03.lean` (5 rows), grouped by `x` -/

open DI.Eval.C03 (ik fr)

example : SplitCtx (callEnv fr [("by", .strs ["x"])]) fr ["x"] :=
  ⟨rfl, rfl, by decide, by decide, by decide, by decide, by decide⟩

example : AggCtx (callEnv fr [("self._group_colnames", .strs ["x"])]) fr ["x"] :=
  ⟨rfl, rfl, by decide, by decide, by decide, by decide, by decide⟩

/-- `fr.split("x")` = `[[1, 3], [2], [0, 4]]` (what Python returns) through the regenerated body. -/
example : runRet (fun _ => ik) (callEnv fr [("by", .strs ["x"])]) (DataFrame_split (fun _ => false)) =
    some (.chunks [[1, 3], [2], [0, 4]]) := by
  rw [split_eval (fun _ => false) (fun _ => ik) _ fr ["x"]
    ⟨rfl, rfl, by decide, by decide, by decide, by decide, by decide⟩]
  have hs : groupSortIdx 5 (gkeys (fun _ => ik) fr ["x"]) = [1, 3, 2, 0, 4] := by
    simp [gkeys, fr, ik, DI.PyEval.colOf, DI.PyEval.colOf?, groupSortIdx, dfSortIdx, lexsortIdx, argsort, sortPairs,
      sortKey, rowsOf, List.mergeSort, List.range, List.range.loop, List.zipIdx, leLex, ltNaLast, ltOf, Key.le]
  have hg : groupsOf 5 (gkeys (fun _ => ik) fr ["x"]) = [[1, 3], [2], [0, 4]] := by
    simp only [groupsOf, hs]; decide
  have hn : nrow fr = 5 := by decide
  rw [hn, hg]
  rfl

/-- `fr.group_by("x").aggregate(...)`: the summary rows are the original rows 1, 2, 0 — the first rows of the groups
    `[1, 3]`, `[2]`, `[0, 4]` —, so the summary column `x` is `[1, 2, 3]`. -/
example : firstRows (fun _ => ik) fr ["x"] = [1, 2, 0] ∧
    gather (colOf fr "x") (firstRows (fun _ => ik) fr ["x"]) = [some (.i 1), some (.i 2), some (.i 3)] := by
  have hs : groupSortIdx 5 (gkeys (fun _ => ik) fr ["x"]) = [1, 3, 2, 0, 4] := by
    simp [gkeys, fr, ik, DI.PyEval.colOf, DI.PyEval.colOf?, groupSortIdx, dfSortIdx, lexsortIdx, argsort, sortPairs,
      sortKey, rowsOf, List.mergeSort, List.range, List.range.loop, List.zipIdx, leLex, ltNaLast, ltOf, Key.le]
  have hn : nrow fr = 5 := by decide
  have hf : firstRows (fun _ => ik) fr ["x"] = [1, 2, 0] := by
    simp only [firstRows, splitStarts, splitOrder, hn, hs]; decide
  rw [hf]
  exact ⟨rfl, by decide⟩

/-- the exceptions and the degenerate frames evaluate without sorting anything. -/
example : runRet (fun _ => ik) (callEnv fr [("by", .strs [])]) (DataFrame_split (fun _ => false)) = none :=
  split_no_keys _ _ _ fr rfl rfl

example : npSplit ([] : List Int) [] = [[]] ∧ npSplit [4, 2, 0, 3, 1] [2, 3] = [[4, 2], [0], [3, 1]] := by decide

example : splitK1 [("_index_", [some (.i 5), some (.i 5), some (.i 7), some (.i 7)])] ["_index_"] =
    [("_index_", [some (.i 0), some (.i 1), some (.i 2), some (.i 3)])] := by decide

end DI.Eval.C04

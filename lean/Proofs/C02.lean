/-
  Proofs/C02.lean — property C02: row subsetting returns exactly the selected whole rows,
  in order.  Statements only; proofs cite Lemmas/Frame.lean.

  Every operation is `gather column idx` with the same `idx` for every column, so the
  theorems are about the index list `idx` (what is kept, in which order) plus `whole_rows`.
-/
import Model.Frame
import Lemmas.Frame
import Lemmas.FrameMore

namespace DI.C02

open DI DI.FrameMore

/-- whole rows: output row `j` is input row `idx[j]` in every column. -/
theorem whole_rows [Inhabited α] (col : List α) (idx : List Nat) (j : Nat) (h : j < idx.length) :
    (gather col idx)[j]! = col[idx[j]!]! := gather_get col idx j h

/-- filter keeps exactly the rows whose condition is true, in original order. -/
theorem filter_keeps (mask : List Bool) :
    (∀ i, i ∈ filterIdx mask ↔ i < mask.length ∧ mask[i]! = true) ∧
    (filterIdx mask).Pairwise (· < ·) :=
  ⟨fun _ => mem_filterIdx, nonzero_sorted mask⟩

/-- filter_out keeps exactly the rest, in original order. -/
theorem filter_out_keeps (mask : List Bool) :
    (∀ i, i ∈ filterOutIdx mask ↔ i < mask.length ∧ mask[i]! = false) ∧
    (filterOutIdx mask).Pairwise (· < ·) :=
  ⟨fun _ => mem_filterOutIdx, filterOutIdx_sorted mask⟩

theorem filter_filter_out_partition (mask : List Bool) :
    (filterIdx mask ++ filterOutIdx mask).Perm (List.range mask.length) := filter_partition mask

/-- slice keeps exactly the given positions (negative positions wrapped), in the given order. -/
theorem slice_positions (n : Nat) (rows : List Int) :
    (sliceIdx n rows).length = rows.length ∧
    ∀ j, j < rows.length → (sliceIdx n rows)[j]! = wrapIdx n rows[j]! :=
  ⟨by simp [sliceIdx], fun j h => sliceIdx_get n rows j h⟩

/-- slice_off drops exactly the given positions and keeps the rest in order. -/
theorem slice_off_positions (n : Nat) (rows : List Int) :
    (∀ i, i ∈ sliceOffIdx n rows ↔ i < n ∧ ∀ r ∈ rows, wrapIdx n r ≠ i) ∧
    (sliceOffIdx n rows).Pairwise (· < ·) :=
  ⟨fun _ => mem_sliceOffIdx, sliceOffIdx_sorted n rows⟩

/-- head keeps the first min(n, nrow) rows. -/
theorem head_first (nrow n : Nat) : headIdx nrow n = List.range (min n nrow) := headIdx_spec nrow n

/-- tail keeps the last min(n, nrow) rows, in order. -/
theorem tail_last (nrow n : Nat) :
    (tailIdx nrow n).length = min n nrow ∧
    (∀ i, i ∈ tailIdx nrow n ↔ nrow - min n nrow ≤ i ∧ i < nrow) ∧
    (tailIdx nrow n).Pairwise (· < ·) :=
  ⟨tailIdx_length nrow n, fun _ => mem_tailIdx, tailIdx_sorted nrow n⟩

/-- drop_na drops exactly the rows having a missing value in a named column. -/
theorem drop_na_rows (n : Nat) (cols : List (List Cell)) :
    (∀ i, i ∈ dropNaIdx n cols ↔ i < n ∧ ∀ c ∈ cols, isNa c[i]! = false) ∧
    (dropNaIdx n cols).Pairwise (· < ·) :=
  ⟨fun _ => mem_dropNaIdx, dropNaIdx_sorted n cols⟩

/-- unique keeps exactly the first row of every distinct key combination (missing values
    equal to each other and to nothing else), in original order. -/
theorem unique_first_occurrence (n : Nat) (cols : List (List Cell)) :
    (∀ j, j ∈ uniqueIdx n cols ↔
      j < n ∧ ∀ j' < j, (rowsOf n cols)[j']! ≠ (rowsOf n cols)[j]!) ∧
    (uniqueIdx n cols).Pairwise (· < ·) :=
  ⟨fun _ => mem_uniqueIdx, uniqueIdx_sorted n cols⟩

/-- non-vacuity: a concrete frame with a duplicated and a missing key. -/
example : uniqueIdx 5 [[some (.i 1), none, some (.i 1), none, some (.i 2)]] = [0, 1, 4] := by decide
example : filterOutIdx [true, false, true, false] = [1, 3] := by decide
example : tailIdx 5 2 = [3, 4] := by decide
example : dropNaIdx 3 [[some (.i 1), none, some (.i 3)], [none, none, some (.b true)]] = [2] := by decide

/-! ### round 3: sample, the forms of filter, drop_na over several columns, unique as
    representatives, head / tail partition -/

/-- sample: `slice(np.sort(chosen))` — the rows taken are the chosen rows (a permutation of
    `chosen`, so as many), every one an input row when the chosen positions are, and — for
    positions drawn without replacement — in strictly increasing position: the sampled rows keep
    their original relative order. -/
theorem sample_rows (chosen : List Nat) :
    (sampleIdx chosen).Perm chosen ∧
    (sampleIdx chosen).length = chosen.length ∧
    (sampleIdx chosen).Pairwise (· ≤ ·) ∧
    (chosen.Nodup → (sampleIdx chosen).Pairwise (· < ·)) ∧
    (∀ n, (∀ i ∈ chosen, i < n) → ∀ i ∈ sampleIdx chosen, i < n) :=
  ⟨sampleIdx_perm chosen, sampleIdx_length chosen, sampleIdx_sorted chosen,
   fun h => sampleIdx_increasing h, fun _ h => sampleIdx_inrange h⟩

/-- the result of sample is determined by the set of chosen positions: it is THE increasing
    arrangement of them. -/
theorem sample_rows_unique (chosen l : List Nat) (hn : chosen.Nodup) (hp : l.Perm chosen)
    (hl : l.Pairwise (· < ·)) : sampleIdx chosen = l := sampleIdx_unique hn hp hl

/-- the three forms of `filter` select the same rows when they denote the same predicate:
    * mask form = callable form: the mask `[p(row) for row in rows]` keeps the positions of the
      rows satisfying `p`;
    * column = value form: the mask `column == value` is, cell by cell, `cellEq` (for a
      non-missing value: plain equality of cells; for the missing value: `is_na` when the
      dtype's missing value equals itself, nothing otherwise), so the rows kept are the
      positions where the cell equals the value;
    * several column = value pairs keep the intersection of the rows each pair keeps. -/
theorem filter_forms_interchangeable :
    (∀ {α : Type} [Inhabited α] (rows : List α) (p : α → Bool),
      filterIdx (rows.map p) = (List.range rows.length).filter (fun i => p rows[i]!)) ∧
    (∀ (naEq : Bool) (col : List Cell) (v : Cell),
      eqMask naEq col v = col.map (fun x => cellEq naEq x v) ∧
      filterIdx (eqMask naEq col v) = (List.range col.length).filter (fun i => cellEq naEq col[i]! v)) ∧
    (∀ (naEq : Bool) (col : List Cell) (b : Key) (i : Nat),
      i ∈ filterIdx (eqMask naEq col (some b)) ↔ i < col.length ∧ col[i]! = some b) ∧
    (∀ (n : Nat) (masks : List (List Bool)), (∀ m ∈ masks, m.length = n) →
      (∀ i, i ∈ filterIdx (andMasks n masks) ↔ i < n ∧ ∀ m ∈ masks, i ∈ filterIdx m) ∧
      (filterIdx (andMasks n masks)).Pairwise (· < ·)) :=
  ⟨fun rows p => filterIdx_map rows p,
   fun naEq col v => ⟨eqMask_eq_map naEq col v, filterIdx_eqMask naEq col v⟩,
   fun _ _ _ _ => mem_filterIdx_eqMask_some,
   fun n masks hlen => ⟨fun _ => mem_filterIdx_andMasks hlen, filterIdx_andMasks_sorted n masks⟩⟩

/-- one more pair = one more intersection. -/
theorem filter_pairs_intersect (n : Nat) (m : List Bool) (ms : List (List Bool)) (hm : m.length = n) :
    filterIdx (andMasks n (m :: ms)) = (filterIdx m).filter (fun i => (filterIdx (andMasks n ms)).contains i) :=
  filterIdx_andMasks_cons n m ms hm

/-- drop_na over several columns: a row is dropped iff it has a missing value in ANY named
    column; the rows kept are those complete in ALL named columns, in order; naming columns in
    two steps = naming them together; and `drop_na()` WITHOUT column names keeps every row
    (the Python loop over `colnames` does not run — it does not default to all columns). -/
theorem drop_na_multi (n : Nat) (cols : List (List Cell)) :
    (∀ i, i < n → (i ∉ dropNaIdx n cols ↔ ∃ c ∈ cols, isNa c[i]! = true)) ∧
    dropNaIdx n cols = (List.range n).filter (fun i => cols.all (fun c => !isNa c[i]!)) ∧
    (∀ cs ds, cols = cs ++ ds →
      dropNaIdx n cols = (dropNaIdx n cs).filter (fun i => (dropNaIdx n ds).contains i)) ∧
    dropNaIdx n [] = List.range n :=
  ⟨fun _ hi => not_mem_dropNaIdx hi, dropNaIdx_eq_filter n cols,
   fun cs ds h => h ▸ dropNaIdx_append n cs ds, dropNaIdx_nil n⟩

/-- unique: the kept rows are in increasing position; every input row has exactly one kept row
    with the same key tuple, and that representative is at or before it (its first
    occurrence); the kept rows read off the frame are the distinct key tuples in order of first
    appearance, so there are as many as distinct key tuples. -/
theorem unique_keeps_order_and_represents (n : Nat) (cols : List (List Cell)) :
    (uniqueIdx n cols).Pairwise (· < ·) ∧
    (∀ j, j < n → ∃ k, (k ∈ uniqueIdx n cols ∧ k ≤ j ∧ (rowsOf n cols)[k]! = (rowsOf n cols)[j]!) ∧
      ∀ k', k' ∈ uniqueIdx n cols → (rowsOf n cols)[k']! = (rowsOf n cols)[j]! → k' = k) ∧
    gather (rowsOf n cols) (uniqueIdx n cols) = (rowsOf n cols).eraseDups ∧
    (uniqueIdx n cols).length = (rowsOf n cols).eraseDups.length :=
  ⟨uniqueIdx_sorted n cols, uniqueIdx_represents n cols, gather_uniqueIdx n cols, uniqueIdx_length n cols⟩

/-- head(n) followed by tail(nrow - n) is the whole frame, every row once, in order. -/
theorem head_tail_partition (nrow n : Nat) (h : n ≤ nrow) :
    headIdx nrow n ++ tailIdx nrow (nrow - n) = List.range nrow := head_tail_append nrow n h

/-- non-vacuity. -/
example : sampleIdx [4, 0, 2] = [0, 2, 4] :=
  sampleIdx_unique (by decide) (by decide) (by decide)
example : filterIdx (eqMask false [some (.i 1), none, some (.i 1)] (some (.i 1))) = [0, 2] := by decide
example : filterIdx (eqMask true [some (.s [97]), none] none) = [1] ∧
    filterIdx (eqMask false [some (.i 1), none] none) = [] := by decide
example : filterIdx (andMasks 3 [[true, true, false], [false, true, true]]) = [1] := by decide
example : dropNaIdx 3 [] = [0, 1, 2] := by decide
example : headIdx 5 2 ++ tailIdx 5 3 = [0, 1, 2, 3, 4] := by decide

end DI.C02

/-
  Proofs/C02.lean — property C02: row subsetting returns exactly the selected whole rows,
  in order.  Statements only; proofs cite Lemmas/Frame.lean.

  Every operation is `gather column idx` with the same `idx` for every column, so the
  theorems are about the index list `idx` (what is kept, in which order) plus `whole_rows`.
-/
import Model.Frame
import Lemmas.Frame

namespace DI.C02

open DI

/-- whole rows: output row `j` is input row `idx[j]` in every column. -/
theorem whole_rows [Inhabited α] (col : List α) (idx : List Nat) (j : Nat) (h : j < idx.length) :
    (gather col idx)[j]! = col[idx[j]!]! := gather_get col idx j h

/-- filter keeps exactly the rows whose condition is true, in original order. -/
theorem filter_keeps (mask : List Bool) :
    (∀ i, i ∈ filterIdx mask ↔ i < mask.length ∧ mask[i]! = true) ∧
    (filterIdx mask).Pairwise (· < ·) :=
  ⟨fun _ => mem_filterIdx, nonzero_sorted mask⟩

/-- filter_out keeps exactly the rest, in original order. -/
theorem filter_out_keeps (mask : List Bool) :
    (∀ i, i ∈ filterOutIdx mask ↔ i < mask.length ∧ mask[i]! = false) ∧
    (filterOutIdx mask).Pairwise (· < ·) :=
  ⟨fun _ => mem_filterOutIdx, filterOutIdx_sorted mask⟩

theorem filter_filter_out_partition (mask : List Bool) :
    (filterIdx mask ++ filterOutIdx mask).Perm (List.range mask.length) := filter_partition mask

/-- slice keeps exactly the given positions (negative positions wrapped), in the given order. -/
theorem slice_positions (n : Nat) (rows : List Int) :
    (sliceIdx n rows).length = rows.length ∧
    ∀ j, j < rows.length → (sliceIdx n rows)[j]! = wrapIdx n rows[j]! :=
  ⟨by simp [sliceIdx], fun j h => sliceIdx_get n rows j h⟩

/-- slice_off drops exactly the given positions and keeps the rest in order. -/
theorem slice_off_positions (n : Nat) (rows : List Int) :
    (∀ i, i ∈ sliceOffIdx n rows ↔ i < n ∧ ∀ r ∈ rows, wrapIdx n r ≠ i) ∧
    (sliceOffIdx n rows).Pairwise (· < ·) :=
  ⟨fun _ => mem_sliceOffIdx, sliceOffIdx_sorted n rows⟩

/-- head keeps the first min(n, nrow) rows. -/
theorem head_first (nrow n : Nat) : headIdx nrow n = List.range (min n nrow) := headIdx_spec nrow n

/-- tail keeps the last min(n, nrow) rows, in order. -/
theorem tail_last (nrow n : Nat) :
    (tailIdx nrow n).length = min n nrow ∧
    (∀ i, i ∈ tailIdx nrow n ↔ nrow - min n nrow ≤ i ∧ i < nrow) ∧
    (tailIdx nrow n).Pairwise (· < ·) :=
  ⟨tailIdx_length nrow n, fun _ => mem_tailIdx, tailIdx_sorted nrow n⟩

/-- drop_na drops exactly the rows having a missing value in a named column. -/
theorem drop_na_rows (n : Nat) (cols : List (List Cell)) :
    (∀ i, i ∈ dropNaIdx n cols ↔ i < n ∧ ∀ c ∈ cols, isNa c[i]! = false) ∧
    (dropNaIdx n cols).Pairwise (· < ·) :=
  ⟨fun _ => mem_dropNaIdx, dropNaIdx_sorted n cols⟩

/-- unique keeps exactly the first row of every distinct key combination (missing values
    equal to each other and to nothing else), in original order. -/
theorem unique_first_occurrence (n : Nat) (cols : List (List Cell)) :
    (∀ j, j ∈ uniqueIdx n cols ↔
      j < n ∧ ∀ j' < j, (rowsOf n cols)[j']! ≠ (rowsOf n cols)[j]!) ∧
    (uniqueIdx n cols).Pairwise (· < ·) :=
  ⟨fun _ => mem_uniqueIdx, uniqueIdx_sorted n cols⟩

/-- non-vacuity: a concrete frame with a duplicated and a missing key. -/
example : uniqueIdx 5 [[some (.i 1), none, some (.i 1), none, some (.i 2)]] = [0, 1, 4] := by decide
example : filterOutIdx [true, false, true, false] = [1, 3] := by decide
example : tailIdx 5 2 = [3, 4] := by decide
example : dropNaIdx 3 [[some (.i 1), none, some (.i 3)], [none, none, some (.b true)]] = [2] := by decide

end DI.C02

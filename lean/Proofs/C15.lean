/-
  Proofs/C15.lean — property C15: ListOfDicts transformations match plain list-of-dict
  semantics.  Statements only; proofs cite Lemmas/LoD.lean.
-/
import Model.LoD
import Lemmas.LoD
import Lemmas.LoDEdit
import Lemmas.LoDSort
import Lemmas.LoDKeys

namespace DI.C15

open DI DI.LoD

/-- filter and filter_out partition the items by the predicate, preserving order. -/
theorem filter_partition (xs : List Item) (mask : List Bool) (h : mask.length = xs.length) :
    (filterMask xs mask ++ filterOutMask xs mask).Perm xs ∧
    (filterMask xs mask).Sublist xs ∧ (filterOutMask xs mask).Sublist xs :=
  ⟨LoD.filter_partition xs mask h, filterMask_sublist xs mask, filterOutMask_sublist xs mask⟩

/-- the key=value condition is the predicate `all named keys equal the given values`. -/
theorem kv_is_predicate (xs : List Item) (kvs : List (String × Val)) :
    filterKv xs kvs = filterMask xs (xs.map (fun it => extract (kvs.map (·.1)) it == kvs.map (·.2))) ∧
    filterOutKv xs kvs = filterOutMask xs (xs.map (fun it => extract (kvs.map (·.1)) it == kvs.map (·.2))) :=
  ⟨filterKv_eq_mask xs kvs, filterOutKv_eq_mask xs kvs⟩

/-- sort returns the same items (every pass is a permutation). -/
theorem sort_is_permutation (xs : List Item) (keys : List (String × Bool)) : (LoD.sort xs keys).Perm xs :=
  sort_perm xs keys

/-- unique keeps items in order, one per key combination, and every key combination present. -/
theorem unique_first_per_key (xs : List Item) (keys : List String) :
    (unique xs keys).Sublist xs ∧ ((unique xs keys).map (extract keys)).Nodup ∧
    ∀ k, k ∈ (unique xs keys).map (extract keys) ↔ k ∈ xs.map (extract keys) := by
  refine ⟨uniqueScan_sublist xs keys [], uniqueScan_nodup xs keys [], ?_⟩
  intro k
  have := mem_uniqueScan_key xs keys [] k
  simpa [unique] using this

/-- head / tail take min(n, len) items from the front / the back. -/
theorem head_tail_spec (xs : List Item) (n : Nat) :
    head xs n = xs.take (min n xs.length) ∧ tail xs n = xs.drop (xs.length - min n xs.length) ∧
    (head xs n).length = min n xs.length ∧ (tail xs n).length = min n xs.length :=
  ⟨(head_spec xs n).1, (tail_spec xs n).1, (head_spec xs n).2, (tail_spec xs n).2⟩

/-- insert behaves like `list.insert` for every index (negative, beyond the end). -/
theorem insert_like_list (xs : List Item) (i : Int) (it : Item) :
    insert xs i it = xs.take (insertPos xs.length i) ++ it :: xs.drop (insertPos xs.length i) ∧
    (insert xs i it).length = xs.length + 1 ∧ insertPos xs.length i ≤ xs.length :=
  ⟨(insert_spec xs i it).1, (insert_spec xs i it).2, insertPos_le _ _⟩

/-- append, +, reverse, * are the list operations. -/
theorem list_ops (xs ys : List Item) (it : Item) (n : Nat) :
    append xs it = xs ++ [it] ∧ add xs ys = xs ++ ys ∧ extend xs ys = xs ++ ys ∧
    reverse xs = xs.reverse ∧ (mul xs n).length = n * xs.length :=
  ⟨rfl, rfl, rfl, rfl, mul_length xs n⟩

/-- modify changes exactly the named key: same item objects in the same order, every other key
    keeps its value, the named key holds the function's value. -/
theorem modify_only_named_key (xs : List Item) (key : String) (vals : List Val) (hl : vals.length = xs.length)
    (i : Nat) (hi : i < xs.length) :
    ∃ h' : i < (modify xs key vals).length,
      ((modify xs key vals)[i]).tag = xs[i].tag ∧
      ((modify xs key vals)[i]).kv.get? key = some (vals[i]'(by omega)) ∧
      ∀ k', k' ≠ key → ((modify xs key vals)[i]).kv.get? k' = xs[i].kv.get? k' :=
  modify_spec xs key vals hl i hi

/-- unselect removes exactly the named keys. -/
theorem unselect_only_named_keys (xs : List Item) (keys : List String) (i : Nat) (hi : i < xs.length) :
    ∃ h' : i < (unselect xs keys).length,
      ((unselect xs keys)[i]).tag = xs[i].tag ∧
      ∀ k', ((unselect xs keys)[i]).kv.get? k' = if k' ∈ keys then none else xs[i].kv.get? k' :=
  unselect_spec xs keys i hi

/-- fill_missing_keys never overwrites a key an item already has (even with value None), and
    afterwards every item has every named key. -/
theorem fill_missing_only_adds (xs : List Item) (kvs : List (String × Val)) :
    (∀ i (hi : i < xs.length) k', (xs[i].kv.get? k').isSome →
      ∃ h' : i < (fillMissing xs kvs).length, ((fillMissing xs kvs)[i]).kv.get? k' = xs[i].kv.get? k' ∧
        ((fillMissing xs kvs)[i]).tag = xs[i].tag) ∧
    (∀ it ∈ fillMissing xs kvs, ∀ k ∈ kvs.map (·.1), (it.kv.get? k).isSome) :=
  ⟨fun i hi k' h => fillMissing_keeps_existing xs kvs i hi k' h,
   fun it hit k hk => fillMissing_has_all xs kvs it hit k hk⟩

/-- dict assignment and deletion touch one key only. -/
theorem dict_set_del_local (d : Dict) (k k' : String) (v : Val) (h : k' ≠ k) :
    (d.set k v).get? k' = d.get? k' ∧ (d.set k v).get? k = some v ∧
    (d.del k).get? k' = d.get? k' ∧ (d.del k).get? k = none :=
  ⟨Dict.get?_set_other d k k' v h, Dict.get?_set_self d k v, Dict.get?_del_other d k k' h, Dict.get?_del_self d k⟩

example : insertPos 3 (-1) = 2 ∧ insertPos 3 5 = 3 ∧ insertPos 3 (-7) = 0 := by decide
example : (tail [⟨0, []⟩, ⟨1, []⟩, ⟨2, []⟩] 0).length = 0 := by decide

/-! ### sort: one stable lexicographic sort, None last -/

/-- the specification order, spelled out: `specLe1 desc` puts None after everything in BOTH
    directions and otherwise is the value order (ascending) or its converse (descending);
    `specLex keys` compares items lexicographically over the `(key, descending?)` pairs, reading
    `item[key]` with `keyVal`. -/
theorem sort_spec_order_def (desc : Bool) (a b : Val) (k : String) (ks : List (String × Bool)) (x y : Item) :
    specLe1 desc a .none = true ∧ specLe1 desc .none b = (b == .none) ∧
    (a ≠ .none → b ≠ .none → specLe1 desc a b = if desc then Val.le b a else Val.le a b) ∧
    specLex [] x y = true ∧
    specLex ((k, desc) :: ks) x y =
      (if specLe1 desc (keyVal k x) (keyVal k y) && specLe1 desc (keyVal k y) (keyVal k x)
       then specLex ks x y else specLe1 desc (keyVal k x) (keyVal k y)) ∧
    keyVal k x = (x.kv.get? k).getD .none :=
  ⟨specLe1_none_right desc a, specLe1_none_left desc b, specLe1_of_ne_none desc a b, rfl, rfl, rfl⟩

/-- no order hypothesis is needed: the value order of the model is a linear order, hence every
    one-key order is one and the lexicographic order is a total preorder. -/
theorem sort_order_total_preorder (desc : Bool) (keys : List (String × Bool)) :
    LinOrd Val.le ∧ LinOrd (specLe1 desc) ∧ PreOrd (specLex keys) :=
  ⟨Val.le_linOrd, specLe1_linOrd desc, specLex_pre keys⟩

/-- one pass `sorted(data, key=sort_key, reverse=dir<0)` is the stable sort by the one-key order —
    also in the descending pass: Python's `reverse=True` keeps the input order of equal elements,
    which `argsortPy` models by flipping the comparison, so ties are NOT reversed. -/
theorem sort_pass_is_stable_sort (xs : List Item) (k : String) (desc : Bool) :
    sortPass xs k desc = xs.mergeSort (fun x y => specLe1 desc (keyVal k x) (keyVal k y)) :=
  sortPass_eq_mergeSort xs k desc

/-- **sort is a stable ordering by the given keys and directions with None last**: the chain of
    stable passes (last key first) equals ONE stable sort by the lexicographic specification order,
    for every item list, every key list and every None pattern. -/
theorem sort_stable_lexicographic (xs : List Item) (keys : List (String × Bool)) :
    LoD.sort xs keys = xs.mergeSort (specLex keys) ∧
    LoD.sort xs keys = gather xs (argsort (specLex keys) xs) :=
  ⟨sort_eq_mergeSort xs keys, sort_eq_gather_argsort xs keys⟩

/-- corollaries: the result is pairwise ordered by `specLex`; two items in input order that
    `specLex` does not put the other way round stay in that order; the items `specLex` does not
    separate from a given one — exactly those with equal values under every sort key — appear in
    their original relative order. -/
theorem sort_sorted_and_stable (xs : List Item) (keys : List (String × Bool)) :
    (LoD.sort xs keys).Pairwise (fun x y => specLex keys x y) ∧
    (∀ x y, [x, y].Sublist xs → specLex keys x y = true → [x, y].Sublist (LoD.sort xs keys)) ∧
    (∀ a, (LoD.sort xs keys).filter (eqv (specLex keys) a) = xs.filter (eqv (specLex keys) a)) ∧
    (∀ x y, eqv (specLex keys) x y = true ↔ extract (keys.map (·.1)) x = extract (keys.map (·.1)) y) ∧
    (∀ a, (LoD.sort xs keys).filter (fun x => extract (keys.map (·.1)) a == extract (keys.map (·.1)) x) =
      xs.filter (fun x => extract (keys.map (·.1)) a == extract (keys.map (·.1)) x)) :=
  ⟨sort_sorted xs keys, fun x y h hle => sort_stable_pair xs keys x y h hle,
   fun a => sort_stable_class xs keys a, fun x y => eqv_specLex_iff x y keys,
   fun a => sort_stable_equal_keys xs keys a⟩

/-- None last in both directions: in the result no item whose first sort key is None comes before
    an item whose first sort key is not None, whatever the direction `d`. -/
theorem sort_none_last (xs : List Item) (k : String) (d : Bool) (ks : List (String × Bool)) (x y : Item)
    (h : [x, y].Sublist (LoD.sort xs ((k, d) :: ks))) (hx : keyVal k x = .none) : keyVal k y = .none :=
  LoD.sort_none_last xs k d ks x y h hx

/-! ### select / rename / modify_if change only the named keys -/

/-- select: length preserved; every new item carries the fresh identity, has exactly the keys of
    `keys` the old item had, in the order of `keys` (first occurrence), with the old values. -/
theorem select_only_named_keys (xs : List Item) (keys : List String) (fresh : List Nat)
    (hl : fresh.length = xs.length) :
    (select xs keys fresh).length = xs.length ∧
    ∀ i (hi : i < xs.length), ∃ h' : i < (select xs keys fresh).length,
      ((select xs keys fresh)[i]).tag = fresh[i]'(by omega) ∧
      ((select xs keys fresh)[i]).kv.keys =
        (keys.filter (fun k => decide (k ∈ xs[i].kv.keys))).eraseDups ∧
      ∀ k, ((select xs keys fresh)[i]).kv.get? k = if k ∈ keys then xs[i].kv.get? k else none :=
  ⟨select_length xs keys fresh hl, fun i hi => select_spec xs keys fresh hl i hi⟩

/-- the rename map: keys not mentioned as a `from` keep their name; for a mentioned key the LAST
    pair `(to, from)` naming it wins (`renames = {v: k for k, v in to_from_pairs.items()}`). -/
theorem rename_map_spec (toFrom pre post : List (String × String)) (to k : String) :
    (k ∉ toFrom.map (·.2) → renameOf toFrom k = k) ∧
    (k ∉ post.map (·.2) → renameOf (pre ++ (to, k) :: post) k = to) :=
  ⟨renameOf_not_mentioned toFrom k, renameOf_last pre post to k⟩

/-- rename: length preserved; every new item carries the fresh identity and is
    `dict(zip(renamed keys, values))`: keys = the renamed keys in first-occurrence order, the value
    under a new name = the value of the LAST old key mapped to it; when the renamed keys do not
    collide this is the old entry list with only the names changed (same values, same order). -/
theorem rename_only_names (xs : List Item) (toFrom : List (String × String)) (fresh : List Nat)
    (hl : fresh.length = xs.length) :
    (rename xs toFrom fresh).length = xs.length ∧
    ∀ i (hi : i < xs.length), ∃ h' : i < (rename xs toFrom fresh).length,
      ((rename xs toFrom fresh)[i]).tag = fresh[i]'(by omega) ∧
      ((rename xs toFrom fresh)[i]).kv.keys = (xs[i].kv.keys.map (renameOf toFrom)).eraseDups ∧
      (∀ k', ((rename xs toFrom fresh)[i]).kv.get? k' =
        (xs[i].kv.reverse.find? (fun e => renameOf toFrom e.1 == k')).map (·.2)) ∧
      ((xs[i].kv.keys.map (renameOf toFrom)).Nodup →
        ((rename xs toFrom fresh)[i]).kv = xs[i].kv.map (fun e => (renameOf toFrom e.1, e.2))) :=
  ⟨rename_length xs toFrom fresh hl, fun i hi => rename_spec xs toFrom fresh hl i hi⟩

/-- modify_if: items whose predicate is false are returned unchanged (same object, same dict);
    for the others only `key` changes (same object, other keys keep value and position). -/
theorem modify_if_only_selected (xs : List Item) (mask : List Bool) (key : String) (vals : List Val)
    (hm : mask.length = xs.length) (hv : vals.length = xs.length) :
    (modifyIf xs mask key vals).length = xs.length ∧
    ∀ i (hi : i < xs.length), ∃ h' : i < (modifyIf xs mask key vals).length,
      (mask[i]'(by omega) = false → (modifyIf xs mask key vals)[i] = xs[i]) ∧
      (mask[i]'(by omega) = true →
        ((modifyIf xs mask key vals)[i]).tag = xs[i].tag ∧
        ((modifyIf xs mask key vals)[i]).kv.get? key = some (vals[i]'(by omega)) ∧
        (∀ k', k' ≠ key → ((modifyIf xs mask key vals)[i]).kv.get? k' = xs[i].kv.get? k') ∧
        ((modifyIf xs mask key vals)[i]).kv.keys =
          if key ∈ xs[i].kv.keys then xs[i].kv.keys else xs[i].kv.keys ++ [key]) :=
  ⟨modifyIf_length xs mask key vals hm hv, fun i hi => modifyIf_spec xs mask key vals hm hv i hi⟩

/-- `dict(pairs)`: keys in first-occurrence order, each with the value of its last occurrence;
    the identity on pair lists without repeated keys. -/
theorem dict_of_pairs_spec (ps : List (String × Val)) (k : String) :
    (Dict.ofPairs ps).keys = (ps.map (·.1)).eraseDups ∧
    (Dict.ofPairs ps).get? k = (ps.reverse.find? (fun p => p.1 == k)).map (·.2) ∧
    ((ps.map (·.1)).Nodup → Dict.ofPairs ps = ps) :=
  ⟨Dict.ofPairs_keys ps, Dict.ofPairs_get? ps k, Dict.ofPairs_nodup ps⟩

/-! ### slicing and `*` -/

/-- `self[a:b]` (0 ≤ a, b) is the list of the items at positions `a ≤ p < min(b, len)` in order. -/
theorem slice_like_list (xs : List Item) (a b : Nat) :
    slice xs a b = ((List.range xs.length).filter (fun p => decide (a ≤ p ∧ p < b))).map (fun p => xs[p]!) ∧
    (slice xs a b).length = min b xs.length - a ∧ (slice xs a b).Sublist xs ∧
    ∀ i (h : i < (slice xs a b).length), ∃ h' : a + i < xs.length, (slice xs a b)[i] = xs[a + i] :=
  ⟨slice_eq_positions xs a b, slice_length xs a b, slice_sublist xs a b,
   fun i h => ⟨by rw [slice_length] at h; omega, slice_get xs a b i h⟩⟩

/-- `self * n` is n copies in order: position `i` holds item `i mod len`. -/
theorem mul_like_list (xs : List Item) (n : Nat) :
    mul xs 0 = [] ∧ mul xs (n + 1) = xs ++ mul xs n ∧ (mul xs n).length = n * xs.length ∧
    ∀ i (h : i < (mul xs n).length), ∃ h' : i % xs.length < xs.length, (mul xs n)[i] = xs[i % xs.length] :=
  ⟨mul_zero xs, mul_succ xs n, mul_length xs n, fun i h => ⟨mul_mod_lt xs n i h, mul_get xs n i h⟩⟩

/-! ### non-vacuity: concrete instances -/

-- None last in both directions; descending really reverses the value order
example : specLe1 false (.i 1) .none = true ∧ specLe1 false .none (.i 1) = false ∧
    specLe1 true (.i 1) .none = true ∧ specLe1 true .none (.i 1) = false ∧
    specLe1 true (.i 2) (.i 1) = true ∧ specLe1 true (.i 1) (.i 2) = false := by decide

-- descending `a`, then ascending `b`; None last; the tie (tags 2, 3 on `a`) is broken by `b`
example : (LoD.sort [⟨0, [("a", .i 2), ("b", .i 1)]⟩, ⟨1, [("a", .none), ("b", .i 1)]⟩,
      ⟨2, [("a", .i 3), ("b", .i 1)]⟩, ⟨3, [("a", .i 3), ("b", .i 0)]⟩]
    [("a", true), ("b", false)]).map (·.tag) = [3, 2, 0, 1] := by
  simp +decide [LoD.sort, sortPass, argsortPy, argsort, sortPairs, gather, List.mergeSort, passLe, Val.le,
    Dict.get?, List.MergeSort.Internal.splitInTwo, List.zipIdx]

-- a descending pass keeps the input order of equal elements (tags 0 and 2 tie on `a`)
example : (LoD.sort [⟨0, [("a", .i 3)]⟩, ⟨1, [("a", .i 5)]⟩, ⟨2, [("a", .i 3)]⟩] [("a", true)]).map (·.tag)
    = [1, 0, 2] := by
  simp +decide [LoD.sort, sortPass, argsortPy, argsort, sortPairs, gather, List.mergeSort, passLe, Val.le,
    Dict.get?, List.MergeSort.Internal.splitInTwo, List.zipIdx]

-- select: order of `keys`, repeated key once, absent key skipped, fresh identity
example : select [⟨7, [("a", .i 1), ("b", .i 2), ("c", .i 3)]⟩] ["c", "z", "a", "c"] [9]
    = [⟨9, [("c", .i 3), ("a", .i 1)]⟩] := by decide

-- rename without collision (a → x) and with a collision (a → b while b stays): first position,
-- last value — what `dict(zip(keys, values))` does
example : rename [⟨7, [("a", .i 1), ("b", .i 2)]⟩] [("x", "a")] [9] = [⟨9, [("x", .i 1), ("b", .i 2)]⟩] ∧
    rename [⟨7, [("a", .i 1), ("b", .i 2)]⟩] [("b", "a")] [9] = [⟨9, [("b", .i 2)]⟩] ∧
    renameOf [("x", "a"), ("y", "a")] "a" = "y" := by decide

example : modifyIf [⟨0, [("a", .i 1)]⟩, ⟨1, [("a", .i 2)]⟩] [false, true] "a" [.i 8, .i 9]
    = [⟨0, [("a", .i 1)]⟩, ⟨1, [("a", .i 9)]⟩] := by decide

example : slice [⟨0, []⟩, ⟨1, []⟩, ⟨2, []⟩, ⟨3, []⟩] 1 9 = [⟨1, []⟩, ⟨2, []⟩, ⟨3, []⟩] ∧
    slice [⟨0, []⟩, ⟨1, []⟩] 2 1 = [] ∧ mul [⟨0, []⟩, ⟨1, []⟩] 2 = [⟨0, []⟩, ⟨1, []⟩, ⟨0, []⟩, ⟨1, []⟩] := by decide

end DI.C15

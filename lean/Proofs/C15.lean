/-
  Proofs/C15.lean — property C15: ListOfDicts transformations match plain list-of-dict
  semantics.  Statements only; proofs cite Lemmas/LoD.lean.
-/
import Model.LoD
import Lemmas.LoD
import Lemmas.LoDEdit

namespace DI.C15

open DI DI.LoD

/-- filter and filter_out partition the items by the predicate, preserving order. -/
theorem filter_partition (xs : List Item) (mask : List Bool) (h : mask.length = xs.length) :
    (filterMask xs mask ++ filterOutMask xs mask).Perm xs ∧
    (filterMask xs mask).Sublist xs ∧ (filterOutMask xs mask).Sublist xs :=
  ⟨LoD.filter_partition xs mask h, filterMask_sublist xs mask, filterOutMask_sublist xs mask⟩

/-- the key=value condition is the predicate `all named keys equal the given values`. -/
theorem kv_is_predicate (xs : List Item) (kvs : List (String × Val)) :
    filterKv xs kvs = filterMask xs (xs.map (fun it => extract (kvs.map (·.1)) it == kvs.map (·.2))) ∧
    filterOutKv xs kvs = filterOutMask xs (xs.map (fun it => extract (kvs.map (·.1)) it == kvs.map (·.2))) :=
  ⟨filterKv_eq_mask xs kvs, filterOutKv_eq_mask xs kvs⟩

/-- sort returns the same items (every pass is a permutation). -/
theorem sort_is_permutation (xs : List Item) (keys : List (String × Bool)) : (LoD.sort xs keys).Perm xs :=
  sort_perm xs keys

/-- unique keeps items in order, one per key combination, and every key combination present. -/
theorem unique_first_per_key (xs : List Item) (keys : List String) :
    (unique xs keys).Sublist xs ∧ ((unique xs keys).map (extract keys)).Nodup ∧
    ∀ k, k ∈ (unique xs keys).map (extract keys) ↔ k ∈ xs.map (extract keys) := by
  refine ⟨uniqueScan_sublist xs keys [], uniqueScan_nodup xs keys [], ?_⟩
  intro k
  have := mem_uniqueScan_key xs keys [] k
  simpa [unique] using this

/-- head / tail take min(n, len) items from the front / the back. -/
theorem head_tail_spec (xs : List Item) (n : Nat) :
    head xs n = xs.take (min n xs.length) ∧ tail xs n = xs.drop (xs.length - min n xs.length) ∧
    (head xs n).length = min n xs.length ∧ (tail xs n).length = min n xs.length :=
  ⟨(head_spec xs n).1, (tail_spec xs n).1, (head_spec xs n).2, (tail_spec xs n).2⟩

/-- insert behaves like `list.insert` for every index (negative, beyond the end). -/
theorem insert_like_list (xs : List Item) (i : Int) (it : Item) :
    insert xs i it = xs.take (insertPos xs.length i) ++ it :: xs.drop (insertPos xs.length i) ∧
    (insert xs i it).length = xs.length + 1 ∧ insertPos xs.length i ≤ xs.length :=
  ⟨(insert_spec xs i it).1, (insert_spec xs i it).2, insertPos_le _ _⟩

/-- append, +, reverse, * are the list operations. -/
theorem list_ops (xs ys : List Item) (it : Item) (n : Nat) :
    append xs it = xs ++ [it] ∧ add xs ys = xs ++ ys ∧ extend xs ys = xs ++ ys ∧
    reverse xs = xs.reverse ∧ (mul xs n).length = n * xs.length :=
  ⟨rfl, rfl, rfl, rfl, mul_length xs n⟩

/-- modify changes exactly the named key: same item objects in the same order, every other key
    keeps its value, the named key holds the function's value. -/
theorem modify_only_named_key (xs : List Item) (key : String) (vals : List Val) (hl : vals.length = xs.length)
    (i : Nat) (hi : i < xs.length) :
    ∃ h' : i < (modify xs key vals).length,
      ((modify xs key vals)[i]).tag = xs[i].tag ∧
      ((modify xs key vals)[i]).kv.get? key = some (vals[i]'(by omega)) ∧
      ∀ k', k' ≠ key → ((modify xs key vals)[i]).kv.get? k' = xs[i].kv.get? k' :=
  modify_spec xs key vals hl i hi

/-- unselect removes exactly the named keys. -/
theorem unselect_only_named_keys (xs : List Item) (keys : List String) (i : Nat) (hi : i < xs.length) :
    ∃ h' : i < (unselect xs keys).length,
      ((unselect xs keys)[i]).tag = xs[i].tag ∧
      ∀ k', ((unselect xs keys)[i]).kv.get? k' = if k' ∈ keys then none else xs[i].kv.get? k' :=
  unselect_spec xs keys i hi

/-- fill_missing_keys never overwrites a key an item already has (even with value None), and
    afterwards every item has every named key. -/
theorem fill_missing_only_adds (xs : List Item) (kvs : List (String × Val)) :
    (∀ i (hi : i < xs.length) k', (xs[i].kv.get? k').isSome →
      ∃ h' : i < (fillMissing xs kvs).length, ((fillMissing xs kvs)[i]).kv.get? k' = xs[i].kv.get? k' ∧
        ((fillMissing xs kvs)[i]).tag = xs[i].tag) ∧
    (∀ it ∈ fillMissing xs kvs, ∀ k ∈ kvs.map (·.1), (it.kv.get? k).isSome) :=
  ⟨fun i hi k' h => fillMissing_keeps_existing xs kvs i hi k' h,
   fun it hit k hk => fillMissing_has_all xs kvs it hit k hk⟩

/-- dict assignment and deletion touch one key only. -/
theorem dict_set_del_local (d : Dict) (k k' : String) (v : Val) (h : k' ≠ k) :
    (d.set k v).get? k' = d.get? k' ∧ (d.set k v).get? k = some v ∧
    (d.del k).get? k' = d.get? k' ∧ (d.del k).get? k = none :=
  ⟨Dict.get?_set_other d k k' v h, Dict.get?_set_self d k v, Dict.get?_del_other d k k' h, Dict.get?_del_self d k⟩

example : insertPos 3 (-1) = 2 ∧ insertPos 3 5 = 3 ∧ insertPos 3 (-7) = 0 := by decide
example : (tail [⟨0, []⟩, ⟨1, []⟩, ⟨2, []⟩] 0).length = 0 := by decide

end DI.C15

/-
  Proofs/C15.lean — property C15: ListOfDicts transformations match plain list-of-dict
  semantics.  Statements only; proofs cite Lemmas/LoD.lean.
-/
import Model.LoD
import Lemmas.LoD

namespace DI.C15

open DI DI.LoD

/-- filter and filter_out partition the items by the predicate, preserving order. -/
theorem filter_partition (xs : List Item) (mask : List Bool) (h : mask.length = xs.length) :
    (filterMask xs mask ++ filterOutMask xs mask).Perm xs ∧
    (filterMask xs mask).Sublist xs ∧ (filterOutMask xs mask).Sublist xs :=
  ⟨LoD.filter_partition xs mask h, filterMask_sublist xs mask, filterOutMask_sublist xs mask⟩

/-- the key=value condition is the predicate `all named keys equal the given values`. -/
theorem kv_is_predicate (xs : List Item) (kvs : List (String × Val)) :
    filterKv xs kvs = filterMask xs (xs.map (fun it => extract (kvs.map (·.1)) it == kvs.map (·.2))) ∧
    filterOutKv xs kvs = filterOutMask xs (xs.map (fun it => extract (kvs.map (·.1)) it == kvs.map (·.2))) :=
  ⟨filterKv_eq_mask xs kvs, filterOutKv_eq_mask xs kvs⟩

/-- sort returns the same items (every pass is a permutation). -/
theorem sort_is_permutation (xs : List Item) (keys : List (String × Bool)) : (LoD.sort xs keys).Perm xs :=
  sort_perm xs keys

/-- unique keeps items in order, one per key combination, and every key combination present. -/
theorem unique_first_per_key (xs : List Item) (keys : List String) :
    (unique xs keys).Sublist xs ∧ ((unique xs keys).map (extract keys)).Nodup ∧
    ∀ k, k ∈ (unique xs keys).map (extract keys) ↔ k ∈ xs.map (extract keys) := by
  refine ⟨uniqueScan_sublist xs keys [], uniqueScan_nodup xs keys [], ?_⟩
  intro k
  have := mem_uniqueScan_key xs keys [] k
  simpa [unique] using this

/-- head / tail take min(n, len) items from the front / the back. -/
theorem head_tail_spec (xs : List Item) (n : Nat) :
    head xs n = xs.take (min n xs.length) ∧ tail xs n = xs.drop (xs.length - min n xs.length) ∧
    (head xs n).length = min n xs.length ∧ (tail xs n).length = min n xs.length :=
  ⟨(head_spec xs n).1, (tail_spec xs n).1, (head_spec xs n).2, (tail_spec xs n).2⟩

/-- insert behaves like `list.insert` for every index (negative, beyond the end). -/
theorem insert_like_list (xs : List Item) (i : Int) (it : Item) :
    insert xs i it = xs.take (insertPos xs.length i) ++ it :: xs.drop (insertPos xs.length i) ∧
    (insert xs i it).length = xs.length + 1 ∧ insertPos xs.length i ≤ xs.length :=
  ⟨(insert_spec xs i it).1, (insert_spec xs i it).2, insertPos_le _ _⟩

/-- append, +, reverse, * are the list operations. -/
theorem list_ops (xs ys : List Item) (it : Item) (n : Nat) :
    append xs it = xs ++ [it] ∧ add xs ys = xs ++ ys ∧ extend xs ys = xs ++ ys ∧
    reverse xs = xs.reverse ∧ (mul xs n).length = n * xs.length :=
  ⟨rfl, rfl, rfl, rfl, mul_length xs n⟩

example : insertPos 3 (-1) = 2 ∧ insertPos 3 5 = 3 ∧ insertPos 3 (-7) = 0 := by decide
example : (tail [⟨0, []⟩, ⟨1, []⟩, ⟨2, []⟩] 0).length = 0 := by decide

end DI.C15

/-
  Proofs/TieC09b.lean — code theorems over the part of `Generated/CodeC09.lean` that `Proofs/TieC09.lean` does not cover:
  `DataFrame.rbind`, its local helper `get_part` (a frame that lacks a column contributes as many MISSING values as it has
  rows, in a dtype that can hold them) and `DataFrame.map`.

  `rbind_part_refines` / `rbind_refines`: with the one test of `get_part` (`colname in data`) answered from the frame's
  column names, every part is the model's part — the frame's own cells in row order, or `nrow` missing values — and the
  generator body, run frame by frame and name by name, yields exactly `Bind.rbind frames` (`Model/Bind.lean`).
-/
import Generated.CodeC09
import Model.Bind
import Proofs.TieC09

namespace DI.Tie.C09

open DI.Py DI.Gen DI.Bind

/-! ### `rbind.get_part` -/

/-- `Vector.fast([value], dtype).repeat(data.nrow)`: the missing value, once per row of the frame that LACKS the column. -/
def naFill : Term :=
  Term.app ".repeat" [Term.app "Vector.fast" [Term.app "list" [Term.sym "value"], Term.sym "dtype"], Term.app ".nrow" [Term.sym "data"]]

/-- the search for a reference column: the FIRST frame, in argument order, that has the column decides the missing value
    (`na_value`) and the dtype that can hold it (`na_dtype`; `Tie.C10.na_dtype_holds_na_value`). -/
def findReference (frames : Term) : Term :=
  Term.app "for" [Term.sym "ref", frames,
    Term.app "block"
      [Term.app "if" [Term.app "NotIn" [Term.sym "colname", Term.sym "ref"], Term.app "block" [Term.sym "continue"], Term.app "block" []],
       Term.app "assign" [Term.sym "value", Term.app ".na_value" [Term.app "getitem" [Term.sym "ref", Term.sym "colname"]]],
       Term.app "assign" [Term.sym "dtype", Term.app ".na_dtype" [Term.app "getitem" [Term.sym "ref", Term.sym "colname"]]],
       Term.app "return" [naFill]]]

/-- **`get_part(data, colname)` as written**: a frame that has the column contributes the column itself — whole, its own
    rows in order; a frame that lacks it contributes `data.nrow` missing values of the first frame that has it.  (The
    fall-through after the loop, returning None, needs a name no frame has: not a name `rbind` asks for.) -/
theorem rbind_get_part_code (truth : Term → Bool) :
    DataFrame_rbind_get_part truth =
      if truth (Term.app "In" [Term.sym "colname", Term.sym "data"])
      then Out.ret [] (Term.app "getitem" [Term.sym "data", Term.sym "colname"])
      else Out.fall [findReference (Term.sym "data_frames")] := by
  unfold DataFrame_rbind_get_part; rfl

/-- the cells a part consists of, for frame number `i` (row count `f.nrow`) and column `c`. -/
def partDenotes (i : Nat) (c : String) (f : Frame) : Out → Option (List Src)
  | .ret [] (.app "getitem" [.sym "data", .sym "colname"]) => some (colCells i c f.nrow)
  | .fall [.app "for" [.sym "ref", _, .app "block"
      [.app "if" [.app "NotIn" [.sym "colname", .sym "ref"], .app "block" [.sym "continue"], .app "block" []],
       .app "assign" [.sym "value", .app ".na_value" [.app "getitem" [.sym "ref", .sym "colname"]]],
       .app "assign" [.sym "dtype", .app ".na_dtype" [.app "getitem" [.sym "ref", .sym "colname"]]],
       .app "return" [.app ".repeat" [.app "Vector.fast" [.app "list" [.sym "value"], .sym "dtype"], .app ".nrow" [.sym "data"]]]]]] =>
    some (List.replicate f.nrow Src.na)
  | _ => none

/-- the test of `get_part` answered from the frame: `colname in data`. -/
def frameTruth (f : Frame) (c : String) : Term → Bool
  | .app "In" [.sym "colname", .sym "data"] => f.names.contains c
  | _ => false

/-- **a part refines the model's part**: the frame's own cells `(i, c, 0 … nrow-1)` when it has the column, `nrow` missing
    values when it has not — as many rows as the frame has either way (`C09.rbind_row_count`, `rbind_rows_by_position`). -/
theorem rbind_part_refines (i : Nat) (c : String) (f : Frame) :
    partDenotes i c f (DataFrame_rbind_get_part (frameTruth f c)) =
      some (if f.names.contains c then colCells i c f.nrow else List.replicate f.nrow Src.na) := by
  rw [rbind_get_part_code]
  show partDenotes i c f (if f.names.contains c = true then _ else _) = _
  cases f.names.contains c <;> rfl

/-! ### `rbind` -/

/-- `data_frames = [self] + list(others)`: the receiver first, then the arguments in order. -/
def rbFrames : Term := Term.app "Add" [Term.app "list" [Term.sym "self"], Term.app "list()" [Term.sym "others"]]

/-- the body of the local `get_part`, over the frames expression it closes over. -/
def getPartDef (frames : Term) : Term :=
  Term.app "local-def" [Term.app "def" [Term.sym "get_part", Term.app "params" [Term.sym "data", Term.sym "colname"],
    Term.app "block"
      [Term.app "if" [Term.app "In" [Term.sym "colname", Term.sym "data"],
         Term.app "block" [Term.app "return" [Term.app "getitem" [Term.sym "data", Term.sym "colname"]]], Term.app "block" []],
       findReference frames]]]

/-- **`rbind` as written**: the column names are the union of all frames' names in first-seen order
    (`util.unique_keys(itertools.chain(*data_frames))`: the model's `uniqueKeys (frames.flatMap names)`); for every name, the
    parts of ALL frames in argument order (`get_part`: own column or missing values) are concatenated into one new
    `DataFrameColumn` — NumPy picks the common dtype — and yielded under that name.  The local `get_part` searches the
    same `data_frames` the loop runs over. -/
theorem rbind_code (truth : Term → Bool) :
    DataFrame_rbind truth = Out.fall
      [Term.app "for" [Term.sym "colname", Term.app "util.unique_keys" [Term.app "itertools.chain" [Term.app "*" [rbFrames]]],
        Term.app "block"
          [Term.app "assign" [Term.sym "parts", Term.app "ListComp" [Term.app "call" [getPartDef rbFrames, Term.sym "x", Term.sym "colname"],
             Term.app "in" [Term.sym "x", rbFrames, Term.app "if" []]]],
           Term.app "assign" [Term.sym "total", Term.app "DataFrameColumn" [Term.app "np.concatenate" [Term.sym "parts"]]],
           Term.app "yield" [Term.app "tuple" [Term.sym "colname", Term.sym "total"]]]]] := rfl

/-- the separately translated `get_part` is the local definition inside `rbind`: the same own-column test and return, the
    same reference search (there over the name `data_frames`, here over its defining expression). -/
theorem get_part_is_the_local_def (truth : Term → Bool) :
    (truth (Term.app "In" [Term.sym "colname", Term.sym "data"]) = false →
      DataFrame_rbind_get_part truth = Out.fall [findReference (Term.sym "data_frames")]) ∧
    getPartDef rbFrames = Term.app "local-def" [Term.app "def" [Term.sym "get_part", Term.app "params" [Term.sym "data", Term.sym "colname"],
      Term.app "block"
        [Term.app "if" [Term.app "In" [Term.sym "colname", Term.sym "data"],
           Term.app "block" [Term.app "return" [Term.app "getitem" [Term.sym "data", Term.sym "colname"]]], Term.app "block" []],
         findReference rbFrames]]] ∧
    DataFrame_rbind_get_part_signature = ["data", "colname"] := by
  refine ⟨?_, rfl, rfl⟩
  intro h; rw [rbind_get_part_code, h]; rfl

def allSome {α : Type} : List (Option α) → Option (List α)
  | [] => some []
  | none :: _ => none
  | some a :: r => (allSome r).map (a :: ·)

theorem allSome_map_some {α β : Type} (g : α → β) (l : List α) : allSome (l.map (fun x => some (g x))) = some (l.map g) := by
  induction l with
  | nil => rfl
  | cons a l ih => simp [allSome, ih]

/-- the generator body run on frames given by row count and names: the shape of the translated body is checked; every
    call `get_part(x, colname)` is the translated `get_part` run on that frame and name. -/
def evalRbind (frames : List Frame) : Out → Option (List OutCol)
  | .fall [.app "for" [.sym "colname", .app "util.unique_keys" [.app "itertools.chain" [.app "*" [.app "Add" [.app "list" [.sym "self"], .app "list()" [.sym "others"]]]]],
      .app "block"
        [.app "assign" [.sym "parts", .app "ListComp" [.app "call" [_, .sym "x", .sym "colname"],
           .app "in" [.sym "x", .app "Add" [.app "list" [.sym "self"], .app "list()" [.sym "others"]], .app "if" []]]],
         .app "assign" [.sym "total", .app "DataFrameColumn" [.app "np.concatenate" [.sym "parts"]]],
         .app "yield" [.app "tuple" [.sym "colname", .sym "total"]]]]] =>
    allSome ((uniqueKeys (frames.flatMap (·.names))).map fun c =>
      (allSome (frames.zipIdx.map fun (f, i) => partDenotes i c f (DataFrame_rbind_get_part (frameTruth f c)))).map
        fun ps => (c, ps.flatten))
  | _ => none

/-- **`rbind` refines `Bind.rbind`**: for every list of frames, the names yielded, their order, and for every name the
    provenance of every cell are the model's — the function the C09 theorems `rbind_columns`, `rbind_row_count`,
    `rbind_rows_by_position` are proved about. -/
theorem rbind_refines (truth : Term → Bool) (frames : List Frame) :
    evalRbind frames (DataFrame_rbind truth) = some (Bind.rbind frames) := by
  show allSome ((uniqueKeys (frames.flatMap (·.names))).map fun c =>
      (allSome (frames.zipIdx.map fun (f, i) => partDenotes i c f (DataFrame_rbind_get_part (frameTruth f c)))).map
        fun ps => (c, ps.flatten)) = _
  have hpart : ∀ c : String, allSome (frames.zipIdx.map fun (f, i) => partDenotes i c f (DataFrame_rbind_get_part (frameTruth f c))) =
      some (frames.zipIdx.map fun (f, i) => if f.names.contains c then colCells i c f.nrow else List.replicate f.nrow Src.na) := by
    intro c
    have : (frames.zipIdx.map fun (f, i) => partDenotes i c f (DataFrame_rbind_get_part (frameTruth f c))) =
        frames.zipIdx.map (fun p => some ((fun (p : Frame × Nat) =>
          if p.1.names.contains c then colCells p.2 c p.1.nrow else List.replicate p.1.nrow Src.na) p)) := by
      apply List.map_congr_left
      intro p _
      exact rbind_part_refines p.2 c p.1
    rw [this, allSome_map_some]
  simp only [hpart, Option.map_some]
  rw [allSome_map_some]
  rfl

theorem rbind_signature_and_order :
    DataFrame_rbind_signature = ["self", "*others"] ∧ DataFrame_rbind_decorators = ["deco.new_from_generator"] ∧
    DataFrame_rbind_call_order = ["list", "itertools.chain", "util.unique_keys", "get_part", "np.concatenate", "DataFrameColumn"] :=
  ⟨rfl, rfl, rfl⟩

example : Bind.rbind [⟨2, ["a", "b"]⟩, ⟨1, ["b", "c"]⟩] =
    [("a", [.cell 0 "a" 0, .cell 0 "a" 1, .na]), ("b", [.cell 0 "b" 0, .cell 0 "b" 1, .cell 1 "b" 0]),
     ("c", [.na, .na, .cell 1 "c" 0])] := by decide

/-! ### `map` -/

/-- `map(function)` as written: `function(self, i)` — the WHOLE frame and the row position — for `i = 0, …, nrow - 1` in
    order, the results in a plain list (one per row; not a frame, not a Vector). -/
theorem map_code (truth : Term → Bool) :
    DataFrame_map truth = Out.ret [] (Term.app "ListComp" [Term.app "function" [Term.sym "self", Term.sym "i"],
      Term.app "in" [Term.sym "i", Term.app "range" [Term.app ".nrow" [Term.sym "self"]], Term.app "if" []]]) ∧
    DataFrame_map_signature = ["self", "function"] ∧ DataFrame_map_decorators = [] := ⟨rfl, rfl, rfl⟩

/-- the list `map` returns when the frame has `nrow` rows and `function(self, i)` evaluates to `f i`. -/
def mapDenotes {α : Type} (nrow : Nat) (f : Nat → α) : Out → Option (List α)
  | .ret [] (.app "ListComp" [.app "function" [.sym "self", .sym "i"], .app "in" [.sym "i", .app "range" [.app ".nrow" [.sym "self"]], .app "if" []]]) =>
    some ((List.range nrow).map f)
  | _ => none

/-- one result per row, in row order: entry `i` is `function(self, i)`. -/
theorem map_one_result_per_row {α : Type} (truth : Term → Bool) (nrow : Nat) (f : Nat → α) :
    ∃ l, mapDenotes nrow f (DataFrame_map truth) = some l ∧ l.length = nrow ∧ ∀ i (h : i < l.length), l[i] = f i :=
  ⟨(List.range nrow).map f, rfl, by simp, by intro i h; simp⟩

end DI.Tie.C09

/-
  Proofs/TieC20b.lean — obligations over the printing entry points and helpers regenerated into `Generated/CodeC20.lean`
  after `TieC20` was written: `__repr__` / `__str__` / `print_` / `print_memory_use` / `print_na_counts` of DataFrame and
  ListOfDicts, `__repr__` / `__str__` / `dtype_label` of Vector, the inner `add_string_element` of `Vector.to_string`,
  `util.count_digits`, `util.quote`, `util.get_print_width`, `GeoJSON.to_string`.
  (C20: text rendering is total, side-effect free and structurally faithful.  Model: `Model/Render.lean`.)
-/
import Generated.CodeC20
import Model.Render
import Proofs.TieC20
import Proofs.TieC14b

namespace DI.Tie.C20

open DI DI.Py DI.Gen
open DI.Tie.C14 (kwOnly takesVarkw pass paramName)

/-! ### `__repr__`, `__str__`, `print_` -/

/-- `self.to_string()` with NO argument at all: every option is left at its `None` default, so `to_string` itself resolves
    it to the `dataiter.PRINT_*` setting in force WHEN THE OBJECT IS SHOWN (`TieC20.renderer_signatures`). -/
def bareToString : Term := Term.app ".to_string" [Term.sym "self"]

/-- **`__repr__` = `__str__` = `to_string()`** for DataFrame, ListOfDicts and Vector alike: what the REPL echoes, what `print`
    and `str` give and what `to_string()` returns are one text; no argument is passed (a width or row limit given here
    would override the run-time settings), no effect happens. -/
theorem repr_str_code (truth : Term → Bool) :
    DataFrame_repr truth = Out.ret [] bareToString ∧ DataFrame_str truth = Out.ret [] bareToString ∧
    ListOfDicts_repr truth = Out.ret [] bareToString ∧ ListOfDicts_str truth = Out.ret [] bareToString ∧
    Vector_repr truth = Out.ret [] bareToString ∧ Vector_str2 truth = Out.ret [] bareToString :=
  ⟨rfl, rfl, rfl, rfl, rfl, rfl⟩

theorem repr_str_signatures :
    DataFrame_repr_signature = ["self"] ∧ DataFrame_str_signature = ["self"] ∧ ListOfDicts_repr_signature = ["self"] ∧
    ListOfDicts_str_signature = ["self"] ∧ Vector_repr_signature = ["self"] ∧ Vector_str2_signature = ["self"] ∧
    DataFrame_repr_decorators = [] ∧ DataFrame_str_decorators = [] ∧ ListOfDicts_repr_decorators = [] ∧
    ListOfDicts_str_decorators = [] ∧ Vector_repr_decorators = [] ∧ Vector_str2_decorators = [] :=
  ⟨rfl, rfl, rfl, rfl, rfl, rfl, rfl, rfl, rfl, rfl, rfl, rfl⟩

/-- `print(self.to_string(k1=k1, …))` for the keyword-only parameters of the signature `sig` of `to_string`. -/
def printThrough (sig : List String) : Term :=
  Term.app "print" [Term.app ".to_string" (Term.sym "self" :: (kwOnly sig).map pass)]

/-- **print_ as written**: ONE effect, `print(self.to_string(…))`, handing on EVERY keyword-only option of the CURRENT
    signature of the class's own `to_string` under its own name (computed from `DataFrame_to_string_signature` /
    `ListOfDicts_to_string_signature`: an option added to `to_string` and not to `print_`, or forwarded crosswise, breaks the
    equation), and returning None. -/
theorem print_code (truth : Term → Bool) :
    DataFrame_print truth = Out.fall [printThrough DataFrame_to_string_signature] ∧
    ListOfDicts_print truth = Out.fall [printThrough ListOfDicts_to_string_signature] := by
  constructor <;> rfl

/-- spelled out. -/
theorem print_spelled_out (truth : Term → Bool) :
    DataFrame_print truth = Out.fall [Term.app "print" [Term.app ".to_string"
      [Term.sym "self", pass "max_rows", pass "max_width", pass "truncate_width"]]] ∧
    ListOfDicts_print truth = Out.fall [Term.app "print" [Term.app ".to_string" [Term.sym "self", pass "max_items"]]] := by
  constructor <;> rfl

/-- the source text of the default of a parameter entry (`""` when it has none). -/
def defaultOf (s : String) : String := String.ofList ((s.toList.dropWhile (· != '=')).drop 1)

/-- **every printing option defaults to `None`** — in `print_` exactly as in `to_string` (the two signatures are EQUAL), for
    the data frame, the list, the GeoJSON frame and the vector.  A default written `max_rows=dataiter.PRINT_MAX_ROWS` would
    be evaluated once, when the module is imported, and a later `dataiter.PRINT_MAX_ROWS = 5` would be ignored; `None` is
    resolved inside `to_string`, at the time of the call. -/
theorem print_defaults_are_none :
    DataFrame_print_signature = DataFrame_to_string_signature ∧
    ListOfDicts_print_signature = ListOfDicts_to_string_signature ∧
    GeoJSON_to_string_signature = DataFrame_to_string_signature ∧
    (DataFrame_print_signature.drop 2).map defaultOf = ["None", "None", "None"] ∧
    (ListOfDicts_print_signature.drop 2).map defaultOf = ["None"] ∧
    (Vector_to_string_signature.drop 2).map defaultOf = ["None"] ∧
    DataFrame_print_signature.take 2 = ["self", "*"] ∧ ListOfDicts_print_signature.take 2 = ["self", "*"] := by
  refine ⟨rfl, rfl, rfl, ?_, ?_, ?_, rfl, rfl⟩ <;> decide

theorem print_call_order :
    DataFrame_print_call_order = ["self.to_string", "print"] ∧ ListOfDicts_print_call_order = ["self.to_string", "print"] ∧
    DataFrame_print_decorators = [] ∧ ListOfDicts_print_decorators = [] := ⟨rfl, rfl, rfl, rfl⟩

/-! ### `print_memory_use` -/

/-- `[f"{<x'>:<spec>}<unit>" for x in src]`. -/
def fmtEach (x' : Term) (spec unit : String) (src : Term) : Term :=
  Term.app "ListComp" [Term.app "fstring" [Term.app "format" [x', Term.sym spec, Term.int (-1)], Term.sym unit],
    Term.app "in" [Term.sym "x", src, Term.app "if" []]]

/-- `[x.upper() for x in t.colnames]`. -/
def upperNames (t : Term) : Term :=
  Term.app "ListComp" [Term.app ".upper" [Term.sym "x"], Term.app "in" [Term.sym "x", Term.app ".colnames" [t], Term.app "if" []]]

/-- what follows the per-column / per-key loop `loop` in both `print_memory_use`: the TOTAL row is built from the sums of
    the NUMERIC columns of the table as the loop left it (`rows`: before the TOTAL row is bound on — it is not counted
    twice — and before anything is turned into text), bound on LAST; only then are the sizes formatted (`… B`, `… MB` with
    thousands separators, bytes / 1024²), the column names upper-cased, and the table printed — once. -/
def memTail (keyCol typeAttr : String) (loop : Term) : List Term :=
  let rows := Term.app "value-after-loop" [Term.sym "mem", loop]
  let total := Term.app "DataFrame" [Term.app ("=" ++ keyCol) [Term.sym "'TOTAL'"]]
  let table := Term.app ".rbind" [rows, total]
  [Term.app "setattr" [total, Term.sym typeAttr, Term.sym "'--'"],
   Term.app "setattr" [total, Term.sym "item_size", Term.app ".sum" [Term.app ".item_size" [rows]]],
   Term.app "setattr" [total, Term.sym "total_size", Term.app ".sum" [Term.app ".total_size" [rows]]],
   Term.app "setattr" [table, Term.sym "item_size", fmtEach (Term.sym "x") "f'.0f'" "' B'" (Term.app ".item_size" [table])],
   Term.app "setattr" [table, Term.sym "total_size",
     fmtEach (Term.app "Div" [Term.sym "x", Term.app "Pow" [Term.int 1024, Term.int 2]]) "f',.0f'" "' MB'" (Term.app ".total_size" [table])],
   Term.app "setattr" [table, Term.sym "colnames", upperNames table],
   Term.app "print" [table]]

/-- the data frame's loop: one row per column, in column order, from `DataFrame()` (no rows): the column's name, `str(dtype)`,
    `itemsize` and `get_memory_use()` (the object-aware measure of C06), bound on below the rows so far. -/
def dfMemLoop : Term :=
  Term.app "for" [Term.app "tuple" [Term.sym "name", Term.sym "column"], Term.app ".items" [Term.sym "self"], Term.app "block"
    [Term.app "assign" [Term.sym "new", Term.app "DataFrame" [Term.app "=column" [Term.sym "name"]]],
     Term.app "store" [Term.app ".dtype" [Term.sym "new"], Term.app "str" [Term.app ".dtype" [Term.sym "column"]]],
     Term.app "store" [Term.app ".item_size" [Term.sym "new"], Term.app ".itemsize" [Term.sym "column"]],
     Term.app "store" [Term.app ".total_size" [Term.sym "new"], Term.app ".get_memory_use" [Term.sym "column"]],
     Term.app "assign" [Term.sym "mem", Term.app ".rbind" [Term.sym "mem", Term.sym "new"]]],
    Term.app "init" [Term.sym "mem", Term.app "DataFrame" []]]

/-- the list's loop: one row per key of `self.keys()` (all keys, first-seen order), over `values = self.pluck(key)` (None for
    an item without the key): the type shown is the class of the first TRUTHY value (`filter(None, values)`: a key whose
    values are all 0 / "" / False shows `NoneType`), the total `sum(sys.getsizeof(x))` over all values, the item size the
    rounded mean. -/
def lodMemLoop : Term :=
  Term.app "for" [Term.sym "key", Term.app ".keys" [Term.sym "self"], Term.app "block"
    [Term.app "assign" [Term.sym "new", Term.app "DataFrame" [Term.app "=key" [Term.sym "key"]]],
     Term.app "assign" [Term.sym "values", Term.app ".pluck" [Term.sym "self", Term.sym "key"]],
     Term.app "assign" [Term.sym "values_real", Term.app "list()" [Term.app "filter" [Term.sym "None", Term.sym "values"]]],
     Term.app "assign" [Term.sym "first", Term.app "ifexp" [Term.sym "values_real", Term.app "getitem" [Term.sym "values_real", Term.int 0], Term.sym "None"]],
     Term.app "assign" [Term.sym "total", Term.app "sum" [Term.app "GeneratorExp" [Term.app "sys.getsizeof" [Term.sym "x"],
       Term.app "in" [Term.sym "x", Term.sym "values", Term.app "if" []]]]],
     Term.app "store" [Term.app ".type" [Term.sym "new"], Term.app ".__name__" [Term.app ".__class__" [Term.sym "first"]]],
     Term.app "store" [Term.app ".item_size" [Term.sym "new"], Term.app "int" [Term.app "round" [Term.app "Div" [Term.sym "total", Term.app "len" [Term.sym "values"]]]]],
     Term.app "store" [Term.app ".total_size" [Term.sym "new"], Term.sym "total"],
     Term.app "assign" [Term.sym "mem", Term.app ".rbind" [Term.sym "mem", Term.sym "new"]]],
    Term.app "init" [Term.sym "mem", Term.app "DataFrame" []]]

/-- **print_memory_use as written** (both classes): the loop, then the common tail; the only output is the final `print`;
    nothing is returned; the receiver is only read. -/
theorem print_memory_use_code (truth : Term → Bool) :
    DataFrame_print_memory_use truth = Out.fall (dfMemLoop :: memTail "column" "dtype" dfMemLoop) ∧
    ListOfDicts_print_memory_use truth = Out.fall (lodMemLoop :: memTail "key" "type" lodMemLoop) := ⟨rfl, rfl⟩

theorem print_memory_use_reads_only (truth : Term → Bool) :
    Term.anyAppList (writesInto "self") (DataFrame_print_memory_use truth).effs = false ∧
    Term.anyAppList (writesInto "self") (ListOfDicts_print_memory_use truth).effs = false ∧
    (ListOfDicts_print_memory_use truth).writesItems = false := ⟨rfl, rfl, rfl⟩

/-- exactly one `print`, and it is the last call. -/
theorem print_memory_use_prints_once :
    DataFrame_print_memory_use_call_order.getLast? = some "print" ∧ DataFrame_print_memory_use_call_order.count "print" = 1 ∧
    ListOfDicts_print_memory_use_call_order.getLast? = some "print" ∧ ListOfDicts_print_memory_use_call_order.count "print" = 1 ∧
    DataFrame_print_memory_use_signature = ["self"] ∧ ListOfDicts_print_memory_use_signature = ["self"] := by
  refine ⟨rfl, ?_, rfl, ?_, rfl, rfl⟩ <;> decide

/-! ### `print_na_counts` -/

/-- the data frame's loop: per column in column order, `n = self[name].is_na().sum()` (the `is_na` of C10: NaN, NaT, None,
    ""), a column WITHOUT missing values skipped (`n == 0: continue`), the others bound on as `(column, nna)` rows. -/
def dfNaLoop : Term :=
  Term.app "for" [Term.sym "name", Term.app ".colnames" [Term.sym "self"], Term.app "block"
    [Term.app "assign" [Term.sym "n", Term.app ".sum" [Term.app ".is_na" [Term.app "getitem" [Term.sym "self", Term.sym "name"]]]],
     Term.app "if" [Term.app "Eq" [Term.sym "n", Term.int 0], Term.app "block" [Term.sym "continue"], Term.app "block" []],
     Term.app "assign" [Term.sym "nas", Term.app ".rbind" [Term.sym "nas",
       Term.app "DataFrame" [Term.app "=column" [Term.sym "name"], Term.app "=nna" [Term.sym "n"]]]]],
    Term.app "init" [Term.sym "nas", Term.app "DataFrame" []]]

/-- **DataFrame.print_na_counts as written**: when NO column has a missing value the table is still `DataFrame()` (falsy: no
    columns) and the method returns without printing ANYTHING; otherwise the percentage column is `100*x/self.nrow` to one
    decimal + `%` (of ALL rows; `nrow > 0` here, since some value is missing), the names are upper-cased, and the table
    is printed once. -/
theorem df_print_na_counts_code (truth : Term → Bool) :
    DataFrame_print_na_counts truth =
      let nas := Term.app "value-after-loop" [Term.sym "nas", dfNaLoop]
      if truth nas then
        Out.fall [dfNaLoop,
          Term.app "setattr" [nas, Term.sym "pna",
            fmtEach (Term.app "Div" [Term.app "Mult" [Term.int 100, Term.sym "x"], Term.app ".nrow" [Term.sym "self"]]) "f'.1f'" "'%'" (Term.app ".nna" [nas])],
          Term.app "setattr" [nas, Term.sym "colnames", upperNames nas],
          Term.app "print" [nas]]
      else Out.ret [dfNaLoop] (Term.sym "None") := by
  unfold DataFrame_print_na_counts
  dsimp only [dfNaLoop, fmtEach, upperNames]
  split <;> simp_all

/-- `x.get(key, None) is None`: absent or None — the test of `drop_na` (`TieC15b.missingAt`), so the counts printed are the
    numbers of items `drop_na(key)` would drop. -/
def lodMissing : Term := Term.app "Is" [Term.app ".get" [Term.sym "x", Term.sym "key", Term.sym "None"], Term.sym "None"]

/-- **ListOfDicts.print_na_counts as written**: the header line is printed FIRST and ALWAYS (also when nothing is missing
    and for an empty list — unlike the data frame's silent return); then per key of `self.keys()`, the number of items in
    which the key is absent or None, keys with none skipped, the percentage `100*n/len(self)` to one decimal. -/
theorem lod_print_na_counts_code (truth : Term → Bool) :
    ListOfDicts_print_na_counts truth = Out.fall
      [Term.app "print" [Term.sym "'Missing counts:'"],
       Term.app "for" [Term.sym "key", Term.app ".keys" [Term.sym "self"], Term.app "block"
         [Term.app "assign" [Term.sym "n", Term.app "sum" [Term.app "GeneratorExp" [lodMissing, Term.app "in" [Term.sym "x", Term.sym "self", Term.app "if" []]]]],
          Term.app "if" [Term.app "Eq" [Term.sym "n", Term.int 0], Term.app "block" [Term.sym "continue"], Term.app "block" []],
          Term.app "assign" [Term.sym "pc", Term.app "Div" [Term.app "Mult" [Term.int 100, Term.sym "n"], Term.app "len" [Term.sym "self"]]],
          Term.app "print" [Term.app "fstring" [Term.sym "'... '", Term.app "format" [Term.sym "key", Term.sym "", Term.int (-1)], Term.sym "': '",
            Term.app "format" [Term.sym "n", Term.sym "", Term.int (-1)], Term.sym "' ('",
            Term.app "format" [Term.sym "pc", Term.sym "f'.1f'", Term.int (-1)], Term.sym "'%)'"]]]]] := rfl

theorem print_na_counts_signatures :
    DataFrame_print_na_counts_signature = ["self"] ∧ ListOfDicts_print_na_counts_signature = ["self"] ∧
    DataFrame_print_na_counts_decorators = [] ∧ ListOfDicts_print_na_counts_decorators = [] ∧
    DataFrame_print_na_counts_call_order.getLast? = some "print" ∧
    ListOfDicts_print_na_counts_call_order.head? = some "print" := ⟨rfl, rfl, rfl, rfl, rfl, rfl⟩

/-! ### `Vector.dtype_label`, `add_string_element` -/

/-- **dtype_label as written**: a read-only property; `"string"` for every string vector (whatever the `<U…` width, which
    is an artefact of the longest element) and `str(self.dtype)` for everything else — this is the second header line of
    every data frame column and the suffix of every printed vector. -/
theorem dtype_label_code (truth : Term → Bool) :
    Vector_dtype_label truth =
      Out.ret [] (if truth (Term.app ".is_string" [Term.sym "self"]) then Term.sym "'string'" else Term.app "str" [Term.app ".dtype" [Term.sym "self"]]) ∧
    Vector_dtype_label_decorators = ["property"] ∧ Vector_dtype_label_signature = ["self"] := by
  refine ⟨?_, rfl, rfl⟩
  unfold Vector_dtype_label
  split <;> rfl

def lastRow : Term := Term.app "getitem" [Term.sym "rows", Term.int (-1)]
/-- `rows[-1].append(string)`: the element goes to the end of the current row. -/
def appendToLast : Term := Term.app ".append" [lastRow, Term.sym "string"]
/-- `rows.append([" ", string])`: a new row that starts with the one-space padding cell, then the element. -/
def startNewRow : Term := Term.app ".append" [Term.sym "rows", Term.app "list" [Term.sym "' '", Term.sym "string"]]
/-- `" ".join(rows[-1] + [string])`: the current row as it would be printed WITH the element. -/
def joined : Term := Term.app ".join" [Term.sym "' '", Term.app "Add" [lastRow, Term.app "list" [Term.sym "string"]]]
def rowIsShort : Term := Term.app "LtE" [Term.app "len" [lastRow], Term.int 1]
def stillFits : Term := Term.app "Lt" [Term.app "util.ulen" [joined], Term.sym "print_width"]

/-- **add_string_element as written**: the element is appended to the current row when the row has at most ONE cell (the
    opening bracket or the padding: a row never stays empty, however wide the element — no endless wrapping), or when the
    row joined with the element is STRICTLY narrower (display width, `util.ulen`) than `print_width`; otherwise a new row
    is started.  Exactly one of the two mutations happens, and the measuring comes before it. -/
theorem add_string_element_code (truth : Term → Bool) :
    Vector_to_string_add_string_element truth =
      Out.ret [] (if truth rowIsShort || truth stillFits then appendToLast else startNewRow) := by
  unfold Vector_to_string_add_string_element
  dsimp only [rowIsShort, stillFits, joined, lastRow, appendToLast, startNewRow]
  split <;> (try split) <;> simp_all

theorem add_string_element_signature :
    Vector_to_string_add_string_element_signature = ["string", "rows"] ∧
    Vector_to_string_add_string_element_call_order = ["len", "rows[-1].append", "' '.join", "util.ulen", "rows[-1].append", "rows.append"] :=
  ⟨rfl, rfl⟩

/-- the mutation an outcome of `add_string_element` makes on the rows (kept reversed as in `Render.addElem`: current row
    first), `none` for anything that is not one of the two mutations. -/
def applyMutation (last : List Render.Str) (rest : List (List Render.Str)) (s : Render.Str) : Out → Option (List (List Render.Str))
  | .ret [] (.app ".append" [.app "getitem" [.sym "rows", .int (Int.negSucc 0)], .sym "string"]) => some ((last ++ [s]) :: rest)
  | .ret [] (.app ".append" [.sym "rows", .app "list" [.sym "' '", .sym "string"]]) => some ([[' '], s] :: last :: rest)
  | _ => none

/-- the two tests of `add_string_element` read on concrete rows: `len(rows[-1]) <= 1`, and `util.ulen(" ".join(rows[-1] +
    [string])) < print_width` with `Render.ulen` for `util.ulen` (`TieC20.ulen_refines`). -/
structure RowsFaithful (wc : Char → Option Nat) (pw : Nat) (truth : Term → Bool) (last : List Render.Str) (s : Render.Str) : Prop where
  short : truth rowIsShort = decide (last.length ≤ 1)
  fits : truth stillFits = decide (Render.ulen wc (((last ++ [s]).intersperse [' ']).flatten) < pw)

/-- **refinement**: under that reading, the mutation the regenerated `add_string_element` makes on non-empty rows is the
    model's `Render.addElem` (about which the wrapping theorems of `Proofs/C20.lean` speak), for every width function, every
    print width, every element and every rows. -/
theorem add_string_element_refines (wc : Char → Option Nat) (pw : Nat) (truth : Term → Bool)
    (last : List Render.Str) (rest : List (List Render.Str)) (s : Render.Str) (h : RowsFaithful wc pw truth last s) :
    applyMutation last rest s (Vector_to_string_add_string_element truth) = some (Render.addElem wc pw (last :: rest) s) := by
  have key : ∀ b : Bool, applyMutation last rest s (Out.ret [] (if b then appendToLast else startNewRow)) =
      some (if b then (last ++ [s]) :: rest else [[' '], s] :: last :: rest) := by
    intro b; cases b <;> rfl
  rw [add_string_element_code, h.short, h.fits, key]
  unfold Render.addElem
  by_cases h1 : last.length ≤ 1
  · simp [h1]
  · by_cases h2 : Render.ulen wc (((last ++ [s]).intersperse [' ']).flatten) < pw <;> simp [h1, h2]

/-! ### `util.count_digits`, `util.quote`, `util.get_print_width` -/

/-- the positional rendering split at the decimal point: `np.format_float_positional(value).split(".")`. -/
def positionalParts : Term := Term.app ".split" [Term.app "np.format_float_positional" [Term.sym "value"], Term.sym "'.'"]

/-- **count_digits as written**: `(0, 0)` for NaN and for ±inf (tested in that order, before any formatting: they have no
    digits and must not widen a column); otherwise `(n, m)` with `n` the length of the part BEFORE the point without
    leading zeros and `m` the length of the part AFTER it without trailing zeros.  NB the part before the point includes the
    SIGN of a negative number (`"-5"`, `"-0"`), which `lstrip("0")` does not remove: see `count_digits_counts_the_sign`. -/
theorem count_digits_code (truth : Term → Bool) :
    util_count_digits truth =
      if truth (Term.app "np.isnan" [Term.sym "value"]) || truth (Term.app "math.isinf" [Term.sym "value"]) then
        Out.ret [] (Term.app "tuple" [Term.int 0, Term.int 0])
      else Out.ret [] (Term.app "tuple"
        [Term.app "len" [Term.app ".lstrip" [Term.app "getitem" [positionalParts, Term.int 0], Term.sym "'0'"]],
         Term.app "len" [Term.app ".rstrip" [Term.app "getitem" [positionalParts, Term.int 1], Term.sym "'0'"]]]) := by
  unfold util_count_digits positionalParts
  cases truth (Term.app "np.isnan" [Term.sym "value"]) <;> cases truth (Term.app "math.isinf" [Term.sym "value"]) <;> rfl

theorem count_digits_signature : util_count_digits_signature = ["value"] ∧
    util_count_digits_call_order = ["np.isnan", "math.isinf", "np.format_float_positional",
      "np.format_float_positional(value).split", "parts[0].lstrip", "len", "parts[1].rstrip", "len"] := ⟨rfl, rfl⟩

/-- `s.lstrip("0")` on a character list. -/
def lstrip0 (s : List Char) : List Char := s.dropWhile (· == '0')

/-- the integer-digit count `len(parts[0].lstrip("0"))` on the text NumPy produces: `5.5` has 1, `0.5` has 0 — but `-5.5` has
    2 and `-0.5` has 2 (the minus sign is counted, and it shields the zero behind it from `lstrip`).  `format_floats` subtracts
    this count from the precision, so a negative number is shown with one decimal less than its absolute value, and a
    negative number below 1 with two less (observed: `[0.001234567, 0.5]` prints `0.001235 0.500000`, the negated vector
    `-0.0012 -0.5000`). -/
theorem count_digits_counts_the_sign :
    (lstrip0 "5".toList).length = 1 ∧ (lstrip0 "0".toList).length = 0 ∧
    (lstrip0 "-5".toList).length = 2 ∧ (lstrip0 "-0".toList).length = 2 := by decide

/-- **quote as written**: `str(value)` with every double quote preceded by a backslash, between double quotes (a backslash
    in the value is NOT doubled: the quoting is for display, not for parsing back). -/
theorem quote_code (truth : Term → Bool) :
    util_quote truth = Out.ret [] (Term.app ".format" [Term.sym "'\"{}\"'",
      Term.app ".replace" [Term.app "str" [Term.sym "value"], Term.sym "'\"'", Term.sym "'\\\\\"'"]]) ∧
    util_quote_signature = ["value"] ∧ util_quote_call_order = ["str", "str(value).replace", "'\"{}\"'.format"] := ⟨rfl, rfl, rfl⟩

/-- **get_print_width as written**: the terminal's column count minus ONE (so that a full line never triggers the terminal's
    own wrap), the terminal size asked with the fallback `(dataiter.PRINT_MAX_WIDTH, 24)` — used when there is no terminal
    (output piped, notebook); the setting is read as an attribute of the module AT CALL TIME, and the function has no
    parameter in whose default it could have been frozen. -/
theorem get_print_width_code (truth : Term → Bool) :
    util_get_print_width truth = Out.ret [] (Term.app "Sub"
      [Term.app "getitem" [Term.app "shutil.get_terminal_size" [Term.app "tuple" [Term.sym "dataiter.PRINT_MAX_WIDTH", Term.int 24]], Term.int 0],
       Term.int 1]) ∧
    util_get_print_width_signature = [] ∧ util_get_print_width_decorators = [] ∧
    util_get_print_width_call_order = ["shutil.get_terminal_size"] := ⟨rfl, rfl, rfl, rfl⟩

/-! ### `GeoJSON.to_string` -/

/-- `[f"<{x['type']}>" if x else str(x) for x in self.geometry]`: a geometry is shown as `<Point>`, `<Polygon>`, …, a missing
    one (None — or any falsy value) as its `str` — `Render.geoSummary`. -/
def geometrySummaries : Term :=
  Term.app "ListComp" [Term.app "ifexp" [Term.sym "x",
      Term.app "fstring" [Term.sym "'<'", Term.app "format" [Term.app "getitem" [Term.sym "x", Term.sym "'type'"], Term.sym "", Term.int (-1)], Term.sym "'>'"],
      Term.app "str" [Term.sym "x"]],
    Term.app "in" [Term.sym "x", Term.app ".geometry" [Term.sym "self"], Term.app "if" []]]

/-- `DataFrame.to_string(frame, k1=k1, …)` for the keyword-only parameters of `DataFrame.to_string`'s own signature. -/
def frameToString (frame : Term) : Term :=
  Term.app "DataFrame.to_string" (frame :: (kwOnly DataFrame_to_string_signature).map pass)

/-- **GeoJSON.to_string as written**: with a geometry column, the summaries are stored into a COPY of the frame
    (`self.copy()`; the receiver keeps its geometries) as an object vector, and the copy is rendered; without one the
    receiver itself is rendered.  In both cases by `DataFrame.to_string` with every option of its current signature handed
    on unchanged — the layout of a GeoJSON frame is the data frame's. -/
theorem geojson_to_string_code (truth : Term → Bool) :
    GeoJSON_to_string truth =
      if truth (Term.app "In" [Term.sym "'geometry'", Term.app ".colnames" [Term.sym "self"]]) then
        let copy := Term.app ".copy" [Term.sym "self"]
        Out.ret [Term.app "store" [Term.app "getitem" [copy, Term.sym "'geometry'"], Term.app "Vector.fast" [geometrySummaries, Term.sym "object"]]]
          (frameToString copy)
      else Out.ret [] (frameToString (Term.sym "self")) := by
  unfold GeoJSON_to_string
  split <;> rfl

/-- rendering never writes into the receiver. -/
theorem geojson_to_string_leaves_receiver (truth : Term → Bool) :
    Term.anyAppList (writesInto "self") (GeoJSON_to_string truth).effs = false := by
  rw [geojson_to_string_code]
  split <;> rfl

end DI.Tie.C20

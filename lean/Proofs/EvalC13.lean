/-
  Proofs/EvalC13.lean — property C13, "code ⇒ semantics ⇒ model" for the conversions between a data frame and a list of
  dicts / JSON: `Vector.tolist`, `DataFrame.to_list_of_dicts`, `ListOfDicts._to_columns`, `ListOfDicts.to_data_frame`,
  `DataFrame.to_json` / `ListOfDicts.to_json`.

  `Generated/CodeC13.lean` is the translation of the current source; `Proofs/TieC13.lean` shows what the bodies ARE;
  `Model/PyEvalConv.lean` gives them a meaning (frames = ordered lists of (name, cells), records = ordered lists of
  (key, value); `zip`-free: the body of `to_list_of_dicts` is the nested loop `data[i][colname] = value` over
  `enumerate(self[colname].tolist())`, run statement by statement with Python's dict-insert semantics; `pluck`,
  `DataFrame(**columns)` and `json.dumps` / `json.loads` are primitives — see the header there).  Method calls between the
  bodies (`column.tolist()`, `self._to_columns()`, `self.to_list_of_dicts()`, `x.to_json(**kwargs)`) RUN the callee's own
  regenerated body (`M1` / `M2`).  Here, for EVERY frame with distinct column names whose columns have one length (`Rect`:
  the frame invariants of C01) and EVERY list of records:

  * `tolist_eval`: a column's `tolist()` = its cells, the missing value ↦ None;
  * `to_list_of_dicts_eval` (any method table that interprets `tolist` so) / `to_list_of_dicts_chain` (the table of the
    regenerated bodies) = the model's `toRecords`: one record per row, keys = the column names in column order, value =
    the cell (`…_fields`: `C13.to_records_fields` read off the evaluation);
  * `to_columns_eval` / `to_data_frame_eval` / `to_data_frame_chain` = the model's `toColumns`: the keys of the FIRST item in
    its order, each plucked over all items (absent ⇒ None ⇒ missing); the empty list gives a frame without columns;
  * `roundtrip_eval`: `frame.to_list_of_dicts().to_data_frame()` gives back the frame — names, order, cells, missing
    positions — IFF the frame has a row or no column (`C13.list_of_dicts_roundtrip_iff`);
    `roundtrip_eval_empty_counterexample`: every 0-row frame comes back without columns;
  * `to_json_eval`: `frame.to_json(**kw)` = `json.dumps` of `toRecords` with the caller's keywords and then the defaults
    `default=str, ensure_ascii=False, indent=2`; `to_json_roundtrip`: IF `json.loads` inverts `json.dumps` on that text
    (the trusted link; implied by `Json.Faithful` for JSON-able cells: `to_json_roundtrip_of_faithful`), `from_json`'s
    first-seen union of keys gives back the frame under the same condition.

  Statements only; proofs cite `Lemmas/PyEvalConv.lean` and `Proofs/C13.lean`.
-/
import Generated.CodeC13
import Model.PyEvalConv
import Lemmas.PyEvalConv
import Proofs.C13

namespace DI.Eval.C13

open DI DI.Py DI.Gen DI.Read DI.Convert DI.PyEvalConv
open DI.PyEval (names nrow Rect)

/-! ### tolist -/

/-- **Vector.tolist**: `np.where(self.is_na(), None, self).tolist()` of a column = its cells as Python values, None exactly
    at the missing positions (the cell `none`), for every column. -/
theorem tolist_eval (J : Json) (truth : Term → Bool) (c : List Cell) :
    runRet J M0 [("self", .col c)] (Vector_tolist13 truth) = some (.list c) := tolist13_run J truth c

/-! ### DataFrame.to_list_of_dicts -/

/-- **to_list_of_dicts = the model's `toRecords`**: running the regenerated body — `nrow` fresh dicts, then column by
    column, row by row, `data[i][colname] = value` over `enumerate(self[colname].tolist())` — under ANY method table that
    interprets `tolist` as above and any environment binding `self`. -/
theorem to_list_of_dicts_eval (J : Json) (M : Methods) (truth : Term → Bool) (self : Frame) (env : Env)
    (hM : ∀ cs, M ".tolist" [.col cs] = some (.list cs))
    (hself : env.get? "self" = some (.frame self)) (hnd : (names self).Nodup) (hrect : Rect self) :
    runRet J M env (DataFrame_to_list_of_dicts truth) = some (.dicts (toRecords self (nrow self))) :=
  to_list_of_dicts_run J M truth self env hM hself hnd hrect

/-- … with `tolist` run from its own regenerated body (`M1`): nothing but the primitives is assumed. -/
theorem to_list_of_dicts_chain (J : Json) (self : Frame) (hnd : (names self).Nodup) (hrect : Rect self) :
    toListOfDictsRun J self = some (.dicts (toRecords self (nrow self))) ∧
    (∀ cs, M1 J ".tolist" [.col cs] = some (.list cs)) :=
  ⟨toListOfDicts_run J self hnd hrect, M1_tolist J⟩

/-- field by field (`C13.to_records_fields`): record `i` has exactly the column names as keys, in column order, and
    under a column's name that column's cell of row `i` — None where it is missing. -/
theorem to_list_of_dicts_fields (J : Json) (self : Frame) (hnd : (names self).Nodup) (hrect : Rect self) :
    ∃ recs, toListOfDictsRun J self = some (.dicts recs) ∧ recs.length = nrow self ∧
      ∀ i, i < nrow self → ∃ r, recs[i]? = some r ∧ r.map (·.1) = names self ∧
        (∀ c ∈ self, lookup r c.1 = some ((c.2[i]?).join)) ∧ (∀ k, k ∉ names self → lookup r k = none) := by
  refine ⟨_, toListOfDicts_run J self hnd hrect, (DI.C13.one_record_per_row self (nrow self)).1, ?_⟩
  intro i hi
  obtain ⟨r, h1, _, h3, h4, h5⟩ := DI.C13.to_records_fields self (nrow self) i hi hnd
  exact ⟨r, h1, h3, h4, h5⟩

/-- the two hypotheses are the frame's invariants, not restrictions of the method: on a ragged "frame" the body raises
    (IndexError on `data[i]`) where the model pads. -/
theorem to_list_of_dicts_ragged_counterexample :
    ¬ Rect [("a", [some (.i 1)]), ("b", [some (.i 1), some (.i 2)])] ∧
    toListOfDictsRun ⟨fun _ _ => "", fun _ => none⟩ [("a", [some (.i 1)]), ("b", [some (.i 1), some (.i 2)])] = none := by
  decide

/-! ### ListOfDicts._to_columns / to_data_frame -/

/-- **_to_columns = the model's `toColumns`**: the keys of the first item, in its order, each with `pluck(key)` over ALL
    items (an item without the key gives None); the empty list gives the empty dict `{}`. -/
theorem to_columns_eval (J : Json) (M : Methods) (truth : Term → Bool) (env : Env) (recs : List Record)
    (hself : env.get? "self" = some (.dicts recs)) (htruth : truth (.sym "self") = !recs.isEmpty)
    (hnd : ∀ r ∈ recs.head?, (r.map (·.1)).Nodup) :
    runRet J M env (ListOfDicts_to_columns truth) = some (colsVal recs) ∧
    colsVal recs = (match recs with | [] => Val.dict [] | r :: rest => Val.cols (toColumns (r :: rest))) := by
  refine ⟨to_columns_run J M truth env recs hself htruth hnd, ?_⟩
  cases recs <;> rfl

/-- **to_data_frame = the frame of `toColumns`**: `DataFrame(**self._to_columns())` under any method table that interprets
    `_to_columns` as above. -/
theorem to_data_frame_eval (J : Json) (M : Methods) (truth : Term → Bool) (env : Env) (recs : List Record)
    (hself : env.get? "self" = some (.dicts recs)) (hM : M "._to_columns" [.dicts recs] = some (colsVal recs)) :
    runRet J M env (ListOfDicts_to_data_frame truth) = some (.frame (toColumns recs)) :=
  to_data_frame_run J M truth env recs hself hM

/-- … with `_to_columns` run from its own regenerated body. -/
theorem to_data_frame_chain (J : Json) (recs : List Record) (hnd : ∀ r ∈ recs.head?, (r.map (·.1)).Nodup) :
    toDataFrameRun J recs = some (.frame (toColumns recs)) := toDataFrame_run J recs hnd

/-- every column that comes back has one cell per record. -/
theorem to_data_frame_rect (recs : List Record) : ∀ q ∈ toColumns recs, q.2.length = recs.length :=
  toColumns_lengths recs

/-! ### the round trip -/

/-- **round trip, evaluated**: `frame.to_list_of_dicts().to_data_frame()` evaluates to the model's
    `toColumns (toRecords …)` … -/
theorem roundtrip_eval_model (J : Json) (self : Frame) (hnd : (names self).Nodup) (hrect : Rect self) :
    roundtripRun J self = some (.frame (toColumns (toRecords self (nrow self)))) := roundtrip_run J self hnd hrect

/-- … which is the frame itself — same names, same order, same cells, same missing positions — EXACTLY when the frame
    has at least one row or no column (`C13.list_of_dicts_roundtrip_iff`). -/
theorem roundtrip_eval (J : Json) (self : Frame) (hnd : (names self).Nodup) (hrect : Rect self) :
    roundtripRun J self = some (.frame self) ↔ (0 < nrow self ∨ self = []) := by
  rw [roundtrip_run J self hnd hrect]
  simp only [Option.some.injEq, Val.frame.injEq]
  exact DI.C13.list_of_dicts_roundtrip_iff self (nrow self) hnd hrect

theorem roundtrip_eval_partial (J : Json) (self : Frame) (hnd : (names self).Nodup) (hrect : Rect self)
    (h : 0 < nrow self ∨ self = []) : roundtripRun J self = some (.frame self) :=
  (roundtrip_eval J self hnd hrect).mpr h

/-- the 0-row frame with columns: no record, so no column (name or dtype) comes back — for EVERY such frame. -/
theorem roundtrip_eval_empty_counterexample (J : Json) (self : Frame) (hnd : (names self).Nodup) (hrect : Rect self)
    (h0 : nrow self = 0) : roundtripRun J self = some (.frame []) ∧ (self ≠ [] → roundtripRun J self ≠ some (.frame self)) := by
  rw [roundtrip_run J self hnd hrect, h0]
  refine ⟨by rw [(DI.C13.empty_frame_loses_all_columns self).2.1], ?_⟩
  intro hne he
  rw [(DI.C13.empty_frame_loses_all_columns self).2.1] at he
  simp only [Option.some.injEq, Val.frame.injEq] at he
  exact hne he.symm

/-! ### to_json -/

/-- **to_json**: `self.to_list_of_dicts().to_json(**kwargs)` — both callees run from their own bodies — is `json.dumps` of the
    model's `toRecords`, with the caller's keyword arguments and then `default=str`, `ensure_ascii=False`, `indent=2` for
    the keywords the caller did not give. -/
theorem to_json_eval (J : Json) (truth : Term → Bool) (self : Frame) (kw : List (String × Opt)) (env : Env)
    (hself : env.get? "self" = some (.frame self)) (hkw : env.get? "kwargs" = some (.kwargs kw))
    (hnd : (names self).Nodup) (hrect : Rect self) :
    runRet J (M2 J) env (DataFrame_to_json truth) =
      some (.text (J.dumps (toRecords self (nrow self)) (jsonDefaults kw))) :=
  to_json_run J truth self kw env hself hkw hnd hrect

/-- the caller's keywords win: a default is added only for a keyword that is absent. -/
theorem to_json_defaults (kw : List (String × Opt)) :
    jsonDefaults [] = [("'default'", .name "str"), ("'ensure_ascii'", .bool false), ("'indent'", .int 2)] ∧
    jsonDefaults [("'indent'", .int 4)] = [("'indent'", .int 4), ("'default'", .name "str"), ("'ensure_ascii'", .bool false)] ∧
    (∀ p ∈ kw, p ∈ jsonDefaults kw) := by
  refine ⟨by decide, by decide, ?_⟩
  intro p hp
  have hsub : ∀ (k : List (String × Opt)) (s : String) (o : Opt), p ∈ k → p ∈ kwSetDefault k s o := by
    intro k s o h
    unfold kwSetDefault
    split
    · exact h
    · exact List.mem_append_left _ h
  exact hsub _ _ _ (hsub _ _ _ (hsub _ _ _ hp))

/-- **JSON round trip**: IF `json.loads` gives back the records `json.dumps` was given (the trusted link to the `json`
    module, assumed for this one text only), `DataFrame.from_json`'s first-seen union of keys gives back the frame exactly
    when it has a row or no column (`C13.json_records_roundtrip_iff`). -/
theorem to_json_roundtrip (J : Json) (self : Frame) (kw : List (String × Opt)) (hnd : (names self).Nodup)
    (hrect : Rect self)
    (hinv : J.loads (J.dumps (toRecords self (nrow self)) (jsonDefaults kw)) = some (toRecords self (nrow self))) :
    ∃ s, toJsonRun J self kw = some (.text s) ∧ ∃ recs, J.loads s = some recs ∧
      (fromJsonRecords recs = self ↔ (0 < nrow self ∨ self = [])) :=
  ⟨_, toJson_run J self kw hnd hrect, _, hinv, DI.C13.json_records_roundtrip_iff self (nrow self) hnd hrect⟩

/-- the link follows from `Json.Faithful` when every cell is JSON-able (None / bool / int / str). -/
theorem to_json_roundtrip_of_faithful (J : Json) (hJ : J.Faithful) (self : Frame) (kw : List (String × Opt))
    (hnd : (names self).Nodup) (hrect : Rect self) (hj : ∀ c ∈ self, ∀ x ∈ c.2, jsonCell x = true) :
    ∃ s, toJsonRun J self kw = some (.text s) ∧ ∃ recs, J.loads s = some recs ∧
      (fromJsonRecords recs = self ↔ (0 < nrow self ∨ self = [])) :=
  to_json_roundtrip J self kw hnd hrect (hJ _ _ (toRecords_jsonAble self _ hnd hj))

/-! ### non-vacuity: a frame with 2 columns and 2 rows, one missing cell each -/

def fr : Frame := [("a", [some (.i 1), none]), ("b", [none, some (.s [120])])]

/-- a `json` stand-in that answers `loads` with the records of `fr` (the hypothesis `hinv` of `to_json_roundtrip` holds for
    it). -/
def J0 : Json := ⟨fun _ _ => "", fun _ => some (toRecords fr 2)⟩

example : Rect fr ∧ (names fr).Nodup ∧ nrow fr = 2 := by decide
example : runRet J0 M0 [("self", .col [some (.i 1), none])] (Vector_tolist13 (fun _ => false)) =
    some (.list [some (.i 1), none]) := by decide
example : toListOfDictsRun J0 fr =
    some (.dicts [[("a", some (.i 1)), ("b", none)], [("a", none), ("b", some (.s [120]))]]) := by decide
example : toDataFrameRun J0 [[("a", some (.i 1))], [("a", some (.i 2)), ("b", some (.i 3))], []] =
    some (.frame [("a", [some (.i 1), some (.i 2), none])]) := by decide
example : toDataFrameRun J0 [] = some (.frame []) ∧ toDataFrameRun J0 [[]] = some (.frame []) := by decide
example : roundtripRun J0 fr = some (.frame fr) := by decide
example : roundtripRun J0 [("a", []), ("b", [])] = some (.frame []) := by decide
example : toJsonRun J0 fr [("'indent'", .int 4)] = some (.text "") := by decide
example : J0.loads (J0.dumps (toRecords fr (nrow fr)) (jsonDefaults [])) = some (toRecords fr (nrow fr)) := by decide
example : ∀ c ∈ fr, ∀ x ∈ c.2, jsonCell x = true := by decide

end DI.Eval.C13

/-
  Proofs/EvalC16.lean — property C16, "code ⇒ semantics ⇒ model" for the generator bodies of the joins of `ListOfDicts`.

  `Generated/CodeC16.lean` is the translation of the current source; `Proofs/TieC16.lean` shows each body equal to a small
  normal form; `Model/PyEvalLoDJoin.lean` gives those statement terms a meaning (`runJ`: the yielded values and the final
  store; the evaluator of `Model/PyEval.lean` extended with dict comprehensions, the reversed lookup dict, key sets,
  `_split_join_by`, `dict.update` with a dict value).  Here, for EVERY store, EVERY callables, every `by` specification
  (`ByArg`: a name, or a (left name, right name) pair; at least one), every left / right reference lists whose objects
  have the key columns (otherwise Python raises KeyError and the evaluator returns `none`):

  * `left_join_eval` / `inner_join_eval`: on pairwise distinct left references, none of which is also a right reference,
    evaluating the regenerated body yields the left references (all / the matched ones) in order and ends in a store
    where the left objects hold exactly the model's `LoD.leftJoin` (the FIRST right item with an equal key tuple is the one
    merged, only its non-key entries, into the left object itself) and every other object is untouched; the yielded
    objects of inner_join hold `LoD.innerJoin`.
  * `left_join_eval_counterexample`: the hypothesis "no left reference is a right reference" is FORCED — with a shared
    object the in-place merges are visible to later lookups and the result is not the model's value-level join.
    `left_join_dup_counterexample`: so is "pairwise distinct".
  * `semi_join_eval` / `anti_join_eval`: ANY reference lists (shared / repeated objects allowed): the left references
    whose key tuple is / is not among the right key tuples, in order (= `LoD.semiJoin` / `LoD.antiJoin`); the store is
    unchanged.

  Statements only; proofs cite `Lemmas/PyEvalLoDJoin.lean`.
-/
import Generated.CodeC16
import Model.PyEvalLoDJoin
import Lemmas.PyEvalLoDJoin
import Proofs.TieC16

namespace DI.Eval.C16

open DI DI.Py DI.Gen DI.LoD DI.PyEvalLoD DI.Tie.C16

/-- **left_join**: code ⇒ semantics ⇒ `LoD.leftJoin`.  `rs` / `os`: the receiver's / the other list's references, `xs` /
    `ys` the model's view of them in the initial store.  Every left reference is yielded, in order; afterwards the left
    objects hold `LoD.leftJoin xs ys by1 by2` (same identities: the merge is IN PLACE; first match; non-key entries only;
    unmatched items unchanged) and no other object of the store has changed. -/
theorem left_join_eval (truth : Term → Bool) (F : Funs) (ρ : Env) (σ : Store) (rs os : List Nat) (bys : List ByArg)
    (xs ys : List Item)
    (hself : ρ.lookup "self" = some (refsVal rs)) (hother : ρ.lookup "other" = some (refsVal os))
    (hby : ρ.lookup "by" = some (byVal bys)) (hne : bys ≠ []) (hd : rs.Nodup) (hdis : ∀ r, r ∈ rs → r ∉ os)
    (hv : Store.view σ rs = some xs) (hw : Store.view σ os = some ys)
    (hk1 : ∀ x, x ∈ xs → ∀ k, k ∈ byLeft bys → x.kv.has k = true)
    (hk2 : ∀ y, y ∈ ys → ∀ k, k ∈ byRight bys → y.kv.has k = true) :
    ∃ σ', runJ F (ListOfDicts_left_join truth).effs ρ σ = some (rs.map PVal.ref, σ') ∧
      Store.view σ' rs = some (LoD.leftJoin xs ys (byLeft bys) (byRight bys)) ∧
      ∀ n, n ∉ rs → σ'.lookup n = σ.lookup n := by
  rw [left_join_code]; exact left_join_run F ρ σ rs os bys xs ys hself hother hby hne hd hdis hv hw hk1 hk2

/-- **inner_join**: code ⇒ semantics ⇒ `LoD.innerJoin`.  Only the matched left references are yielded (in order); the
    yielded objects then hold `LoD.innerJoin xs ys by1 by2`; the store as a whole changes exactly as under left_join
    (unmatched left objects and all other objects untouched). -/
theorem inner_join_eval (truth : Term → Bool) (F : Funs) (ρ : Env) (σ : Store) (rs os : List Nat) (bys : List ByArg)
    (xs ys : List Item)
    (hself : ρ.lookup "self" = some (refsVal rs)) (hother : ρ.lookup "other" = some (refsVal os))
    (hby : ρ.lookup "by" = some (byVal bys)) (hne : bys ≠ []) (hd : rs.Nodup) (hdis : ∀ r, r ∈ rs → r ∉ os)
    (hv : Store.view σ rs = some xs) (hw : Store.view σ os = some ys)
    (hk1 : ∀ x, x ∈ xs → ∀ k, k ∈ byLeft bys → x.kv.has k = true)
    (hk2 : ∀ y, y ∈ ys → ∀ k, k ∈ byRight bys → y.kv.has k = true) :
    ∃ σ', runJ F (ListOfDicts_inner_join truth).effs ρ σ =
        some ((LoD.innerJoin xs ys (byLeft bys) (byRight bys)).map tagRef, σ') ∧
      Store.view σ' ((LoD.innerJoin xs ys (byLeft bys) (byRight bys)).map (·.tag)) =
        some (LoD.innerJoin xs ys (byLeft bys) (byRight bys)) ∧
      Store.view σ' rs = some (LoD.leftJoin xs ys (byLeft bys) (byRight bys)) ∧
      ∀ n, n ∉ rs → σ'.lookup n = σ.lookup n := by
  rw [inner_join_code]; exact inner_join_run F ρ σ rs os bys xs ys hself hother hby hne hd hdis hv hw hk1 hk2

/-- **semi_join**: code ⇒ semantics ⇒ `LoD.semiJoin`: the left references whose key tuple is among the right key
    tuples, in order; the store is unchanged.  No distinctness / disjointness is needed (nothing is written). -/
theorem semi_join_eval (truth : Term → Bool) (F : Funs) (ρ : Env) (σ : Store) (rs os : List Nat) (bys : List ByArg)
    (xs ys : List Item)
    (hself : ρ.lookup "self" = some (refsVal rs)) (hother : ρ.lookup "other" = some (refsVal os))
    (hby : ρ.lookup "by" = some (byVal bys)) (hne : bys ≠ [])
    (hv : Store.view σ rs = some xs) (hw : Store.view σ os = some ys)
    (hk1 : ∀ x, x ∈ xs → ∀ k, k ∈ byLeft bys → x.kv.has k = true)
    (hk2 : ∀ y, y ∈ ys → ∀ k, k ∈ byRight bys → y.kv.has k = true) :
    runJ F (ListOfDicts_semi_join truth).effs ρ σ =
      some ((LoD.semiJoin xs ys (byLeft bys) (byRight bys)).map tagRef, σ) := by
  rw [semi_join_code]; exact semi_join_run F ρ σ rs os bys xs ys hself hother hby hne hv hw hk1 hk2

/-- **anti_join**: code ⇒ semantics ⇒ `LoD.antiJoin`: the left references whose key tuple is NOT among the right key
    tuples, in order; the store is unchanged. -/
theorem anti_join_eval (truth : Term → Bool) (F : Funs) (ρ : Env) (σ : Store) (rs os : List Nat) (bys : List ByArg)
    (xs ys : List Item)
    (hself : ρ.lookup "self" = some (refsVal rs)) (hother : ρ.lookup "other" = some (refsVal os))
    (hby : ρ.lookup "by" = some (byVal bys)) (hne : bys ≠ [])
    (hv : Store.view σ rs = some xs) (hw : Store.view σ os = some ys)
    (hk1 : ∀ x, x ∈ xs → ∀ k, k ∈ byLeft bys → x.kv.has k = true)
    (hk2 : ∀ y, y ∈ ys → ∀ k, k ∈ byRight bys → y.kv.has k = true) :
    runJ F (ListOfDicts_anti_join truth).effs ρ σ =
      some ((LoD.antiJoin xs ys (byLeft bys) (byRight bys)).map tagRef, σ) := by
  rw [anti_join_code]; exact anti_join_run F ρ σ rs os bys xs ys hself hother hby hne hv hw hk1 hk2

/-! ### the side conditions of left_join / inner_join are forced -/

/-- no user callable occurs in the join bodies. -/
def noFuns : Funs := ⟨fun _ _ _ => .atom .none⟩

/-- left `[a, b]`, right `[a, c]` — the object `a = {p: 1, q: 2, v: 0}` is in BOTH lists (e.g. `other = self[:1] + …`) —
    joined on `("p", "q")` (left key `p`, right key `q`), with `b = {p: 2}`, `c = {q: 1, v: 9}`.  Every hypothesis of
    `left_join_eval` holds except `hdis`.  The loop first merges `c` into `a` (`a.v = 9`), then `b` matches `a` and
    receives `a`'s CURRENT entries (`v = 9`); the value-level model joins `b` with `a` as it was (`v = 0`).  (The Python
    library itself returns `[{p: 1, q: 2, v: 9}, {p: 1, v: 9}]` here: the evaluator is faithful, the model is per value.) -/
theorem left_join_eval_counterexample :
    ∃ σ' xs ys,
      runJ noFuns (ListOfDicts_left_join (fun _ => true)).effs
        [("self", refsVal [0, 1]), ("other", refsVal [0, 2]), ("by", byVal [.pair "p" "q"])]
        [(0, [("p", .i 1), ("q", .i 2), ("v", .i 0)]), (1, [("p", .i 2)]), (2, [("q", .i 1), ("v", .i 9)])] =
          some ([.ref 0, .ref 1], σ') ∧
      Store.view [(0, [("p", .i 1), ("q", .i 2), ("v", .i 0)]), (1, [("p", .i 2)]), (2, [("q", .i 1), ("v", .i 9)])] [0, 1] = some xs ∧
      Store.view [(0, [("p", .i 1), ("q", .i 2), ("v", .i 0)]), (1, [("p", .i 2)]), (2, [("q", .i 1), ("v", .i 9)])] [0, 2] = some ys ∧
      [0, 1].Nodup ∧ (∀ x, x ∈ xs → ∀ k, k ∈ byLeft [.pair "p" "q"] → x.kv.has k = true) ∧
      (∀ y, y ∈ ys → ∀ k, k ∈ byRight [.pair "p" "q"] → y.kv.has k = true) ∧
      Store.view σ' [0, 1] = some [⟨0, [("p", .i 1), ("q", .i 2), ("v", .i 9)]⟩, ⟨1, [("p", .i 1), ("v", .i 9)]⟩] ∧
      LoD.leftJoin xs ys ["p"] ["q"] = [⟨0, [("p", .i 1), ("q", .i 2), ("v", .i 9)]⟩, ⟨1, [("p", .i 1), ("v", .i 0)]⟩] :=
  ⟨[(0, [("p", .i 1), ("q", .i 2), ("v", .i 9)]), (1, [("p", .i 1), ("v", .i 9)]), (2, [("q", .i 1), ("v", .i 9)])],
   [⟨0, [("p", .i 1), ("q", .i 2), ("v", .i 0)]⟩, ⟨1, [("p", .i 2)]⟩],
   [⟨0, [("p", .i 1), ("q", .i 2), ("v", .i 0)]⟩, ⟨2, [("q", .i 1), ("v", .i 9)]⟩],
   by decide, by decide, by decide, by decide, by decide, by decide, by decide, by decide⟩

/-- left `[a, a]` (one object twice), right `[c, c2]` disjoint from it, joined on `("p", "q")`: `a = {p: 1}`,
    `c = {q: 1, p: 5}`, `c2 = {q: 5, p: 7}`.  The first visit rewrites `a.p` to 5, so the second visit matches `c2`:
    `a = {p: 7}`; the model joins both entries with `c`: `{p: 5}`.  Hence `rs.Nodup`. -/
theorem left_join_dup_counterexample :
    ∃ σ' xs ys,
      runJ noFuns (ListOfDicts_left_join (fun _ => true)).effs
        [("self", refsVal [0, 0]), ("other", refsVal [1, 2]), ("by", byVal [.pair "p" "q"])]
        [(0, [("p", .i 1)]), (1, [("q", .i 1), ("p", .i 5)]), (2, [("q", .i 5), ("p", .i 7)])] = some ([.ref 0, .ref 0], σ') ∧
      Store.view [(0, [("p", .i 1)]), (1, [("q", .i 1), ("p", .i 5)]), (2, [("q", .i 5), ("p", .i 7)])] [0, 0] = some xs ∧
      Store.view [(0, [("p", .i 1)]), (1, [("q", .i 1), ("p", .i 5)]), (2, [("q", .i 5), ("p", .i 7)])] [1, 2] = some ys ∧
      (∀ r, r ∈ [0, 0] → r ∉ [1, 2]) ∧
      Store.view σ' [0, 0] = some [⟨0, [("p", .i 7)]⟩, ⟨0, [("p", .i 7)]⟩] ∧
      LoD.leftJoin xs ys ["p"] ["q"] = [⟨0, [("p", .i 5)]⟩, ⟨0, [("p", .i 5)]⟩] :=
  ⟨[(0, [("p", .i 7)]), (1, [("q", .i 1), ("p", .i 5)]), (2, [("q", .i 5), ("p", .i 7)])],
   [⟨0, [("p", .i 1)]⟩, ⟨0, [("p", .i 1)]⟩], [⟨1, [("q", .i 1), ("p", .i 5)]⟩, ⟨2, [("q", .i 5), ("p", .i 7)]⟩],
   by decide, by decide, by decide, by decide, by decide, by decide⟩

/-! ### non-vacuity: concrete runs (two right items share the key 1: the FIRST one is merged) -/

/-- left_join by `"k"`: item 0 (`k = 1`) receives the non-key entries of the first right item with `k = 1` (object 2,
    not object 3) — `a` is overwritten, `b` appended —, item 1 (`k = 2`) has no match and stays. -/
example :
    runJ noFuns (ListOfDicts_left_join (fun _ => true)).effs
        [("self", refsVal [0, 1]), ("other", refsVal [2, 3]), ("by", byVal [.same "k"])]
        [(0, [("k", .i 1), ("a", .i 10)]), (1, [("k", .i 2)]), (2, [("k", .i 1), ("b", .i 7), ("a", .i 0)]), (3, [("k", .i 1), ("b", .i 8)])] =
      some ([.ref 0, .ref 1], [(0, [("k", .i 1), ("a", .i 0), ("b", .i 7)]), (1, [("k", .i 2)]),
        (2, [("k", .i 1), ("b", .i 7), ("a", .i 0)]), (3, [("k", .i 1), ("b", .i 8)])]) ∧
    LoD.leftJoin [⟨0, [("k", .i 1), ("a", .i 10)]⟩, ⟨1, [("k", .i 2)]⟩]
        [⟨2, [("k", .i 1), ("b", .i 7), ("a", .i 0)]⟩, ⟨3, [("k", .i 1), ("b", .i 8)]⟩] ["k"] ["k"] =
      [⟨0, [("k", .i 1), ("a", .i 0), ("b", .i 7)]⟩, ⟨1, [("k", .i 2)]⟩] := by decide

/-- inner_join on the same data: only item 0 is yielded; the store ends as under left_join. -/
example :
    runJ noFuns (ListOfDicts_inner_join (fun _ => true)).effs
        [("self", refsVal [0, 1]), ("other", refsVal [2, 3]), ("by", byVal [.same "k"])]
        [(0, [("k", .i 1), ("a", .i 10)]), (1, [("k", .i 2)]), (2, [("k", .i 1), ("b", .i 7), ("a", .i 0)]), (3, [("k", .i 1), ("b", .i 8)])] =
      some ([.ref 0], [(0, [("k", .i 1), ("a", .i 0), ("b", .i 7)]), (1, [("k", .i 2)]),
        (2, [("k", .i 1), ("b", .i 7), ("a", .i 0)]), (3, [("k", .i 1), ("b", .i 8)])]) ∧
    LoD.innerJoin [⟨0, [("k", .i 1), ("a", .i 10)]⟩, ⟨1, [("k", .i 2)]⟩]
        [⟨2, [("k", .i 1), ("b", .i 7), ("a", .i 0)]⟩, ⟨3, [("k", .i 1), ("b", .i 8)]⟩] ["k"] ["k"] =
      [⟨0, [("k", .i 1), ("a", .i 0), ("b", .i 7)]⟩] := by decide

/-- semi_join / anti_join with a (left, right) name pair: left key `p`, right key `q`. -/
example :
    runJ noFuns (ListOfDicts_semi_join (fun _ => true)).effs
        [("self", refsVal [0, 1]), ("other", refsVal [2, 3]), ("by", byVal [.pair "p" "q"])]
        [(0, [("p", .i 1)]), (1, [("p", .i 2)]), (2, [("q", .i 1)]), (3, [("q", .i 1)])] =
      some ([.ref 0], [(0, [("p", .i 1)]), (1, [("p", .i 2)]), (2, [("q", .i 1)]), (3, [("q", .i 1)])]) ∧
    runJ noFuns (ListOfDicts_anti_join (fun _ => true)).effs
        [("self", refsVal [0, 1]), ("other", refsVal [2, 3]), ("by", byVal [.pair "p" "q"])]
        [(0, [("p", .i 1)]), (1, [("p", .i 2)]), (2, [("q", .i 1)]), (3, [("q", .i 1)])] =
      some ([.ref 1], [(0, [("p", .i 1)]), (1, [("p", .i 2)]), (2, [("q", .i 1)]), (3, [("q", .i 1)])]) :=
  ⟨by decide, by decide⟩

end DI.Eval.C16

/-
  Proofs/TieC11.lean — obligations over `Generated/CodeC11.lean`, the translation of the *current* source of
  `Vector.sort`, `Vector.rank`, `Vector.unique` and `Vector._optimize_for_argsort` (dataiter/vector.py): the structure the
  model `Model/Vector.lean` (vsort / vrank / vunique) assumes — a STABLE argsort of one and the same optimised copy, the
  descending order as the reversal of the ascending one, the missing elements moved behind the others afterwards in both
  directions, first occurrences in position order for `unique`, and for `rank` the three methods over `np.unique` inverse
  counts / a stable argsort with the missing elements ranked after all others.
-/
import Generated.CodeC11

namespace DI.Tie.C11

open DI.Py DI.Gen

/-- `new[~na].concat(new[na])` with `na = new.is_na()`: the non-missing elements in their order, then the missing ones. -/
def naLast (new : Term) : Term :=
  Term.app ".concat" [Term.app "getitem" [new, Term.app "~" [Term.app ".is_na" [new]]], Term.app "getitem" [new, Term.app ".is_na" [new]]]

def opt (v : Term) : Term := Term.app "._optimize_for_argsort" [v]
def stableArgsort (v : Term) : Term := Term.app ".argsort" [v, Term.app "=kind" [Term.sym "'stable'"]]

/-- **sort as written.** Objects: `sorted(self, key=str, reverse=dir < 0)`, then missing last.  Everything else: the
    elements taken at the STABLE argsort of the optimised copy; for `dir < 0` that ascending result REVERSED
    (`[::-1]`: ties come out in reverse input order); then, in both directions, the missing elements moved behind the
    others (`naLast`), keeping their relative order. -/
theorem sort_code (truth : Term → Bool) :
    Vector_sort truth =
      if truth (Term.app ".is_object" [Term.sym "self"]) then
        Out.ret [] (naLast (Term.app ".fast" [Term.sym "self",
          Term.app "sorted" [Term.sym "self", Term.app "=key" [Term.sym "str"], Term.app "=reverse" [Term.app "Lt" [Term.sym "dir", Term.int 0]]],
          Term.sym "object"]))
      else
        let asc := Term.app "getitem" [Term.sym "self", stableArgsort (opt (Term.sym "self"))]
        if truth (Term.app "Lt" [Term.sym "dir", Term.int 0]) then
          Out.ret [] (naLast (Term.app "getitem" [asc, Term.app "slice" [Term.sym "None", Term.sym "None", Term.int (-1)]]))
        else Out.ret [] (naLast asc) := by
  unfold Vector_sort
  dsimp only [naLast, opt, stableArgsort]

/-- **unique as written**: `np.unique` of the optimised copy gives the index of the FIRST occurrence of each distinct
    value; those indices sorted = first occurrences in position order; the elements are taken from `self` (not from the
    optimised copy) and copied. -/
theorem unique_code (truth : Term → Bool) :
    Vector_unique truth =
      let firsts := Term.app "item1" [Term.app "np.unique" [opt (Term.sym "self"), Term.app "=return_index" [Term.sym "True"]]]
      Out.ret [] (Term.app ".copy" [Term.app "getitem" [Term.sym "self", Term.app ".sort" [firsts]]]) := rfl

/-- the fixed-width fast path: taken exactly for a non-empty string vector whose longest element has 1..49 characters,
    and then the copy is `astype("U<n>")` with n that very maximum (no truncation); otherwise the vector itself. -/
theorem optimize_for_argsort_code (truth : Term → Bool) :
    Vector_optimize_for_argsort truth =
      let n := Term.app ".max" [Term.app ".str_len" [Term.app ".str" [Term.sym "self"]]]
      if truth (Term.app ".is_string" [Term.sym "self"]) && truth (Term.app "Gt" [Term.app ".length" [Term.sym "self"], Term.int 0]) &&
         truth (Term.app "Lt/Lt" [Term.int 0, Term.app "walrus" [Term.sym "n", n], Term.int 50]) then
        Out.ret [] (Term.app ".astype" [Term.sym "self", Term.app "fstring" [Term.sym "'U'", Term.app "format" [Term.sym "n", Term.sym "", Term.int (-1)]]])
      else Out.ret [] (Term.sym "self") := rfl

/-! ### rank -/

def inv (v na : Term) : Term :=
  Term.app "getitem" [Term.app "np.unique" [Term.app "getitem" [v, Term.app "~" [na]], Term.app "=return_inverse" [Term.sym "True"]], Term.int 1]
def setAt (out idx val : Term) : Term := Term.app "store" [Term.app "getitem" [out, idx], val]
def asVector (out v : Term) : Term := Term.app ".view" [out, Term.app ".__class__" [v]]

/-- the body of `rank` once the vector `v` to rank and the mask `na` of its missing elements are fixed:
    * min: 1 + number of non-missing elements strictly smaller (cumulated counts of the `np.unique` classes, shifted);
      missing elements all get (number of non-missing) + 1;
    * max: number of non-missing elements smaller or equal; missing elements all get `len`;
    * ordinal: position in the STABLE argsort of the non-missing elements, + 1; the missing elements follow, in position
      order (`rank.max() + arange(na.sum()) + 1`);
    * any other method: ValueError. -/
def rankBody (truth : Term → Bool) (v na : Term) : Out :=
  let v' := opt v
  let out := Term.app "np.zeros_like" [v', Term.sym "int"]
  if truth (Term.app "Eq" [Term.sym "method", Term.sym "'min'"]) then
    Out.ret [setAt out (Term.app "~" [na]) (Term.app "Add" [Term.app "getitem" [Term.app ".cumsum"
               [Term.app "np.concatenate" [Term.app "tuple" [Term.app "list" [Term.int 0], Term.app "np.bincount" [inv v' na]]]], inv v' na], Term.int 1]),
             setAt out na (Term.app "Add" [Term.app ".sum" [Term.app "~" [na]], Term.int 1])] (asVector out v')
  else if truth (Term.app "Eq" [Term.sym "method", Term.sym "'max'"]) then
    Out.ret [setAt out (Term.app "~" [na]) (Term.app "getitem" [Term.app ".cumsum" [Term.app "np.bincount" [inv v' na]], inv v' na]),
             setAt out na (Term.app "len" [v'])] (asVector out v')
  else if truth (Term.app "Eq" [Term.sym "method", Term.sym "'ordinal'"]) then
    let indices := stableArgsort (Term.app "getitem" [v', Term.app "~" [na]])
    let rank := Term.app "np.zeros_like" [indices]
    Out.ret [setAt rank indices (Term.app "Add" [Term.app "np.arange" [Term.app "len" [indices]], Term.int 1]),
             setAt out (Term.app "~" [na]) rank,
             setAt out na (Term.app "Add" [Term.app "Add" [Term.app ".max" [rank], Term.app "np.arange" [Term.app ".sum" [na]]], Term.int 1])]
            (asVector out v')
  else Out.raise [] "ValueError"

/-- **rank as written**: an empty vector gives an empty integer vector; an entirely missing vector is ranked as a vector
    of ones (so every method is defined on it: all ties); otherwise `rankBody` on the vector itself with the mask taken
    BEFORE the optimised copy is made. -/
theorem rank_code (truth : Term → Bool) :
    Vector_rank truth =
      if truth (Term.app "Eq" [Term.app ".length" [Term.sym "self"], Term.int 0]) then
        Out.ret [] (Term.app ".fast" [Term.sym "self", Term.app "list" [], Term.sym "int"])
      else if truth (Term.app ".all" [Term.app ".is_na" [Term.sym "self"]]) then
        let ones := Term.app ".fast" [Term.sym "self", Term.app "np.repeat" [Term.int 1, Term.app ".length" [Term.sym "self"]]]
        rankBody truth ones (Term.app ".is_na" [ones])
      else rankBody truth (Term.sym "self") (Term.app ".is_na" [Term.sym "self"]) := by
  unfold Vector_rank
  dsimp only [rankBody, opt, inv, setAt, asVector, stableArgsort]

end DI.Tie.C11

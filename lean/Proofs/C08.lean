/-
  Proofs/C08.lean — property C08: Numba acceleration never changes aggregation results.
  Statements only; proofs cite Lemmas/Aggregate.lean.  These theorems are about the two
  *algorithms* (Python kernels vs Numba kernels as written); that Numba/LLVM executes the
  kernels as written, whatever was compiled before, is explored by the check, not proved.
-/
import Model.Numba
import Lemmas.Aggregate
import Lemmas.NumbaSpec

namespace DI.C08

open DI.Agg

/-- nth / first / last: the explicit index range test equals try / except IndexError. -/
theorem nth_kernels_agree (xg : List Num) (i : Int) :
    (match nthNumba xg i with | some .missing => none | r => r) =
      (match nthOf xg i with | .missing => none | r => some r) := nthNumba_eq xg i

/-- mode: quadratic equality count + first argmax = statistics.mode, absent missing values. -/
theorem mode_kernels_agree (xg : List Num) (hna : hasNa xg = false) :
    modeNumba xg = (if xg.length ≥ 1 then some (modeOf xg) else none) := modeNumba_eq xg hna

/-- count_unique: np.unique = len(set(...)), absent missing values. -/
theorem count_unique_kernels_agree (xg : List Num) (d : Bool) (hna : hasNa xg = false) :
    countUniqueNumba xg = countUniqueOf d xg := countUniqueNumba_eq xg d hna

/-- USE_NUMBA on = off for every helper, column and group layout (for mode and set-based
    count_unique: whenever missing values are dropped or absent — with them present the two
    paths genuinely differ, see known_findings.json). -/
theorem numba_on_eq_off (h : Helper) (d : Bool) (xs : List Num) (ids : List Nat)
    (hlen : ids.length = xs.length)
    (hna : naSensitive h = true → (d = true ∨ hasNa xs = false)) :
    groupFormNumba h d xs ids = groupForm h d xs ids := numba_eq_python h d xs ids hlen hna

/-- the forced hypothesis is needed: with a NaN first in the group the kernels disagree. -/
theorem mode_with_missing_counterexample :
    modeNumba [none, none, some 2] ≠ (if ([none, none, some (2 : Rat)] : List Num).length ≥ 1
      then some (modeOf [none, none, some 2]) else none) := by decide

/-- specification for the JIT: results are independent of compile history and cache state
    (true by construction of the model: it states what the real JIT must refine). -/
theorem history_independent_spec (s s' : JitState) (c : Call) (cacheOn cacheOn' : Bool) :
    (stepJ s c cacheOn).2 = (stepJ s' c cacheOn').2 := history_independent s s' c cacheOn cacheOn'

/-! ## strengthened statements (Lemmas/NumbaSpec.lean) -/

/-- `numba_on_eq_off` without its avoidable hypothesis `ids.length = xs.length`: the two paths
    agree for every helper, column and group-id vector whenever the helper is not sensitive to
    missing values, or they are dropped, or there are none. -/
theorem numba_on_eq_off_any_lengths (h : Helper) (d : Bool) (xs : List Num) (ids : List Nat)
    (hna : naSensitive h = true → (d = true ∨ hasNa xs = false)) :
    groupFormNumba h d xs ids = groupForm h d xs ids := numba_eq_python' h d xs ids hna

/-- for EVERY helper: on a column without missing values the Numba group form equals the pure
    group form; no other hypothesis. -/
theorem numba_on_eq_off_without_missing (h : Helper) (d : Bool) (xs : List Num) (ids : List Nat)
    (hna : hasNa xs = false) : groupFormNumba h d xs ids = groupForm h d xs ids :=
  numba_eq_python_no_na h d xs ids hna

/-- for EVERY helper: with drop_na the two paths agree on every column. -/
theorem numba_on_eq_off_with_drop_na (h : Helper) (xs : List Num) (ids : List Nat) :
    groupFormNumba h true xs ids = groupForm h true xs ids := numba_eq_python_drop_na h xs ids

/-- the weakest per-group condition: the paths agree as soon as every group, after the NA policy,
    is safe for the helper — nothing for most helpers, no missing value for mode, at most one
    missing value for the set-based count_unique. -/
theorem numba_on_eq_off_groupwise (h : Helper) (d : Bool) (xs : List Num) (ids : List Nat)
    (hsafe : ∀ xg ∈ chunks ids xs, numbaSafe h (handleNa xg (d && hasNa xs)) = true) :
    groupFormNumba h d xs ids = groupForm h d xs ids := numba_eq_python_of_safe h d xs ids hsafe

/-- for count_unique the condition is exact: np.unique and len(set(...)) agree on a group iff it
    holds at most one missing value. -/
theorem count_unique_kernels_agree_iff (xg : List Num) :
    kernelNumba (.countUnique false) xg = kernel (.countUnique false) xg ↔ naCount xg ≤ 1 :=
  countUnique_kernels_agree_iff xg

/-- ... and with two missing values in a group the two paths do differ. -/
theorem count_unique_with_two_missing_counterexample :
    groupFormNumba (.countUnique false) false [none, none] [0, 0] ≠
      groupForm (.countUnique false) false [none, none] [0, 0] := countUnique_two_missing_counterexample

/-- the order-free helpers are order free on the Numba path as well. -/
theorem numba_kernels_order_free (h : Helper) (ho : orderFree h = true) {xs ys : List Num}
    (p : xs.Perm ys) : kernelNumba h xs = kernelNumba h ys := kernelNumba_perm h ho p

/-- a whole history of calls: every call returns the Numba group form of its own arguments. -/
theorem history_outputs (s : JitState) (cs : List (Call × Bool)) :
    (runJ s cs).2 = cs.map (fun c => groupFormNumba c.1.helper c.1.drop c.1.xs c.1.ids) :=
  runJ_outputs s cs

/-- the results of a whole history of calls are independent of the initial JIT state (kernels
    compiled earlier, on-disk cache) and of the cache setting at each call (induction over the
    history). -/
theorem history_independent_sequences (s s' : JitState) (cs cs' : List (Call × Bool))
    (hcalls : cs.map (·.1) = cs'.map (·.1)) : (runJ s cs).2 = (runJ s' cs').2 :=
  runJ_state_independent s s' cs cs' hcalls

/-- what a call returns does not depend on the calls that preceded it. -/
theorem history_prefix_irrelevant (s s' : JitState) (pre cs : List (Call × Bool)) :
    (runJ s (pre ++ cs)).2 = (runJ s pre).2 ++ (runJ s' cs).2 := runJ_append s s' pre cs

/-- a history of calls that are each safe for their helper returns, call by call, exactly what
    the pure Python path returns. -/
theorem history_eq_python (s : JitState) (cs : List (Call × Bool))
    (hsafe : ∀ c ∈ cs, ∀ xg ∈ chunks c.1.ids c.1.xs,
      numbaSafe c.1.helper (handleNa xg (c.1.drop && hasNa c.1.xs)) = true) :
    (runJ s cs).2 = cs.map (fun c => groupForm c.1.helper c.1.drop c.1.xs c.1.ids) :=
  runJ_eq_python s cs hsafe

end DI.C08

/-
  Proofs/C08.lean — property C08: Numba acceleration never changes aggregation results.
  Statements only; proofs cite Lemmas/Aggregate.lean.  These theorems are about the two
  *algorithms* (Python kernels vs Numba kernels as written); that Numba/LLVM executes the
  kernels as written, whatever was compiled before, is explored by the check, not proved.
-/
import Model.Numba
import Lemmas.Aggregate

namespace DI.C08

open DI.Agg

/-- nth / first / last: the explicit index range test equals try / except IndexError. -/
theorem nth_kernels_agree (xg : List Num) (i : Int) :
    (match nthNumba xg i with | some .missing => none | r => r) =
      (match nthOf xg i with | .missing => none | r => some r) := nthNumba_eq xg i

/-- mode: quadratic equality count + first argmax = statistics.mode, absent missing values. -/
theorem mode_kernels_agree (xg : List Num) (hna : hasNa xg = false) :
    modeNumba xg = (if xg.length ≥ 1 then some (modeOf xg) else none) := modeNumba_eq xg hna

/-- count_unique: np.unique = len(set(...)), absent missing values. -/
theorem count_unique_kernels_agree (xg : List Num) (d : Bool) (hna : hasNa xg = false) :
    countUniqueNumba xg = countUniqueOf d xg := countUniqueNumba_eq xg d hna

/-- USE_NUMBA on = off for every helper, column and group layout (for mode and set-based
    count_unique: whenever missing values are dropped or absent — with them present the two
    paths genuinely differ, see known_findings.json). -/
theorem numba_on_eq_off (h : Helper) (d : Bool) (xs : List Num) (ids : List Nat)
    (hlen : ids.length = xs.length)
    (hna : naSensitive h = true → (d = true ∨ hasNa xs = false)) :
    groupFormNumba h d xs ids = groupForm h d xs ids := numba_eq_python h d xs ids hlen hna

/-- the forced hypothesis is needed: with a NaN first in the group the kernels disagree. -/
theorem mode_with_missing_counterexample :
    modeNumba [none, none, some 2] ≠ (if ([none, none, some (2 : Rat)] : List Num).length ≥ 1
      then some (modeOf [none, none, some 2]) else none) := by decide

/-- specification for the JIT: results are independent of compile history and cache state
    (true by construction of the model: it states what the real JIT must refine). -/
theorem history_independent_spec (s s' : JitState) (c : Call) (cacheOn cacheOn' : Bool) :
    (stepJ s c cacheOn).2 = (stepJ s' c cacheOn').2 := history_independent s s' c cacheOn cacheOn'

end DI.C08

/-
  Proofs/TieC07.lean — obligations over `Generated/CodeC07.lean`, the translation of the *current* source of the pure-Python
  aggregation kernels of `dataiter/aggregate.py`: how a sorted column is cut into groups, where missing values are dropped,
  when the default is returned, and the kernels of the order-dependent helpers.
-/
import Generated.CodeC07

namespace DI.Tie.C07

open DI.Py DI.Gen

/-- the scan that cuts `x` into the maximal runs of equal `group` ids: for j = 1..n, a run `x[i:j]` ends where j = n or
    `group[j] != group[i]`; with `drop_na` the missing elements of THAT run are removed (after the cut, so a run can become
    empty but never merges with its neighbour); `emit` hands the run on; then i := j.  No rows ⇒ no run. -/
def groupScan (isNa emit : Term → Term) : Term :=
  Term.app "for" [Term.sym "j", Term.app "range" [Term.int 1, Term.app "Add" [Term.app "len" [Term.sym "x"], Term.int 1]], Term.app "block"
    [Term.app "if" [Term.app "And" [Term.app "Lt" [Term.sym "j", Term.app "len" [Term.sym "x"]],
        Term.app "Eq" [Term.app "getitem" [Term.sym "group", Term.sym "j"], Term.app "getitem" [Term.sym "group", Term.sym "i"]]],
      Term.app "block" [Term.sym "continue"], Term.app "block" []],
     Term.app "assign" [Term.sym "xij", Term.app "getitem" [Term.sym "x", Term.app "slice" [Term.sym "i", Term.sym "j"]]],
     Term.app "if" [Term.sym "drop_na", Term.app "block" [Term.app "assign" [Term.sym "xij",
        Term.app "getitem" [Term.sym "xij", Term.app "~" [isNa (Term.sym "xij")]]]], Term.app "block" []],
     emit (Term.sym "xij"),
     Term.app "assign" [Term.sym "i", Term.sym "j"]],
    Term.app "init" [Term.sym "i", Term.int 0]]

theorem yield_groups_code (truth : Term → Bool) :
    agg_yield_groups truth = Out.fall [groupScan (fun r => Term.app ".is_na" [r]) (fun r => Term.app "yield" [r])] := rfl

/-- the vector forms drop missing values with `x[~x.is_na()]` exactly when `drop_na` is set. -/
theorem handle_na_code (truth : Term → Bool) :
    agg_handle_na truth = Out.ret [] (if truth (Term.sym "drop_na")
      then Term.app "getitem" [Term.sym "x", Term.app "~" [Term.app ".is_na" [Term.sym "x"]]] else Term.sym "x") := rfl

/-- `for xg in yield_groups(x, group, drop_na): yield <value xg>`: one value per run, in run order. -/
def perGroup (value : Term) : Term :=
  Term.app "for" [Term.sym "xg", Term.app "yield_groups" [Term.sym "x", Term.sym "group", Term.sym "drop_na"],
    Term.app "block" [Term.app "yield" [value]]]

/-- `generic(function, **kwargs)`: the statistic of the run when it has at least `nrequired` elements (counted AFTER the
    drop), the default otherwise; the function sees the run itself (a view of the sorted column: it must not reorder it). -/
theorem generic_code (truth : Term → Bool) :
    agg_generic truth = Out.ret [] (Term.app "local-def" [Term.app "def" [Term.app "decorator" [Term.sym "deco.listify"], Term.sym "aggregate",
      Term.app "params" [Term.sym "x", Term.sym "group", Term.sym "drop_na", Term.sym "default", Term.sym "nrequired"],
      Term.app "block" [perGroup (Term.app "ifexp" [Term.app "GtE" [Term.app "len" [Term.sym "xg"], Term.sym "nrequired"],
        Term.app "function" [Term.sym "xg", Term.app "=**" [Term.sym "kwargs"]], Term.sym "default"])]]]) := rfl

/-- nth: `xg[index]` of the run itself — Python indexing, so a negative index counts from the end OF THE RUN and an index
    outside the run is an IndexError, turned into None (the missing value); no look into neighbouring runs. -/
theorem nth_apply_code (truth : Term → Bool) :
    agg_nth_apply truth = Out.fall [Term.app "for" [Term.sym "xg", Term.app "yield_groups" [Term.sym "x", Term.sym "group", Term.sym "drop_na"],
      Term.app "block" [Term.app "try" [Term.app "block" [Term.app "yield" [Term.app "getitem" [Term.sym "xg", Term.sym "index"]]],
        Term.app "except" [Term.sym "IndexError", Term.app "block" [Term.app "yield" [Term.sym "None"]]],
        Term.app "else" [Term.app "block" []], Term.app "finally" [Term.app "block" []]]]]] := rfl

/-- mode: `statistics.mode` of the run (the most common element, ties by FIRST occurrence in the run's order), None for an
    empty run; `mode1` falls back to `Counter.most_common(1)` (same tie rule) where `statistics.mode` refuses. -/
theorem mode_apply_code (truth : Term → Bool) :
    agg_mode_apply truth = Out.fall [perGroup (Term.app "ifexp" [Term.app "GtE" [Term.app "len" [Term.sym "xg"], Term.int 1],
      Term.app "mode1" [Term.sym "xg"], Term.sym "None"])] ∧
    agg_mode1 truth = Out.fall [Term.app "stmt" [Term.app "try" [Term.app "block" [Term.app "return" [Term.app "statistics.mode" [Term.sym "x"]]],
      Term.app "except" [Term.sym "statistics.StatisticsError", Term.app "block" [Term.app "return"
        [Term.app "getitem" [Term.app "getitem" [Term.app ".most_common" [Term.app "Counter" [Term.sym "x"], Term.int 1], Term.int 0], Term.int 0]]]],
      Term.app "else" [Term.app "block" []], Term.app "finally" [Term.app "block" []]]]] := ⟨rfl, rfl⟩

theorem count_unique_apply_code (truth : Term → Bool) :
    agg_count_unique_apply truth = Out.fall [perGroup (Term.app "len" [Term.app "set()" [Term.sym "xg"]])] := rfl

/-- quantile: NumPy's own `np.quantile(run, q)` (linear interpolation; a NaN in the run gives NaN), NaN for an empty run. -/
theorem quantile_apply_code (truth : Term → Bool) :
    agg_quantile_apply truth = Out.fall [perGroup (Term.app "ifexp" [Term.app "GtE" [Term.app "len" [Term.sym "xg"], Term.int 1],
      Term.app "np.quantile" [Term.sym "xg", Term.sym "q"], Term.sym "np.nan"])] := rfl

/-- implementation selection: `functions[use_numba(data[name])]` — index 0 = Python kernel, 1 = Numba kernel, decided per
    column by `use_numba` alone. -/
theorem select_code (truth : Term → Bool) :
    agg_select truth = Out.ret [] (Term.app "getitem" [Term.sym "functions", Term.app "use_numba" [Term.app "getitem" [Term.sym "data", Term.sym "name"]]]) := rfl

/-! ### vector forms: "fewer elements than the statistic needs" is counted after the missing values are dropped -/

def kept : Term := Term.app "handle_na" [Term.sym "x", Term.sym "drop_na"]

theorem std_var_vector_form (truth : Term → Bool) (h : truth (Term.app "isinstance" [Term.sym "x", Term.sym "str"]) = false) :
    agg_std truth = Out.ret [] (if truth (Term.app "GtE" [Term.app "len" [kept], Term.int 2])
      then Term.app ".item" [Term.app "np.std" [kept, Term.app "=ddof" [Term.sym "ddof"]]] else Term.sym "np.nan") ∧
    agg_var truth = Out.ret [] (if truth (Term.app "GtE" [Term.app "len" [kept], Term.int 2])
      then Term.app ".item" [Term.app "np.var" [kept, Term.app "=ddof" [Term.sym "ddof"]]] else Term.sym "np.nan") := by
  constructor
  · unfold agg_std; simp only [h, Bool.false_eq_true, if_false, kept]; rfl
  · unfold agg_var; simp only [h, Bool.false_eq_true, if_false, kept]; rfl

theorem median_sum_vector_form (truth : Term → Bool) (h : truth (Term.app "isinstance" [Term.sym "x", Term.sym "str"]) = false) :
    agg_median truth = Out.ret [] (if truth (Term.app "GtE" [Term.app "len" [kept], Term.int 1])
      then Term.app ".item" [Term.app "np.median" [kept]] else Term.sym "np.nan") ∧
    agg_sum truth = Out.ret [] (Term.app ".item" [Term.app "np.sum" [kept]]) := by
  constructor
  · unfold agg_median; simp only [h, Bool.false_eq_true, if_false, kept]; rfl
  · unfold agg_sum; simp only [h, Bool.false_eq_true, if_false, kept]

/-! ### group-wise forms: which kernel runs, with which arguments -/

def colX : Term := Term.app "getitem" [Term.sym "data", Term.sym "x"]
def dropIfAny : Term := Term.app "=drop_na" [Term.app "And" [Term.sym "drop_na", Term.app ".any" [Term.app ".is_na" [colX]]]]
def groupAware (body : List Term) : Out :=
  let f := Term.app "local-def" [Term.app "def" [Term.sym "aggregate", Term.app "params" [Term.sym "data"], Term.app "block" body]]
  Out.ret [Term.app "setattr" [f, Term.sym "group_aware", Term.sym "True"]] f

/-- **nth, group-wise**: ONE kernel pair for every column and every index — `select((nth_apply, nth_apply_numba), data, x)`
    called with the column, the group ids, the index, and `drop_na` only when asked for AND something is missing; no
    other path by dtype, index or shape. -/
theorem nth_group_form (truth : Term → Bool) (h : truth (Term.app "isinstance" [Term.sym "x", Term.sym "str"]) = true) :
    agg_nth truth = groupAware
      [Term.app "assign" [Term.sym "f", Term.app "tuple" [Term.sym "nth_apply", Term.sym "nth_apply_numba"]],
       Term.app "assign" [Term.sym "f", Term.app "select" [Term.sym "f", Term.sym "data", Term.sym "x"]],
       Term.app "store" [Term.sym "aggregate.default", Term.app ".na_value" [colX]],
       Term.app "return" [Term.app "call" [Term.sym "f", colX, Term.app "._group_" [Term.sym "data"], Term.sym "index", dropIfAny]]] := by
  unfold agg_nth
  simp only [h, if_true]
  rfl

/-- **median / sum, group-wise**: the generic kernel pair applied to NumPy's own function with no extra options (in
    particular nothing that lets the function reorder the run it is given); nrequired 1 / 0. -/
theorem median_sum_group_form (truth : Term → Bool) (h : truth (Term.app "isinstance" [Term.sym "x", Term.sym "str"]) = true) :
    agg_median truth = groupAware
      [Term.app "assign" [Term.sym "f", Term.app "tuple" [Term.sym "generic", Term.sym "generic_numba"]],
       Term.app "assign" [Term.sym "f", Term.app "call" [Term.app "select" [Term.sym "f", Term.sym "data", Term.sym "x"], Term.sym "np.median"]],
       Term.app "store" [Term.sym "aggregate.default", Term.sym "np.nan"],
       Term.app "return" [Term.app "call" [Term.sym "f", colX, Term.app "._group_" [Term.sym "data"], dropIfAny,
         Term.app "=default" [Term.sym "np.nan"], Term.app "=nrequired" [Term.int 1]]]] ∧
    agg_sum truth = groupAware
      [Term.app "assign" [Term.sym "f", Term.app "tuple" [Term.sym "generic", Term.sym "generic_numba"]],
       Term.app "assign" [Term.sym "f", Term.app "call" [Term.app "select" [Term.sym "f", Term.sym "data", Term.sym "x"], Term.sym "np.sum"]],
       Term.app "store" [Term.sym "aggregate.default", Term.int 0],
       Term.app "return" [Term.app "call" [Term.sym "f", colX, Term.app "._group_" [Term.sym "data"], dropIfAny,
         Term.app "=default" [Term.app ".type" [Term.app ".dtype" [colX], Term.int 0]], Term.app "=nrequired" [Term.int 0]]]] := by
  constructor
  · unfold agg_median; simp only [h, if_true]; rfl
  · unfold agg_sum; simp only [h, if_true]; rfl

end DI.Tie.C07

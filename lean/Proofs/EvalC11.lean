/-
  Proofs/EvalC11.lean — property C11, "code ⇒ semantics ⇒ model" for `Vector.rank`, `Vector.unique`, `Vector.sort`.

  `Generated/CodeC11.lean` is the translation of the current source; `Proofs/TieC11.lean` shows each body equal to a normal
  form — a TERM over NumPy calls (`np.unique(…, return_inverse=True)[1]`, `np.bincount`, `.cumsum()`, `np.concatenate`,
  `.argsort(kind='stable')`, `np.arange`, `np.zeros_like`, Boolean-mask reads and writes, `.sum()`, `.max()`, `len`,
  `np.unique(…, return_index=True)[1]`, `.sort()`, `[::-1]`); `Model/PyEvalArr.lean` gives those terms a meaning (`runOut`:
  the returned value or the raised exception; every NumPy primitive has its obvious list specification there — the trusted
  part).  Here, for EVERY data vector `xs : List (Option κ)` (any length, any pattern of missing values `none`, any ties),
  every order `C.le` on the non-missing values that is linear (`LinOrd`; `PreOrd` suffices for 'ordinal'), both places a raw
  NumPy sort may put the missing value (`C.naFirst`), every environment that binds `self` (and `method` / `dir`) and does
  not shadow the constant names of the body (`Unshadowed`), every interpretation `truth` of the symbolic tests that agrees
  with the evaluator (`Agrees`; satisfiable: `truthOf`, see the examples):

  * `rank_min_eval` / `rank_max_eval` / `rank_ordinal_eval`: evaluating the regenerated body of `Vector.rank` gives the
    model's `vrank` of that method — through both guards (empty vector; entirely missing vector replaced by a constant one)
    and the whole `unique-inverse / bincount / cumsum` resp. `argsort / inverse permutation` pipeline with its two masked
    assignments.  `…_direct`: the same result characterised directly (min = 1 + #non-missing strictly smaller, missing →
    #non-missing + 1; max = #non-missing ≤, missing → len; ordinal = position in the stable sort with the missing value
    last, + 1, i.e. ties and missing elements in position order);
  * `rank_empty_eval`, `rank_all_missing_eval` (all ties: min → all 1, max → all n, ordinal → 1..n), `rank_bad_method`
    (ValueError — for a NON-EMPTY vector: the empty one returns before the method is looked at);
  * `unique_eval`: the first occurrences, in position order (= `vunique` = `firstOcc`);
  * `sort_eval`: = `vsort`; `sort_asc_eval_stable`: ascending = THE stable sort with the missing value last;
    `sort_desc_eval_reversed`: descending = the non-missing part of the ascending result REVERSED (ties in reverse input
    order), then the missing elements; `sort_object_eval`: object vectors, `sorted(self, key=str, reverse=…)` staying a
    primitive (the model's `argsortPy` over a parameter order on the `str` images) = `vsortObj`;
  * `_optimize_for_argsort` is an arbitrary element-wise map `C.optKey` of the non-missing elements; all results are proved
    INDEPENDENT of it under `OptPreservesOrder C` (the optimised copy compares exactly as the original).  That hypothesis
    is forced: `sort_eval_needs_opt_counterexample` — with the map that drops a trailing NUL (what `astype("U<n>")` does:
    the known finding "trailing NUL characters") `["a\0", "a"].sort()` evaluates to `["a\0", "a"]`, not to the model's
    sorted `["a", "a\0"]`.

  Statements only; proofs cite `Lemmas/PyEvalArr.lean`.
-/
import Generated.CodeC11
import Model.PyEvalArr
import Lemmas.PyEvalArr
import Lemmas.Key
import Proofs.TieC11

namespace DI.Eval.C11

open DI DI.Py DI.Gen DI.PyEvalArr DI.Tie.C11

variable {κ : Type} [DecidableEq κ]

/-! ### rank -/

/-- **rank(method='min')**: code ⇒ semantics ⇒ model.  Evaluating the regenerated body (guards, `np.unique` inverse,
    `concatenate(([0], bincount(inv))).cumsum()[inv] + 1` written through `~na`, `(~na).sum() + 1` broadcast through `na`)
    gives the model's `vrank … .min`, whatever `_optimize_for_argsort` does as long as it preserves the order. -/
theorem rank_min_eval (C : Ctx κ) (hle : LinOrd C.le) (hopt : OptPreservesOrder C) (truth : Term → Bool) (env : Env κ)
    (xs : List (Option κ)) (hu : Unshadowed env) (hself : env.get? "self" = some (.keys xs))
    (hmeth : env.get? "method" = some (.name "'min'")) (hag : Agrees C env truth) (one : κ) :
    runOut C env (Vector_rank truth) = some (.val (.ints (vrank C.le one .min xs))) := by
  rw [rank_nf]; exact rank_min_run hle hopt hu hself hmeth hag one

/-- … characterised directly: a non-missing element gets 1 + the number of non-missing elements strictly smaller, every
    missing element (number of non-missing elements) + 1. -/
theorem rank_min_eval_direct (C : Ctx κ) (hle : LinOrd C.le) (hopt : OptPreservesOrder C) (truth : Term → Bool)
    (env : Env κ) (xs : List (Option κ)) (hu : Unshadowed env) (hself : env.get? "self" = some (.keys xs))
    (hmeth : env.get? "method" = some (.name "'min'")) (hag : Agrees C env truth) :
    runOut C env (Vector_rank truth) = some (.val (.ints (rankMinDirect C.le xs))) := by
  cases xs with
  | nil => rw [rank_nf]; exact rank_empty_run hself hu hag
  | cons x xs =>
    have one : κ := by
      cases x with
      | some a => exact a
      | none => exact C.ofNat 0
    rw [rank_min_eval C hle hopt truth env _ hu hself hmeth hag one, vrank_min_spec hle, rankMinSpec_eq_direct]

/-- **rank(method='max')**: code ⇒ semantics ⇒ model (`bincount(inv).cumsum()[inv]` through `~na`, `len(self)` through
    `na`). -/
theorem rank_max_eval (C : Ctx κ) (hle : LinOrd C.le) (hopt : OptPreservesOrder C) (truth : Term → Bool) (env : Env κ)
    (xs : List (Option κ)) (hu : Unshadowed env) (hself : env.get? "self" = some (.keys xs))
    (hmeth : env.get? "method" = some (.name "'max'")) (hag : Agrees C env truth) (one : κ) :
    runOut C env (Vector_rank truth) = some (.val (.ints (vrank C.le one .max xs))) := by
  rw [rank_nf]; exact rank_max_run hle hopt hu hself hmeth hag one

/-- … directly: a non-missing element gets the number of non-missing elements smaller or equal, every missing element the
    length of the vector. -/
theorem rank_max_eval_direct (C : Ctx κ) (hle : LinOrd C.le) (hopt : OptPreservesOrder C) (truth : Term → Bool)
    (env : Env κ) (xs : List (Option κ)) (hu : Unshadowed env) (hself : env.get? "self" = some (.keys xs))
    (hmeth : env.get? "method" = some (.name "'max'")) (hag : Agrees C env truth) :
    runOut C env (Vector_rank truth) = some (.val (.ints (rankMaxDirect C.le xs))) := by
  rw [rank_max_eval C hle hopt truth env xs hu hself hmeth hag (C.ofNat 0), vrank_max_spec hle,
    rankMaxSpec_eq_direct hle]

/-- **rank(method='ordinal')**: code ⇒ semantics ⇒ model (stable argsort of the non-missing elements, `rank[indices] =
    arange(len(indices)) + 1`, `rank` through `~na`, `rank.max() + arange(na.sum()) + 1` through `na`).  Totality and
    transitivity of the order suffice. -/
theorem rank_ordinal_eval (C : Ctx κ) (hle : PreOrd C.le) (hopt : OptPreservesOrder C) (truth : Term → Bool) (env : Env κ)
    (xs : List (Option κ)) (hu : Unshadowed env) (hself : env.get? "self" = some (.keys xs))
    (hmeth : env.get? "method" = some (.name "'ordinal'")) (hag : Agrees C env truth) (one : κ) :
    runOut C env (Vector_rank truth) = some (.val (.ints (vrank C.le one .ordinal xs))) := by
  rw [rank_nf]; exact rank_ordinal_run hle hopt hu hself hmeth hag one

/-- … directly: (1) the rank of position `i` is its place in THE stable sort with the missing value last, plus one — so
    ties are ranked in position order and the missing elements after all others, consecutively in position order; (2) the
    same counted out (`rankOrdSpec`, `Lemmas/VectorOrd.lean`): 1 + #strictly smaller + #earlier equivalent for a
    non-missing element, #non-missing + #earlier missing + 1 for a missing one. -/
theorem rank_ordinal_eval_direct (C : Ctx κ) (hle : PreOrd C.le) (hopt : OptPreservesOrder C) (truth : Term → Bool)
    (env : Env κ) (xs : List (Option κ)) (hu : Unshadowed env) (hself : env.get? "self" = some (.keys xs))
    (hmeth : env.get? "method" = some (.name "'ordinal'")) (hag : Agrees C env truth) :
    runOut C env (Vector_rank truth) = some (.val (.ints (invPermPlus1 (argsort (leNaLast C.le) xs))))
    ∧ runOut C env (Vector_rank truth) = some (.val (.ints (rankOrdSpec C.le xs))) := by
  rw [rank_ordinal_eval C hle hopt truth env xs hu hself hmeth hag (C.ofNat 0), vrank_ordinal_spec hle,
    ← rankOrdSpec_eq_invPerm hle]
  exact ⟨rfl, rfl⟩

/-- **rank of the empty vector**: the empty integer vector — whatever `method` is (it is not looked at). -/
theorem rank_empty_eval (C : Ctx κ) (truth : Term → Bool) (env : Env κ) (hu : Unshadowed env)
    (hself : env.get? "self" = some (.keys ([] : List (Option κ)))) (hag : Agrees C env truth) :
    runOut C env (Vector_rank truth) = some (.val (.ints [])) := by
  rw [rank_nf]; exact rank_empty_run hself hu hag

/-- **rank of an entirely missing vector** (`self = self.fast(np.repeat(1, n))`, then the ordinary pipeline on a constant
    vector): all ties — min → all 1, max → all n, ordinal → 1..n (position order). -/
theorem rank_all_missing_eval (C : Ctx κ) (hle : LinOrd C.le) (hopt : OptPreservesOrder C) (truth : Term → Bool)
    (env : Env κ) (n : Nat) (hu : Unshadowed env)
    (hself : env.get? "self" = some (.keys (List.replicate n (none : Option κ)))) (hag : Agrees C env truth) :
    (env.get? "method" = some (.name "'min'") →
      runOut C env (Vector_rank truth) = some (.val (.ints (List.replicate n 1))))
    ∧ (env.get? "method" = some (.name "'max'") →
      runOut C env (Vector_rank truth) = some (.val (.ints (List.replicate n n))))
    ∧ (env.get? "method" = some (.name "'ordinal'") →
      runOut C env (Vector_rank truth) = some (.val (.ints (List.range' 1 n)))) := by
  have h := vrank_all_missing hle (C.ofNat 0) n
  refine ⟨fun hm => ?_, fun hm => ?_, fun hm => ?_⟩
  · rw [rank_min_eval C hle hopt truth env _ hu hself hm hag (C.ofNat 0), h.1]
  · rw [rank_max_eval C hle hopt truth env _ hu hself hm hag (C.ofNat 0), h.2.1]
  · rw [rank_ordinal_eval C hle.pre hopt truth env _ hu hself hm hag (C.ofNat 0), h.2.2]

/-- **rank, unknown method**: a non-empty vector raises ValueError (nothing has been computed or written before).  The
    empty vector does NOT raise: `rank_empty_eval` holds for every `method`. -/
theorem rank_bad_method (C : Ctx κ) (truth : Term → Bool) (env : Env κ) (xs : List (Option κ)) (m : String)
    (hu : Unshadowed env) (hself : env.get? "self" = some (.keys xs)) (hmeth : env.get? "method" = some (.name m))
    (h1 : m ≠ "'min'") (h2 : m ≠ "'max'") (h3 : m ≠ "'ordinal'") (hag : Agrees C env truth) (hne : xs ≠ []) :
    runOut C env (Vector_rank truth) = some (.raise "ValueError") := by
  rw [rank_nf]; exact rank_bad_run hself hu hmeth h1 h2 h3 hag hne

/-! ### unique -/

/-- **unique**: code ⇒ semantics ⇒ model.  `np.unique(opt, return_index=True)[1]` (first position of every distinct value,
    in value order), sorted, read in `self`: the elements at the model's `vunique` positions. -/
theorem unique_eval (C : Ctx κ) (hle : LinOrd C.le) (hopt : OptPreservesOrder C) (truth : Term → Bool) (env : Env κ)
    (xs : List (Option κ)) (hu : Unshadowed env) (hself : env.get? "self" = some (.keys xs)) :
    runOut C env (Vector_unique truth) = some (.val (.keys (gather xs (vunique C.le C.naFirst xs)))) := by
  rw [unique_nf]; exact unique_run hle hopt hu hself

/-- … directly: the elements at the positions whose value did not occur earlier (the missing value being one value), in
    position order. -/
theorem unique_eval_first_occurrence (C : Ctx κ) (hle : LinOrd C.le) (hopt : OptPreservesOrder C) (truth : Term → Bool)
    (env : Env κ) (xs : List (Option κ)) (hu : Unshadowed env) (hself : env.get? "self" = some (.keys xs)) :
    runOut C env (Vector_unique truth) = some (.val (.keys (gather xs (firstOcc xs)))) := by
  rw [unique_eval C hle hopt truth env xs hu hself, vunique_eq_firstOcc hle]

/-! ### sort -/

/-- **sort** (every dtype but object): code ⇒ semantics ⇒ model.  `self[opt.argsort(kind='stable')]`, `[::-1]` when
    `dir < 0`, then `new[~na].concat(new[na])`: the elements at the model's `vsort` positions. -/
theorem sort_eval (C : Ctx κ) (hopt : OptPreservesOrder C) (truth : Term → Bool) (env : Env κ) (xs : List (Option κ))
    (d : Int) (hu : Unshadowed env) (hself : env.get? "self" = some (.keys xs)) (hdir : env.get? "dir" = some (.int d))
    (hobj : C.isObject = false) (hag : Agrees C env truth) :
    runOut C env (Vector_sort truth) = some (.val (.keys (gather xs (vsort C.le C.naFirst (decide (d < 0)) xs)))) := by
  rw [sort_nf]; exact sort_run hopt hu hself hdir hobj hag

/-- ascending: THE stable sort with the missing value last, wherever the raw NumPy sort puts the missing value. -/
theorem sort_asc_eval_stable (C : Ctx κ) (hle : PreOrd C.le) (hopt : OptPreservesOrder C) (truth : Term → Bool)
    (env : Env κ) (xs : List (Option κ)) (d : Int) (hd : 0 ≤ d) (hu : Unshadowed env)
    (hself : env.get? "self" = some (.keys xs)) (hdir : env.get? "dir" = some (.int d)) (hobj : C.isObject = false)
    (hag : Agrees C env truth) :
    runOut C env (Vector_sort truth) = some (.val (.keys (gather xs (argsort (leNaLast C.le) xs)))) := by
  have : decide (d < 0) = false := by simpa using hd
  rw [sort_eval C hopt truth env xs d hu hself hdir hobj hag, this, vsort_asc_eq_argsort hle]

/-- descending: the non-missing part of the ascending result REVERSED (equivalent elements therefore in reverse input
    order), then the missing elements. -/
theorem sort_desc_eval_reversed (C : Ctx κ) (hle : PreOrd C.le) (hopt : OptPreservesOrder C) (truth : Term → Bool)
    (env : Env κ) (xs : List (Option κ)) (d : Int) (hd : d < 0) (hu : Unshadowed env)
    (hself : env.get? "self" = some (.keys xs)) (hdir : env.get? "dir" = some (.int d)) (hobj : C.isObject = false)
    (hag : Agrees C env truth) :
    runOut C env (Vector_sort truth) = some (.val (.keys
      (((gather xs (argsort (leNaLast C.le) xs)).filter (fun y => !isNa y)).reverse
        ++ (gather xs (argsort (leNaLast C.le) xs)).filter isNa))) := by
  have : decide (d < 0) = true := by simpa using hd
  rw [sort_eval C hopt truth env xs d hu hself hdir hobj hag, this, vsort_desc_values, vsort_asc_eq_argsort hle]

/-- **sort of an object vector**: `sorted(self, key=str, reverse=dir < 0)` stays a PRIMITIVE of the semantics (the model's
    stable `argsortPy` over a parameter order `C.leStr` on the `str` images); the relocation of the missing elements is
    evaluated: the elements at the model's `vsortObj` positions. -/
theorem sort_object_eval (C : Ctx κ) (truth : Term → Bool) (env : Env κ) (xs : List (Option κ)) (d : Int)
    (hu : Unshadowed env) (hself : env.get? "self" = some (.keys xs)) (hdir : env.get? "dir" = some (.int d))
    (hobj : C.isObject = true) (hag : Agrees C env truth) :
    runOut C env (Vector_sort truth)
      = some (.val (.keys (gather xs (vsortObj C.leStr (decide (d < 0)) xs (xs.map isNa))))) := by
  rw [sort_nf]; exact sort_object_run hu hself hdir hobj hag

/-- with NO assumption on `_optimize_for_argsort`: the elements of `self` taken at the stable argsort of the optimised
    copy (`sortRaw`). -/
theorem sort_eval_partial (C : Ctx κ) (truth : Term → Bool) (env : Env κ) (xs : List (Option κ))
    (d : Int) (hu : Unshadowed env) (hself : env.get? "self" = some (.keys xs)) (hdir : env.get? "dir" = some (.int d))
    (hobj : C.isObject = false) (hag : Agrees C env truth) :
    runOut C env (Vector_sort truth) = some (.val (.keys (sortRaw C xs (decide (d < 0))))) := by
  rw [sort_nf]; exact sort_run_raw hu hself hdir hobj hag

/-! ### non-vacuity: the hypotheses are satisfiable, on a vector with a tie and two missing values -/

/-- integer cells, NaN-like missing value (sorted last by the raw sort), `_optimize_for_argsort` the identity. -/
def exC : Ctx Key :=
  { le := Key.le, naFirst := false, optKey := id, ofNat := fun n => .i n, isObject := false, leStr := leRaw Key.le false }

def exXs : List Cell := [some (.i 1), some (.i 1), none, none, some (.i 0), some (.i 5)]

def exEnv (m : String) (d : Int) : Env Key := [("self", .keys exXs), ("method", .name m), ("dir", .int d)]

theorem exC_opt : OptPreservesOrder exC := fun _ _ => rfl

theorem exEnv_unshadowed (m : String) (d : Int) : Unshadowed (exEnv m d) := by
  intro s hs
  simp only [constNames, List.mem_cons, List.not_mem_nil, or_false] at hs
  rcases hs with rfl | rfl | rfl | rfl | rfl | rfl | rfl | rfl | rfl | rfl <;> rfl

example : runOut exC (exEnv "'min'" 1) (Vector_rank (truthOf exC (exEnv "'min'" 1)))
    = some (.val (.ints [2, 2, 5, 5, 1, 4])) := by
  rw [rank_min_eval_direct exC Key.le_linOrd exC_opt _ _ exXs (exEnv_unshadowed _ _) rfl rfl (agrees_truthOf _ _)]
  decide

example : runOut exC (exEnv "'max'" 1) (Vector_rank (truthOf exC (exEnv "'max'" 1)))
    = some (.val (.ints [3, 3, 6, 6, 1, 4])) := by
  rw [rank_max_eval_direct exC Key.le_linOrd exC_opt _ _ exXs (exEnv_unshadowed _ _) rfl rfl (agrees_truthOf _ _)]
  decide

example : runOut exC (exEnv "'ordinal'" 1) (Vector_rank (truthOf exC (exEnv "'ordinal'" 1)))
    = some (.val (.ints [2, 3, 5, 6, 1, 4])) := by
  rw [(rank_ordinal_eval_direct exC Key.le_linOrd.pre exC_opt _ _ exXs (exEnv_unshadowed _ _) rfl rfl
    (agrees_truthOf _ _)).2]
  decide

example : runOut exC (exEnv "'average'" 1) (Vector_rank (truthOf exC (exEnv "'average'" 1)))
    = some (.raise "ValueError") :=
  rank_bad_method exC _ _ exXs "'average'" (exEnv_unshadowed _ _) rfl rfl (by decide) (by decide) (by decide)
    (agrees_truthOf _ _) (by decide)

example : runOut exC (exEnv "'min'" 1) (Vector_unique (truthOf exC (exEnv "'min'" 1)))
    = some (.val (.keys [some (.i 1), none, some (.i 0), some (.i 5)])) := by
  rw [unique_eval_first_occurrence exC Key.le_linOrd exC_opt _ _ exXs (exEnv_unshadowed _ _) rfl]
  decide

example : runOut exC (exEnv "'min'" 1) (Vector_sort (truthOf exC (exEnv "'min'" 1)))
    = some (.val (.keys [some (.i 0), some (.i 1), some (.i 1), some (.i 5), none, none])) := by
  rw [sort_eval exC exC_opt _ _ exXs 1 (exEnv_unshadowed _ _) rfl rfl rfl (agrees_truthOf _ _)]
  simp +decide [exC, exXs, vsort, argsort, sortPairs, gather, List.mergeSort, List.MergeSort.Internal.splitInTwo,
    List.zipIdx, leRaw, Key.le, isNa]

example : runOut exC (exEnv "'min'" (-1)) (Vector_sort (truthOf exC (exEnv "'min'" (-1))))
    = some (.val (.keys [some (.i 5), some (.i 1), some (.i 1), some (.i 0), none, none])) := by
  rw [sort_eval exC exC_opt _ _ exXs (-1) (exEnv_unshadowed _ _) rfl rfl rfl (agrees_truthOf _ _)]
  simp +decide [exC, exXs, vsort, argsort, sortPairs, gather, List.mergeSort, List.MergeSort.Internal.splitInTwo,
    List.zipIdx, leRaw, Key.le, isNa]

/-- an entirely missing vector: ordinal ranks 1, 2, 3. -/
example : runOut exC [("self", .keys [none, none, none]), ("method", .name "'ordinal'")]
    (Vector_rank (truthOf exC [("self", .keys [none, none, none]), ("method", .name "'ordinal'")]))
    = some (.val (.ints [1, 2, 3])) :=
  (rank_all_missing_eval exC Key.le_linOrd exC_opt _ _ 3
    (by intro s hs
        simp only [constNames, List.mem_cons, List.not_mem_nil, or_false] at hs
        rcases hs with rfl | rfl | rfl | rfl | rfl | rfl | rfl | rfl | rfl | rfl <;> rfl)
    rfl (agrees_truthOf _ _)).2.2 rfl

/-! ### `OptPreservesOrder` is forced: trailing NUL characters -/

/-- string cells (the blank string sorts first in a raw sort), `_optimize_for_argsort` dropping one trailing NUL: what
    the fixed-width copy `astype("U<n>")` does to `"a\0"`. -/
def nulC : Ctx Key :=
  { le := Key.le, naFirst := true,
    optKey := fun k => match k with | .s [97, 0] => .s [97] | k => k,
    ofNat := fun n => .i n, isObject := false, leStr := leRaw Key.le true }

/-- `["a\0", "a"]`. -/
def nulXs : List Cell := [some (.s [97, 0]), some (.s [97])]

def nulEnv : Env Key := [("self", .keys nulXs), ("dir", .int 1)]

/-- the optimised copy does not compare as the original … -/
theorem nulC_not_opt : ¬ OptPreservesOrder nulC := by
  intro h
  have := h (.s [97, 0]) (.s [97])
  revert this
  decide

/-- … and then the code does NOT compute the model's sort: `["a\0", "a"].sort()` evaluates to `["a\0", "a"]` (the two
    copies are equal, the stable argsort keeps the input order), while the model's `vsort` — the specification "sorted
    ascending" — gives `["a", "a\0"]`.  This is the known finding "trailing NUL characters". -/
theorem sort_eval_needs_opt_counterexample :
    runOut nulC nulEnv (Vector_sort (truthOf nulC nulEnv)) = some (.val (.keys [some (.s [97, 0]), some (.s [97])]))
    ∧ gather nulXs (vsort nulC.le nulC.naFirst false nulXs) = [some (.s [97]), some (.s [97, 0])] := by
  constructor
  · rw [sort_eval_partial nulC _ _ nulXs 1
      (by intro s hs
          simp only [constNames, List.mem_cons, List.not_mem_nil, or_false] at hs
          rcases hs with rfl | rfl | rfl | rfl | rfl | rfl | rfl | rfl | rfl | rfl <;> rfl)
      rfl rfl rfl (agrees_truthOf _ _)]
    simp +decide [sortRaw, optv, cle, nulC, nulXs, argsort, sortPairs, gather, List.mergeSort,
      List.MergeSort.Internal.splitInTwo, List.zipIdx, leRaw, Key.le, leCodes, isNa]
  · simp +decide [nulC, nulXs, vsort, argsort, sortPairs, gather, List.mergeSort,
      List.MergeSort.Internal.splitInTwo, List.zipIdx, leRaw, Key.le, leCodes, isNa]

end DI.Eval.C11

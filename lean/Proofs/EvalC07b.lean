/-
  Proofs/EvalC07b.lean — property C07, "code ⇒ semantics ⇒ model" for the PER-GROUP bodies of `dataiter/aggregate.py`:
  `nth_apply`, `mode_apply` / `mode1`, `count_unique_apply`, `quantile_apply`, `generic(function, **kwargs)`, `handle_na`.

  `Generated/CodeC07.lean` is the translation of the current sources; `Proofs/TieC07.lean` gives their normal forms;
  `Proofs/EvalC07.lean` gives the group scan `yield_groups` a meaning (`PyEvalScan.scan`) and proves it equal to the model's
  `Agg.chunks … |>.map handleNa`.  `Model/PyEvalAgg.lean` extends that evaluator to the statement forms of the bodies
  (`try` / `except IndexError`, the conditional expression, `set`, `Counter.most_common`, `statistics.mode`, calls of
  `yield_groups` / `mode1` / `handle_na` through the table of their TRANSLATED bodies, `funsOf`).  Here, for ALL columns
  (any element type), ALL group id lists at least as long as the column, both values of `drop_na`, any missing-value
  test, any interpretation `truth` of the translator:

  (a) `*_eval`: running the translated body yields, per run of the scan and in order, the stated value
      (`nthRun`, `modeRun`, `countUniqueRun`, `quantileRun`, `genericRun`); for sorted ids of the column's length that is
      one value per distinct id, ids ascending, computed from that id's elements in their original order, missing ones
      removed when `drop_na`;
  (b) `*_of_run`: what these values are — Python indexing with negative indices and `None` outside; the most frequent
      element, ties by first occurrence in the run's order (both for `statistics.mode` ≥ 3.8 and for the `except` branch
      of Python < 3.8), `None` for an empty run; the number of distinct elements;
  (c) `*_eq_model`: at the model's cells (`Option Rat`, `is_na` = "is none") the whole call equals the model's kernel on
      `Agg.chunks … |>.map handleNa`, i.e. `Agg.groupForm` when called with `drop_na and data[x].is_na().any()` as the
      closures do — so every theorem of `Proofs/C07.lean` about `groupForm` / `vectorForm` / the statistics is a theorem
      about the executed code (`apply_eq_vector_form`);
  (d) the instances of `generic` (all / any / count / min / max / mean / median / std / var / sum) with their
      `nrequired` and `default=` — read off the translated call sites (`generic_call_sites`) and the regenerated helper
      table (`generic_instances_match_helper_table`).

  One statement is FALSE at full strength and is given as `…_partial` + `…_counterexample`: `mode_apply` equals the
  model's mode only where the missing value is a single dict key, or is dropped, or is absent; with float NaN (every NaN
  object its own key) and `drop_na=False` Python's `Counter` counts each NaN once, the model's `modeOf` counts them
  together: `[1, NaN, NaN]` has mode 1 in the code and "missing" in the model.  (The correspondence harness treats mode
  with kept missing values as unspecified, so this is a limit of the model, not a defect of the library.)

  `np.quantile` stays a primitive: `Prims.quantile`; at the model instance it is `Agg.npQuantile`.
  Statements only; proofs cite `Lemmas/PyEvalAgg.lean`.
-/
import Generated.CodeC07
import Generated.HelperTable
import Model.PyEvalAgg
import Model.Aggregate
import Lemmas.PyEvalAgg
import Proofs.TieC07
import Proofs.EvalC07
import Proofs.C07

namespace DI.Eval.C07

open DI DI.Py DI.Gen DI.PyEvalAgg

/-- the function table read off the translated sources: the bodies of `yield_groups` and `mode1`, the result expression
    of `handle_na`. -/
def funsOf (truth : Term → Bool) : Funs where
  yieldGroups := (agg_yield_groups truth).effs
  mode1 := (agg_mode1 truth).effs
  handleNa := match agg_handle_na truth with
    | .ret _ t => t
    | _ => Term.sym "?"

/-- the translated bodies in the table are the terms the evaluation lemmas are about. -/
theorem funsOf_ok (truth : Term → Bool) : FunsOK (funsOf truth) :=
  ⟨by show (agg_yield_groups truth).effs = _; rw [Tie.C07.yield_groups_code]; rfl,
   by show (agg_mode1 truth).effs = _; rw [(Tie.C07.mode_apply_code truth).2]; rfl⟩

/-- the terms of `Proofs/TieC07.lean` are the terms evaluated here. -/
theorem perGroup_term (value : Term) : Tie.C07.perGroup value = PyEvalAgg.perGroup value := rfl

/-- the body of the closure `generic(function, **kwargs)` returns. -/
def genericBody (truth : Term → Bool) : List Term := (closureBody (agg_generic truth)).getD []

theorem genericBody_term (truth : Term → Bool) : genericBody truth = [PyEvalAgg.perGroup genericValue] := rfl

/-- the elements of group `id` (sorted ids) that the helpers see: in their original order, the missing ones removed when
    `drop_na`. -/
def groupOf {α : Type} (group : List Nat) (x : List α) (dropNa : Bool) (isNa : α → Bool) (id : Nat) : List α :=
  PyEvalScan.post dropNa isNa (PyEvalScan.pick id group x)

/-- **one result per group, in ascending id order**: for sorted ids of the column's length, a value computed per run of
    the scan is that value computed per distinct id from `groupOf`, and the ids come out strictly increasing. -/
theorem per_run_is_per_group {α β : Type} (group : List Nat) (x : List α) (hlen : group.length = x.length)
    (hs : group.Pairwise (· ≤ ·)) (dropNa : Bool) (isNa : α → Bool) (f : List α → β) :
    (PyEvalScan.scan group x dropNa isNa).map f = group.eraseDups.map (fun id => f (groupOf group x dropNa isNa id)) ∧
    group.eraseDups.Pairwise (· < ·) :=
  ⟨scan_map_sorted group x hlen hs dropNa isNa f, PyEvalScan.eraseDups_sorted group hs⟩

/-! ### handle_na -/

/-- **handle_na**: for a translator interpretation that reads `drop_na` as its value `d`, the translated `handle_na`
    returns the expression in the table, which evaluates to `x[~x.is_na()]` (`d = True`) / `x` itself (`d = False`); so
    does the call `handle_na(x, drop_na)` from another body; at the model's cells this is the model's `handleNa`. -/
theorem handle_na_eval {α ρ : Type} (truth : Term → Bool) (P : Prims α ρ) (x : List α) (d : Bool)
    (ht : truth (Term.sym "drop_na") = d) :
    agg_handle_na truth = Out.ret [] (funsOf truth).handleNa ∧
    evalE P call0 (funsOf truth).handleNa [("x", .vec x), ("drop_na", .bool d)] =
      some (.ok (.vec (PyEvalScan.post d P.scan.isNa x))) ∧
    evalE P (call1 P (funsOf truth)) (Term.app "handle_na" [Term.sym "x", Term.sym "drop_na"]) (args x [] d) =
      some (.ok (.vec (PyEvalScan.post d P.scan.isNa x))) ∧
    (∀ xs : List Agg.Num, PyEvalScan.post d (fun c : Agg.Num => c.isNone) xs = Agg.handleNa xs d) := by
  have hF : (funsOf truth).handleNa = handleNaTerm d := by
    show (match agg_handle_na truth with | .ret _ t => t | _ => Term.sym "?") = _
    rw [Tie.C07.handle_na_code, ht]; rfl
  refine ⟨by rw [Tie.C07.handle_na_code, hF, ht]; rfl, by rw [hF]; exact handleNa_eval P call0 x d,
    handleNa_call P _ x d hF _ rfl rfl, post_isNone d⟩

/-! ### nth (first = nth 0, last = nth -1) -/

/-- **nth_apply**: the translated `nth_apply(x, group, index, drop_na)` returns, per run of the scan and in order,
    `nthRun index run` — `run[index]`, `None` on IndexError (`nth_of_run`); for sorted ids: one value per group, ids
    ascending, from the group's elements in their original order (without the missing ones when `drop_na`). -/
theorem nth_apply_eval {α ρ : Type} (truth : Term → Bool) (P : Prims α ρ) (x : List α) (group : List Nat) (index : Int)
    (dropNa : Bool) (hlen : x.length ≤ group.length) :
    run P (funsOf truth) (agg_nth_apply truth).effs (nthArgs x group index dropNa) =
      some (.ok ((PyEvalScan.scan group x dropNa P.scan.isNa).map (nthRun index))) ∧
    (group.length = x.length → group.Pairwise (· ≤ ·) →
      (PyEvalScan.scan group x dropNa P.scan.isNa).map (nthRun (ρ := ρ) index) =
        group.eraseDups.map fun id => nthRun index (groupOf group x dropNa P.scan.isNa id)) := by
  rw [Tie.C07.nth_apply_code]
  exact ⟨nth_apply_run P _ (funsOf_ok truth) x group index dropNa hlen,
    fun h hs => scan_map_sorted group x h hs dropNa P.scan.isNa _⟩

/-- **what nth gives for one group**: index `0 ≤ i < len`: the element at `i`; `-len ≤ i < 0`: the element at `len + i`
    (counted from the end OF THE GROUP); any other index: `None` (→ the column's missing value); first = nth 0 is the
    head, last = nth (-1) the last element of a non-empty group. -/
theorem nth_of_run {α ρ : Type} (xs : List α) (i : Int) :
    (∀ (h0 : 0 ≤ i) (hlt : i < xs.length), nthRun (ρ := ρ) i xs = .elem (xs[i.toNat]'(by omega))) ∧
    (∀ (hneg : i < 0) (hge : -(xs.length : Int) ≤ i), nthRun (ρ := ρ) i xs = .elem (xs[(i + xs.length).toNat]'(by omega))) ∧
    ((xs.length : Int) ≤ i ∨ i < -(xs.length : Int) → nthRun (ρ := ρ) i xs = .pyNone) ∧
    (∀ hne : xs ≠ [], nthRun (ρ := ρ) 0 xs = .elem (xs.head hne) ∧ nthRun (ρ := ρ) (-1) xs = .elem (xs.getLast hne)) :=
  nthRun_spec xs i

/-- **nth_apply = the model**: at the model's cells the whole call is the model's nth kernel (`Agg.nthOf`, `None` →
    missing) on `chunks … |>.map handleNa`, for both values of `drop_na`; called as the closure of `nth` / `first` /
    `last` calls it, it is `Agg.groupForm (.nth index)`. -/
theorem nth_apply_eq_model (truth : Term → Bool) (naD strict : Bool) (fn : List Agg.Num → Option Agg.Res)
    (xs : List Agg.Num) (ids : List Nat) (hlen : ids.length = xs.length) (index : Int) :
    (∀ dn : Bool, resultsOf (.nth index) (run (modelPrims naD strict fn) (funsOf truth) (agg_nth_apply truth).effs
        (nthArgs xs ids index dn)) = some ((Agg.chunks ids xs).map fun xg => kd (.nth index) (Agg.handleNa xg dn))) ∧
    (∀ drop : Bool, resultsOf (.nth index) (run (modelPrims naD strict fn) (funsOf truth) (agg_nth_apply truth).effs
        (nthArgs xs ids index (drop && Agg.hasNa xs))) = some (Agg.groupForm (.nth index) drop xs ids)) := by
  rw [Tie.C07.nth_apply_code]
  exact ⟨fun dn => nth_apply_model _ (funsOf_ok truth) naD strict fn xs ids hlen index dn,
    fun drop => nth_apply_model _ (funsOf_ok truth) naD strict fn xs ids hlen index _⟩

/-! ### mode -/

/-- **mode1**: on a non-empty `x` the translated `mode1` returns the first most common key of `Counter(x)`
    (`modeRun`) — via `statistics.mode` (CPython ≥ 3.8: `Counter(iter(x)).most_common(1)[0][0]`) or, when that raises
    StatisticsError on a tie (`strictMode`, Python < 3.8), via the `except` branch `Counter(x).most_common(1)[0][0]`:
    the same value for both; on an empty `x` it raises IndexError (`mode_apply` never calls it so). -/
theorem mode1_eval {α ρ : Type} (truth : Term → Bool) (P : Prims α ρ) (x : List α) :
    (x ≠ [] → execFun P (agg_mode1 truth).effs [("x", .vec x)] = some (.ok (modeRun P.keyEq x))) ∧
    execFun P (agg_mode1 truth).effs [("x", .vec ([] : List α))] = some (.raised "IndexError") := by
  rw [(Tie.C07.mode_apply_code truth).2]
  exact ⟨mode1_exec P x, mode1_exec_nil P⟩

/-- **mode_apply**: the translated `mode_apply(x, group, drop_na)` returns, per run of the scan and in order,
    `modeRun keyEq run` (`mode_of_run`); for sorted ids: one value per group, ids ascending. -/
theorem mode_apply_eval {α ρ : Type} (truth : Term → Bool) (P : Prims α ρ) (x : List α) (group : List Nat)
    (dropNa : Bool) (hlen : x.length ≤ group.length) :
    run P (funsOf truth) (agg_mode_apply truth).effs (args x group dropNa) =
      some (.ok ((PyEvalScan.scan group x dropNa P.scan.isNa).map (modeRun P.keyEq))) ∧
    (group.length = x.length → group.Pairwise (· ≤ ·) →
      (PyEvalScan.scan group x dropNa P.scan.isNa).map (modeRun (ρ := ρ) P.keyEq) =
        group.eraseDups.map fun id => modeRun P.keyEq (groupOf group x dropNa P.scan.isNa id)) := by
  rw [(Tie.C07.mode_apply_code truth).1]
  exact ⟨mode_apply_run P _ (funsOf_ok truth) x group dropNa hlen,
    fun h hs => scan_map_sorted group x h hs dropNa P.scan.isNa _⟩

/-- **what mode gives for one group**, when the dict-key equality is equality on the group's elements: `None` (→ the
    column's missing value) for an empty group; otherwise an element `m` of the group that no value outnumbers, and every
    other equally frequent value first occurs AFTER `m`'s first occurrence in the group's original order; this determines
    `m` uniquely. -/
theorem mode_of_run {α ρ : Type} [BEq α] [LawfulBEq α] (keyEq : α → α → Bool) (xs : List α)
    (hkey : ∀ a ∈ xs, ∀ b ∈ xs, (keyEq a b = true ↔ a = b)) :
    (xs = [] → modeRun (ρ := ρ) keyEq xs = .pyNone) ∧
    (xs ≠ [] → ∃ m, modeRun (ρ := ρ) keyEq xs = .elem m ∧ m ∈ xs ∧ (∀ y, xs.count y ≤ xs.count m) ∧
      (∀ y ∈ xs, y ≠ m → xs.count y = xs.count m → xs.idxOf m < xs.idxOf y) ∧
      (∀ m', ModeSpec xs m' → m' = m)) := by
  obtain ⟨h1, h2⟩ := modeRun_spec (ρ := ρ) keyEq xs hkey
  refine ⟨h1, fun hne => ?_⟩
  obtain ⟨m, hm, hs⟩ := h2 hne
  exact ⟨m, hm, hs.1, hs.2.1, hs.2.2, fun m' hs' => modeSpec_unique xs m' m hs' hs⟩

/-- **mode_apply = the model (partial)**: at the model's cells the whole call is the model's mode kernel (`Agg.modeOf`,
    empty → missing) on `chunks … |>.map handleNa` PROVIDED the missing value is one dict key (`naD = false`: string /
    object columns), or is dropped, or does not occur; hence `Agg.groupForm .mode` under `naD = false ∨ drop ∨ no NA`. -/
theorem mode_apply_eq_model_partial (truth : Term → Bool) (naD strict : Bool) (fn : List Agg.Num → Option Agg.Res)
    (xs : List Agg.Num) (ids : List Nat) (hlen : ids.length = xs.length) :
    (∀ dn : Bool, naD = false ∨ dn = true ∨ Agg.hasNa xs = false →
      resultsOf .mode (run (modelPrims naD strict fn) (funsOf truth) (agg_mode_apply truth).effs (args xs ids dn)) =
        some ((Agg.chunks ids xs).map fun xg => kd .mode (Agg.handleNa xg dn))) ∧
    (∀ drop : Bool, naD = false ∨ drop = true ∨ Agg.hasNa xs = false →
      resultsOf .mode (run (modelPrims naD strict fn) (funsOf truth) (agg_mode_apply truth).effs
        (args xs ids (drop && Agg.hasNa xs))) = some (Agg.groupForm .mode drop xs ids)) := by
  rw [(Tie.C07.mode_apply_code truth).1]
  refine ⟨fun dn h => mode_apply_model _ (funsOf_ok truth) naD strict fn xs ids hlen dn h,
    fun drop h => mode_apply_model _ (funsOf_ok truth) naD strict fn xs ids hlen _ ?_⟩
  rcases h with h | h | h
  · exact Or.inl h
  · cases hna : Agg.hasNa xs with
    | true => exact Or.inr (Or.inl (by rw [h]; rfl))
    | false => exact Or.inr (Or.inr rfl)
  · exact Or.inr (Or.inr h)

/-- **mode_apply ≠ the model's `modeOf` with kept NaN (counterexample)**: one group `[1, NaN, NaN]`, `drop_na=False`,
    NaN objects distinct dict keys: the code's `Counter` has three keys of count 1 and the first one, 1, is the mode;
    the model counts the two NaN together and answers "missing". -/
theorem mode_apply_eq_model_counterexample :
    resultsOf .mode (run (modelPrims true false (fun _ => none)) (funsOf (fun _ => true))
      (agg_mode_apply (fun _ => true)).effs (args [some 1, none, none] [0, 0, 0] false)) = some [.val 1] ∧
    Agg.groupForm .mode false [some 1, none, none] [0, 0, 0] = [.missing] := by decide

/-! ### count_unique -/

/-- **count_unique_apply**: the translated `count_unique_apply(x, group, drop_na)` returns, per run of the scan and in
    order, `len(set(run))` (`count_unique_of_run`); for sorted ids: one value per group, ids ascending. -/
theorem count_unique_apply_eval {α ρ : Type} (truth : Term → Bool) (P : Prims α ρ) (x : List α) (group : List Nat)
    (dropNa : Bool) (hlen : x.length ≤ group.length) :
    run P (funsOf truth) (agg_count_unique_apply truth).effs (args x group dropNa) =
      some (.ok ((PyEvalScan.scan group x dropNa P.scan.isNa).map (countUniqueRun P.keyEq))) ∧
    (group.length = x.length → group.Pairwise (· ≤ ·) →
      (PyEvalScan.scan group x dropNa P.scan.isNa).map (countUniqueRun (ρ := ρ) P.keyEq) =
        group.eraseDups.map fun id => countUniqueRun P.keyEq (groupOf group x dropNa P.scan.isNa id)) := by
  rw [Tie.C07.count_unique_apply_code]
  exact ⟨count_unique_apply_run P _ (funsOf_ok truth) x group dropNa hlen,
    fun h hs => scan_map_sorted group x h hs dropNa P.scan.isNa _⟩

/-- **what count_unique gives for one group**, for a lawful set-key equality: the number of distinct elements — the
    length of the duplicate-free list of the group's elements in order of first occurrence (which `set(run)` is). -/
theorem count_unique_of_run {α ρ : Type} [BEq α] [LawfulBEq α] (keyEq : α → α → Bool) (hkey : Lawful keyEq) (xs : List α) :
    pySet keyEq xs = xs.eraseDups ∧
    countUniqueRun (ρ := ρ) keyEq xs = .int xs.eraseDups.length ∧ xs.eraseDups.Nodup ∧ (∀ a, a ∈ xs.eraseDups ↔ a ∈ xs) :=
  ⟨pySet_lawful hkey xs, countUniqueRun_spec keyEq hkey xs⟩

/-- **count_unique_apply = the model**: at the model's cells, with the model's two kinds of missing value (`naD`: NaN
    objects pairwise distinct in a set / one key), the whole call is `Agg.countUniqueOf naD` on
    `chunks … |>.map handleNa`, for both values of `drop_na`; as the closure calls it: `Agg.groupForm (.countUnique naD)`. -/
theorem count_unique_apply_eq_model (truth : Term → Bool) (naD strict : Bool) (fn : List Agg.Num → Option Agg.Res)
    (xs : List Agg.Num) (ids : List Nat) (hlen : ids.length = xs.length) :
    (∀ dn : Bool, resultsOf (.countUnique naD) (run (modelPrims naD strict fn) (funsOf truth)
        (agg_count_unique_apply truth).effs (args xs ids dn)) =
      some ((Agg.chunks ids xs).map fun xg => kd (.countUnique naD) (Agg.handleNa xg dn))) ∧
    (∀ drop : Bool, resultsOf (.countUnique naD) (run (modelPrims naD strict fn) (funsOf truth)
        (agg_count_unique_apply truth).effs (args xs ids (drop && Agg.hasNa xs))) =
      some (Agg.groupForm (.countUnique naD) drop xs ids)) := by
  rw [Tie.C07.count_unique_apply_code]
  exact ⟨fun dn => count_unique_apply_model _ (funsOf_ok truth) naD strict fn xs ids hlen dn,
    fun drop => count_unique_apply_model _ (funsOf_ok truth) naD strict fn xs ids hlen _⟩

/-! ### quantile (`np.quantile` a primitive) -/

/-- **quantile_apply**: the translated `quantile_apply(x, group, q, drop_na)` returns, per run of the scan and in order,
    the primitive `np.quantile(run, q)` for a run with at least one element and `np.nan` for an empty one; for sorted
    ids: one value per group, ids ascending. -/
theorem quantile_apply_eval {α ρ : Type} (truth : Term → Bool) (P : Prims α ρ) (x : List α) (group : List Nat) (q : ρ)
    (dropNa : Bool) (hlen : x.length ≤ group.length) :
    run P (funsOf truth) (agg_quantile_apply truth).effs (quantileArgs x group q dropNa) =
      some (.ok ((PyEvalScan.scan group x dropNa P.scan.isNa).map fun xg =>
        if 1 ≤ xg.length then Val.res (P.quantile xg q) else Val.nan)) ∧
    (group.length = x.length → group.Pairwise (· ≤ ·) →
      (PyEvalScan.scan group x dropNa P.scan.isNa).map (quantileRun P.quantile q) =
        group.eraseDups.map fun id => quantileRun P.quantile q (groupOf group x dropNa P.scan.isNa id)) := by
  rw [Tie.C07.quantile_apply_code]
  exact ⟨quantile_apply_run P _ (funsOf_ok truth) x group q dropNa hlen,
    fun h hs => scan_map_sorted group x h hs dropNa P.scan.isNa _⟩

/-- **quantile_apply = the model**, with `np.quantile` read as the model's `Agg.npQuantile` (linear interpolation at
    `(n − 1) q`, characterised in `Proofs/C07.lean`). -/
theorem quantile_apply_eq_model (truth : Term → Bool) (naD strict : Bool) (fn : List Agg.Num → Option Agg.Res)
    (xs : List Agg.Num) (ids : List Nat) (hlen : ids.length = xs.length) (q : Rat) :
    (∀ dn : Bool, resultsOf (.quantile q) (run (modelPrims naD strict fn) (funsOf truth)
        (agg_quantile_apply truth).effs (quantileArgs xs ids (.val q) dn)) =
      some ((Agg.chunks ids xs).map fun xg => kd (.quantile q) (Agg.handleNa xg dn))) ∧
    (∀ drop : Bool, resultsOf (.quantile q) (run (modelPrims naD strict fn) (funsOf truth)
        (agg_quantile_apply truth).effs (quantileArgs xs ids (.val q) (drop && Agg.hasNa xs))) =
      some (Agg.groupForm (.quantile q) drop xs ids)) := by
  rw [Tie.C07.quantile_apply_code]
  exact ⟨fun dn => quantile_apply_model _ (funsOf_ok truth) naD strict fn xs ids hlen q dn,
    fun drop => quantile_apply_model _ (funsOf_ok truth) naD strict fn xs ids hlen q _⟩

/-! ### generic -/

/-- **generic**: the closure `generic(function, **kwargs)` returns, run on `(x, group, drop_na, default, nrequired)`,
    yields per run of the scan and in order `function(run, **kwargs)` when the run has at least `nrequired` elements
    (counted AFTER the drop) and `default` otherwise; `function` is never called on a shorter run, and the call fails
    exactly when `function` raises on a run it is called on; for a `function` that does not raise there, the list of
    results; for sorted ids: one value per group, ids ascending. -/
theorem generic_eval {α ρ : Type} (truth : Term → Bool) (P : Prims α ρ) (x : List α) (group : List Nat) (dropNa : Bool)
    (default : Val α ρ) (nrequired : Int) (hlen : x.length ≤ group.length) :
    closureBody (agg_generic truth) = some (genericBody truth) ∧
    run P (funsOf truth) (genericBody truth) (genericArgs x group dropNa default nrequired) =
      (allSome ((PyEvalScan.scan group x dropNa P.scan.isNa).map fun xg =>
        if nrequired ≤ (xg.length : Int) then (P.function xg).map Val.res else some default)).map Ans.ok ∧
    (∀ fn : List α → ρ,
      (∀ r ∈ PyEvalScan.scan group x dropNa P.scan.isNa, nrequired ≤ (r.length : Int) → P.function r = some (fn r)) →
      run P (funsOf truth) (genericBody truth) (genericArgs x group dropNa default nrequired) =
        some (.ok ((PyEvalScan.scan group x dropNa P.scan.isNa).map fun xg =>
          if nrequired ≤ (xg.length : Int) then Val.res (fn xg) else default))) ∧
    (∀ f : List α → Option (Val α ρ), group.length = x.length → group.Pairwise (· ≤ ·) →
      (PyEvalScan.scan group x dropNa P.scan.isNa).map f =
        group.eraseDups.map fun id => f (groupOf group x dropNa P.scan.isNa id)) :=
  ⟨rfl, generic_run P _ (funsOf_ok truth) x group dropNa default nrequired hlen,
   fun fn hfn => generic_run_total P _ (funsOf_ok truth) fn x group dropNa default nrequired hlen hfn,
   fun f h hs => scan_map_sorted group x h hs dropNa P.scan.isNa f⟩

/-- the keyword argument `name=…` in an argument list. -/
def kwarg (name : String) : List Term → Option Term
  | [] => none
  | .app f [t] :: rest => if f = "=" ++ name then some t else kwarg name rest
  | _ :: rest => kwarg name rest

/-- the arguments of the `return f(…)` that ends the closure `aggregate(data)` a helper returns for a column name. -/
def kernelCallArgs : Out → Option (List Term)
  | .ret _ (.app "local-def" [.app "def" [_, _, .app "block" body]]) =>
    match body.getLast? with
    | some (.app "return" [.app "call" (_ :: as)]) => some as
    | some (.app "return" [.app "f" as]) => some as
    | _ => none
  | _ => none

/-- `(default=, nrequired=)` of that call. -/
def defaultAndNrequired (o : Out) : Option (Term × Term) :=
  (kernelCallArgs o).bind fun as => (kwarg "default" as).bind fun d => (kwarg "nrequired" as).map fun n => (d, n)

/-- **the instances as written**: in the translated closures of `median`, `sum`, `std`, `var` the generic kernel is
    called with `default=np.nan, nrequired=1` / `default=data[x].dtype.type(0), nrequired=0` /
    `default=np.nan, nrequired=2` (twice), and these terms evaluate to the values of `genericInst`
    (`np.nan`, the integers; the zero of the column's dtype is read as the number 0). -/
theorem generic_call_sites {α ρ : Type} (truth : Term → Bool)
    (h : truth (Term.app "isinstance" [Term.sym "x", Term.sym "str"]) = true) (P : Prims α ρ) (env : Env α ρ) :
    defaultAndNrequired (agg_median truth) = some (Term.sym "np.nan", Term.int 1) ∧
    defaultAndNrequired (agg_sum truth) =
      some (Term.app ".type" [Term.app ".dtype" [Tie.C07.colX], Term.int 0], Term.int 0) ∧
    defaultAndNrequired (agg_std truth) = some (Term.sym "np.nan", Term.int 2) ∧
    defaultAndNrequired (agg_var truth) = some (Term.sym "np.nan", Term.int 2) ∧
    evalE P call0 (Term.sym "np.nan") env = some (.ok .nan) ∧
    (∀ n : Int, evalE P call0 (Term.int n) env = some (.ok (.int n))) ∧
    (genericInst .median).map (·.2) = some (1, .nan) ∧ (genericInst .sum).map (·.2) = some (0, .res (.val 0)) ∧
    (∀ ddof, (genericInst (.std ddof)).map (·.2) = some (2, .nan) ∧ (genericInst (.var ddof)).map (·.2) = some (2, .nan)) := by
  refine ⟨?_, ?_, ?_, ?_, by simp [evalE], fun n => by simp [evalE], rfl, rfl, fun _ => ⟨rfl, rfl⟩⟩
  · rw [(Tie.C07.median_sum_group_form truth h).1]; rfl
  · rw [(Tie.C07.median_sum_group_form truth h).2]; rfl
  · unfold agg_std; simp only [h, if_true]; rfl
  · unfold agg_var; simp only [h, if_true]; rfl

/-- the other instances (`all`, `any`, `count`, `min`, `max`, `mean`) are not translated; their `nrequired` and the NumPy
    function in `genericInst` are those of the regenerated helper table (`Generated/HelperTable.lean`), as are the four
    above. -/
theorem generic_instances_match_helper_table :
    ∀ p ∈ [("all", "np.all", Agg.Helper.all), ("any", "np.any", .any), ("count", "len", .count),
        ("min", "np.amin", .min), ("max", "np.amax", .max), ("mean", "np.mean", .mean), ("median", "np.median", .median),
        ("std", "np.std", .std 0), ("var", "np.var", .var 0), ("sum", "np.sum", .sum)],
      ∃ row ∈ helperTable, row.name = p.1 ∧ row.kernel = "generic/generic_numba:" ++ p.2.1 ∧
        (genericInst p.2.2).map (·.2.1) = some row.nrequired := by decide

/-- **the instances of generic = the model**: for every helper the library builds from `generic` (`genericInst`: all /
    any / count / min / max / mean / median / std / var / sum with its NumPy function read as the model's `np*`, its
    `nrequired` and its `default=`), the closure body run on `(x, group, drop_na, default, nrequired)` is the model's
    kernel of that helper on `chunks … |>.map handleNa` (`None` → `aggregate.default`), for both values of `drop_na`; as
    the helper's closure calls it: `Agg.groupForm h`. -/
theorem generic_instances_eq_model (truth : Term → Bool) (naD strict : Bool) (h : Agg.Helper)
    (fn : List Agg.Num → Agg.Res) (n : Int) (dv : Val Agg.Num Agg.Res) (hi : genericInst h = some (fn, n, dv))
    (xs : List Agg.Num) (ids : List Nat) (hlen : ids.length = xs.length) :
    (∀ dn : Bool, resultsOf h (run (modelPrims naD strict (fun xg => some (fn xg))) (funsOf truth) (genericBody truth)
        (genericArgs xs ids dn dv n)) = some ((Agg.chunks ids xs).map fun xg => kd h (Agg.handleNa xg dn))) ∧
    (∀ drop : Bool, resultsOf h (run (modelPrims naD strict (fun xg => some (fn xg))) (funsOf truth) (genericBody truth)
        (genericArgs xs ids (drop && Agg.hasNa xs) dv n)) = some (Agg.groupForm h drop xs ids)) :=
  ⟨fun dn => generic_model _ (funsOf_ok truth) naD strict h fn n dv hi xs ids hlen dn,
   fun _ => generic_model _ (funsOf_ok truth) naD strict h fn n dv hi xs ids hlen _⟩

/-- the seven instances named in the property, spelled out: sum (0, zero), mean / median (1, NaN), min / max
    (1, `None` → the column's missing value), std / var (2, NaN). -/
theorem sum_mean_min_max_median_std_var_eq_model (truth : Term → Bool) (naD strict : Bool) (ddof : Nat)
    (xs : List Agg.Num) (ids : List Nat) (hlen : ids.length = xs.length) (drop : Bool) :
    let call := fun (h : Agg.Helper) (fn : List Agg.Num → Agg.Res) (n : Int) (dv : Val Agg.Num Agg.Res) =>
      resultsOf h (run (modelPrims naD strict (fun xg => some (fn xg))) (funsOf truth) (genericBody truth)
        (genericArgs xs ids (drop && Agg.hasNa xs) dv n))
    call .sum Agg.npSum 0 (.res (.val 0)) = some (Agg.groupForm .sum drop xs ids) ∧
    call .mean Agg.npMean 1 .nan = some (Agg.groupForm .mean drop xs ids) ∧
    call .min Agg.npMin 1 .pyNone = some (Agg.groupForm .min drop xs ids) ∧
    call .max Agg.npMax 1 .pyNone = some (Agg.groupForm .max drop xs ids) ∧
    call .median Agg.npMedian 1 .nan = some (Agg.groupForm .median drop xs ids) ∧
    call (.std ddof) (Agg.npStd ddof) 2 .nan = some (Agg.groupForm (.std ddof) drop xs ids) ∧
    call (.var ddof) (Agg.npVar ddof) 2 .nan = some (Agg.groupForm (.var ddof) drop xs ids) :=
  ⟨generic_model _ (funsOf_ok truth) naD strict .sum _ _ _ rfl xs ids hlen _,
   generic_model _ (funsOf_ok truth) naD strict .mean _ _ _ rfl xs ids hlen _,
   generic_model _ (funsOf_ok truth) naD strict .min _ _ _ rfl xs ids hlen _,
   generic_model _ (funsOf_ok truth) naD strict .max _ _ _ rfl xs ids hlen _,
   generic_model _ (funsOf_ok truth) naD strict .median _ _ _ rfl xs ids hlen _,
   generic_model _ (funsOf_ok truth) naD strict (.std ddof) _ _ _ rfl xs ids hlen _,
   generic_model _ (funsOf_ok truth) naD strict (.var ddof) _ _ _ rfl xs ids hlen _⟩

/-! ### the theorems of Proofs/C07.lean transfer to the executed code -/

/-- **the executed kernels compute the vector form per group**: composing the lifts with
    `DI.C07.group_form_eq_vector_form`, what the translated kernels return (after `None` → default) is, group by group,
    the helper's vector form `di.<helper>(vector)` on exactly that group's elements — for nth, count_unique, quantile and
    every instance of generic; and so every characterisation of `Proofs/C07.lean` (`nth_nonneg_index`,
    `count_unique_is_number_of_distinct`, `median_odd_length`, `variance_formula`, …) speaks about the executed code. -/
theorem apply_eq_vector_form (truth : Term → Bool) (naD strict : Bool) (xs : List Agg.Num) (ids : List Nat)
    (hlen : ids.length = xs.length) (drop : Bool) (index : Int) (q : Rat) :
    resultsOf (.nth index) (run (modelPrims naD strict (fun _ => none)) (funsOf truth) (agg_nth_apply truth).effs
        (nthArgs xs ids index (drop && Agg.hasNa xs))) =
      some ((Agg.chunks ids xs).map fun xg => Agg.vectorForm (.nth index) drop xg) ∧
    resultsOf (.countUnique naD) (run (modelPrims naD strict (fun _ => none)) (funsOf truth)
        (agg_count_unique_apply truth).effs (args xs ids (drop && Agg.hasNa xs))) =
      some ((Agg.chunks ids xs).map fun xg => Agg.vectorForm (.countUnique naD) drop xg) ∧
    resultsOf (.quantile q) (run (modelPrims naD strict (fun _ => none)) (funsOf truth)
        (agg_quantile_apply truth).effs (quantileArgs xs ids (.val q) (drop && Agg.hasNa xs))) =
      some ((Agg.chunks ids xs).map fun xg => Agg.vectorForm (.quantile q) drop xg) ∧
    (∀ (h : Agg.Helper) (fn : List Agg.Num → Agg.Res) (n : Int) (dv : Val Agg.Num Agg.Res),
      genericInst h = some (fn, n, dv) → ((h = .all ∨ h = .any) → drop = false) →
      resultsOf h (run (modelPrims naD strict (fun xg => some (fn xg))) (funsOf truth) (genericBody truth)
        (genericArgs xs ids (drop && Agg.hasNa xs) dv n)) =
      some ((Agg.chunks ids xs).map fun xg => Agg.vectorForm h drop xg)) := by
  refine ⟨?_, ?_, ?_, ?_⟩
  · rw [(nth_apply_eq_model truth naD strict _ xs ids hlen index).2 drop,
      DI.C07.group_form_eq_vector_form _ drop xs ids hlen (by simp)]
  · rw [(count_unique_apply_eq_model truth naD strict _ xs ids hlen).2 drop,
      DI.C07.group_form_eq_vector_form _ drop xs ids hlen (by simp)]
  · rw [(quantile_apply_eq_model truth naD strict _ xs ids hlen q).2 drop,
      DI.C07.group_form_eq_vector_form _ drop xs ids hlen (by simp)]
  · intro h fn n dv hi hall
    rw [(generic_instances_eq_model truth naD strict h fn n dv hi xs ids hlen).2 drop,
      DI.C07.group_form_eq_vector_form h drop xs ids hlen hall]

/-! ### non-vacuity: concrete runs of the translated bodies -/

/-- optional naturals, `is_na` = "is None", set / dict keys compared by `==`; `function` = the sum of the present
    elements, `np.quantile` replaced by a stand-in (`q` + the length of the run). -/
def exAgg (strict : Bool) : Prims (Option Nat) Nat :=
  { scan := ⟨fun c => c.isNone, fun c => c.isNone⟩, keyEq := fun a b => a == b,
    function := fun xs => some (xs.filterMap id).sum, quantile := fun xs q => q + xs.length, strictMode := strict }

/-- NaN-like keys: a missing element is a key different from every key. -/
def exAggNaN : Prims (Option Nat) Nat :=
  { exAgg false with keyEq := fun a b => a.isSome && a == b }

/-- nth: two groups `[1, NA | 3, 4]`: last (index −1) with and without the drop, index 1 with the drop (out of range in
    the first group ⇒ None), index −3 (out of range in both). -/
example :
    run (exAgg false) (funsOf fun _ => true) (agg_nth_apply fun _ => true).effs
      (nthArgs [some 1, none, some 3, some 4] [0, 0, 1, 1] (-1) false) = some (.ok [.elem none, .elem (some 4)]) ∧
    run (exAgg false) (funsOf fun _ => true) (agg_nth_apply fun _ => true).effs
      (nthArgs [some 1, none, some 3, some 4] [0, 0, 1, 1] (-1) true) = some (.ok [.elem (some 1), .elem (some 4)]) ∧
    run (exAgg false) (funsOf fun _ => true) (agg_nth_apply fun _ => true).effs
      (nthArgs [some 1, none, some 3, some 4] [0, 0, 1, 1] 1 true) = some (.ok [.pyNone, .elem (some 4)]) ∧
    run (exAgg false) (funsOf fun _ => true) (agg_nth_apply fun _ => true).effs
      (nthArgs [some 1, none, some 3, some 4] [0, 0, 1, 1] (-3) false) = some (.ok [.pyNone, .pyNone]) :=
  ⟨by decide, by decide, by decide, by decide⟩

/-- mode: a tie `2, 1, 1, 2` ⇒ the value met first (2), under both `statistics.mode` behaviours; a group whose only
    element is missing: dropped ⇒ empty ⇒ None; kept ⇒ the missing value itself. -/
example :
    run (exAgg false) (funsOf fun _ => true) (agg_mode_apply fun _ => true).effs
      (args [some 2, some 1, some 1, some 2, none] [0, 0, 0, 0, 1] true) = some (.ok [.elem (some 2), .pyNone]) ∧
    run (exAgg true) (funsOf fun _ => true) (agg_mode_apply fun _ => true).effs
      (args [some 2, some 1, some 1, some 2, none] [0, 0, 0, 0, 1] true) = some (.ok [.elem (some 2), .pyNone]) ∧
    run (exAgg true) (funsOf fun _ => true) (agg_mode_apply fun _ => true).effs
      (args [some 2, some 1, some 1, some 2, none] [0, 0, 0, 0, 1] false) = some (.ok [.elem (some 2), .elem none]) ∧
    execFun (exAgg true) (agg_mode1 fun _ => true).effs [("x", .vec [some 2, some 1, some 1, some 2])] =
      some (.ok (.elem (some 2))) :=
  ⟨by decide, by decide, by decide, by decide⟩

/-- count_unique: groups `[1, 1, NA | 2, NA, NA]`: missing kept as one key (2, 2), as distinct NaN keys (2, 3), dropped
    (1, 1). -/
example :
    run (exAgg false) (funsOf fun _ => true) (agg_count_unique_apply fun _ => true).effs
      (args [some 1, some 1, none, some 2, none, none] [0, 0, 0, 1, 1, 1] false) = some (.ok [.int 2, .int 2]) ∧
    run exAggNaN (funsOf fun _ => true) (agg_count_unique_apply fun _ => true).effs
      (args [some 1, some 1, none, some 2, none, none] [0, 0, 0, 1, 1, 1] false) = some (.ok [.int 2, .int 3]) ∧
    run (exAgg false) (funsOf fun _ => true) (agg_count_unique_apply fun _ => true).effs
      (args [some 1, some 1, none, some 2, none, none] [0, 0, 0, 1, 1, 1] true) = some (.ok [.int 1, .int 1]) :=
  ⟨by decide, by decide, by decide⟩

/-- quantile: the primitive on the non-empty run, `np.nan` for the group emptied by the drop. -/
example :
    run (exAgg false) (funsOf fun _ => true) (agg_quantile_apply fun _ => true).effs
      (quantileArgs [some 1, some 5, none] [0, 0, 1] 7 true) = some (.ok [.res 9, .nan]) ∧
    run (exAgg false) (funsOf fun _ => true) (agg_quantile_apply fun _ => true).effs
      (quantileArgs [some 1, some 5, none] [0, 0, 1] 7 false) = some (.ok [.res 9, .res 8]) :=
  ⟨by decide, by decide⟩

/-- generic: `function` = sum, `nrequired = 2`, `default = np.nan`: groups `[1, 5 | NA, 2]`: the second group has one
    element after the drop ⇒ default; with the missing value kept it has two. -/
example :
    run (exAgg false) (funsOf fun _ => true) (genericBody fun _ => true)
      (genericArgs [some 1, some 5, none, some 2] [0, 0, 1, 1] true .nan 2) = some (.ok [.res 6, .nan]) ∧
    run (exAgg false) (funsOf fun _ => true) (genericBody fun _ => true)
      (genericArgs [some 1, some 5, none, some 2] [0, 0, 1, 1] false .nan 2) = some (.ok [.res 6, .res 2]) ∧
    run { exAgg false with function := fun xs => if xs.length < 2 then none else some 0 } (funsOf fun _ => true)
      (genericBody fun _ => true) (genericArgs [some 1, some 5, none, some 2] [0, 0, 1, 1] true .nan 1) = none :=
  ⟨by decide, by decide, by decide⟩

/-- handle_na, and the model instance on rational cells: nth / mode / count_unique of two groups with a tie and a
    missing value equal `Agg.groupForm`. -/
example :
    evalE (exAgg false) call0 (funsOf fun _ => true).handleNa [("x", .vec [some 1, none, some 3]), ("drop_na", .bool true)] =
      some (.ok (.vec [some 1, some 3])) ∧
    resultsOf (.nth (-1)) (run (modelPrims true false fun _ => none) (funsOf fun _ => true) (agg_nth_apply fun _ => true).effs
      (nthArgs [some 2, some 1, some 1, some 2, none] [0, 0, 0, 0, 1] (-1) true)) =
      some (Agg.groupForm (.nth (-1)) true [some 2, some 1, some 1, some 2, none] [0, 0, 0, 0, 1]) ∧
    resultsOf .mode (run (modelPrims true false fun _ => none) (funsOf fun _ => true) (agg_mode_apply fun _ => true).effs
      (args [some 2, some 1, some 1, some 2, none] [0, 0, 0, 0, 1] true)) = some [.val 2, .missing] ∧
    Agg.groupForm .mode true [some 2, some 1, some 1, some 2, none] [0, 0, 0, 0, 1] = [.val 2, .missing] ∧
    resultsOf (.countUnique true) (run (modelPrims true false fun _ => none) (funsOf fun _ => true)
      (agg_count_unique_apply fun _ => true).effs (args [some 2, some 1, none, none] [0, 0, 0, 0] false)) = some [.nat 4] :=
  ⟨by decide, by decide, by decide, by decide, by decide⟩

end DI.Eval.C07

/-
  Proofs/EvalC14b.lean — "code ⇒ semantics ⇒ model" for `ListOfDicts.read_csv(keys=…, types=…)` (C14), the reader that
  `Proofs/EvalC14.lean` left with an evaluator but no theorem; and examples on the EVALUATORS of `from_json`.
  Statements only; the proofs are in `Lemmas/PyEvalReadCsv.lean`.

  FINDINGS (every Python claim checked against the real library, `cd /tmp && PYTHONPATH=/repo /venv/bin/python`):
  * THE EVALUATOR `evalLodReadCsv` OF `Model/PyEvalRead.lean` IS WRONG for `keys` on a file with two or more data rows: the
    translator inlines the assigned local `drop` into the loop, and the evaluator recomputes it for every row from
    `len(rows[0])` — but `rows[0]` has already been shortened.  `a,b,c / 1,2,3 / 4,5,6`, `keys=["c"]`: evaluator `{c:3},{c:5}`,
    Python `{c:3},{c:6}` (`lod_read_csv_eval_counterexample`).  The Python code is right; the evaluator's own comment says
    `drop` "is evaluated once".  `evalLodReadCsvOnce` (`Lemmas/PyEvalReadCsv.lean`) does that (value bound to the variable
    `drop`, everything else the same term and the same `evalE` / `execS`); the theorems below are about IT; the old evaluator
    is right without `keys` (`lod_read_csv_eval_partial`) and with one data row (`lod_read_csv_eval_partial_one_row`).  On 300
    random files (ragged ones, absent names, both `header=`) `evalLodReadCsvOnce` agrees with the library on all, IndexError
    included; `evalLodReadCsv` disagrees on 23.
  * the kept names come out in the order of the HEADER, not of the request; a requested name that does not occur is silently
    ignored (`keys=["zz"]` gives one EMPTY dict per row — whereas `keys=[]` gives everything).
  * `drop` is computed from the width of the FIRST DATA ROW, not of the header: a header-only file with `keys` raises
    IndexError (without `keys` it gives `[]`); a first data row wider than the header raises IndexError; a first data row
    NARROWER than the header leaves the positions beyond its width undropped in the later rows, whose values then land under
    the WRONG NAME (`a,b,c / 1 / 4,5,6`, `keys=["a","c"]`: `{a:4, c:5}`); a later row too short for a dropped position raises
    IndexError; cells beyond the header's width are silently ignored.
  * `types`: after the restriction, in the order of `types`, each conversion over all dicts in file order, applied to the
    cell TEXT (a str, never None; an empty cell is ""); a `types` key that is not a kept name is silently skipped (the
    `dtypes` of `DataFrame.from_json` raise KeyError there).
  * a header with a repeated name: Python's `dict(zip(…))` keeps ONE entry (the last value); the evaluator's `dict()` keeps
    both pairs (`lod_read_csv_dup_header_discrepancy`) — the theorems describe the library for headers of distinct names.
-/
import Model.PyEvalRead
import Lemmas.PyEvalRead
import Lemmas.PyEvalReadCsv
import Proofs.C14
import Proofs.EvalC14

namespace DI.Eval.C14

open DI DI.Py DI.Read DI.PyEvalRead

variable {β : Type}

/-! ### toy files -/

/-- a file of lines, `header=`, `keys=`, no `types`; generated names a, b, c, … -/
def csvCtx (lines : List (List String)) (header : Bool) (keys : List String)
    (convs : List (String × ConvFn String) := []) : Ctx String :=
  { input := .other, loads := fun _ => none, fileText := "", csvLines := lines, ofStr := id,
    genNames := fun n => ["a", "b", "c", "d", "e"].take n, header := header, columns := keys, casts := [], convs := convs }

/-! ### the evaluator of `Model/PyEvalRead.lean` recomputes `drop` -/

/-- **COUNTEREXAMPLE (to the evaluator, not to the library).**  Rectangular file `a,b,c / 1,2,3 / 4,5,6`, `keys=["c"]`:
    `evalLodReadCsv` puts `5` under `c` in the second row; the evaluator that evaluates `drop` once, the model and the
    library (`[{'c': '3'}, {'c': '6'}]`) say `6`. -/
theorem lod_read_csv_eval_counterexample :
    let ctx := csvCtx [["a", "b", "c"], ["1", "2", "3"], ["4", "5", "6"]] true ["c"]
    evalLodReadCsv ctx = some [[("c", "3")], [("c", "5")]] ∧
    evalLodReadCsvOnce ctx = some [[("c", "3")], [("c", "6")]] ∧
    csvRestricted ["a", "b", "c"] [["1", "2", "3"], ["4", "5", "6"]] ["c"] = [[("c", "3")], [("c", "6")]] := by decide

/-- **`lod_read_csv_eval_partial`** — the evaluator of `Model/PyEvalRead.lean` IS right when no `keys` are given (then there
    is no `drop`), for EVERY file, ragged ones included: one dict per data row, `zip(colnames, row)` (stops at the shorter),
    then the conversions. -/
theorem lod_read_csv_eval_partial (ctx : Ctx β) (names : List String) (rows : List (List String))
    (hf : CsvFile ctx names rows) (hk : ctx.columns = []) :
    evalLodReadCsv ctx = ctx.convs.foldlM convStep (rows.map fun cs => names.zip (cs.map ctx.ofStr)) ∧
    evalLodReadCsv ctx = evalLodReadCsvOnce ctx := by
  rw [evalLodReadCsv_nokeys ctx names rows hf hk, evalLodReadCsvOnce_nokeys ctx names rows hf hk]
  exact ⟨rfl, rfl⟩

/-- **`lod_read_csv_eval_partial_one_row`** — … and with `keys` when there is exactly ONE data row (not wider than the header):
    the recomputation of `drop` then sees the same `rows[0]`.  With two or more data rows it is wrong as soon as a dropped
    name precedes a kept one (`lod_read_csv_eval_counterexample`). -/
theorem lod_read_csv_eval_partial_one_row (ctx : Ctx β) (names r0 : List String) (hf : CsvFile ctx names [r0])
    (hk : ctx.columns ≠ []) (hw : r0.length ≤ names.length) : evalLodReadCsv ctx = evalLodReadCsvOnce ctx :=
  evalLodReadCsv_eq_once_one ctx names r0 hf hk hw

example : evalLodReadCsv (csvCtx [["a", "b", "c"], ["1", "2", "3"]] true ["c", "a"]) = some [[("a", "1"), ("c", "3")]] := by decide

/-- no line at all: `cls([])` for both evaluators, whatever `header`, `keys`, `types`. -/
theorem lod_read_csv_empty_file (ctx : Ctx β) (h : ctx.csvLines = []) :
    evalLodReadCsvOnce ctx = some [] ∧ evalLodReadCsv ctx = some [] :=
  ⟨evalLodReadCsvOnce_empty ctx h, evalLodReadCsv_empty ctx h⟩

/-! ### `ListOfDicts.read_csv`, `drop` evaluated once -/

/-- **`lod_read_csv_eval`** — for every header line `names` and every list of data rows each as wide as the header
    (`CsvFile`: with `header=True` the file is `names :: rows`; with `header=False` it is `rows`, non-empty, and `names` are
    the names generated for the width of its first row), EVERY `keys` (any subset, any order, names that do not occur;
    with `keys` there must be a data row), no `types`: the model's `csvRestricted`, every cell embedded by `ofStr`. -/
theorem lod_read_csv_eval (ctx : Ctx β) (names : List String) (rows : List (List String)) (hf : CsvFile ctx names rows)
    (hrect : ∀ r ∈ rows, r.length = names.length) (hne : rows ≠ [] ∨ ctx.columns = []) (ht : ctx.convs = []) :
    evalLodReadCsvOnce ctx = some ((csvRestricted names rows ctx.columns).map (embedRec ctx.ofStr)) := by
  rw [evalLodReadCsvOnce_rect ctx names rows hf hrect hne, ht]; rfl

/-- … which is, row by row: the pairs (name, cell) of the row whose name is requested, in the order of the HEADER (not of
    the request); a requested name that the header does not have contributes nothing (`Proofs/C14.lean`,
    `csv_keys_restriction`). -/
theorem lod_read_csv_kept (names : List String) (rows : List (List String)) (keys : List String) (hk : keys ≠ [])
    (hrect : ∀ r ∈ rows, r.length = names.length) :
    csvRestricted names rows keys = rows.map fun row => (names.zip row).filter fun p => keys.contains p.1 := by
  rw [csvRestricted_is_filter names rows keys hk hrect]
  simp [csvRestricted]

/-- the keys of every dict of the result: the requested names that occur, in HEADER order. -/
theorem lod_read_csv_names_order (names : List String) (rows : List (List String)) (keys : List String) (hk : keys ≠ [])
    (hrect : ∀ r ∈ rows, r.length = names.length) (r : Rec String) (hr : r ∈ csvRestricted names rows keys) :
    r.map (·.1) = names.filter fun k => keys.contains k :=
  csvRestricted_names names rows keys hk hrect r hr

/-- with `keys`, ANY file whose first data row is not wider than the header (ragged rows allowed): `drop` = the positions
    below the width of the FIRST data row whose name is not requested; every data row loses them back to front
    (`eraseAllM`: IndexError = `none` when the row of the moment is too short); the names are the requested ones in header
    order; `zip` stops at the shorter; then the conversions.  The rectangular theorem is the special case. -/
theorem lod_read_csv_eval_general (ctx : Ctx β) (names : List String) (rows : List (List String))
    (hf : CsvFile ctx names rows) (hk : ctx.columns ≠ []) (r0 : List String) (rest : List (List String))
    (hR : rows = r0 :: rest) (hw : r0.length ≤ names.length) :
    evalLodReadCsvOnce ctx =
      (allM (fun cs => eraseAllM cs ((List.range r0.length).filter fun i => !ctx.columns.contains (names.getD i "")).reverse)
        rows).bind fun rows' => ctx.convs.foldlM convStep
          (rows'.map fun cs => (names.filter fun k => ctx.columns.contains k).zip (cs.map ctx.ofStr)) :=
  evalLodReadCsvOnce_keys ctx names rows hf hk r0 rest hR hw

/-- **`lod_read_csv_restrict_is_select_after`** (model): the restricted result = the unrestricted result with every item cut
    down to the requested keys — each value under its own name. -/
theorem lod_read_csv_restrict_is_select_after (names : List String) (rows : List (List String)) (keys : List String)
    (hk : keys ≠ []) (hrect : ∀ r ∈ rows, r.length = names.length) :
    csvRestricted names rows keys = (csvRestricted names rows []).map fun r => r.filter fun p => keys.contains p.1 :=
  csvRestricted_is_filter names rows keys hk hrect

/-- … and on the evaluator: reading with `keys` = reading the same file without `keys`, then cutting every item down. -/
theorem lod_read_csv_restrict_is_select_after_eval (ctx : Ctx β) (names : List String) (rows : List (List String))
    (hf : CsvFile ctx names rows) (hrect : ∀ r ∈ rows, r.length = names.length) (hne : rows ≠ []) (hk : ctx.columns ≠ [])
    (ht : ctx.convs = []) :
    evalLodReadCsvOnce ctx =
      (evalLodReadCsvOnce { ctx with columns := [] }).map fun l => l.map fun r => r.filter fun p => ctx.columns.contains p.1 := by
  have hf' : CsvFile { ctx with columns := [] } names rows := hf
  rw [lod_read_csv_eval ctx names rows hf hrect (Or.inl hne) ht,
    lod_read_csv_eval { ctx with columns := [] } names rows hf' hrect (Or.inr rfl) ht,
    csvRestricted_is_filter names rows ctx.columns hk hrect]
  simp only [Option.map_some, List.map_map]
  congr 2
  funext r
  exact (embedRec_filter ctx.ofStr ctx.columns r).symm

/-- **`lod_read_csv_types`** — with `types`: the conversions run AFTER the restriction, in the order of `types`, each one over
    all dicts in file order (`convStep` = `allM convRec`; one failing conversion fails the read), on the restricted dicts. -/
theorem lod_read_csv_types (ctx : Ctx β) (names : List String) (rows : List (List String)) (hf : CsvFile ctx names rows)
    (hrect : ∀ r ∈ rows, r.length = names.length) (hne : rows ≠ [] ∨ ctx.columns = []) :
    evalLodReadCsvOnce ctx = ctx.convs.foldlM convStep ((csvRestricted names rows ctx.columns).map (embedRec ctx.ofStr)) :=
  evalLodReadCsvOnce_rect ctx names rows hf hrect hne

/-- the values the conversions see are cell TEXTS (`ofStr s`): never `None`, an empty cell is the empty text. -/
theorem lod_read_csv_cells_are_strings (ofStr : String → β) (names : List String) (rows : List (List String))
    (keys : List String) (r : Rec β) (hr : r ∈ (csvRestricted names rows keys).map (embedRec ofStr)) (p : String × β)
    (hp : p ∈ r) : ∃ s, p.2 = ofStr s := by
  obtain ⟨r', _, rfl⟩ := List.mem_map.mp hr
  obtain ⟨q, _, rfl⟩ := List.mem_map.mp hp
  exact ⟨q.2, rfl⟩

/-- a `types` key that is not a key of the dict (dropped by `keys`, or not in the header) is skipped — no KeyError … -/
theorem lod_read_csv_types_absent (k : String) (f : ConvFn β) (r : Rec β) (h : k ∉ r.map (·.1)) :
    convRec (k, f) r = some r := convRec_absent k f r h

/-- … one that is has its value replaced in place by the converted one (the read fails when the conversion does). -/
theorem lod_read_csv_types_present (k : String) (f : ConvFn β) (r : Rec β) (v : β) (h : lookup r k = some v) :
    convRec (k, f) r = (f v).map fun v' => Dict.set r k v' := convRec_present k f r v h

/-! ### non-vacuity, and the evaluator on concrete files (each line = what the library answers) -/

example : CsvFile (csvCtx [["a", "b", "c"], ["1", "2", "3"], ["4", "5", "6"]] true ["c", "zz", "a"])
    ["a", "b", "c"] [["1", "2", "3"], ["4", "5", "6"]] := Or.inl ⟨rfl, rfl⟩
example : CsvFile (csvCtx [["1", "2", "3"], ["4", "5", "6"]] false ["c", "zz", "a"])
    ["a", "b", "c"] [["1", "2", "3"], ["4", "5", "6"]] := Or.inr ⟨rfl, rfl, _, _, rfl, rfl⟩

/-- a permuted request with an absent name: header order, the absent name ignored; `header=False` the same with a, b, c. -/
example : evalLodReadCsvOnce (csvCtx [["a", "b", "c"], ["1", "2", "3"], ["4", "5", "6"]] true ["c", "zz", "a"]) =
    some [[("a", "1"), ("c", "3")], [("a", "4"), ("c", "6")]] := by decide
example : evalLodReadCsvOnce (csvCtx [["1", "2", "3"], ["4", "5", "6"]] false ["c", "zz", "a"]) =
    some [[("a", "1"), ("c", "3")], [("a", "4"), ("c", "6")]] := by decide
/-- only absent names: one EMPTY dict per row. -/
example : evalLodReadCsvOnce (csvCtx [["a", "b", "c"], ["1", "2", "3"], ["4", "5", "6"]] true ["zz"]) = some [[], []] := by decide
/-- `types`: in the order of `types` (b before a), a name that is not kept (`q`) skipped. -/
example : evalLodReadCsvOnce (csvCtx [["a", "b"], ["1", "2"], ["3", "4"]] true ["b", "a"]
      [("b", fun s => some ("B" ++ s)), ("a", fun s => some ("A" ++ s)), ("q", fun _ => none)]) =
    some [[("a", "A1"), ("b", "B2")], [("a", "A3"), ("b", "B4")]] := by decide
/-- a failing conversion (ValueError) fails the read. -/
example : evalLodReadCsvOnce (csvCtx [["a", "b"], ["1", "2"], ["3", "x"]] true []
      [("b", fun s => if s == "x" then none else some s)]) = none := by decide

/-! ### outside the hypotheses (all on the evaluator; Python's answer in the comment) -/

/-- a header-only file: `[]` without `keys`, IndexError (`rows[0]`) with `keys`. -/
theorem lod_read_csv_header_only_counterexample :
    evalLodReadCsvOnce (csvCtx [["a", "b", "c"]] true []) = some [] ∧
    evalLodReadCsvOnce (csvCtx [["a", "b", "c"]] true ["c"]) = none ∧
    evalLodReadCsvOnce (csvCtx [] true ["c"]) = some [] := by decide

/-- a row SHORTER than a dropped position: IndexError ("list assignment index out of range"); but a short row that still has
    every dropped position just gives a shorter dict (`1,2,3 / 4,5`, no header, `keys=["c"]`: `{c:3}, {}`). -/
theorem lod_read_csv_short_row_counterexample :
    evalLodReadCsvOnce (csvCtx [["a", "b", "c"], ["1", "2", "3"], ["4"]] true ["a"]) = none ∧
    evalLodReadCsvOnce (csvCtx [["1", "2", "3"], ["4", "5"]] false ["c"]) = some [[("c", "3")], []] := by decide

/-- a FIRST data row shorter than the header: `drop` only looks at its width, the later rows keep the cells beyond it, and a
    value lands under the WRONG NAME — `a,b,c / 1 / 4,5,6`, `keys=["a","c"]`: Python `[{'a': '1'}, {'a': '4', 'c': '5'}]`;
    the model `csvRestricted` (which zips header and row first) says `c: 6`. -/
theorem lod_read_csv_short_first_row_counterexample :
    evalLodReadCsvOnce (csvCtx [["a", "b", "c"], ["1"], ["4", "5", "6"]] true ["a", "c"]) =
      some [[("a", "1")], [("a", "4"), ("c", "5")]] ∧
    csvRestricted ["a", "b", "c"] [["1"], ["4", "5", "6"]] ["a", "c"] = [[("a", "1")], [("a", "4"), ("c", "6")]] := by decide

/-- a row LONGER than the header: a later one has its extra cells ignored (with and without `keys`); a FIRST data row longer
    than the header raises IndexError (`colnames[i]`) with `keys`. -/
theorem lod_read_csv_long_row_counterexample :
    evalLodReadCsvOnce (csvCtx [["a", "b", "c"], ["1", "2", "3"], ["4", "5", "6", "7"]] true ["c"]) =
      some [[("c", "3")], [("c", "6")]] ∧
    evalLodReadCsvOnce (csvCtx [["a", "b", "c"], ["1", "2", "3"], ["4", "5", "6", "7"]] true []) =
      some [[("a", "1"), ("b", "2"), ("c", "3")], [("a", "4"), ("b", "5"), ("c", "6")]] ∧
    evalLodReadCsvOnce (csvCtx [["a", "b", "c"], ["1", "2", "3", "9"], ["4", "5", "6"]] true ["c"]) = none := by decide

/-- DISCREPANCY evaluator / library: a header with a repeated name.  Python: `[{'a': '2'}]` (a dict holds a name once, the
    last value wins); the evaluator's `dict(zip(…))` keeps both pairs. -/
theorem lod_read_csv_dup_header_discrepancy :
    evalLodReadCsvOnce (csvCtx [["a", "a"], ["1", "2"]] true []) = some [[("a", "1"), ("a", "2")]] := by decide

/-! ### `from_json` of both classes, on the EVALUATOR: ragged records, an absent requested name, a permuted request -/

def jsonCtx (columns : List String) : Ctx Nat :=
  { input := .text "toy", loads := fun s => if s == "toy" then some (.records toyRecs) else none, fileText := "toy",
    csvLines := [], ofStr := fun _ => 0, genNames := fun _ => [], header := true, columns := columns, casts := [], convs := [] }

/-- `DataFrame.from_json(columns=["c","a","zz"])`: columns in FILE order (first-seen union: b, a, c), `zz` ignored, `None` where
    a record lacks the key. -/
example : evalDfFromJson (jsonCtx ["c", "a", "zz"]) =
    some [("a", ColV.list [some 2, some 0, some 5]), ("c", ColV.list [none, some 3, none])] := by decide
example : evalDfFromJson (jsonCtx ["zz"]) = some [] := by decide
example : evalDfFromJson (jsonCtx []) =
    some [("b", ColV.list [some 1, none, some 6]), ("a", ColV.list [some 2, some 0, some 5]),
      ("c", ColV.list [none, some 3, none])] := by decide
/-- the list of records given directly (not a text). -/
example : evalDfFromJson { jsonCtx ["a", "c"] with input := .recs toyRecs } =
    some [("a", ColV.list [some 2, some 0, some 5]), ("c", ColV.list [none, some 3, none])] := by decide
/-- `dtypes` naming a column the restriction dropped: KeyError. -/
example : evalDfFromJson { jsonCtx ["a"] with casts := [("b", fun xs => some xs)] } = none := by decide
/-- `ListOfDicts.from_json(keys=["c","a","zz"])`: every item keeps its own requested entries in its own order. -/
example : evalLodFromJson (jsonCtx ["c", "a", "zz"]) = some [[("a", 2)], [("c", 3), ("a", 0)], [("a", 5)]] := by decide
example : evalLodFromJson (jsonCtx ["zz"]) = some [[], [], []] := by decide
example : evalLodFromJson (jsonCtx []) = some toyRecs := by decide
/-- `types`: present values only; a failing conversion fails the read. -/
example : evalLodFromJson { jsonCtx ["a", "b"] with convs := [("b", fun v => some (v + 10))] } =
    some [[("b", 11), ("a", 2)], [("a", 0)], [("a", 5), ("b", 16)]] := by decide
/-- the file readers: the same through `read_json`. -/
example : evalDfReadJson (jsonCtx ["c", "a", "zz"]) = evalDfFromJson (jsonCtx ["c", "a", "zz"]) := by decide
example : evalLodReadJson (jsonCtx ["c", "a", "zz"]) = some [[("a", 2)], [("c", 3), ("a", 0)], [("a", 5)]] := by decide

end DI.Eval.C14

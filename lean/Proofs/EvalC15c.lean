/-
  Proofs/EvalC15c.lean — property C15, "code ⇒ semantics ⇒ model" for the bodies of `ListOfDicts.sort`, `head`, `tail`,
  `extend` and `__getitem__` (continuing `Proofs/EvalC15.lean`, `Proofs/EvalC15b.lean`).

  The meaning of the terms is `retA` / `runAY` of `Model/PyEvalLoDAgg.lean` (the evaluators of `Model/PyEval.lean` /
  `Model/PyEvalLoDJoin.lean` extended with `sorted` — list semantics: THE stable sort of the elements by their keys, Python's
  comparison on the keys, `reverse` flipping every comparison —, local `def`s, loop-carried locals, slices).  For EVERY store,
  EVERY list of references (an object may occur several times), every callables:

  * `sort_eval`: the regenerated body of `sort(**key_dir_pairs)` returns the references of the model's `LoD.sort` (one stable
    pass per key, last key first; None last in both directions, as the key functions `(v is None, v)` / `(v is not None, v)`
    with `reverse` say) — when every item has the sort keys (else KeyError) and, per key, the non-None values are of one
    kind (ints or strs; else Python raises TypeError: `sort_mixed_counterexample` shows the evaluator doing so).  The store
    is unchanged.
  * `head_eval` / `tail_eval`: `_new` of the slice = the references of `LoD.head` / `LoD.tail` (`n = None`: the default).
  * `extend_eval`: the references of both lists (`LoD.extend`); `extend_wrap_eval`: `other` not a ListOfDicts — every
    element wrapped in a NEW dict (by value).
  * `getitem_int_eval`: the item itself (negative indices from the end; out of range = IndexError = `none`);
    `getitem_slice_eval`: a new list over the same objects (`LoD.slice` for natural bounds).

  Statements only; proofs cite `Lemmas/PyEvalLoDAgg.lean`.
-/
import Generated.CodeC15
import Model.PyEvalLoDAgg
import Lemmas.PyEvalLoDAgg
import Proofs.TieC15

namespace DI.Eval.C15

open DI DI.Py DI.Gen DI.LoD DI.PyEvalLoD DI.Tie.C15

/-- **sort(**key_dir_pairs)**: code ⇒ semantics ⇒ `LoD.sort`.  `kds`: the pairs key ↦ descending? (`dirPairsVal`: the
    keyword dict `key ↦ 1 / -1`).  The returned list holds the references of `LoD.sort xs kds` — the objects themselves,
    rearranged; the store is unchanged (`ρ'`: the environment at the `return`).  `hk`: every item has every sort key;
    `hh`: per key, any two values can be ordered by Python (`sameKind`: None with anything, int with int, str with str). -/
theorem sort_eval (truth : Term → Bool) (F : Funs) (ρ : Env) (σ : Store) (rs : List Nat) (xs : List Item)
    (kds : List (String × Bool))
    (hself : ρ.lookup "self" = some (refsVal rs)) (hkdp : ρ.lookup "key_dir_pairs" = some (dirPairsVal kds))
    (hv : Store.view σ rs = some xs)
    (hk : ∀ p, p ∈ kds → ∀ x, x ∈ xs → x.kv.has p.1 = true)
    (hh : ∀ p, p ∈ kds → ∀ x, x ∈ xs → ∀ y, y ∈ xs → sameKind (keyVal p.1 x) (keyVal p.1 y) = true) :
    ∃ ρ', retA F (ListOfDicts_sort truth) ρ σ = some (.tuple ((LoD.sort xs kds).map tagRef), ρ', σ) := by
  rw [sort_code]; exact sort_run F ρ σ rs xs kds hself hkdp hv hk hh

/-- the hypothesis `hh` of `sort_eval` is forced: items `{k: 1}`, `{k: "a"}` sorted by `k` — Python cannot order an int
    against a str (TypeError), and the evaluator returns `none`; the model's total order puts ints before strs. -/
theorem sort_mixed_counterexample :
    retA ⟨fun _ _ _ => .atom .none⟩ (ListOfDicts_sort (fun _ => true))
        [("self", refsVal [0, 1]), ("key_dir_pairs", dirPairsVal [("k", false)])]
        [(0, [("k", .s "a")]), (1, [("k", .i 1)])] = none ∧
    (LoD.sort [⟨0, [("k", .s "a")]⟩, ⟨1, [("k", .i 1)]⟩] [("k", false)]).map (·.tag) = [1, 0] ∧
    sameKind (.s "a") (.i 1) = false := by
  refine ⟨by decide +kernel, ?_, rfl⟩
  simp +decide [LoD.sort, sortPass, argsortPy, argsort, sortPairs, gather, List.mergeSort, passLe, Val.le,
    List.zipIdx, List.MergeSort.Internal.splitInTwo]

/-- **head(n)**: code ⇒ semantics ⇒ `LoD.head`: a new list over the first `min(len, n)` objects (`n = None`: the default
    `dflt`).  `len_self` is the length of the receiver. -/
theorem head_eval (truth : Term → Bool) (isNone : Bool) (dflt n : Nat) (F : Funs) (ρ : Env) (σ : Store) (rs : List Nat)
    (xs : List Item) (hself : ρ.lookup "self" = some (refsVal rs)) (hv : Store.view σ rs = some xs) :
    retA F (ListOfDicts_head truth isNone dflt xs.length n) ρ σ =
      some (.tuple ((LoD.head xs (if isNone then dflt else n)).map tagRef), ρ, σ) := by
  rw [head_code, slice_new_run F ρ σ rs xs _ _ hself hv, head_refines]

/-- **tail(n)**: code ⇒ semantics ⇒ `LoD.tail`: a new list over the last `min(len, n)` objects. -/
theorem tail_eval (truth : Term → Bool) (isNone : Bool) (dflt n : Nat) (F : Funs) (ρ : Env) (σ : Store) (rs : List Nat)
    (xs : List Item) (hself : ρ.lookup "self" = some (refsVal rs)) (hv : Store.view σ rs = some xs) :
    retA F (ListOfDicts_tail truth isNone dflt xs.length n) ρ σ =
      some (.tuple ((LoD.tail xs (if isNone then dflt else n)).map tagRef), ρ, σ) := by
  rw [tail_code, slice_new_run F ρ σ rs xs _ _ hself hv, tail_refines]

/-- **extend(other)** with a ListOfDicts `other`: the references of both, in order (= `LoD.extend`); store unchanged. -/
theorem extend_eval (truth : Term → Bool)
    (hi : truth (Term.app "isinstance" [Term.sym "other", Term.app ".__class__" [Term.sym "self"]]) = true)
    (F : Funs) (ρ : Env) (σ : Store) (rs os : List Nat)
    (hself : ρ.lookup "self" = some (refsVal rs)) (hother : ρ.lookup "other" = some (refsVal os)) :
    runAY F (ListOfDicts_extend truth).effs ρ σ = some ((rs ++ os).map PVal.ref, σ) ∧
    ∀ xs ys, Store.view σ rs = some xs → Store.view σ os = some ys →
      runAY F (ListOfDicts_extend truth).effs ρ σ = some ((LoD.extend xs ys).map tagRef, σ) := by
  have e : (ListOfDicts_extend truth).effs =
      [Term.app "yield-from" [Term.app "itertools.chain" [Term.sym "self", Term.sym "other"]]] := by
    rw [extend_code, hi]; rfl
  rw [e]
  refine ⟨extend_run F ρ σ rs os hself hother, fun xs ys hv hw => ?_⟩
  rw [extend_run F ρ σ rs os hself hother, List.map_append, refs_of_view σ rs xs hv, refs_of_view σ os ys hw]
  simp [LoD.extend]

/-- **extend(other)** with any other sequence `vs` of dict objects / dict values: `self.__class__(other)` copies each into a
    NEW dict (`copyVal`), yielded by value after the receiver's own references; the store is unchanged. -/
theorem extend_wrap_eval (truth : Term → Bool)
    (hi : truth (Term.app "isinstance" [Term.sym "other", Term.app ".__class__" [Term.sym "self"]]) = false)
    (F : Funs) (ρ : Env) (σ : Store) (rs : List Nat) (vs : List PVal) (ds : List LoD.Dict)
    (hself : ρ.lookup "self" = some (refsVal rs)) (hother : ρ.lookup "other" = some (.tuple vs))
    (hds : allM (copyVal σ) vs = some (ds.map dictVal)) :
    runAY F (ListOfDicts_extend truth).effs ρ σ = some (rs.map PVal.ref ++ ds.map dictVal, σ) := by
  rw [extend_code, hi]; exact extend_wrap_run F ρ σ rs vs ds hself hother hds

/-- **self[i]** with an int: the item ITSELF at position `i` (from the end when negative); `none` = IndexError. -/
theorem getitem_int_eval (truth : Term → Bool)
    (ht : truth (Term.app "isinstance" [Term.app "super().__getitem__" [Term.sym "index"], Term.sym "list"]) = false)
    (F : Funs) (ρ : Env) (σ : Store) (rs : List Nat) (xs : List Item) (i : Int)
    (hself : ρ.lookup "self" = some (refsVal rs)) (hindex : ρ.lookup "index" = some (.atom (.i i)))
    (hv : Store.view σ rs = some xs) :
    retA F (ListOfDicts_getitem truth) ρ σ =
      (if 0 ≤ (if i < 0 then i + xs.length else i) then (xs.map tagRef)[(if i < 0 then i + xs.length else i).toNat]?
        else none).map fun v => (v, ρ, σ) := by
  rw [getitem_code]; simp only [ht]; exact getitem_int_run F ρ σ rs xs i hself hindex hv

/-- **self[a:b]** with a slice object: a NEW list over the same objects at the positions of the slice (`Py.sliceIdx`:
    negative and out-of-range bounds as Python normalises them). -/
theorem getitem_slice_eval (truth : Term → Bool)
    (ht : truth (Term.app "isinstance" [Term.app "super().__getitem__" [Term.sym "index"], Term.sym "list"]) = true)
    (F : Funs) (ρ : Env) (σ : Store) (rs : List Nat) (xs : List Item) (a b : Option Int)
    (hself : ρ.lookup "self" = some (refsVal rs)) (hindex : ρ.lookup "index" = some (sliceVal a b))
    (hv : Store.view σ rs = some xs) :
    retA F (ListOfDicts_getitem truth) ρ σ = some (.tuple ((gatherI xs (sliceIdx xs.length a b)).map tagRef), ρ, σ) := by
  rw [getitem_code]; simp only [ht]; exact getitem_slice_run F ρ σ rs xs a b hself hindex hv

/-- for natural bounds that is the model's `LoD.slice`. -/
theorem getitem_slice_model (truth : Term → Bool)
    (ht : truth (Term.app "isinstance" [Term.app "super().__getitem__" [Term.sym "index"], Term.sym "list"]) = true)
    (F : Funs) (ρ : Env) (σ : Store) (rs : List Nat) (xs : List Item) (a b : Nat)
    (hself : ρ.lookup "self" = some (refsVal rs)) (hindex : ρ.lookup "index" = some (sliceVal (some a) (some b)))
    (hv : Store.view σ rs = some xs) :
    retA F (ListOfDicts_getitem truth) ρ σ = some (.tuple ((LoD.slice xs a b).map tagRef), ρ, σ) := by
  rw [getitem_slice_eval truth ht F ρ σ rs xs _ _ hself hindex hv, gatherI_slice_nat]; rfl

/-! ### non-vacuity: concrete runs -/

/-- no user callable occurs in these bodies. -/
def noFuns2 : Funs := ⟨fun _ _ _ => .atom .none⟩

/-- sort(k=-1, a=1): descending by `k` (None last), ties by ascending `a`; the objects themselves, store untouched. -/
example :
    (retA noFuns2 (ListOfDicts_sort (fun _ => true))
        [("self", refsVal [0, 1, 2, 3]), ("key_dir_pairs", dirPairsVal [("k", true), ("a", false)])]
        [(0, [("k", .i 1), ("a", .i 6)]), (1, [("k", .none), ("a", .i 0)]), (2, [("k", .i 1), ("a", .i 5)]),
         (3, [("k", .i 2), ("a", .i 9)])]).map (fun r => (r.1, r.2.2)) =
      some (refsVal [3, 2, 0, 1],
        [(0, [("k", .i 1), ("a", .i 6)]), (1, [("k", .none), ("a", .i 0)]), (2, [("k", .i 1), ("a", .i 5)]),
         (3, [("k", .i 2), ("a", .i 9)])]) := by decide +kernel

/-- head(2), tail() with the default 1, `self[-1]`, `self[1:]`. -/
example :
    (retA noFuns2 (ListOfDicts_head (fun _ => true) false 10 3 2) [("self", refsVal [5, 6, 7])] []).map (·.1) =
      some (refsVal [5, 6]) ∧
    (retA noFuns2 (ListOfDicts_tail (fun _ => true) true 1 3 0) [("self", refsVal [5, 6, 7])] []).map (·.1) =
      some (refsVal [7]) ∧
    (retA noFuns2 (ListOfDicts_getitem (fun _ => false)) [("self", refsVal [5, 6, 7]), ("index", .atom (.i (-1)))] []).map (·.1) =
      some (.ref 7) ∧
    (retA noFuns2 (ListOfDicts_getitem (fun _ => true)) [("self", refsVal [5, 6, 7]), ("index", sliceVal (some 1) none)] []).map (·.1) =
      some (refsVal [6, 7]) := by decide +kernel

/-- extend with a ListOfDicts, and with a plain list holding one dict value. -/
example :
    runAY noFuns2 (ListOfDicts_extend (fun _ => true)).effs [("self", refsVal [0]), ("other", refsVal [1, 0])] [] =
      some ([.ref 0, .ref 1, .ref 0], []) ∧
    runAY noFuns2 (ListOfDicts_extend (fun _ => false)).effs [("self", refsVal [0]), ("other", .tuple [dictVal [("a", .i 1)]])] [] =
      some ([.ref 0, dictVal [("a", .i 1)]], []) := ⟨by decide +kernel, by decide +kernel⟩

end DI.Eval.C15

/-
  Proofs/TieC10b.lean — code theorems over `Generated/CodeC10.lean` for the functions of `dataiter/vector.py` that were
  added to the regenerated file after `Proofs/TieC10.lean` was written:

  * the dtype predicates `is_boolean` … `is_timedelta` (each is ONE NumPy test; `numpyTruth` is NumPy's answer to those tests
    per dtype class, and under it every predicate body has the truth value that `dtypeTruth` of `TieC10` *assumed* for the
    call `self.is_X()` — so the decision chains `na_value` / `na_dtype` / `is_na` refine the model end to end, through the
    bodies of the predicates they call);
  * the conversions `as_boolean` … `as_string` (which dtype expression each hands to `astype` / the constructor);
  * the construction pipeline `__new__`, `__init__`, `fast`, `_np_array`, `_std_to_np`, `_std_to_np_na_value`,
    `_map_input_dtype` (which branch converts missing values, which missing value is substituted, when integers widen to
    float, in which order the date conversions are tried); `_std_to_np_na_value` refines `Construct.naOfTypes`.
-/
import Generated.CodeC10
import Model.Construct
import Proofs.TieC10

namespace DI.Tie.C10

open DI DI.Py DI.Gen DI.Construct

/-! ### the dtype predicates -/

/-- `self.dtype`. -/
def selfDtype : Term := Term.app ".dtype" [Term.sym "self"]

/-- `np.issubdtype(self.dtype, <T>)`. -/
def subdtypeOf (T : String) : Term := Term.app "np.issubdtype" [selfDtype, Term.sym T]

/-- `isinstance(self.dtype, StringDType)` — membership in the *class* `numpy.dtypes.StringDType`, not equality with
    dataiter's own instance `dtypes.string` (`StringDType(na_object="")`): a vector whose dtype is a differently
    parametrised `StringDType()` is a string vector too. -/
def isStringDType : Term := Term.app "isinstance" [selfDtype, Term.sym "StringDType"]

/-- **each predicate is exactly one NumPy test on `self.dtype`** — no effects, no branch, no second test.  `is_integer`
    tests the abstract `np.integer` (signed and unsigned alike), `is_float` the abstract `np.floating` (every width),
    `is_number` the abstract `np.number`, `is_datetime` `np.datetime64` (every unit: dates are datetimes),
    `is_string` is the only one that is not `np.issubdtype`, and `_is_string_fixed` is the `np.str_` (`<U…`) test. -/
theorem predicates_are_one_numpy_test (truth : Term → Bool) :
    Vector_is_boolean truth = Out.ret [] (subdtypeOf "np.bool_") ∧
    Vector_is_bytes truth = Out.ret [] (subdtypeOf "np.bytes_") ∧
    Vector_is_datetime truth = Out.ret [] (subdtypeOf "np.datetime64") ∧
    Vector_is_float truth = Out.ret [] (subdtypeOf "np.floating") ∧
    Vector_is_integer truth = Out.ret [] (subdtypeOf "np.integer") ∧
    Vector_is_number truth = Out.ret [] (subdtypeOf "np.number") ∧
    Vector_is_object truth = Out.ret [] (subdtypeOf "np.object_") ∧
    Vector_is_string truth = Out.ret [] isStringDType ∧
    Vector_is_string_fixed truth = Out.ret [] (subdtypeOf "np.str_") ∧
    Vector_is_timedelta truth = Out.ret [] (subdtypeOf "np.timedelta64") :=
  ⟨rfl, rfl, rfl, rfl, rfl, rfl, rfl, rfl, rfl, rfl⟩

/-- the predicates are plain methods of the receiver alone (no property, no argument). -/
theorem predicates_signatures :
    [Vector_is_boolean_signature, Vector_is_bytes_signature, Vector_is_datetime_signature, Vector_is_float_signature,
     Vector_is_integer_signature, Vector_is_number_signature, Vector_is_object_signature, Vector_is_string_signature,
     Vector_is_string_fixed_signature, Vector_is_timedelta_signature].all (· == ["self"]) = true ∧
    [Vector_is_boolean_decorators, Vector_is_bytes_decorators, Vector_is_datetime_decorators, Vector_is_float_decorators,
     Vector_is_integer_decorators, Vector_is_number_decorators, Vector_is_object_decorators, Vector_is_string_decorators,
     Vector_is_string_fixed_decorators, Vector_is_timedelta_decorators].all (· == []) = true := by decide

/-- NumPy's answer to the tests the predicate bodies make, for a vector whose dtype is of class `c` (replayed on
    numpy 2.0.2).  `np.issubdtype` follows the scalar-type hierarchy: `timedelta64 <: signedinteger <: integer <: number`
    (so a timedelta vector IS integer and IS number), `floating <: inexact <: number`; `bool_`, `bytes_`, `str_`,
    `datetime64`, `object_` are outside `number`; a `StringDType` instance is a sub-dtype of none of these abstract
    types (in particular not of `np.str_`) and is the only dtype for which `isinstance(·, StringDType)` holds. -/
def numpyTruth (c : DClass) : Term → Bool
  | .app "np.issubdtype" [.app ".dtype" [.sym "self"], .sym "np.bool_"] => c == .bool
  | .app "np.issubdtype" [.app ".dtype" [.sym "self"], .sym "np.bytes_"] => c == .bytes
  | .app "np.issubdtype" [.app ".dtype" [.sym "self"], .sym "np.datetime64"] => c == .date || c == .datetime
  | .app "np.issubdtype" [.app ".dtype" [.sym "self"], .sym "np.floating"] => c == .float
  | .app "np.issubdtype" [.app ".dtype" [.sym "self"], .sym "np.integer"] => c == .int || c == .timedelta
  | .app "np.issubdtype" [.app ".dtype" [.sym "self"], .sym "np.number"] => c == .int || c == .float || c == .timedelta
  | .app "np.issubdtype" [.app ".dtype" [.sym "self"], .sym "np.object_"] => c == .object
  | .app "np.issubdtype" [.app ".dtype" [.sym "self"], .sym "np.str_"] => c == .ustr
  | .app "np.issubdtype" [.app ".dtype" [.sym "self"], .sym "np.timedelta64"] => c == .timedelta
  | .app "isinstance" [.app ".dtype" [.sym "self"], .sym "StringDType"] => c == .str
  | _ => false

/-- the truth value of the expression a branch-free, effect-free function returns. -/
def retTruth (truth : Term → Bool) : Out → Option Bool
  | .ret [] t => some (truth t)
  | _ => none

/-- **the predicate bodies justify `dtypeTruth`**: `Proofs/TieC10.lean` interprets the *calls* `self.is_X()` by the table
    `dtypeTruth c`; here every predicate's regenerated *body*, evaluated with NumPy's table, has exactly that truth value,
    for every dtype class — so the hypothesis of `na_value_refines`, `na_dtype_refines`, `is_na_refines` is what the code
    of the predicates computes (a predicate testing another abstract type, e.g. `is_integer` via `np.signedinteger`,
    `is_string` via `np.str_`, or `is_datetime` losing dates, breaks the corresponding conjunct). -/
theorem predicates_refine_dtypeTruth (c : DClass) (t : Term → Bool) :
    retTruth (numpyTruth c) (Vector_is_datetime t) = some (dtypeTruth c (Term.app ".is_datetime" [Term.sym "self"])) ∧
    retTruth (numpyTruth c) (Vector_is_timedelta t) = some (dtypeTruth c (Term.app ".is_timedelta" [Term.sym "self"])) ∧
    retTruth (numpyTruth c) (Vector_is_float t) = some (dtypeTruth c (Term.app ".is_float" [Term.sym "self"])) ∧
    retTruth (numpyTruth c) (Vector_is_integer t) = some (dtypeTruth c (Term.app ".is_integer" [Term.sym "self"])) ∧
    retTruth (numpyTruth c) (Vector_is_string t) = some (dtypeTruth c (Term.app ".is_string" [Term.sym "self"])) ∧
    retTruth (numpyTruth c) (Vector_is_string_fixed t) = some (dtypeTruth c (Term.app "._is_string_fixed" [Term.sym "self"])) ∧
    retTruth (numpyTruth c) (Vector_is_boolean t) = some (dtypeTruth c (Term.app ".is_boolean" [Term.sym "self"])) ∧
    retTruth (numpyTruth c) (Vector_is_bytes t) = some (dtypeTruth c (Term.app ".is_bytes" [Term.sym "self"])) ∧
    retTruth (numpyTruth c) (Vector_is_object t) = some (dtypeTruth c (Term.app ".is_object" [Term.sym "self"])) :=
  ⟨rfl, rfl, rfl, rfl, rfl, rfl, rfl, rfl, rfl⟩

/-- `is_number` (not in `dtypeTruth`): true of integer, float **and timedelta** vectors, of nothing else among the
    model's classes — i.e. it is `is_integer() or is_float()`; booleans, dates and strings are not numbers. -/
theorem is_number_refines (c : DClass) (t : Term → Bool) :
    retTruth (numpyTruth c) (Vector_is_number t) = some (c == .int || c == .float || c == .timedelta) ∧
    retTruth (numpyTruth c) (Vector_is_number t) =
      (do let i ← retTruth (numpyTruth c) (Vector_is_integer t)
          let f ← retTruth (numpyTruth c) (Vector_is_float t)
          pure (i || f)) := by
  cases c <;> exact ⟨rfl, rfl⟩

/-- the nine predicates that classify a dtype (`is_number` is a union, see `is_number_refines`). -/
def classifyingPredicates (t : Term → Bool) : List (String × Out) :=
  [("is_boolean", Vector_is_boolean t), ("is_bytes", Vector_is_bytes t), ("is_datetime", Vector_is_datetime t),
   ("is_float", Vector_is_float t), ("is_integer", Vector_is_integer t), ("is_object", Vector_is_object t),
   ("is_string", Vector_is_string t), ("_is_string_fixed", Vector_is_string_fixed t),
   ("is_timedelta", Vector_is_timedelta t)]

/-- the predicates that hold of a vector of class `c`, by running their bodies under NumPy's table. -/
def holding (c : DClass) (t : Term → Bool) : List String :=
  ((classifyingPredicates t).filter (fun p => retTruth (numpyTruth c) p.2 == some true)).map (·.1)

/-- **the predicates partition the dtype classes as the model says**: exactly one holds of every class — except that a
    timedelta vector is also `is_integer()` (which is why `na_value` / `na_dtype` / `is_na` must test `is_timedelta`
    *before* `is_integer`, cf. the header of `TieC10`); date and datetime share `is_datetime`, and the two string
    representations are told apart (`is_string` vs `_is_string_fixed`). -/
theorem predicates_partition (t : Term → Bool) :
    holding .bool t = ["is_boolean"] ∧ holding .int t = ["is_integer"] ∧ holding .float t = ["is_float"] ∧
    holding .str t = ["is_string"] ∧ holding .ustr t = ["_is_string_fixed"] ∧
    holding .date t = ["is_datetime"] ∧ holding .datetime t = ["is_datetime"] ∧
    holding .timedelta t = ["is_integer", "is_timedelta"] ∧
    holding .bytes t = ["is_bytes"] ∧ holding .object t = ["is_object"] :=
  ⟨rfl, rfl, rfl, rfl, rfl, rfl, rfl, rfl, rfl, rfl⟩

/-- interpret a call `self.is_X()` by running the regenerated body of `is_X` under NumPy's table (`false` if the body
    were not a single effect-free expression). -/
def bodyTruth (c : DClass) : Term → Bool
  | .app ".is_datetime" [.sym "self"] => (retTruth (numpyTruth c) (Vector_is_datetime (numpyTruth c))).getD false
  | .app ".is_timedelta" [.sym "self"] => (retTruth (numpyTruth c) (Vector_is_timedelta (numpyTruth c))).getD false
  | .app ".is_float" [.sym "self"] => (retTruth (numpyTruth c) (Vector_is_float (numpyTruth c))).getD false
  | .app ".is_integer" [.sym "self"] => (retTruth (numpyTruth c) (Vector_is_integer (numpyTruth c))).getD false
  | .app ".is_string" [.sym "self"] => (retTruth (numpyTruth c) (Vector_is_string (numpyTruth c))).getD false
  | .app "._is_string_fixed" [.sym "self"] => (retTruth (numpyTruth c) (Vector_is_string_fixed (numpyTruth c))).getD false
  | .app ".is_boolean" [.sym "self"] => (retTruth (numpyTruth c) (Vector_is_boolean (numpyTruth c))).getD false
  | .app ".is_bytes" [.sym "self"] => (retTruth (numpyTruth c) (Vector_is_bytes (numpyTruth c))).getD false
  | .app ".is_object" [.sym "self"] => (retTruth (numpyTruth c) (Vector_is_object (numpyTruth c))).getD false
  | _ => false

/-- **end to end**: the decision chains `na_value`, `na_dtype`, `is_na`, with every `self.is_X()` they call resolved by
    the body of `is_X` and NumPy's sub-dtype table, return the model's `naOfClass`, the class that can hold it, and the
    test that recognises it — `na_value_refines` / `na_dtype_refines` / `is_na_refines` of `TieC10` without the assumed
    table. -/
theorem chains_refine_through_bodies (c : DClass) :
    decodeNa (Vector_na_value (bodyTruth c)) = some (naOfClass c) ∧
    decodeDtype c (Vector_na_dtype (bodyTruth c)) = some (match c with
      | .int => .float
      | .float | .str | .ustr | .date | .datetime | .timedelta => c
      | _ => .object) ∧
    decodeTest (Vector_is_na (bodyTruth c)) = some (match c with
      | .date | .datetime | .timedelta => .isnat
      | .float => .isnan
      | .str | .ustr => .eqEmpty
      | _ => .isNone) := by
  cases c <;> exact ⟨rfl, rfl, rfl⟩

/-! ### the conversions -/

/-- `self.astype(<d>)`. -/
def astypeSelf (d : Term) : Term := Term.app ".astype" [Term.sym "self", d]

/-- `np.dtype(f"datetime64[{precision}]")`. -/
def datetimeOfPrecision : Term :=
  Term.app "np.dtype" [Term.app "fstring" [Term.sym "'datetime64['",
    Term.app "format" [Term.sym "precision", Term.sym "", Term.int (-1)], Term.sym "']'"]]

/-- **the target dtype of every conversion**.  Seven of the eight are `self.astype(<dtype>)` with a fixed dtype
    expression: `bool`, `np.dtype("datetime64[D]")`, `np.dtype(f"datetime64[{precision}]")`, `float`, `int`,
    dataiter's `dtypes.string` (StringDType, never the fixed-width `str`) — `astype` on a Vector allocates a new array
    (C06: fresh) and does NOT convert missing values (NaN → int is NumPy's cast, NaN → "nan").
    `as_object` alone goes through `tolist()` (missing ↦ None, `tolist_normal_form`) and the constructor of the
    receiver's own class with dtype `object`, so its missing values become None (`C10.tolist_roundtrip`). -/
theorem conversions_normal_form (truth : Term → Bool) :
    Vector_as_boolean truth = Out.ret [] (astypeSelf (Term.sym "bool")) ∧
    Vector_as_date truth = Out.ret [] (astypeSelf (Term.app "np.dtype" [Term.sym "'datetime64[D]'"])) ∧
    Vector_as_datetime truth = Out.ret [] (astypeSelf datetimeOfPrecision) ∧
    Vector_as_float truth = Out.ret [] (astypeSelf (Term.sym "float")) ∧
    Vector_as_integer truth = Out.ret [] (astypeSelf (Term.sym "int")) ∧
    Vector_as_string truth = Out.ret [] (astypeSelf (Term.sym "dtypes.string")) ∧
    Vector_as_object truth = Out.ret []
      (Term.app ".__class__" [Term.sym "self", Term.app ".tolist" [Term.sym "self"], Term.sym "object"]) :=
  ⟨rfl, rfl, rfl, rfl, rfl, rfl, rfl⟩

/-- `as_bytes`: a StringDType vector is *encoded* (`self.str.encode("utf-8")`), every other vector is cast with
    `astype(bytes)`.  The test is `is_string()` alone — unlike `na_value` / `is_na` it does not also ask
    `_is_string_fixed()`. -/
theorem as_bytes_normal_form (truth : Term → Bool) :
    Vector_as_bytes truth =
      Out.ret [] (if truth (Term.app ".is_string" [Term.sym "self"])
        then Term.app ".encode" [Term.app ".str" [Term.sym "self"], Term.sym "'utf-8'"]
        else astypeSelf (Term.sym "bytes")) := by
  unfold Vector_as_bytes; split <;> rfl

/-- `as_bytes` per dtype class: UTF-8 encoding exactly for class `str`; a fixed-width `<U` vector (class `ustr`) takes the
    `astype(bytes)` route like numbers do — NumPy's `U → S` cast is ASCII-only (see the report: a non-ASCII element
    raises UnicodeEncodeError there, while the same text in a StringDType vector is encoded). -/
theorem as_bytes_refines (c : DClass) :
    Vector_as_bytes (dtypeTruth c) =
      Out.ret [] (if c == .str then Term.app ".encode" [Term.app ".str" [Term.sym "self"], Term.sym "'utf-8'"]
                  else astypeSelf (Term.sym "bytes")) := by
  cases c <;> rfl

/-- the dtype class a conversion's dtype expression denotes (`as_datetime`: for a precision finer than a day, in
    particular the default). -/
def classOfDtypeExpr : Term → Option DClass
  | .sym "bool" => some .bool
  | .sym "bytes" => some .bytes
  | .sym "float" => some .float
  | .sym "int" => some .int
  | .sym "object" => some .object
  | .sym "dtypes.string" => some .str
  | .app "np.dtype" [.sym "'datetime64[D]'"] => some .date
  | .app "np.dtype" [.app "fstring" [.sym "'datetime64['", .app "format" [.sym "precision", _, _], .sym "']'"]] => some .datetime
  | _ => none

/-- the dtype expression a conversion passes on (second argument of `astype`, third of the constructor). -/
def convTarget : Out → Option Term
  | .ret [] (.app ".astype" [.sym "self", d]) => some d
  | .ret [] (.app ".__class__" [.sym "self", .app ".tolist" [.sym "self"], d]) => some d
  | _ => none

/-- **each `as_X` targets the class the predicate `is_X` recognises**: the class of the dtype expression, looked up in
    `holding` (the predicates' bodies under NumPy's table), gives back `is_X` — `as_boolean` ↦ bool … `as_string` ↦
    StringDType (`is_string`, not `_is_string_fixed`), `as_date` and `as_datetime` ↦ `is_datetime`, `as_bytes` (non-string
    receiver) ↦ bytes. -/
theorem conversions_reach_their_predicate (truth : Term → Bool) (hb : truth (Term.app ".is_string" [Term.sym "self"]) = false) :
    ((convTarget (Vector_as_boolean truth)).bind classOfDtypeExpr).map (holding · truth) = some ["is_boolean"] ∧
    ((convTarget (Vector_as_bytes truth)).bind classOfDtypeExpr).map (holding · truth) = some ["is_bytes"] ∧
    ((convTarget (Vector_as_date truth)).bind classOfDtypeExpr) = some .date ∧
    ((convTarget (Vector_as_datetime truth)).bind classOfDtypeExpr) = some .datetime ∧
    ((convTarget (Vector_as_float truth)).bind classOfDtypeExpr).map (holding · truth) = some ["is_float"] ∧
    ((convTarget (Vector_as_integer truth)).bind classOfDtypeExpr).map (holding · truth) = some ["is_integer"] ∧
    ((convTarget (Vector_as_object truth)).bind classOfDtypeExpr).map (holding · truth) = some ["is_object"] ∧
    ((convTarget (Vector_as_string truth)).bind classOfDtypeExpr).map (holding · truth) = some ["is_string"] := by
  refine ⟨rfl, ?_, rfl, rfl, rfl, rfl, rfl, rfl⟩
  rw [as_bytes_normal_form, hb]; rfl

/-- signatures of the conversions: only `as_datetime` has a parameter, `precision`, defaulting to microseconds
    (`datetime64[us]`, the unit `TYPE_CONVERSIONS` uses for `datetime.datetime`); none is decorated. -/
theorem conversions_signatures :
    Vector_as_datetime_signature = ["self", "precision='us'"] ∧
    [Vector_as_boolean_signature, Vector_as_bytes_signature, Vector_as_date_signature, Vector_as_float_signature,
     Vector_as_integer_signature, Vector_as_object_signature, Vector_as_string_signature].all (· == ["self"]) = true ∧
    [Vector_as_boolean_decorators, Vector_as_bytes_decorators, Vector_as_date_decorators, Vector_as_datetime_decorators,
     Vector_as_float_decorators, Vector_as_integer_decorators, Vector_as_object_decorators,
     Vector_as_string_decorators].all (· == []) = true := by decide

/-- `as_object` reads the receiver out (`tolist`) before it builds the new vector. -/
theorem as_object_call_order : Vector_as_object_call_order = ["self.tolist", "self.__class__"] := rfl

/-! ### `_map_input_dtype` -/

/-- **`_map_input_dtype`**: the Python class `str` — tested by identity, `dtype is str` — is replaced by dataiter's
    `dtypes.string`; every other dtype (None included, and the *string* `"str"` or `np.str_`, which are not the object
    `str`) is handed back unchanged.  No effects, nothing raised. -/
theorem map_input_dtype_normal_form (truth : Term → Bool) :
    Vector_map_input_dtype truth =
      Out.ret [] (if truth (Term.app "Is" [Term.sym "dtype", Term.sym "str"]) then Term.sym "dtypes.string"
                  else Term.sym "dtype") ∧
    Vector_map_input_dtype_signature = ["cls", "dtype"] ∧ Vector_map_input_dtype_decorators = ["classmethod"] := by
  refine ⟨?_, rfl, rfl⟩
  unfold Vector_map_input_dtype; split <;> rfl

/-! ### `__new__`, `__init__`, `fast` -/

/-- `cls._map_input_dtype(dtype)`. -/
def mappedDtype : Term := Term.app "._map_input_dtype" [Term.sym "cls", Term.sym "dtype"]

/-- `isinstance(object, np.ndarray)`. -/
def isNdarray : Term := Term.app "isinstance" [Term.sym "object", Term.sym "np.ndarray"]

/-- `dtype or object.dtype` (after the mapping): the array's own dtype when none is given. -/
def dtypeOrOwn : Term := Term.app "Or" [mappedDtype, Term.app ".dtype" [Term.sym "object"]]

/-- `util.sequencify(object)`. -/
def sequencified : Term := Term.app "util.sequencify" [Term.sym "object"]

/-- `cls._np_array(<obj>, <d>)`. -/
def npArrayCall (obj d : Term) : Term := Term.app "._np_array" [Term.sym "cls", obj, d]

/-- `<a>.view(cls)`. -/
def viewCls (a : Term) : Term := Term.app ".view" [a, Term.sym "cls"]

/-- does a term contain a call of `cls._std_to_np` (the only place where None / NaN are converted)? -/
def callsStdToNp (t : Term) : Bool := t.anyApp (fun f _ => f == "._std_to_np")

/-- **`Vector.__new__`**: the dtype is mapped first (`str` ↦ StringDType); a NumPy array is taken as it is —
    `cls._np_array(object, dtype or object.dtype).view(cls)`, NO missing-value conversion — and anything else is made a
    sequence and goes through `cls._std_to_np(sequence, dtype)` (the model's `construct` / `constructWith`); both are
    viewed as `cls` (so a subclass constructs itself).  No effects. -/
theorem new_normal_form (truth : Term → Bool) :
    Vector_new truth =
      if truth isNdarray then Out.ret [] (viewCls (npArrayCall (Term.sym "object") dtypeOrOwn))
      else Out.ret [] (viewCls (Term.app "._std_to_np" [Term.sym "cls", sequencified, mappedDtype])) := rfl

/-- `__new__` converts missing values exactly when the input is not a NumPy array. -/
theorem new_converts_iff_not_ndarray (truth : Term → Bool) :
    ∃ t, Vector_new truth = Out.ret [] t ∧ callsStdToNp t = !truth isNdarray := by
  rw [new_normal_form]
  cases truth isNdarray
  · exact ⟨_, rfl, rfl⟩
  · exact ⟨_, rfl, rfl⟩

/-- **`Vector.fast`** ("will not convert special values"): always `cls._np_array(util.sequencify(object), d).view(cls)`
    with `d` the mapped dtype, or `dtype or object.dtype` for a NumPy array — `_std_to_np` is never called. -/
theorem fast_normal_form (truth : Term → Bool) :
    Vector_fast truth =
      Out.ret [] (viewCls (npArrayCall sequencified (if truth isNdarray then dtypeOrOwn else mappedDtype))) := by
  unfold Vector_fast
  cases h : truth isNdarray <;> simp [isNdarray] at h <;> simp [h] <;> rfl

theorem fast_never_converts (truth : Term → Bool) :
    ∃ t, Vector_fast truth = Out.ret [] t ∧ callsStdToNp t = false := by
  rw [fast_normal_form]
  cases truth isNdarray
  · exact ⟨_, rfl, rfl⟩
  · exact ⟨_, rfl, rfl⟩

/-- `__new__` and `fast` on a NumPy array differ only in `util.sequencify` (a no-op check on an array): the same
    `_np_array` call on the same dtype expression. -/
theorem new_and_fast_agree_on_ndarray (truth : Term → Bool) (h : truth isNdarray = true) :
    Vector_new truth = Out.ret [] (viewCls (npArrayCall (Term.sym "object") dtypeOrOwn)) ∧
    Vector_fast truth = Out.ret [] (viewCls (npArrayCall sequencified dtypeOrOwn)) := by
  rw [new_normal_form, fast_normal_form, h]; exact ⟨rfl, rfl⟩

/-- **`Vector.__init__`** does one thing: `self._check_dimensions()` (ValueError unless `ndim == 1`), then falls off the
    end.  Its parameters repeat those of `__new__` (Python passes the same arguments to both); `fast` takes the same
    too, as a classmethod; `dtype` defaults to None (= infer) in all three.  `__new__` / `fast` map the dtype before
    they look at the object. -/
theorem init_normal_form (truth : Term → Bool) :
    Vector_init truth = Out.fall [Term.app "._check_dimensions" [Term.sym "self"]] ∧
    Vector_init_signature = ["self", "object", "dtype=None"] ∧
    Vector_new_signature = ["cls", "object", "dtype=None"] ∧
    Vector_fast_signature = ["cls", "object", "dtype=None"] ∧
    Vector_fast_decorators = ["classmethod"] ∧ Vector_new_decorators = [] ∧ Vector_init_decorators = [] ∧
    Vector_new_call_order.take 2 = ["cls._map_input_dtype", "isinstance"] ∧
    Vector_fast_call_order.take 2 = ["cls._map_input_dtype", "isinstance"] :=
  ⟨rfl, rfl, rfl, rfl, rfl, rfl, rfl, rfl, rfl⟩

/-! ### `_np_array` -/

/-- `isinstance(object[0], str)`. -/
def firstIsStr : Term := Term.app "isinstance" [Term.app "getitem" [Term.sym "object", Term.int 0], Term.sym "str"]

/-- the dtype `_np_array` hands to `np.array`: with no dtype given, a non-empty object whose FIRST element is a `str`
    gets `dtypes.string`; then `_map_input_dtype`. -/
def npArrayDtype (truth : Term → Bool) (dtypeIsNone : Bool) : Term :=
  Term.app "._map_input_dtype" [Term.sym "cls",
    if dtypeIsNone && truth (Term.sym "object") && truth firstIsStr then Term.sym "dtypes.string" else Term.sym "dtype"]

/-- `np.array(object, <d>)` — two positional arguments, no `copy=False`: NumPy copies (the result is a new buffer). -/
def npArrayOf (d : Term) : Term := Term.app "np.array" [Term.sym "object", d]

/-- `<d> is None`. -/
def isNoneT (d : Term) : Term := Term.app "Is" [d, Term.sym "None"]

/-- **`_np_array`**: `array = np.array(object, d)` with `d = npArrayDtype`; only when that dtype is None (NumPy guessed)
    and NumPy guessed a fixed-width string dtype (`np.str_`) is the array cast ex post to `dtypes.string`.  Nothing is
    raised here, no effects. -/
theorem np_array_normal_form (truth : Term → Bool) (dtypeIsNone : Bool) :
    Vector_np_array truth dtypeIsNone =
      Out.ret [] (
        if truth (isNoneT (npArrayDtype truth dtypeIsNone)) &&
           truth (Term.app "np.issubdtype" [Term.app ".dtype" [npArrayOf (npArrayDtype truth dtypeIsNone)], Term.sym "np.str_"])
        then Term.app ".astype" [npArrayOf (npArrayDtype truth dtypeIsNone), Term.sym "dtypes.string"]
        else npArrayOf (npArrayDtype truth dtypeIsNone)) := by
  unfold Vector_np_array npArrayDtype
  cases dtypeIsNone <;> simp only [Bool.false_and, Bool.true_and, if_true, if_false, Bool.false_eq_true]
  · repeat' split
    all_goals first | rfl | simp_all [isNoneT, npArrayOf]
  · repeat' split
    all_goals first | rfl | simp_all [isNoneT, npArrayOf, firstIsStr]

/-- with an explicit dtype the elements are not looked at (no `object[0]`), whatever the object is. -/
theorem np_array_explicit_dtype (truth : Term → Bool) :
    npArrayDtype truth false = mappedDtype := by
  simp [npArrayDtype, mappedDtype]

/-- an empty object is not indexed (`object and isinstance(object[0], str)` short-circuits): the dtype stays the given
    one. -/
theorem np_array_empty_object (truth : Term → Bool) (b : Bool) (h : truth (Term.sym "object") = false) :
    npArrayDtype truth b = mappedDtype := by
  simp [npArrayDtype, mappedDtype, h]

/-- **a dtype that is not None is final**: when the dtype handed to `np.array` is not None (an explicit dtype, the
    `dtype or object.dtype` of `__new__` / `fast` on an array, or the `dtypes.string` chosen from the first element),
    the result is `np.array(object, d)` itself — the ex-post cast to StringDType is not made.  Consequence (see report):
    `Vector(np.array(["a"]))` keeps NumPy's fixed-width `<U1`, it is `_is_string_fixed()` and not `is_string()`. -/
theorem np_array_dtype_final (truth : Term → Bool) (b : Bool)
    (h : truth (isNoneT (npArrayDtype truth b)) = false) :
    Vector_np_array truth b = Out.ret [] (npArrayOf (npArrayDtype truth b)) := by
  rw [np_array_normal_form, h]; rfl

/-- with no dtype and a first element that is a `str`: StringDType from the start. -/
theorem np_array_string_first (truth : Term → Bool)
    (ho : truth (Term.sym "object") = true) (hs : truth firstIsStr = true)
    (hn : truth (isNoneT (Term.app "._map_input_dtype" [Term.sym "cls", Term.sym "dtypes.string"])) = false) :
    Vector_np_array truth true =
      Out.ret [] (npArrayOf (Term.app "._map_input_dtype" [Term.sym "cls", Term.sym "dtypes.string"])) := by
  have e : npArrayDtype truth true = Term.app "._map_input_dtype" [Term.sym "cls", Term.sym "dtypes.string"] := by
    simp [npArrayDtype, ho, hs]
  rw [np_array_dtype_final truth true (by rw [e]; exact hn), e]

theorem np_array_signature :
    Vector_np_array_signature = ["cls", "object", "dtype=None"] ∧ Vector_np_array_decorators = ["classmethod"] ∧
    Vector_np_array_call_order = ["isinstance", "cls._map_input_dtype", "np.array", "np.issubdtype", "array.astype"] :=
  ⟨rfl, rfl, rfl⟩

/-! ### `_std_to_np_na_value` -/

/-- `str in types`. -/
def strInTypes : Term := Term.app "In" [Term.sym "str", Term.sym "types"]

/-- `all(x in [float, int] or np.issubdtype(x, np.floating) or np.issubdtype(x, np.integer) for x in types)`. -/
def allNumericTypes : Term :=
  Term.app "all" [Term.app "GeneratorExp" [Term.app "Or" [
      Term.app "In" [Term.sym "x", Term.app "list" [Term.sym "float", Term.sym "int"]],
      Term.app "np.issubdtype" [Term.sym "x", Term.sym "np.floating"],
      Term.app "np.issubdtype" [Term.sym "x", Term.sym "np.integer"]],
    Term.app "in" [Term.sym "x", Term.sym "types", Term.app "if" []]]]

/-- `all(x in [datetime.date, datetime.datetime, np.datetime64] for x in types)`. -/
def allDateTypes : Term :=
  Term.app "all" [Term.app "GeneratorExp" [
    Term.app "In" [Term.sym "x", Term.app "list" [Term.sym "datetime.date", Term.sym "datetime.datetime", Term.sym "np.datetime64"]],
    Term.app "in" [Term.sym "x", Term.sym "types", Term.app "if" []]]]

/-- **the decision table of `_std_to_np_na_value`** (which missing value a Python list without dtype gets), in test order:
      no types at all (empty list / only None and NaN)      ↦ None
      `str` among the types (whatever else is there)         ↦ `dtypes.string.na_object` (the blank string)
      all types numeric (float, int, NumPy floats / ints)    ↦ `np.nan`
      all types dates (date, datetime, np.datetime64)        ↦ `np.datetime64("NaT")`
      anything else (bool, timedelta, bytes, mixtures, …)    ↦ None ("usually causes dtype to be object").
    No effects; nothing raised. -/
theorem std_to_np_na_value_table (truth : Term → Bool) :
    Vector_std_to_np_na_value truth =
      Out.ret [] (
        if !truth (Term.sym "types") then Term.sym "None"
        else if truth strInTypes then Term.sym "dtypes.string.na_object"
        else if truth allNumericTypes then Term.sym "np.nan"
        else if truth allDateTypes then Term.app "np.datetime64" [Term.sym "'NaT'"]
        else Term.sym "None") := by
  unfold Vector_std_to_np_na_value
  repeat' split
  all_goals first | rfl | simp_all [strInTypes, allNumericTypes, allDateTypes]

/-- the tests of `_std_to_np_na_value` read on the model's element kinds (`types` = `Construct.types xs`):
    Python's `bool` is not in `[float, int]` and `np.issubdtype(bool, np.integer)` is false, so booleans are not numeric
    here; `str` stands for every string (`Kind.str false` after `types`). -/
def typesTruth (ts : List Kind) : Term → Bool
  | .sym "types" => !ts.isEmpty
  | .app "In" [.sym "str", .sym "types"] => ts.contains (.str false)
  | .app "all" [.app "GeneratorExp" [.app "Or" [.app "In" [.sym "x", .app "list" [.sym "float", .sym "int"]],
        .app "np.issubdtype" [.sym "x", .sym "np.floating"], .app "np.issubdtype" [.sym "x", .sym "np.integer"]],
      .app "in" [.sym "x", .sym "types", .app "if" []]]] =>
      ts.all (fun k => k == .float || k == .int || k == .npfloat || k == .npint)
  | .app "all" [.app "GeneratorExp" [.app "In" [.sym "x", .app "list" [.sym "datetime.date", .sym "datetime.datetime", .sym "np.datetime64"]],
      .app "in" [.sym "x", .sym "types", .app "if" []]]] =>
      ts.all (fun k => k == .date || k == .datetime || k == .npdt)
  | _ => false

/-- **`_std_to_np_na_value` as written is the model's `naOfTypes`**, for every list of element kinds. -/
theorem std_to_np_na_value_refines (ts : List Kind) :
    decodeNa (Vector_std_to_np_na_value (typesTruth ts)) = some (naOfTypes ts) := by
  rw [std_to_np_na_value_table]
  simp only [typesTruth, strInTypes, allNumericTypes, allDateTypes, naOfTypes, Bool.not_not]
  repeat' split
  all_goals simp_all [decodeNa]

theorem std_to_np_na_value_signature :
    Vector_std_to_np_na_value_signature = ["cls", "types"] ∧ Vector_std_to_np_na_value_decorators = ["classmethod"] :=
  ⟨rfl, rfl⟩

/-! ### `_std_to_np` -/

/-- `util.unique_types(seq)`. -/
def typesOfSeq : Term := Term.app "util.unique_types" [Term.sym "seq"]

/-- `Vector.fast([], <d>).na_value`: the missing value of the dtype (`na_value_refines`: the model's `naOfClass`). -/
def naOfDtypeExpr (d : Term) : Term := Term.app ".na_value" [Term.app "Vector.fast" [Term.app "list" [], d]]

/-- `cls._std_to_np_na_value(types)`: the missing value guessed from the element types (`naOfTypes`). -/
def naOfTypesExpr : Term := Term.app "._std_to_np_na_value" [Term.sym "cls", typesOfSeq]

/-- `[na if x is None or (isinstance(x, float) and np.isnan(x)) else x for x in seq]`: None and float NaN — nothing else —
    are replaced by `na`, all other elements are kept, in order (the model's `subst`). -/
def substSeq (na : Term) : Term :=
  Term.app "ListComp" [
    Term.app "ifexp" [Term.app "Or" [Term.app "Is" [Term.sym "x", Term.sym "None"],
        Term.app "And" [Term.app "isinstance" [Term.sym "x", Term.sym "float"], Term.app "np.isnan" [Term.sym "x"]]],
      na, Term.sym "x"],
    Term.app "in" [Term.sym "x", Term.sym "seq", Term.app "if" []]]

/-- `types.copy().pop()().dtype`: the dtype of the one NumPy scalar type of the list. -/
def scalarDtype : Term := Term.app ".dtype" [Term.app "call" [Term.app ".pop" [Term.app ".copy" [typesOfSeq]]]]

/-- `len(types) == 1 and types.copy().pop().__module__ == "numpy"`. -/
def singleNumpyType (truth : Term → Bool) : Bool :=
  truth (Term.app "Eq" [Term.app "len" [typesOfSeq], Term.int 1]) &&
  truth (Term.app "Eq" [Term.app ".__module__" [Term.app ".pop" [Term.app ".copy" [typesOfSeq]]], Term.sym "'numpy'"])

/-- `d is not None`. -/
def isNotNoneT (d : Term) : Term := Term.app "IsNot" [d, Term.sym "None"]

/-- `types.discard(np.datetime64)`. -/
def discardDatetime64 : Term := Term.app ".discard" [typesOfSeq, Term.sym "np.datetime64"]

/-- `for fm, to in TYPE_CONVERSIONS.items(): if types and all(x == fm for x in types): return cls._np_array(seq, to)`. -/
def conversionLoop (seq' : Term) : Term :=
  Term.app "for" [Term.app "tuple" [Term.sym "fm", Term.sym "to"], Term.app "TYPE_CONVERSIONS.items" [],
    Term.app "block" [Term.app "if" [
      Term.app "And" [typesOfSeq, Term.app "all" [Term.app "GeneratorExp" [Term.app "Eq" [Term.sym "x", Term.sym "fm"],
        Term.app "in" [Term.sym "x", typesOfSeq, Term.app "if" []]]]],
      Term.app "block" [Term.app "return" [npArrayCall seq' (Term.sym "to")]],
      Term.app "block" []]]]

/-- the part of `_std_to_np` after the substitution, for the substituted sequence `seq'` and the dtype `d`:
    * `d` known: `cls._np_array(seq', d)`, except that an integer dtype with a NaN in `seq'` is **widened to `float`**
      (the model's `constructWith` / `C10.integers_widen_to_float`);
    * `d` unknown: `np.datetime64` is discarded from the types FIRST (NaT substituted for a missing value would
      otherwise hide that all elements are `datetime.date`), THEN the `TYPE_CONVERSIONS` loop may return
      `cls._np_array(seq', to)`, and only then NumPy guesses (`cls._np_array(seq', None)`). -/
def stdFinish (truth : Term → Bool) (seq' d : Term) : Out :=
  if truth (isNotNoneT d) then
    Out.ret [] (npArrayCall seq'
      (if truth (Term.app "np.issubdtype" [d, Term.sym "np.integer"]) && truth (Term.app "In" [Term.sym "np.nan", seq'])
       then Term.sym "float" else d))
  else
    Out.ret [discardDatetime64, conversionLoop seq'] (npArrayCall seq' d)

/-- **`_std_to_np`, the three sources of the missing value** (the three branches of the model's `construct` /
    `constructWith`):
      dtype given                                    ↦ `Vector.fast([], dtype).na_value`, dtype kept;
      no dtype, one element type and it is NumPy's   ↦ dtype := that scalar type's dtype, its `na_value`;
      otherwise                                      ↦ `cls._std_to_np_na_value(types)`, dtype still unknown;
    then one and the same substitution `substSeq` and one and the same finish `stdFinish`. -/
theorem std_to_np_normal_form (truth : Term → Bool) :
    Vector_std_to_np truth =
      if truth (isNotNoneT mappedDtype) then stdFinish truth (substSeq (naOfDtypeExpr mappedDtype)) mappedDtype
      else if singleNumpyType truth then stdFinish truth (substSeq (naOfDtypeExpr scalarDtype)) scalarDtype
      else stdFinish truth (substSeq naOfTypesExpr) mappedDtype := by
  unfold Vector_std_to_np stdFinish singleNumpyType
  repeat' split
  all_goals first | rfl | simp_all [isNotNoneT, mappedDtype, scalarDtype, typesOfSeq, substSeq, naOfDtypeExpr, naOfTypesExpr,
    npArrayCall, discardDatetime64, conversionLoop]

/-- **explicit dtype**: the dtype's own missing value is substituted and the array is built with that dtype — widened to
    `float` exactly when the dtype is an integer dtype and a NaN ended up in the sequence; no effects (the type
    conversions of the inferred path are not consulted). -/
theorem std_to_np_explicit (truth : Term → Bool) (h : truth (isNotNoneT mappedDtype) = true) :
    Vector_std_to_np truth =
      Out.ret [] (npArrayCall (substSeq (naOfDtypeExpr mappedDtype))
        (if truth (Term.app "np.issubdtype" [mappedDtype, Term.sym "np.integer"]) &&
            truth (Term.app "In" [Term.sym "np.nan", substSeq (naOfDtypeExpr mappedDtype)])
         then Term.sym "float" else mappedDtype)) := by
  rw [std_to_np_normal_form, h]; simp [stdFinish, h]

/-- **inferred dtype, ordinary Python elements**: the guessed missing value is substituted; `np.datetime64` is discarded
    from the types, then the `TYPE_CONVERSIONS` loop runs, in this order, and the fall-back hands the still-unknown dtype
    to `_np_array` (where a first-element `str` selects StringDType and NumPy guesses the rest). -/
theorem std_to_np_inferred (truth : Term → Bool) (h : truth (isNotNoneT mappedDtype) = false)
    (hs : singleNumpyType truth = false) :
    Vector_std_to_np truth =
      Out.ret [discardDatetime64, conversionLoop (substSeq naOfTypesExpr)]
        (npArrayCall (substSeq naOfTypesExpr) mappedDtype) := by
  rw [std_to_np_normal_form, h, hs]; simp [stdFinish, h]

/-- **a list of NumPy scalars of one type**: the dtype is the scalar type's, and so is the missing value — the guess from
    the types is NOT used (for `np.bool_` that value is None, which `np.array(…, bool)` stores as False:
    `C10.npbool_none_loses_na`). -/
theorem std_to_np_numpy_scalars (truth : Term → Bool) (h : truth (isNotNoneT mappedDtype) = false)
    (hs : singleNumpyType truth = true) :
    Vector_std_to_np truth = stdFinish truth (substSeq (naOfDtypeExpr scalarDtype)) scalarDtype := by
  rw [std_to_np_normal_form, h, hs]; simp

/-- the tests of the explicit-dtype path read on the model: the dtype is given (`is not None`), is of class `c`
    (`np.issubdtype(·, np.integer)` as in `numpyTruth`: int and timedelta), and — the substituted value being the very
    object `np.nan` for the classes whose missing value is NaN — `np.nan in seq'` holds exactly when some element of `xs`
    was missing and NaN is what was substituted. -/
def explicitTruth (c : DClass) (xs : List Kind) : Term → Bool
  | .app "IsNot" [.app "._map_input_dtype" [.sym "cls", .sym "dtype"], .sym "None"] => true
  | .app "np.issubdtype" [.app "._map_input_dtype" [.sym "cls", .sym "dtype"], .sym "np.integer"] => c == .int || c == .timedelta
  | .app "In" [.sym "np.nan", _] => naOfClass c == .nan && xs.any (·.missing)
  | _ => false

/-- the dtype class of the array `_std_to_np` asks `_np_array` for, when the given dtype is of class `c`. -/
def decodeArrayDtype (c : DClass) : Out → Option DClass
  | .ret [] (.app "._np_array" [.sym "cls", _, .sym "float"]) => some .float
  | .ret [] (.app "._np_array" [.sym "cls", _, .app "._map_input_dtype" [.sym "cls", .sym "dtype"]]) => some c
  | _ => none

/-- **the explicit-dtype path is the model's `constructWith`** as far as the dtype goes: whenever the model accepts the
    sequence, the dtype class the code builds the array with is the model's result class — the given class, or float for
    an integer dtype with a missing element (and not for timedelta, although `np.issubdtype(timedelta64, np.integer)`
    holds: its missing value is NaT, so no NaN is in the sequence). -/
theorem std_to_np_explicit_refines (c : DClass) (xs : List Kind) (r : Result) (h : constructWith c xs = some r) :
    decodeArrayDtype c (Vector_std_to_np (explicitTruth c xs)) = some r.dclass := by
  rw [std_to_np_explicit _ rfl]
  unfold constructWith at h
  split at h
  · injection h with h; subst h
    cases c <;> cases hm : xs.any (·.missing) <;>
      simp [explicitTruth, mappedDtype, naOfClass, decodeArrayDtype, npArrayCall, hm]
  · cases h

theorem std_to_np_signature :
    Vector_std_to_np_signature = ["cls", "seq", "dtype=None"] ∧ Vector_std_to_np_decorators = ["classmethod"] ∧
    Vector_std_to_np_call_order.take 2 = ["cls._map_input_dtype", "util.unique_types"] :=
  ⟨rfl, rfl, rfl⟩

end DI.Tie.C10

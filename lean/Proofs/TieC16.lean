/-
  Proofs/TieC16.lean — obligations over `Generated/CodeC16.lean`, the translation of the *current* source of
  `ListOfDicts.left_join` and `ListOfDicts.semi_join`: the reversed-dict lookup (first match, `C16.reversed_dict_first`),
  the merge of the non-key entries only, and the id-set test of semi_join.
-/
import Generated.CodeC16

namespace DI.Tie.C16

open DI.Py DI.Gen

def split : Term := Term.app "._split_join_by" [Term.sym "self", Term.app "*" [Term.sym "by"]]
def by1 : Term := Term.app "item0" [split]
def by2 : Term := Term.app "item1" [split]
def extract (byv : Term) : Term := Term.app "operator.itemgetter" [Term.app "*" [byv]]

/-- **left_join**: the lookup dict is built from `reversed(other)` (so the FIRST right item with a key is the one that
    stays); every left item, in order, is updated in place with the entries of its match whose key is not one of the right
    key names (`{}` = nothing when there is no match), and is yielded itself. -/
theorem left_join_code (truth : Term → Bool) :
    ListOfDicts_left_join truth =
      let byId := Term.app "DictComp" [Term.app "pair" [Term.app "call" [extract by2, Term.sym "x"], Term.sym "x"],
        Term.app "in" [Term.sym "x", Term.app "reversed" [Term.sym "other"], Term.app "if" []]]
      Out.fall [Term.app "for" [Term.sym "item", Term.sym "self", Term.app "block"
        [Term.app "assign" [Term.sym "new", Term.app ".get" [byId, Term.app "call" [extract by1, Term.sym "item"], Term.sym "{}"]],
         Term.app "assign" [Term.sym "new", Term.app "DictComp" [Term.app "pair" [Term.sym "k", Term.sym "v"],
           Term.app "in" [Term.app "tuple" [Term.sym "k", Term.sym "v"], Term.app ".items" [Term.sym "new"],
             Term.app "if" [Term.app "NotIn" [Term.sym "k", by2]]]]],
         Term.app ".update" [Term.sym "item", Term.sym "new"],
         Term.app "yield" [Term.sym "item"]]]] := rfl

/-- semi_join: the left items, in order and untouched, whose key tuple is among the right key tuples. -/
theorem semi_join_code (truth : Term → Bool) :
    ListOfDicts_semi_join truth =
      let ids := Term.app "set" [Term.app "map" [extract by2, Term.sym "other"]]
      Out.fall [Term.app "for" [Term.sym "item", Term.sym "self", Term.app "block"
        [Term.app "if" [Term.app "In" [Term.app "call" [extract by1, Term.sym "item"], ids],
          Term.app "block" [Term.app "yield" [Term.sym "item"]], Term.app "block" []]]]] := rfl

end DI.Tie.C16

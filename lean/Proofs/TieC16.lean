/-
  Proofs/TieC16.lean — obligations over `Generated/CodeC16.lean`, the translation of the *current* source of
  `ListOfDicts.left_join` and `ListOfDicts.semi_join`: the reversed-dict lookup (first match, `C16.reversed_dict_first`),
  the merge of the non-key entries only, and the id-set test of semi_join.
-/
import Generated.CodeC16

namespace DI.Tie.C16

open DI.Py DI.Gen

def split : Term := Term.app "._split_join_by" [Term.sym "self", Term.app "*" [Term.sym "by"]]
def by1 : Term := Term.app "item0" [split]
def by2 : Term := Term.app "item1" [split]
def extract (byv : Term) : Term := Term.app "operator.itemgetter" [Term.app "*" [byv]]

/-- **left_join**: the lookup dict is built from `reversed(other)` (so the FIRST right item with a key is the one that
    stays); every left item, in order, is updated in place with the entries of its match whose key is not one of the right
    key names (`{}` = nothing when there is no match), and is yielded itself. -/
theorem left_join_code (truth : Term → Bool) :
    ListOfDicts_left_join truth =
      let byId := Term.app "DictComp" [Term.app "pair" [Term.app "call" [extract by2, Term.sym "x"], Term.sym "x"],
        Term.app "in" [Term.sym "x", Term.app "reversed" [Term.sym "other"], Term.app "if" []]]
      Out.fall [Term.app "for" [Term.sym "item", Term.sym "self", Term.app "block"
        [Term.app "assign" [Term.sym "new", Term.app ".get" [byId, Term.app "call" [extract by1, Term.sym "item"], Term.sym "{}"]],
         Term.app "assign" [Term.sym "new", Term.app "DictComp" [Term.app "pair" [Term.sym "k", Term.sym "v"],
           Term.app "in" [Term.app "tuple" [Term.sym "k", Term.sym "v"], Term.app ".items" [Term.sym "new"],
             Term.app "if" [Term.app "NotIn" [Term.sym "k", by2]]]]],
         Term.app ".update" [Term.sym "item", Term.sym "new"],
         Term.app "yield" [Term.sym "item"]]]] := rfl

/-- semi_join: the left items, in order and untouched, whose key tuple is among the right key tuples. -/
theorem semi_join_code (truth : Term → Bool) :
    ListOfDicts_semi_join truth =
      let ids := Term.app "set()" [Term.app "map" [extract by2, Term.sym "other"]]
      Out.fall [Term.app "for" [Term.sym "item", Term.sym "self", Term.app "block"
        [Term.app "if" [Term.app "In" [Term.app "call" [extract by1, Term.sym "item"], ids],
          Term.app "block" [Term.app "yield" [Term.sym "item"]], Term.app "block" []]]]] := rfl

/-- anti_join: the left items, in order and untouched, whose key tuple is NOT among the right key tuples — for ANY right
    list (an empty one included: then every left item). -/
theorem anti_join_code (truth : Term → Bool) :
    ListOfDicts_anti_join truth =
      let ids := Term.app "set()" [Term.app "map" [extract by2, Term.sym "other"]]
      Out.fall [Term.app "for" [Term.sym "item", Term.sym "self", Term.app "block"
        [Term.app "if" [Term.app "NotIn" [Term.app "call" [extract by1, Term.sym "item"], ids],
          Term.app "block" [Term.app "yield" [Term.sym "item"]], Term.app "block" []]]]] := rfl

/-- inner_join: as left_join (first match through the reversed dict, non-key entries merged into the left item itself),
    but only matched items are yielded. -/
theorem inner_join_code (truth : Term → Bool) :
    ListOfDicts_inner_join truth =
      let byId := Term.app "DictComp" [Term.app "pair" [Term.app "call" [extract by2, Term.sym "x"], Term.sym "x"],
        Term.app "in" [Term.sym "x", Term.app "reversed" [Term.sym "other"], Term.app "if" []]]
      Out.fall [Term.app "for" [Term.sym "item", Term.sym "self", Term.app "block"
        [Term.app "assign" [Term.sym "id", Term.app "call" [extract by1, Term.sym "item"]],
         Term.app "if" [Term.app "In" [Term.sym "id", byId], Term.app "block"
           [Term.app "assign" [Term.sym "new", Term.app "getitem" [byId, Term.sym "id"]],
            Term.app "assign" [Term.sym "new", Term.app "DictComp" [Term.app "pair" [Term.sym "k", Term.sym "v"],
              Term.app "in" [Term.app "tuple" [Term.sym "k", Term.sym "v"], Term.app ".items" [Term.sym "new"],
                Term.app "if" [Term.app "NotIn" [Term.sym "k", by2]]]]],
            Term.app ".update" [Term.sym "item", Term.sym "new"],
            Term.app "yield" [Term.sym "item"]], Term.app "block" []]]]] := rfl

/-- the `by` arguments: a string names the key on both sides; anything else is a (left, right) pair read by position
    (`x[0]`, `x[1]`) — a tuple and a two-element list mean the same; one entry per argument, in argument order. -/
theorem split_join_by_code (truth : Term → Bool) :
    ListOfDicts_split_join_by truth =
      let side (i : Int) := Term.app "ListComp" [Term.app "ifexp" [Term.app "isinstance" [Term.sym "x", Term.sym "str"], Term.sym "x",
        Term.app "getitem" [Term.sym "x", Term.int i]], Term.app "in" [Term.sym "x", Term.sym "by", Term.app "if" []]]
      Out.ret [] (Term.app "tuple" [side 0, side 1]) := rfl

/-! ### full_join and aggregate: the isolating deep copies come BEFORE the editing calls -/

def counter : Term := Term.app "itertools.count" [Term.app "=start" [Term.int 1]]
def tagged (who : String) (kw : String) : Term :=
  Term.app ".modify" [Term.app ".deepcopy" [Term.sym who],
    Term.app kw [Term.app "lambda" [Term.app "params" [Term.sym "x"], Term.app "next" [counter]]]]

/-- **full_join as written**: both operands are deep-copied before anything is written (`_aid_` / `_bid_` go into the
    copies); the forward left join runs on ANOTHER deep copy of the tagged left list (so the tagged left list `a` is still
    unmerged when the reverse join uses it); unmatched right items are those whose `_bid_` does not occur in `ab`; when
    none remain the forward join is the answer, otherwise `ab + ba` sorted by (`_aid_`, `_bid_`) — left order first, then
    right order — and the two bookkeeping keys removed. -/
theorem full_join_code (truth : Term → Bool) :
    ListOfDicts_full_join truth =
      let a := tagged "self" "=_aid_"
      let b := tagged "other" "=_bid_"
      let ab := Term.app ".fill_missing_keys" [Term.app ".left_join" [Term.app ".deepcopy" [a], b, Term.app "*" [Term.sym "by"]],
        Term.app "=_bid_" [Term.app "next" [counter]]]
      let b' := Term.app ".anti_join" [b, ab, Term.sym "'_bid_'"]
      if truth (Term.app "Eq" [Term.app "len" [b'], Term.int 0]) then
        Out.ret [] (Term.app ".unselect" [ab, Term.sym "'_aid_'", Term.sym "'_bid_'"])
      else
        let byRev := Term.app "ListComp" [Term.app "ifexp" [Term.app "isinstance" [Term.sym "x", Term.app "tuple" [Term.sym "list", Term.sym "tuple"]],
          Term.app "tuple()" [Term.app "reversed" [Term.sym "x"]], Term.sym "x"], Term.app "in" [Term.sym "x", Term.sym "by", Term.app "if" []]]
        let ba := Term.app ".fill_missing_keys" [Term.app ".left_join" [b', a, Term.app "*" [byRev]], Term.app "=_aid_" [Term.app "next" [counter]]]
        Out.ret [] (Term.app ".unselect" [Term.app ".sort" [Term.app "Add" [ab, ba], Term.app "=_aid_" [Term.int 1], Term.app "=_bid_" [Term.int 1]],
          Term.sym "'_aid_'", Term.sym "'_bid_'"]) := by
  unfold ListOfDicts_full_join
  dsimp only [tagged, counter]

/-- **aggregate as written**: the group rows are `self.unique(*by).deepcopy().select(*by)` — the deep copy comes BEFORE the
    editing call `select`, so the receiver's chain is never marked obsolete and no item of the receiver is written; the
    buckets are filled in one pass over the receiver in list order (`setdefault(id, []).append(item)`: first-seen buckets,
    items in list order); the groups are visited in ascending key order and each function sees a fresh ListOfDicts of
    exactly its bucket. -/
theorem aggregate_code (truth : Term → Bool) :
    ListOfDicts_aggregate truth =
      let by' := Term.app "._group_keys" [Term.sym "self"]
      let groups := Term.app ".select" [Term.app ".deepcopy" [Term.app ".unique" [Term.sym "self", Term.app "*" [by']]], Term.app "*" [by']]
      let extr := Term.app "operator.itemgetter" [Term.app "*" [by']]
      let fill := Term.app "for" [Term.sym "item", Term.sym "self", Term.app "block"
        [Term.app "assign" [Term.sym "id", Term.app "call" [extr, Term.sym "item"]],
         Term.app ".append" [Term.app ".setdefault" [Term.sym "{}", Term.sym "id", Term.app "list" []], Term.sym "item"]]]
      let visit := Term.app "for" [Term.sym "group", Term.app ".sort" [groups, Term.app "=**" [Term.app "dict.fromkeys" [by', Term.int 1]]], Term.app "block"
        [Term.app "assign" [Term.sym "id", Term.app "call" [extr, Term.sym "group"]],
         Term.app "assign" [Term.sym "items", Term.app "ListOfDicts" [Term.app "getitem" [Term.sym "{}", Term.sym "id"]]],
         Term.app "for" [Term.app "tuple" [Term.sym "key", Term.sym "function"], Term.app ".items" [Term.sym "key_function_pairs"],
           Term.app "block" [Term.app "store" [Term.app "getitem" [Term.sym "group", Term.sym "key"], Term.app "call" [Term.sym "function", Term.sym "items"]]]],
         Term.app "yield" [Term.sym "group"]],
        Term.app "init" [Term.sym "id", Term.app "value-after-loop" [Term.sym "id", fill]]]
      Out.fall [fill, visit] := rfl

/-- group_by records the keys AS GIVEN (order and repetitions included: the tuple is the sort priority of `aggregate`) on
    the receiver and returns the receiver itself. -/
theorem group_by_code (truth : Term → Bool) :
    ListOfDicts_group_by truth =
      Out.ret [Term.app "setattr" [Term.sym "self", Term.sym "_group_keys", Term.app "tuple()" [Term.sym "keys"]]] (Term.sym "self") ∧
    ListOfDicts_group_by_signature = ["self", "*keys"] ∧ ListOfDicts_aggregate_signature = ["self", "**key_function_pairs"] ∧
    ListOfDicts_left_join_signature = ["self", "other", "*by"] ∧ ListOfDicts_full_join_signature = ["self", "other", "*by"] :=
  ⟨rfl, rfl, rfl, rfl, rfl⟩

end DI.Tie.C16

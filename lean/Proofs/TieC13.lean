/-
  Proofs/TieC13.lean — obligations over `Generated/CodeC13.lean`, the translation of the *current* source of the conversions
  out of a data frame and back from a list of dicts: one record per row / one array per column, every cell going through
  `Vector.tolist` (the one place where NumPy scalars become Python values and missing values become None).
-/
import Generated.CodeC13

namespace DI.Tie.C13

open DI.Py DI.Gen

/-- `self[name].tolist()`: the column as Python values, None at the missing positions. -/
def cells (name : Term) : Term := Term.app ".tolist" [Term.app "getitem" [Term.sym "self", name]]

/-- **tolist as written**: `np.where(is_na, None, self).tolist()` — None exactly at the positions `is_na` flags, for every
    dtype (no dtype-specific shortcut), the other elements converted by NumPy's own `tolist`. -/
theorem tolist_code (truth : Term → Bool) :
    Vector_tolist13 truth = Out.ret [] (Term.app ".tolist" [Term.app "np.where"
      [Term.app ".is_na" [Term.sym "self"], Term.sym "None", Term.sym "self"]]) := rfl

/-- **to_list_of_dicts as written**: `nrow` empty dicts (also for ONE row: no special case), then column by column in
    column order, row by row, `data[i][colname] = value` with the values of `tolist()`: every record gets every column, in
    column order, a missing value as None. -/
theorem to_list_of_dicts_code (truth : Term → Bool) :
    DataFrame_to_list_of_dicts truth =
      let data := Term.app "ListComp" [Term.sym "{}", Term.app "in" [Term.sym "i", Term.app "range" [Term.app ".nrow" [Term.sym "self"]], Term.app "if" []]]
      Out.ret [Term.app "for" [Term.sym "colname", Term.app ".colnames" [Term.sym "self"], Term.app "block"
        [Term.app "for" [Term.app "tuple" [Term.sym "i", Term.sym "value"], Term.app "enumerate" [cells (Term.sym "colname")],
          Term.app "block" [Term.app "store" [Term.app "getitem" [Term.app "getitem" [data, Term.sym "i"], Term.sym "colname"], Term.sym "value"]]]]]]
        (Term.app "ListOfDicts" [data]) := rfl

/-- to_json is the ListOfDicts' JSON (one route, not a second serialiser); the ListOfDicts writes `json.dumps(self)` with
    defaults that the caller can override (`default=str`, `ensure_ascii=False`, `indent=2`). -/
theorem to_json_code (truth : Term → Bool) :
    DataFrame_to_json truth = Out.ret [] (Term.app ".to_json" [Term.app ".to_list_of_dicts" [Term.sym "self"], Term.app "=**" [Term.sym "kwargs"]]) ∧
    ListOfDicts_to_json truth = Out.ret
      [Term.app ".setdefault" [Term.sym "kwargs", Term.sym "'default'", Term.sym "str"],
       Term.app ".setdefault" [Term.sym "kwargs", Term.sym "'ensure_ascii'", Term.sym "False"],
       Term.app ".setdefault" [Term.sym "kwargs", Term.sym "'indent'", Term.int 2]]
      (Term.app "json.dumps" [Term.sym "self", Term.app "=**" [Term.sym "kwargs"]]) := ⟨rfl, rfl⟩

/-- to_pandas / to_arrow hand over `tolist()` of every column, in column order, under the column's name: Python values
    (a copy, None for missing), never the frame's own buffers. -/
theorem to_pandas_code (truth : Term → Bool) :
    DataFrame_to_pandas truth = Out.ret [] (Term.app "pd.DataFrame" [Term.app "DictComp"
      [Term.app "pair" [Term.sym "x", cells (Term.sym "x")], Term.app "in" [Term.sym "x", Term.app ".colnames" [Term.sym "self"], Term.app "if" []]]]) := rfl

theorem to_arrow_code (truth : Term → Bool) :
    DataFrame_to_arrow truth = Out.ret [] (Term.app "pa.table"
      [Term.app "ListComp" [Term.app "pa.array" [cells (Term.sym "x")], Term.app "in" [Term.sym "x", Term.app ".colnames" [Term.sym "self"], Term.app "if" []]],
       Term.app "=names" [Term.app ".colnames" [Term.sym "self"]]]) := rfl

/-- ListOfDicts.to_data_frame: the columns are the keys of the FIRST item, in its order, each `pluck`ed over all items
    (None where an item lacks the key); an empty list gives a frame without columns. -/
theorem to_data_frame_code (truth : Term → Bool) :
    ListOfDicts_to_data_frame truth = Out.ret [] (Term.app "DataFrame" [Term.app "=**" [Term.app "._to_columns" [Term.sym "self"]]]) ∧
    ListOfDicts_to_columns truth = Out.ret [] (if truth (Term.sym "self")
      then Term.app "DictComp" [Term.app "pair" [Term.sym "k", Term.app ".pluck" [Term.sym "self", Term.sym "k"]],
             Term.app "in" [Term.sym "k", Term.app "getitem" [Term.sym "self", Term.int 0], Term.app "if" []]]
      else Term.sym "{}") := ⟨rfl, rfl⟩

/-- the importers from pandas / Arrow are generator methods that take the type mapping by keyword only. -/
theorem importer_signatures :
    DataFrame_from_pandas_signature = ["cls", "data", "*", "dtypes={}"] ∧ DataFrame_from_arrow_signature = ["cls", "data", "*", "dtypes={}"] ∧
    DataFrame_from_pandas_decorators = ["classmethod", "deco.new_from_generator"] ∧
    DataFrame_from_arrow_decorators = ["classmethod", "deco.new_from_generator"] := ⟨rfl, rfl, rfl, rfl⟩

end DI.Tie.C13

/-
  Proofs/EvalC17.lean — property C17, "code ⇒ semantics ⇒ model" for the shared-dict bookkeeping of ListOfDicts.

  `Generated/CodeC17.lean` (regenerated from the current source of `dataiter/list_of_dicts.py` / `dataiter/deco.py`) is RUN
  by the evaluator of `Model/PyEvalObs.lean` on a heap of list objects — the `World` of `Model/Obsolete.lean` — with an
  output log.  The theorems say that what the code computes IS the state machine of `Model/Obsolete.lean` (`touch`,
  `markChain`, `step`, `run`), for EVERY world whose predecessors are older objects (`PredOlder`, established by `_new`,
  which allocates at the end — `Proofs/C17.lean`, `pred_older`), EVERY reference in range, EVERY content `raw` of a freshly
  allocated object before `__init__` has run; so every theorem of `Proofs/C17.lean` about `run` holds of the code-level
  execution (`run_eval`, and two transferred corollaries).

  Vocabulary (`Model/PyEvalObs.lean`): `runMarkObsolete / runGetattribute / runNew / runDeepcopy / runCopy raw w r …` = the
  regenerated function run with `self := r` in the world `w` (empty log); `runDerived / runEditing raw w r g` = `r.m(…)` for
  a `@new_from_generator` / `@obsoletes @new_from_generator` method whose generator body is `g : Gen` (from the receiver and
  the world: the yielded dicts or `none` = raises, and the world it leaves); `Gen.KeepsLists g` = the body leaves the list
  objects alone (it reads items, writes into dicts, allocates dicts); `codeStep / codeRun / codeFinal / codeWarnCount` = the
  model's `Op`s executed by the code; `fresh ds p` = the clean object `{items := ds, pred := p, obsolete := false, warned :=
  false}`; `warnOut b` = `[warningText]` if `b` else `[]`; `Res.ok value cfg` / `Res.raised cfg` / `Res.unsupported`.

  Statements only; proofs cite `Lemmas/PyEvalObs.lean`.
-/
import Generated.CodeC17
import Model.PyEvalObs
import Lemmas.PyEvalObs
import Proofs.C17

namespace DI.Eval.C17

open DI DI.Py DI.Gen DI.Obs DI.PyEvalObs

/-- **`_mark_obsolete`**: running the regenerated function on `r` returns `None`, prints nothing, and leaves exactly the
    model's `markChain`: the fuel of the evaluator (one unit per link) never runs out.  Pointwise: every list keeps its
    items, predecessor and `warned` flag, and is obsolete afterwards iff it was before or lies on the predecessor chain of
    `r` (`Anc … i r`: `i = r` or an ancestor of `r`). -/
theorem mark_obsolete_eval (raw : LObj) (w : World) (hpo : PredOlder w.lists) (r : Nat) (hr : r < w.lists.length) :
    runMarkObsolete raw w r =
      .ok .none { env := [], w := { w with lists := markChain w.lists.length w.lists r }, out := [] } ∧
    ∀ i l, w.lists[i]? = some l →
      ∃ l', (markChain w.lists.length w.lists r)[i]? = some l' ∧ l'.items = l.items ∧ l'.pred = l.pred ∧
        l'.warned = l.warned ∧ (l'.obsolete = true ↔ (l.obsolete = true ∨ Anc w.lists i r)) :=
  ⟨runMarkObsolete_eq raw w hpo r hr, fun i l h => markChain_pointwise w hpo r i l h⟩

/-- **`__getattribute__`**, callable attribute whose name does not contain "obsolete": the regenerated function is the
    model's `touch` — the world after it is `(touch w r).1` and the warning text is printed iff `(touch w r).2`, i.e.
    (`Proofs/C17.lean`, `warn_once`) iff the list is obsolete and has not warned yet, and then `warned` is set. -/
theorem getattribute_eval (raw : LObj) (w : World) (r : Nat) (hr : r < w.lists.length) :
    runGetattribute raw w r false true =
      .ok .opaque { env := [], w := (touch w r).1, out := warnOut (touch w r).2 } := by
  rw [runGetattribute_eq raw w r hr]; rfl

/-- `getattribute_eval` spelled out: if the list is obsolete and has not warned, the warning text is printed once and only
    `warned` of that list is set; otherwise nothing is written and nothing printed. -/
theorem getattribute_eval_cases (raw : LObj) (w : World) (r : Nat) (l : LObj) (hl : w.lists[r]? = some l) :
    (l.obsolete = true ∧ l.warned = false →
      runGetattribute raw w r false true =
        .ok .opaque { env := [], w := { w with lists := w.lists.set r { l with warned := true } }, out := [warningText] }) ∧
    (l.obsolete = false ∨ l.warned = true →
      runGetattribute raw w r false true = .ok .opaque { env := [], w := w, out := [] }) :=
  runGetattribute_cases raw w r l hl

/-- `__getattribute__` for a bookkeeping attribute (name contains "obsolete") or a non-callable one: no write, no print. -/
theorem getattribute_silent_eval (raw : LObj) (w : World) (r : Nat) (hr : r < w.lists.length) (bk cl : Bool)
    (h : bk = true ∨ cl = false) :
    runGetattribute raw w r bk cl = .ok .opaque { env := [], w := w, out := [] } := by
  rw [runGetattribute_eq raw w r hr]
  rcases h with rfl | rfl <;> simp [start]

/-- **`_new(dicts)`**, full strength: the lookup `self.__class__` is an attribute access (callable, no "obsolete" in the
    name), i.e. a `touch` of the receiver; then ONE object is allocated at the end: the given dicts, `pred = some r`, not
    obsolete, not warned — whatever the raw object held.  Nothing else changes. -/
theorem new_eval (raw : LObj) (w : World) (r : Nat) (hr : r < w.lists.length) (ds : List Nat) :
    runNew raw w r ds =
      .ok (.ref w.lists.length)
        { env := [], w := { (touch w r).1 with lists := (touch w r).1.lists ++ [fresh ds (some r)] },
          out := warnOut (touch w r).2 } :=
  runNew_eq raw w r hr ds

/-- `_new(dicts)` as first written in the task ("allocates one object, nothing else changes, nothing printed") holds when
    the receiver is not obsolete or has warned already — in particular after the access `r.method` every public call
    starts with. -/
theorem new_eval_partial (raw : LObj) (w : World) (r : Nat) (l : LObj) (hl : w.lists[r]? = some l)
    (h : l.obsolete = false ∨ l.warned = true) (ds : List Nat) :
    runNew raw w r ds =
      .ok (.ref w.lists.length) { env := [], w := { w with lists := w.lists ++ [fresh ds (some r)] }, out := [] } := by
  rw [runNew_eq raw w r (List.getElem?_eq_some_iff.mp hl).1 ds, touch_noop w r l hl h]; rfl

/-- … and fails otherwise: `_new` on an obsolete list that has not warned yet prints the warning and sets `warned`
    (`self.__class__` goes through `__getattribute__`, and a class is callable). -/
theorem new_eval_counterexample :
    runNew default { lists := [{ items := [0], pred := none, obsolete := true, warned := false }], vers := [0] } 0 [0] =
      .ok (.ref 1)
        { env := [],
          w := { lists := [{ items := [0], pred := none, obsolete := true, warned := true }, fresh [0] (some 0)],
                 vers := [0] },
          out := [warningText] } := by decide

/-- **`__deepcopy__`**: `touch` (the lookup `self.__class__`), one brand-new dict object per item, ONE new list object at
    the end holding them: `pred = none`, not obsolete, not warned.  Nothing else changes. -/
theorem deepcopy_eval (raw : LObj) (w : World) (r : Nat) (l : LObj) (hl : w.lists[r]? = some l) :
    runDeepcopy raw w r =
      .ok (.ref w.lists.length)
        { env := [],
          w := { lists := (touch w r).1.lists ++ [fresh ((List.range l.items.length).map (· + w.vers.length)) none],
                 vers := w.vers ++ List.replicate l.items.length 0 },
          out := warnOut (touch w r).2 } :=
  runDeepcopy_eq raw w r l hl

/-- **`__copy__`** = `self._new(self)`: `touch`, then one new list holding the SAME dict objects, `pred = some r`. -/
theorem copy_eval (raw : LObj) (w : World) (r : Nat) (l : LObj) (hl : w.lists[r]? = some l) :
    runCopy raw w r =
      .ok (.ref w.lists.length)
        { env := [], w := { (touch w r).1 with lists := (touch w r).1.lists ++ [fresh l.items (some r)] },
          out := warnOut (touch w r).2 } :=
  runCopy_eq raw w r l hl

/-- **`new_from_generator.wrapper`**, any generator body `g` that leaves the list objects alone: the call `r.m(…)` is
    `touch`, then the body, then ONE new object with the yielded dicts and `pred = some r`; if the body raises, no object
    is added. -/
theorem new_from_generator_wrapper_eval (raw : LObj) (w : World) (r : Nat) (hr : r < w.lists.length) (g : Gen)
    (hg : g.KeepsLists) :
    (∀ ds w', g r (touch w r).1 = (some ds, w') →
      runDerived raw w r g =
        .ok (.ref w.lists.length)
          { env := [], w := { lists := (touch w r).1.lists ++ [fresh ds (some r)], vers := w'.vers },
            out := warnOut (touch w r).2 }) ∧
    (∀ w', g r (touch w r).1 = (none, w') →
      runDerived raw w r g = .raised { env := [], w := w', out := warnOut (touch w r).2 }) := by
  constructor
  · intro ds w' h; rw [runDerived_eq raw w r hr g hg, h]
  · intro w' h; rw [runDerived_eq raw w r hr g hg, h]

/-- … with the body of the model's derive op (the items at `keep`, then `extra` new dicts): the model's `step`. -/
theorem derive_eval (raw : LObj) (w : World) (hpo : PredOlder w.lists) (r : Nat) (hr : r < w.lists.length)
    (keep : List Nat) (extra : Nat) :
    (runDerived raw w r (genDerive keep extra)).done =
      some ((step w (.derive r keep extra)).1, warnOut (step w (.derive r keep extra)).2) :=
  codeStep_eq raw w hpo (.derive r keep extra) hr

/-- **`obsoletes.wrapper`** around `new_from_generator.wrapper`, any body `g` that leaves the list objects alone, when the
    body returns: `touch`; the result is allocated at the end — NOT obsolete, not warned, `pred = some r`; then exactly the
    predecessor chain of the receiver (including it) is marked; every other flag of every list is unchanged
    (`mark_obsolete_eval`, second part); nothing is printed besides the warning of the initial access. -/
theorem obsoletes_wrapper_eval (raw : LObj) (w : World) (hpo : PredOlder w.lists) (r : Nat) (hr : r < w.lists.length)
    (g : Gen) (hg : g.KeepsLists) (ds : List Nat) (w' : World) (h : g r (touch w r).1 = (some ds, w')) :
    runEditing raw w r g =
      .ok (.ref w.lists.length)
        { env := [], w := { lists := markChain w.lists.length (touch w r).1.lists r ++ [fresh ds (some r)],
                            vers := w'.vers },
          out := warnOut (touch w r).2 } := by
  rw [runEditing_eq raw w hpo r hr g hg, h]

/-- **when the wrapped method raises** `_mark_obsolete` is NOT called: no list is added, no list is marked — whatever the
    body had written into the shared dicts before it raised stays written (`w'.vers`), and no list will ever warn about
    it.  The model has no editing op of this kind; seen from the model this call is a `use` followed by direct item
    writes (`poke`) — see `raising_edit_is_use_and_pokes` below. -/
theorem obsoletes_wrapper_raise_eval (raw : LObj) (w : World) (hpo : PredOlder w.lists) (r : Nat)
    (hr : r < w.lists.length) (g : Gen) (hg : g.KeepsLists) (w' : World) (h : g r (touch w r).1 = (none, w')) :
    runEditing raw w r g = .raised { env := [], w := w', out := warnOut (touch w r).2 } ∧
    w'.lists = (touch w r).1.lists := by
  refine ⟨by rw [runEditing_eq raw w hpo r hr g hg, h], ?_⟩
  have := hg r (touch w r).1
  rw [h] at this; exact this

/-- the editing ops of the model are the `obsoletes` wrapper run on their bodies: the model's `step`. -/
theorem edit_eval (raw : LObj) (w : World) (hpo : PredOlder w.lists) (r : Nat) (hr : r < w.lists.length)
    (keep : List Nat) :
    (runEditing raw w r (genEditInPlace keep)).done =
      some ((step w (.editInPlace r keep)).1, warnOut (step w (.editInPlace r keep)).2) ∧
    (runEditing raw w r genEditFresh).done =
      some ((step w (.editFresh r)).1, warnOut (step w (.editFresh r)).2) :=
  ⟨codeStep_eq raw w hpo (.editInPlace r keep) hr, codeStep_eq raw w hpo (.editFresh r) hr⟩

/-- **one call**: every op of the model, executed by the regenerated code on an existing receiver, is the model's `step`:
    same world, and the warning text is printed exactly when the model says so. -/
theorem step_eval (raw : LObj) (w : World) (hpo : PredOlder w.lists) (op : Op) (hr : op.recv < w.lists.length) :
    codeStep raw w op = some ((step w op).1, warnOut (step w op).2) :=
  codeStep_eq raw w hpo op hr

/-- **the lift**: for every history whose receivers exist when they are called, folding the code-level steps is the
    model's `run` — the same worlds, the same warnings. -/
theorem run_eval (raw : LObj) (w : World) (hpo : PredOlder w.lists) (ops : List Op) (hv : ValidRecv w ops) :
    codeRun raw w ops = some ((run w ops).map fun p => (warnOut p.1, p.2)) :=
  codeRun_eq raw ops w hpo hv

/-- `ValidRecv` spelled out, and: the code-level history is defined exactly on those histories. -/
theorem run_eval_defined_iff (raw : LObj) (w : World) (hpo : PredOlder w.lists) (ops : List Op) :
    ((codeFinal raw w ops).isSome = true ↔ ValidRecv w ops) ∧
    (ValidRecv w ops ↔ ∀ pre op post, ops = pre ++ op :: post → op.recv < (runFinal w pre).lists.length) ∧
    (ValidRecv w ops → codeFinal raw w ops = some (runFinal w ops)) :=
  ⟨codeFinal_isSome_iff raw ops w hpo, validRecv_iff w ops, codeFinal_eq raw ops w hpo⟩

/-- **transferred (clause 1 of C17)**: along a history executed by the regenerated code from a world with older
    predecessors and no obsolete list, a list is obsolete at the end iff some `@obsoletes` call of the history was made on
    it or on one of its descendants (its receiver's chain, at the time of the call, contained the list). -/
theorem obsolete_iff_edited_descendant_code (raw : LObj) (w : World) (hpo : PredOlder w.lists)
    (hclean : ∀ j, isObs w j = false) (ops : List Op) (hv : ValidRecv w ops) (i : Nat) :
    ∃ wf, codeFinal raw w ops = some wf ∧
      (isObs wf i = true ↔
        ∃ pre op post wpre, ops = pre ++ op :: post ∧ op.isEdit = true ∧
          codeFinal raw w pre = some wpre ∧ Anc wpre.lists i op.recv) :=
  code_obsolete_iff raw w hpo hclean ops hv i

/-- **transferred (clause 4 of C17)**: along every history executed by the regenerated code the warning text is printed
    at most once by calls on any one list. -/
theorem warning_at_most_once_code (raw : LObj) (w : World) (hpo : PredOlder w.lists) (ops : List Op)
    (hv : ValidRecv w ops) (r : Nat) :
    ∃ k, codeWarnCount raw r w ops = some k ∧ k ≤ 1 :=
  ⟨_, codeWarnCount_eq raw r ops w hpo hv, (warnCount_le_one r ops w).2⟩

/-- **no test is answered blindly**: `truthOf` answers the tests it does not know by a default; in the configurations in
    which the evaluator runs them (`self` bound to a list object — checked by `getAttr` before every call —, `name` bound
    to an attribute kind, `as_is` bound to a boolean — checked by `allocInit`) the outcome of the three functions that
    make tests does not depend on that default; the other five functions (`_new`, `__deepcopy__`, `__copy__`, the two
    wrappers) make no test at all. -/
theorem tests_are_known (c : Cfg) (d : Bool) :
    (c.env.lookup "as_is" = some .tt ∨ c.env.lookup "as_is" = some .ff →
      ListOfDicts_init (truthOf d c) = ListOfDicts_init (truthOf false c)) ∧
    (∀ l, (c.env.lookup "self").bind (objOf c) = some l →
      ListOfDicts_mark_obsolete (truthOf d c) = ListOfDicts_mark_obsolete (truthOf false c)) ∧
    (∀ l bk cl, (c.env.lookup "self").bind (objOf c) = some l → c.env.lookup "name" = some (.kind bk cl) →
      ListOfDicts_getattribute (truthOf d c) = ListOfDicts_getattribute (truthOf false c)) ∧
    (∀ t t' : Term → Bool, ListOfDicts_new t = ListOfDicts_new t' ∧ ListOfDicts_deepcopy t = ListOfDicts_deepcopy t' ∧
      ListOfDicts_copy t = ListOfDicts_copy t' ∧ deco_obsoletes_wrapper t = deco_obsoletes_wrapper t' ∧
      deco_new_from_generator_wrapper t = deco_new_from_generator_wrapper t') :=
  ⟨init_tests_known c d, fun l h => mark_obsolete_tests_known c d l h,
   fun l bk cl h hn => getattribute_tests_known c d l bk cl h hn, fun _ _ => ⟨rfl, rfl, rfl, rfl, rfl⟩⟩

/-! ### non-vacuity and the reported discrepancies (concrete, by `decide`) -/

/-- a raw object with the WORST contents: the clean flags of new lists below are the work of `__init__`. -/
def poison : LObj := { items := [9], pred := some 7, obsolete := true, warned := true }

/-- root → filter → sort: a chain of three lists over one dict. -/
def chain3 : World := runFinal (init 1) [.derive 0 [0] 0, .derive 1 [0] 0]

/-- `_mark_obsolete` on the middle list marks it and the root, not the last one; nothing printed. -/
example : (runMarkObsolete poison chain3 1).done.map (fun p => (p.1.lists.map (·.obsolete), p.2)) =
    some ([true, true, false], []) := by decide

/-- `__getattribute__`: an obsolete list warns on the first callable access, not on the second; never on `_obsolete`. -/
example :
    let w := (runFinal chain3 [.editInPlace 2 [0]])
    (runGetattribute poison w 0 false true).done.map (·.2) = some [warningText] ∧
    ((runGetattribute poison w 0 false true).done.bind fun p => (runGetattribute poison p.1 0 false true).done.map (·.2)) =
      some [] ∧
    (runGetattribute poison w 0 true false).done.map (·.2) = some [] := by decide

/-- `_new` / `__deepcopy__` / `__copy__` from the poisoned raw object: the new list is clean. -/
example :
    (runNew poison chain3 2 [0]).done.map (·.1.lists[3]?) = some (some (fresh [0] (some 2))) ∧
    (runDeepcopy poison chain3 2).done.map (·.1.lists[3]?) = some (some (fresh [1] none)) ∧
    (runCopy poison chain3 2).done.map (·.1.lists[3]?) = some (some (fresh [0] (some 2))) := by decide

/-- **a chain of three lists, an edit at the end, then the root is used twice: exactly one warning** — executed by the
    regenerated code, and equal to the model's run. -/
example :
    let ops : List Op := [.derive 0 [0] 0, .derive 1 [0] 0, .editInPlace 2 [0], .use 0, .use 0]
    (codeRun poison (init 1) ops).map (·.map (·.1)) = some [[], [], [], [warningText], []] ∧
    (codeFinal poison (init 1) ops).map (·.lists.map (·.obsolete)) = some [true, true, true, false] ∧
    codeWarnCount poison 0 (init 1) ops = some 1 ∧
    codeRun poison (init 1) ops = some ((run (init 1) ops).map fun p => (warnOut p.1, p.2)) := by decide

/-- all six kinds of call in one history, code = model. -/
example :
    let ops : List Op := [.derive 0 [0, 1] 0, .derive 1 [1, 0] 1, .editInPlace 2 [0, 1], .use 0, .deepcopy 1,
                          .editFresh 3, .poke 0 0, .use 1]
    codeRun poison (init 2) ops = some ((run (init 2) ops).map fun p => (warnOut p.1, p.2)) := by decide

/-- a body that writes into the first item and then raises. -/
def genWriteThenRaise : Gen := fun r w =>
  match w.lists[r]? with
  | none => (none, w)
  | some l => (none, { w with vers := bump w.vers (pick l.items [0]) })

/-- **discrepancy (reported)**: an `@obsoletes` method that raises half-way has already written into a dict it shares with
    its ancestors, but nothing is marked obsolete — the root will never warn.  The model has no such editing op; the
    resulting world is the model's `use` + `poke`. -/
theorem raising_edit_is_use_and_pokes :
    runEditing poison chain3 2 genWriteThenRaise =
      .raised { env := [], w := runFinal chain3 [.use 2, .poke 2 0], out := [] } ∧
    (runFinal chain3 [.use 2, .poke 2 0]).vers = [1] ∧
    (runFinal chain3 [.use 2, .poke 2 0]).lists.map (·.obsolete) = [false, false, false] := by decide

/-- **the order of the wrapped call and `_mark_obsolete` is observable** (and is not recorded by the translated term —
    it is an input of `call`): in Python's order an edit of a fresh list prints nothing; were the chain marked first, the
    lookup `self._new` inside the wrapped call would already print the warning on the receiver. -/
theorem obsoletes_order_matters :
    (obsCall poison 20 true (genEditInPlace [0]) (.ref 0) (start (init 1))).done.map (·.2) = some [] ∧
    (obsCall poison 20 false (genEditInPlace [0]) (.ref 0) (start (init 1))).done.map (·.2) = some [warningText] := by
  decide

end DI.Eval.C17

/-
  Proofs/C07.lean — property C07: aggregation helpers compute the documented statistic and NA
  policy.  Statements only; proofs cite Lemmas/Aggregate.lean; `Generated.HelperTable` is
  regenerated from dataiter/aggregate.py on every run.
-/
import Model.Aggregate
import Lemmas.Aggregate
import Lemmas.AggStats
import Lemmas.AggSpec
import Generated.HelperTable

namespace DI.C07

open DI.Agg DI.Gen

/-- the per-helper decision table read off the current source (signature default of drop_na,
    `aggregate.default`, `nrequired`, cast) is the documented one: NaN for
    mean/median/quantile/std/var, the column's missing value for min/max/mode/nth (first and last
    delegate to nth), 0 for sum and count(_unique), true for all, false for any. -/
theorem helper_table_documented :
    helperTable.map (fun r => (r.name, r.dropNaDefault, r.default, r.nrequired, r.cast)) =
    [("all", "none", "true", 0, "bool"), ("any", "none", "false", 0, "bool"),
     ("count", "false", "zero", 0, "none"), ("count_unique", "false", "zero", -1, "none"),
     ("first", "false", "delegate", -1, "none"), ("last", "false", "delegate", -1, "none"),
     ("max", "true", "colna", 1, "none"), ("mean", "true", "nan", 1, "none"),
     ("median", "true", "nan", 1, "none"), ("min", "true", "colna", 1, "none"),
     ("mode", "true", "colna", -1, "none"), ("nth", "false", "colna", -1, "none"),
     ("quantile", "true", "nan", -1, "float"), ("std", "true", "nan", 2, "none"),
     ("sum", "true", "zero", 0, "none"), ("var", "true", "nan", 2, "none")] := by decide

/-- the vector form's own length guard agrees with the group form's `nrequired`. -/
theorem vector_guard_matches_nrequired :
    ∀ r ∈ helperTable, r.vecNreq = -1 ∨ r.nrequired = -1 ∨ r.vecNreq = r.nrequired := by decide

/-- the kernels with an inline length test use "at least one element" on both paths. -/
theorem inline_length_tests :
    inlineLengthTests = [("count_unique_apply", ""), ("count_unique_apply_numba", ""),
      ("mode_apply", "len(xg) >= 1"), ("mode_apply_numba", "len(xg) > 0"), ("nth_apply", ""),
      ("nth_apply_numba", ""), ("quantile_apply", "len(xg) >= 1"), ("quantile_apply_numba", "len(xg) >= 1")] := by
  decide

/-- both calling forms: the group-wise form gives, for every group, the vector form applied to
    exactly that group's elements in their order. -/
theorem group_form_eq_vector_form (h : Helper) (d : Bool) (xs : List Num) (ids : List Nat)
    (hlen : ids.length = xs.length) (hall : (h = .all ∨ h = .any) → d = false) :
    groupForm h d xs ids = (chunks ids xs).map (fun xg => vectorForm h d xg) :=
  group_eq_vector h d xs ids hlen hall

/-- the groups handed to the helpers are consecutive pieces of the column: nothing lost, nothing twice. -/
theorem groups_cover_column (ids : List Nat) (xs : List Num) (h : ids.length = xs.length) :
    (chunks ids xs).flatten = xs := chunks_flatten ids xs h

/-- drop_na removes exactly the missing values. -/
theorem drop_na_exact (xs : List Num) :
    (∀ x ∈ dropNa xs, x.isSome = true) ∧ (dropNa xs).Sublist xs ∧ values (dropNa xs) = values xs :=
  dropNa_removes_exactly_na xs

/-- without drop_na missing values propagate through the numeric reductions. -/
theorem missing_propagates (xs : List Num) (h : hasNa xs = true) (q : Rat) (ddof : Nat) :
    npSum xs = .missing ∧ npMean xs = .missing ∧ npMedian xs = .missing ∧ npQuantile q xs = .missing ∧
    npVar ddof xs = .missing ∧ npStd ddof xs = .missing ∧ npMin xs = .missing ∧ npMax xs = .missing :=
  na_propagates xs h q ddof

/-- too few elements: the documented default of every helper. -/
theorem too_few_elements_default (d : Bool) (x : Num) (ddof : Nat) (q : Rat) (i : Int) :
    vectorForm .mean d [] = .missing ∧ vectorForm .median d [] = .missing ∧
    vectorForm (.quantile q) d [] = .missing ∧ vectorForm (.std ddof) d [x] = .missing ∧
    vectorForm (.var ddof) d [x] = .missing ∧ vectorForm (.std ddof) d [] = .missing ∧
    vectorForm .min d [] = .missing ∧ vectorForm .max d [] = .missing ∧ vectorForm .mode d [] = .missing ∧
    vectorForm (.nth i) d [] = .missing ∧ vectorForm .sum d [] = .val 0 ∧ vectorForm .count d [] = .nat 0 ∧
    vectorForm .all d [] = .bool true ∧ vectorForm .any d [] = .bool false :=
  short_group_default d x ddof q i

/-! ## characterisations of the statistics (Lemmas/AggStats.lean, Lemmas/AggSpec.lean)

  Everything below is about a group after the NA policy has been applied: either a list of cells
  `xs` with `hasNa xs = false`, or directly the list of values `l : List Rat`
  (`kernels_on_values` ties the two together). -/

/-- on a group holding the values `l` and no missing value, the kernels compute the statistics
    `rsum`, `meanOf` (= sum / n by definition), `variance`, √`variance`, `medianOf`, `quantileOf`,
    `minFold`, `maxFold` of `l` that the theorems below characterise. -/
theorem kernels_on_values (l : List Rat) (q : Rat) (ddof : Nat) :
    npSum (l.map some) = .val (rsum l) ∧ npMean (l.map some) = .val (meanOf l) ∧
    npVar ddof (l.map some) = .val (variance l ddof) ∧ npStd ddof (l.map some) = .sqrt (variance l ddof) ∧
    npMedian (l.map some) = .val (medianOf l) ∧ npQuantile q (l.map some) = .val (quantileOf l q) ∧
    (∀ v vs, l = v :: vs → npMin (l.map some) = .val (minFold v vs) ∧ npMax (l.map some) = .val (maxFold v vs)) :=
  np_of_values l q ddof

/-- a group without missing values *is* the list of its values. -/
theorem group_is_its_values (xs : List Num) (h : hasNa xs = false) : xs = (values xs).map some :=
  eq_map_some_of_no_na xs h

/-- min: the result is an element of the group and ≤ every element. -/
theorem min_is_least_element (xs : List Num) (hna : hasNa xs = false) (hne : xs ≠ []) :
    ∃ m, npMin xs = .val m ∧ m ∈ values xs ∧ ∀ x ∈ values xs, m ≤ x := npMin_spec xs hna hne

/-- max: the result is an element of the group and ≥ every element. -/
theorem max_is_greatest_element (xs : List Num) (hna : hasNa xs = false) (hne : xs ≠ []) :
    ∃ m, npMax xs = .val m ∧ m ∈ values xs ∧ ∀ x ∈ values xs, x ≤ m := npMax_spec xs hna hne

/-- `np.argmax` as used by mode: a valid position holding a maximal entry, every earlier entry
    strictly smaller. -/
theorem first_argmax_spec (counts : List Nat) (hne : counts ≠ []) :
    ∃ h : firstArgmax counts < counts.length,
      (∀ j (hj : j < counts.length), counts[j] ≤ counts[firstArgmax counts]) ∧
      (∀ j (hj : j < firstArgmax counts), counts[j] < counts[firstArgmax counts]) :=
  firstArgmax_spec counts hne

/-- mode (pure kernel, `statistics.mode`): the result m is an element; no value occurs more often
    than m; every other value occurring equally often first occurs after m's first occurrence. -/
theorem mode_is_most_frequent_first (xs : List Num) (hne : xs ≠ []) :
    ∃ m, modeOf xs = ofNum m ∧ m ∈ xs ∧ (∀ y, xs.count y ≤ xs.count m) ∧
      (∀ y ∈ xs, y ≠ m → xs.count y = xs.count m → xs.idxOf m < xs.idxOf y) :=
  mode_most_frequent_first xs hne

/-- mode (Numba kernel): the same characterisation on a group without missing values. -/
theorem mode_numba_is_most_frequent_first (xs : List Num) (hne : xs ≠ []) (hna : hasNa xs = false) :
    ∃ m, modeNumba xs = some (ofNum m) ∧ m ∈ xs ∧ (∀ y, xs.count y ≤ xs.count m) ∧
      (∀ y ∈ xs, y ≠ m → xs.count y = xs.count m → xs.idxOf m < xs.idxOf y) :=
  modeNumba_most_frequent_first xs hne hna

/-- mode on a list of values: both kernels return the same value m of the list, most frequent,
    ties broken by first occurrence. -/
theorem mode_of_values_both_kernels (l : List Rat) (hne : l ≠ []) :
    ∃ m, modeOf (l.map some) = .val m ∧ modeNumba (l.map some) = some (.val m) ∧ m ∈ l ∧
      (∀ y, l.count y ≤ l.count m) ∧
      (∀ y ∈ l, y ≠ m → l.count y = l.count m → l.idxOf m < l.idxOf y) := mode_of_values l hne

/-- count_unique without missing values, both paths: the length of the duplicate-free list of
    the group's values; at most the group size; zero exactly for the empty group. -/
theorem count_unique_is_number_of_distinct (d : Bool) (xs : List Num) (hna : hasNa xs = false) :
    countUniqueOf d xs = (values xs).eraseDups.length ∧ countUniqueNumba xs = (values xs).eraseDups.length ∧
    (values xs).eraseDups.Nodup ∧ (∀ v, v ∈ (values xs).eraseDups ↔ some v ∈ xs) ∧
    countUniqueOf d xs ≤ xs.length ∧ (countUniqueOf d xs = 0 ↔ xs = []) := countUnique_spec d xs hna

/-- "number of distinct values" is well defined: every duplicate-free list with the same
    elements as `l` has the length of `l.eraseDups`. -/
theorem number_of_distinct_unique (l d : List Rat) (hd : d.Nodup) (hmem : ∀ x, x ∈ d ↔ x ∈ l) :
    d.length = l.eraseDups.length := eraseDups_length_unique l d hd hmem

/-- nth with an index `0 ≤ i < len` returns `xs[i]`. -/
theorem nth_nonneg_index (xs : List Num) (i : Int) (h0 : 0 ≤ i) (hlt : i < xs.length) :
    nthOf xs i = ofNum (xs[i.toNat]'(by omega)) := nthOf_nonneg xs i h0 hlt

/-- nth with an index `-len ≤ i < 0` returns `xs[len + i]`. -/
theorem nth_negative_index (xs : List Num) (i : Int) (hneg : i < 0) (hge : -(xs.length : Int) ≤ i) :
    nthOf xs i = ofNum (xs[(i + xs.length).toNat]'(by omega)) := nthOf_neg xs i hneg hge

/-- nth with any other index returns the default (the column's missing value). -/
theorem nth_out_of_range (xs : List Num) (i : Int) (h : (xs.length : Int) ≤ i ∨ i < -(xs.length : Int)) :
    nthOf xs i = .missing ∧
    (match kernel (.nth i) xs with | some r => r | none => defaultOf (.nth i)) = .missing :=
  ⟨nthOf_out_of_range xs i h, (nth_kernel_default xs i).trans (nthOf_out_of_range xs i h)⟩

/-- first = nth 0 is the first element, last = nth (-1) is the last element. -/
theorem first_last_are_nth (xs : List Num) (hne : xs ≠ []) :
    nthOf xs 0 = ofNum (xs.head hne) ∧ nthOf xs (-1) = ofNum (xs.getLast hne) :=
  ⟨nthOf_zero xs hne, nthOf_neg_one xs hne⟩

/-- the sort behind median and quantile returns an ordered permutation of the group, and it is
    determined by the multiset of values. -/
theorem sort_is_ordered_permutation (l : List Rat) :
    (sortRat l).Perm l ∧ (sortRat l).Pairwise (· ≤ ·) ∧ (∀ l', l.Perm l' → sortRat l = sortRat l') :=
  ⟨sortRat_perm l, sortRat_sorted l, fun _ p => sortRat_eq_of_perm p⟩

/-- the first / last entry of the sorted list is the least / greatest element of the group. -/
theorem sorted_ends_are_min_max (l : List Rat) (h : 0 < (sortRat l).length) :
    ((sortRat l)[0] ∈ l ∧ ∀ x ∈ l, (sortRat l)[0] ≤ x) ∧
    ((sortRat l)[(sortRat l).length - 1] ∈ l ∧ ∀ x ∈ l, x ≤ (sortRat l)[(sortRat l).length - 1]) :=
  ⟨sortRat_head_is_min l h, sortRat_last_is_max l h⟩

/-- median, odd length: the middle order statistic `s[n / 2]`. -/
theorem median_odd_length (l : List Rat) (hodd : l.length % 2 = 1) :
    medianOf l = (sortRat l)[l.length / 2]'(by rw [sortRat_length]; omega) := median_odd l hodd

/-- median, even length: the mean of the two middle order statistics. -/
theorem median_even_length (l : List Rat) (heven : l.length % 2 = 0) (hpos : 0 < l.length) :
    medianOf l = ((sortRat l)[l.length / 2 - 1]'(by rw [sortRat_length]; omega) +
      (sortRat l)[l.length / 2]'(by rw [sortRat_length]; omega)) / 2 := median_even l heven hpos

/-- quantile, `0 ≤ q ≤ 1`: the position `h = (n - 1) q` has integer part `k = ⌊h⌋` with
    `k ≤ h < k + 1` and `k < n`. -/
theorem quantile_position (n : Nat) (hn : 0 < n) (q : Rat) (h0 : 0 ≤ q) (h1 : q ≤ 1) :
    qIdx n q < n ∧ (qIdx n q : Rat) ≤ qPos n q ∧ qPos n q < (qIdx n q : Rat) + 1 :=
  qIdx_spec n hn q h0 h1

/-- quantile: linear interpolation `s[k] + (h - k) (s[k+1] - s[k])` between neighbouring order
    statistics. -/
theorem quantile_linear_interpolation (l : List Rat) (q : Rat) (hk : qIdx l.length q + 1 < l.length) :
    quantileOf l q =
      (sortRat l)[qIdx l.length q]'(by rw [sortRat_length]; omega) +
        (qPos l.length q - (qIdx l.length q : Rat)) *
          ((sortRat l)[qIdx l.length q + 1]'(by rw [sortRat_length]; omega) -
           (sortRat l)[qIdx l.length q]'(by rw [sortRat_length]; omega)) := quantile_interp l q hk

/-- quantile at the last order statistic (`k = n - 1`): that order statistic. -/
theorem quantile_at_last (l : List Rat) (q : Rat) (h0 : 0 ≤ q) (h1 : q ≤ 1) (hne : l ≠ [])
    (hk : ¬ qIdx l.length q + 1 < l.length) :
    qIdx l.length q = l.length - 1 ∧
    quantileOf l q = (sortRat l)[l.length - 1]'(by
      rw [sortRat_length]; have := List.length_pos_iff.mpr hne; omega) := quantile_last l q h0 h1 hne hk

/-- quantile 0 = min, quantile 1 = max, quantile 1/2 = median. -/
theorem quantile_zero_one_half (xs : List Num) (hna : hasNa xs = false) (hne : xs ≠ []) :
    npQuantile 0 xs = npMin xs ∧ npQuantile 1 xs = npMax xs ∧ npQuantile (1 / 2) xs = npMedian xs :=
  quantile_special_cases xs hna hne

/-- mean, median and every quantile (0 ≤ q ≤ 1) lie between any lower and any upper bound of
    the group's values. -/
theorem location_statistics_within_bounds (l : List Rat) (hne : l ≠ []) (q : Rat) (h0 : 0 ≤ q) (h1 : q ≤ 1)
    (lo hi : Rat) (hlo : ∀ x ∈ l, lo ≤ x) (hhi : ∀ x ∈ l, x ≤ hi) :
    (lo ≤ meanOf l ∧ meanOf l ≤ hi) ∧ (lo ≤ medianOf l ∧ medianOf l ≤ hi) ∧
    (lo ≤ quantileOf l q ∧ quantileOf l q ≤ hi) :=
  ⟨mean_bounds l hne lo hi hlo hhi, median_bounds l hne lo hi hlo hhi, quantile_bounds l hne q h0 h1 lo hi hlo hhi⟩

/-- min ≤ mean, median, quantile ≤ max on every non-empty group without missing values. -/
theorem min_le_location_le_max (xs : List Num) (hna : hasNa xs = false) (hne : xs ≠ [])
    (q : Rat) (h0 : 0 ≤ q) (h1 : q ≤ 1) :
    ∃ mn mx mean med qu, npMin xs = .val mn ∧ npMax xs = .val mx ∧ npMean xs = .val mean ∧
      npMedian xs = .val med ∧ npQuantile q xs = .val qu ∧
      mn ≤ mean ∧ mean ≤ mx ∧ mn ≤ med ∧ med ≤ mx ∧ mn ≤ qu ∧ qu ≤ mx :=
  stats_between_min_max xs hna hne q h0 h1

/-- sum: the empty sum is 0, one more element adds it, a concatenation sums the parts. -/
theorem sum_of_concatenation (a b : List Rat) (x : Rat) :
    rsum [] = 0 ∧ rsum (x :: a) = x + rsum a ∧ rsum (a ++ b) = rsum a + rsum b :=
  ⟨rfl, rsum_cons x a, rsum_append a b⟩

/-- mean = sum / n (so mean · n = sum for a non-empty group). -/
theorem mean_is_sum_over_n (l : List Rat) (hne : l ≠ []) :
    meanOf l = rsum l / l.length ∧ meanOf l * l.length = rsum l := ⟨rfl, mean_mul_length l hne⟩

/-- var with `ddof`: Σ (x - mean)² / (n - ddof). -/
theorem variance_formula (l : List Rat) (ddof : Nat) :
    variance l ddof = rsum (l.map (fun x => (x - meanOf l) * (x - meanOf l))) / ((l.length : Rat) - ddof) :=
  variance_eq l ddof

/-- var ≥ 0 (so std = √var is defined) whenever n > ddof. -/
theorem variance_is_nonneg (l : List Rat) (ddof : Nat) (h : ddof < l.length) : 0 ≤ variance l ddof :=
  variance_nonneg l ddof h

/-- var = 0 exactly when all elements of the group are equal (n > ddof). -/
theorem variance_zero_iff_constant (l : List Rat) (ddof : Nat) (h : ddof < l.length) :
    variance l ddof = 0 ↔ ∀ x ∈ l, ∀ y ∈ l, x = y := variance_eq_zero_iff l ddof h

/-- the statistics on values do not depend on the order of the values. -/
theorem statistics_order_free {a b : List Rat} (p : a.Perm b) (q : Rat) (ddof : Nat) :
    rsum a = rsum b ∧ meanOf a = meanOf b ∧ variance a ddof = variance b ddof ∧
    medianOf a = medianOf b ∧ quantileOf a q = quantileOf b q ∧ a.eraseDups.length = b.eraseDups.length :=
  ⟨rsum_perm p, meanOf_perm p, variance_perm p ddof, medianOf_perm p, quantileOf_perm p q, eraseDups_length_perm p⟩

/-- all / any / count / count_unique / min / max / mean / median / quantile / std / var / sum:
    the group's result (either path, including missing values and the `nrequired` default) does
    not depend on the order of the group's rows. -/
theorem order_free_kernels (h : Helper) (ho : orderFree h = true) {xs ys : List Num} (p : xs.Perm ys) :
    kernel h xs = kernel h ys ∧ kernelNumba h xs = kernelNumba h ys :=
  ⟨kernel_perm h ho p, kernelNumba_perm h ho p⟩

/-- the same for the vector form, NA policy included. -/
theorem order_free_vector_form (h : Helper) (ho : orderFree h = true) (d : Bool) {xs ys : List Num}
    (p : xs.Perm ys) : vectorForm h d xs = vectorForm h d ys := vectorForm_perm h ho d p

/-- first / last / nth and mode are NOT order free — which is why the groups must be handed over
    "in their original order" (`groups_cover_column`). -/
theorem order_matters_for_nth_and_mode :
    ([some 1, some 2] : List Num).Perm [some 2, some 1] ∧
    nthOf [some 1, some 2] 0 ≠ nthOf [some 2, some 1] 0 ∧
    nthOf [some 1, some 2] (-1) ≠ nthOf [some 2, some 1] (-1) ∧
    nthOf [some 1, some 2] 1 ≠ nthOf [some 2, some 1] 1 ∧
    modeOf [some 1, some 2] ≠ modeOf [some 2, some 1] ∧
    modeNumba [some 1, some 2] ≠ modeNumba [some 2, some 1] := order_matters_counterexamples

/-- all / any are the Boolean folds of "truthy" (non-zero, NaN counts as true), with the
    defaults true / false on the empty group. -/
theorem all_any_are_boolean_folds (xs : List Num) :
    npAll xs = .bool (xs.foldr (fun x acc => truthy x && acc) true) ∧
    npAny xs = .bool (xs.foldr (fun x acc => truthy x || acc) false) ∧
    (npAll xs = .bool true ↔ ∀ x ∈ xs, truthy x = true) ∧
    (npAny xs = .bool true ↔ ∃ x ∈ xs, truthy x = true) ∧
    npAll [] = .bool true ∧ npAny [] = .bool false ∧
    (∀ x, truthy x = true ↔ x ≠ some 0) :=
  ⟨npAll_fold xs, npAny_fold xs, npAll_iff xs, npAny_iff xs, rfl, rfl, truthy_iff⟩

/-- `group_form_eq_vector_form` and `groups_cover_column` without their avoidable hypothesis
    `ids.length = xs.length`: the groups are consecutive pieces of the part of the column that
    has a group id, and the group form is the vector form on each of them. -/
theorem group_form_eq_vector_form_any_lengths (h : Helper) (d : Bool) (xs : List Num) (ids : List Nat)
    (hall : (h = .all ∨ h = .any) → d = false) :
    (chunks ids xs).flatten = xs.take ids.length ∧
    groupForm h d xs ids = (chunks ids xs).map (fun xg => vectorForm h d xg) :=
  ⟨chunks_flatten_take ids xs, group_eq_vector' h d xs ids hall⟩

end DI.C07

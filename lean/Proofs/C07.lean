/-
  Proofs/C07.lean — property C07: aggregation helpers compute the documented statistic and NA
  policy.  Statements only; proofs cite Lemmas/Aggregate.lean; `Generated.HelperTable` is
  regenerated from dataiter/aggregate.py on every run.
-/
import Model.Aggregate
import Lemmas.Aggregate
import Generated.HelperTable

namespace DI.C07

open DI.Agg DI.Gen

/-- the per-helper decision table read off the current source (signature default of drop_na,
    `aggregate.default`, `nrequired`, cast) is the documented one: NaN for
    mean/median/quantile/std/var, the column's missing value for min/max/mode/nth (first and last
    delegate to nth), 0 for sum and count(_unique), true for all, false for any. -/
theorem helper_table_documented :
    helperTable.map (fun r => (r.name, r.dropNaDefault, r.default, r.nrequired, r.cast)) =
    [("all", "none", "true", 0, "bool"), ("any", "none", "false", 0, "bool"),
     ("count", "false", "zero", 0, "none"), ("count_unique", "false", "zero", -1, "none"),
     ("first", "false", "delegate", -1, "none"), ("last", "false", "delegate", -1, "none"),
     ("max", "true", "colna", 1, "none"), ("mean", "true", "nan", 1, "none"),
     ("median", "true", "nan", 1, "none"), ("min", "true", "colna", 1, "none"),
     ("mode", "true", "colna", -1, "none"), ("nth", "false", "colna", -1, "none"),
     ("quantile", "true", "nan", -1, "float"), ("std", "true", "nan", 2, "none"),
     ("sum", "true", "zero", 0, "none"), ("var", "true", "nan", 2, "none")] := by decide

/-- the vector form's own length guard agrees with the group form's `nrequired`. -/
theorem vector_guard_matches_nrequired :
    ∀ r ∈ helperTable, r.vecNreq = -1 ∨ r.nrequired = -1 ∨ r.vecNreq = r.nrequired := by decide

/-- the kernels with an inline length test use "at least one element" on both paths. -/
theorem inline_length_tests :
    inlineLengthTests = [("count_unique_apply", ""), ("count_unique_apply_numba", ""),
      ("mode_apply", "len(xg) >= 1"), ("mode_apply_numba", "len(xg) > 0"), ("nth_apply", ""),
      ("nth_apply_numba", ""), ("quantile_apply", "len(xg) >= 1"), ("quantile_apply_numba", "len(xg) >= 1")] := by
  decide

/-- both calling forms: the group-wise form gives, for every group, the vector form applied to
    exactly that group's elements in their order. -/
theorem group_form_eq_vector_form (h : Helper) (d : Bool) (xs : List Num) (ids : List Nat)
    (hlen : ids.length = xs.length) (hall : (h = .all ∨ h = .any) → d = false) :
    groupForm h d xs ids = (chunks ids xs).map (fun xg => vectorForm h d xg) :=
  group_eq_vector h d xs ids hlen hall

/-- the groups handed to the helpers are consecutive pieces of the column: nothing lost, nothing twice. -/
theorem groups_cover_column (ids : List Nat) (xs : List Num) (h : ids.length = xs.length) :
    (chunks ids xs).flatten = xs := chunks_flatten ids xs h

/-- drop_na removes exactly the missing values. -/
theorem drop_na_exact (xs : List Num) :
    (∀ x ∈ dropNa xs, x.isSome = true) ∧ (dropNa xs).Sublist xs ∧ values (dropNa xs) = values xs :=
  dropNa_removes_exactly_na xs

/-- without drop_na missing values propagate through the numeric reductions. -/
theorem missing_propagates (xs : List Num) (h : hasNa xs = true) (q : Rat) (ddof : Nat) :
    npSum xs = .missing ∧ npMean xs = .missing ∧ npMedian xs = .missing ∧ npQuantile q xs = .missing ∧
    npVar ddof xs = .missing ∧ npStd ddof xs = .missing ∧ npMin xs = .missing ∧ npMax xs = .missing :=
  na_propagates xs h q ddof

/-- too few elements: the documented default of every helper. -/
theorem too_few_elements_default (d : Bool) (x : Num) (ddof : Nat) (q : Rat) (i : Int) :
    vectorForm .mean d [] = .missing ∧ vectorForm .median d [] = .missing ∧
    vectorForm (.quantile q) d [] = .missing ∧ vectorForm (.std ddof) d [x] = .missing ∧
    vectorForm (.var ddof) d [x] = .missing ∧ vectorForm (.std ddof) d [] = .missing ∧
    vectorForm .min d [] = .missing ∧ vectorForm .max d [] = .missing ∧ vectorForm .mode d [] = .missing ∧
    vectorForm (.nth i) d [] = .missing ∧ vectorForm .sum d [] = .val 0 ∧ vectorForm .count d [] = .nat 0 ∧
    vectorForm .all d [] = .bool true ∧ vectorForm .any d [] = .bool false :=
  short_group_default d x ddof q i

end DI.C07

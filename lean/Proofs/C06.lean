/-
  Proofs/C06.lean — property C06: operations neither mutate nor alias their inputs.
  Statements only; proofs cite Lemmas/Heap.lean.  `Generated.Sites` is regenerated from
  dataiter/data_frame.py and dataiter/vector.py on every run.
-/
import Model.Heap
import Model.HeapSites
import Lemmas.Heap
import Generated.Sites

namespace DI.C06

open DI.Heap DI.Gen

/-- one call: a method that writes only into buffers it allocated and hands out only new buffers
    leaves every existing buffer as it was — for every heap, receiver and argument. -/
theorem call_frame_condition (h : Heap) (recv arg : Frame) (e : Effect) (hc : e.clean) :
    ∃ ext, (exec h recv arg e).1 = h ++ ext ∧
      ∀ c ∈ (exec h recv arg e).2.cols, h.length ≤ c.2 ∧ c.2 < (h ++ ext).length :=
  clean_frame_condition h recv arg e hc

/-- the receiver and the arguments are observed unchanged: names, order, contents, grouping. -/
theorem operands_unchanged (h : Heap) (recv arg f : Frame) (e : Effect) (hc : e.clean)
    (hf : ∀ c ∈ f.cols, c.2 < h.length) : view (exec h recv arg e).1 f = view h f := by
  obtain ⟨ext, he, _⟩ := clean_frame_condition h recv arg e hc
  rw [he]; exact view_append h ext f hf

/-- a later in-place edit on one side is not observed on the other when no buffer is shared. -/
theorem later_edit_unobserved (h : Heap) (f g : Frame) (j v : Nat)
    (hd : ∀ a ∈ f.cols, ∀ b ∈ g.cols, a.2 ≠ b.2) : view (poke h f j v) g = view h g :=
  poke_unobserved h f g j v hd

/-- all sequences of such calls: every object alive before the sequence is observed unchanged after
    it, every object the sequence creates shares no buffer with anything older, handles stay live. -/
theorem sequences_frame_condition (n0 : Nat) (cs : List Call) (h : Heap) (pool : List Frame)
    (hc : ∀ c ∈ cs, c.eff.clean) (hinv : Inv n0 h pool) (hn : n0 ≤ pool.length) :
    ∃ ext rs, runCalls (h, pool) cs = (h ++ ext, pool ++ rs) ∧ rs.length = cs.length ∧
      Inv n0 (h ++ ext) (pool ++ rs) ∧ ∀ f ∈ pool, view (h ++ ext) f = view h f :=
  runCalls_clean n0 cs h pool hc hinv hn

/-- the hypotheses are satisfiable: a two-column frame, two clean calls. -/
example : Inv 1 [10, 20] [{ cols := [("a", 0), ("b", 1)], group := [] }] := by
  refine ⟨?_, ?_⟩
  · intro f hf c hc; simp at hf; subst hf; simp at hc; rcases hc with rfl | rfl <;> simp
  · intro i j hi hj hn; simp at hj; omega

/-- documented exception: `copy` is shallow — the same buffers under a new dict, heap untouched. -/
theorem copy_is_documented_shallow (h : Heap) (recv arg : Frame) :
    exec h recv arg (copyEffect recv) = (h, { cols := recv.cols, group := [] }) := copy_is_shallow h recv arg

/-- documented exception: `group_by` marks the receiver, its buffers are the same. -/
theorem group_by_marks_receiver (f : Frame) (names : List String) :
    (groupBy f names).cols = f.cols ∧ (groupBy f names).group = names := ⟨rfl, rfl⟩

/-- documented exceptions: item assignment allocates, deletion and colnames assignment only re-label;
    none of them writes into an existing buffer. -/
theorem dict_edits_keep_buffers (h : Heap) (f : Frame) (name : String) (content : Nat) :
    ∃ ext, (setItem h f name content).1 = h ++ ext := setItem_keeps_buffers h f name content

/-- the model can exhibit the violation: an aliased result column makes a later edit of the result
    visible through the receiver. -/
theorem alias_is_observable :
    let recv : Frame := { cols := [("a", 0)], group := [] }
    let r := exec [7] recv emptyFrame { writes := [], outs := [("a", Src.recv 0)], group := [] }
    view (poke r.1 r.2 0 8) recv ≠ view r.1 recv := by decide

/-- … and a write into an operand column is visible through the operand. -/
theorem operand_write_is_observable :
    let recv : Frame := { cols := [("a", 0)], group := [] }
    view (exec [7] recv emptyFrame { writes := [Wr.recv 0 9], outs := [("a", Src.fresh 1)], group := [] }).1 recv
      ≠ view [7] recv := by decide

/-! ### the regenerated site table -/

def okResult (s : String × String × String × String × String) : Bool :=
  s.2.2.2.2 == "fresh" || s.2.2.2.2 == "delegate" || s.2.2.2.2 == "scalar" ||
  (s.1 == "DataFrame" && s.2.1 == "copy" && s.2.2.2.2 == "shallow") ||
  (s.1 == "DataFrame" && s.2.1 == "group_by" && s.2.2.2.2 == "receiver")

def okStore (s : String × String × String × String) : Bool :=
  s.2.2.2 == "local" || (s.1 == "DataFrame" && s.2.1 == "group_by" && s.2.2.2 == "self-attribute:_group_colnames")

/-- every result site of every public non-in-place method hands out a fresh buffer (or the result of
    another method of the table, or a non-array); the only others are the documented `copy` (shallow)
    and `group_by` (the receiver). -/
theorem result_sites_fresh : resultSites.all okResult = true := by decide

/-- every in-place store in those methods targets memory the method created itself; the only store
    on the receiver is group_by's grouping mark. -/
theorem stores_are_local : storeSites.all okStore = true := by decide

/-- the table covers the methods the property is about (a method cannot drop out of it silently). -/
theorem table_covers_methods :
    (["aggregate", "anti_join", "cbind", "count", "deepcopy", "drop_na", "filter", "filter_out", "full_join", "head", "inner_join",
      "left_join", "modify", "rbind", "rename", "sample", "select", "semi_join", "slice", "slice_off", "sort", "tail", "unique",
      "unselect", "update", "copy", "group_by"].all (fun m => resultSites.any (fun s => s.1 == "DataFrame" && s.2.1 == m))) = true ∧
    (["as_boolean", "as_bytes", "as_date", "as_datetime", "as_float", "as_integer", "as_object", "as_string", "concat", "drop_na",
      "head", "tail", "is_na", "map", "range", "rank", "replace_na", "sample", "sort", "unique", "to_strings"].all
        (fun m => resultSites.any (fun s => s.1 == "Vector" && s.2.1 == m))) = true := by decide

/-- every method of the table (the documented exceptions aside) has a clean effect, so the frame
    condition and its lift to sequences apply to it. -/
theorem table_effects_clean : ∀ m ∈ methodsOfTable, (effectOf m.1 m.2).clean := by
  intro m hm
  apply Effect.clean_of_cleanB
  revert m
  decide

end DI.C06

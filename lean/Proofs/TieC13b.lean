/-
  Proofs/TieC13b.lean — obligations over the two conversions regenerated into `Generated/CodeC13.lean` after `TieC13` was
  written: `ListOfDicts.to_pandas` and `GeoJSON.to_data_frame`.
-/
import Generated.CodeC13
import Proofs.TieC13

namespace DI.Tie.C13

open DI.Py DI.Gen

/-- **ListOfDicts.to_pandas as written**: pandas gets `self._to_columns()` — the SAME column dict that `to_data_frame` builds
    its frame from (`TieC13.to_data_frame_code`: the keys of the first item, each `pluck`ed over all items, None where an
    item lacks the key; `{}` for an empty list), as ONE positional argument (a dict of columns, not `**columns`: a key named
    `index` or `dtype` stays a column). -/
theorem lod_to_pandas_code (truth : Term → Bool) :
    ListOfDicts_to_pandas truth = Out.ret [] (Term.app "pd.DataFrame" [Term.app "._to_columns" [Term.sym "self"]]) := rfl

/-- both conversions out of a list of dicts read the items through one and the same expression, so they cannot disagree
    about which keys become columns or what a missing key becomes. -/
theorem lod_to_pandas_same_columns_as_to_data_frame (truth : Term → Bool) :
    ∃ cols, ListOfDicts_to_pandas truth = Out.ret [] (Term.app "pd.DataFrame" [cols]) ∧
            ListOfDicts_to_data_frame truth = Out.ret [] (Term.app "DataFrame" [Term.app "=**" [cols]]) ∧
            cols = Term.app "._to_columns" [Term.sym "self"] := ⟨_, rfl, rfl, rfl⟩

theorem lod_to_pandas_signature : ListOfDicts_to_pandas_signature = ["self"] ∧ ListOfDicts_to_pandas_decorators = [] ∧
    ListOfDicts_to_pandas_call_order = ["self._to_columns", "pd.DataFrame"] := ⟨rfl, rfl, rfl⟩

/-- `dict.copy(self)`: the column mapping copied as a PLAIN dict (the unbound `dict.copy`, not `self.copy()`: no GeoJSON
    object, no metadata), the columns themselves shared. -/
def plainCopy : Term := Term.app "dict.copy" [Term.sym "self"]

/-- **GeoJSON.to_data_frame as written**: the result is `DataFrame(**data)` for the plain copy `data` of the receiver's
    columns — a `DataFrame`, not a `GeoJSON` (so `metadata` is not carried) — in the receiver's column order; with
    `drop_geometry` the one effect before it is `data.pop("geometry", None)` ON THE COPY (the default `None` makes a frame
    without a geometry column pass instead of raising KeyError); without it there is no effect at all. -/
theorem geojson_to_data_frame_code (truth : Term → Bool) :
    GeoJSON_to_data_frame truth =
      Out.ret (if truth (Term.sym "drop_geometry") then [Term.app ".pop" [plainCopy, Term.sym "'geometry'", Term.sym "None"]] else [])
        (Term.app "DataFrame" [Term.app "=**" [plainCopy]]) := by
  unfold GeoJSON_to_data_frame plainCopy
  split <;> rfl

/-- the receiver is never written into: whatever `drop_geometry` is, no effect of `to_data_frame` stores into, deletes from
    or calls a mutating dict method on `self` (the pop goes to the copy). -/
theorem geojson_to_data_frame_leaves_receiver (truth : Term → Bool) :
    Term.anyAppList (writesInto "self") (GeoJSON_to_data_frame truth).effs = false := by
  rw [geojson_to_data_frame_code]
  cases truth (Term.sym "drop_geometry") <;> rfl

/-- the geometry is KEPT unless asked otherwise (`drop_geometry=False`, the one parameter, positional-or-keyword). -/
theorem geojson_to_data_frame_signature :
    GeoJSON_to_data_frame_signature = ["self", "drop_geometry=False"] ∧ GeoJSON_to_data_frame_decorators = [] ∧
    GeoJSON_to_data_frame_call_order = ["dict.copy", "data.pop", "DataFrame"] := ⟨rfl, rfl, rfl⟩

/-- by default (`drop_geometry` false) the conversion is the pure expression `DataFrame(**dict.copy(self))`. -/
theorem geojson_to_data_frame_default (truth : Term → Bool) (h : truth (Term.sym "drop_geometry") = false) :
    GeoJSON_to_data_frame truth = Out.ret [] (Term.app "DataFrame" [Term.app "=**" [plainCopy]]) := by
  rw [geojson_to_data_frame_code, h]; rfl

end DI.Tie.C13

/-
  Proofs/EvalC05.lean — "code ⇒ semantics ⇒ model" for the joins: what the REGENERATED generator bodies of
  `DataFrame.semi_join` / `anti_join` / `inner_join` / `left_join` and the body of `_split_join_by`
  (`Generated/CodeC05.lean`, translated from the current Python source on every run) DENOTE under the evaluator of
  `Model/PyEvalFrameJoin.lean`, for every receiver, every right frame, every `by` and every missing value `naCell`, and that
  this is the row-id model of `Model/Group.lean` (`semiJoinIdx` / `antiJoinIdx` / `innerJoinPairs` / `leftJoinPairs`, the
  functions the theorems of `Proofs/C05.lean` are about) read off the two frames.

  TRUSTED LINKS (primitives of the evaluator, see the header of `Model/PyEvalFrameJoin.lean`):
  `other.drop_na(*by2).unique(*by2)` has the model's meaning (`reduced_frame_is_rightReduced` below), and
  `self._get_join_indices(other', by1, by2)` returns `(found, src)` with the model's meaning
  (`get_join_indices_is_joinSrc` below: `src[i]` is the position in the reduced right frame of the model's `joinSrc` row,
  or -1; `found` = the positions with `src > -1` = `semiJoinIdx`) — `Tie.C05.get_join_indices_code` pins the Python text of
  that helper.  `column.na_value` is the parameter `naCell`.  `_split_join_by` is NOT trusted: `split_join_by_eval`.

  Hypotheses of a join call (`JoinCall` in `Lemmas/PyEvalFrameJoin.lean`, spelled out in every statement): at least one key
  (without keys the Python code raises unless both frames are empty), every left key name a column of the receiver and
  every right key name a column of `other` (else KeyError), a rectangular receiver.

  Statements only; the proofs cite `Lemmas/PyEvalFrameJoin.lean`, after rewriting the bodies to their normal forms with the
  theorems of `Proofs/TieC05.lean`.
-/
import Generated.CodeC05
import Proofs.TieC05
import Proofs.C05
import Lemmas.PyEvalFrameJoin

namespace DI.Eval.C05

open DI DI.Py DI.Gen DI.PyEvalX DI.Tie.C05
open DI.PyEval (Frame nrow names Rect colOf wholeRows)

/-- **semi_join**: EVERY column of the receiver, in dict order, gathered at the model's semi-join rows (whole rows:
    `wholeRows`, the function `C02.whole_rows` is about) — the left rows with a partner, in order. -/
theorem semi_join_eval (naCell : Cell) (truth : Term → Bool) (env : Env) (self other : Frame) (bys : List ByItem)
    (hself : env.get? "self" = some (.frame self)) (hother : env.get? "other" = some (.frame other))
    (hby : env.get? "by" = some (.byspec bys)) (hne : bys ≠ [])
    (hL : ∀ c ∈ leftNames bys, c ∈ names self) (hR : ∀ c ∈ rightNames bys, c ∈ names other) (hrect : Rect self) :
    runBody naCell env (DataFrame_semi_join truth) =
      some (wholeRows self (semiJoinIdx (nrow self) (leftKeys self bys) (nrow other) (rightKeys other bys))) := by
  rw [semi_join_code]; exact run_semi naCell ⟨hself, hother, hby, hne, hL, hR, hrect⟩

/-- **anti_join**: every column of the receiver with the `found` positions deleted = gathered at the model's anti-join
    rows — the left rows without a partner, in order. -/
theorem anti_join_eval (naCell : Cell) (truth : Term → Bool) (env : Env) (self other : Frame) (bys : List ByItem)
    (hself : env.get? "self" = some (.frame self)) (hother : env.get? "other" = some (.frame other))
    (hby : env.get? "by" = some (.byspec bys)) (hne : bys ≠ [])
    (hL : ∀ c ∈ leftNames bys, c ∈ names self) (hR : ∀ c ∈ rightNames bys, c ∈ names other) (hrect : Rect self) :
    runBody naCell env (DataFrame_anti_join truth) =
      some (wholeRows self (antiJoinIdx (nrow self) (leftKeys self bys) (nrow other) (rightKeys other bys))) := by
  rw [anti_join_code]; exact run_anti naCell ⟨hself, hother, hby, hne, hL, hR, hrect⟩

/-- **semi_join ∪ anti_join is a partition of the rows** (corollary of `C05.semi_anti_partition`): the two results,
    stacked column by column, are the receiver's rows re-ordered by ONE permutation `idx` of all row positions — the same
    for every column; so every left row goes to exactly one of the two, whole. -/
theorem semi_anti_partition_eval (naCell : Cell) (truth : Term → Bool) (env : Env) (self other : Frame)
    (bys : List ByItem)
    (hself : env.get? "self" = some (.frame self)) (hother : env.get? "other" = some (.frame other))
    (hby : env.get? "by" = some (.byspec bys)) (hne : bys ≠ [])
    (hL : ∀ c ∈ leftNames bys, c ∈ names self) (hR : ∀ c ∈ rightNames bys, c ∈ names other) (hrect : Rect self) :
    ∃ A B idx, runBody naCell env (DataFrame_semi_join truth) = some A ∧
      runBody naCell env (DataFrame_anti_join truth) = some B ∧
      idx.Perm (List.range (nrow self)) ∧
      List.zipWith (fun p q => (p.1, p.2 ++ q.2)) A B = wholeRows self idx ∧
      ∀ p ∈ self, (gather p.2 (semiJoinIdx (nrow self) (leftKeys self bys) (nrow other) (rightKeys other bys)) ++
        gather p.2 (antiJoinIdx (nrow self) (leftKeys self bys) (nrow other) (rightKeys other bys))).Perm p.2 := by
  obtain ⟨h2, h3⟩ := semi_anti_frames self (nrow self) (leftKeys self bys) (nrow other) (rightKeys other bys) rfl hrect
  exact ⟨_, _, _, semi_join_eval naCell truth env self other bys hself hother hby hne hL hR hrect,
    anti_join_eval naCell truth env self other bys hself hother hby hne hL hR hrect,
    (DI.C05.semi_anti_partition _ _ _ _).1, h2, h3⟩

/-- **inner_join = the model's `innerJoinPairs` read off the two frames** (`joinFrame`): the receiver's columns at the
    left ids of the pairs, followed by the right frame's columns that are neither a right key nor a name the receiver
    has (`isNewCol`), each at the right ids of the pairs (`src[found]` on the reduced right frame = the model's original
    right row). -/
theorem inner_join_eval (naCell : Cell) (truth : Term → Bool) (env : Env) (self other : Frame) (bys : List ByItem)
    (hself : env.get? "self" = some (.frame self)) (hother : env.get? "other" = some (.frame other))
    (hby : env.get? "by" = some (.byspec bys)) (hne : bys ≠ [])
    (hL : ∀ c ∈ leftNames bys, c ∈ names self) (hR : ∀ c ∈ rightNames bys, c ∈ names other) (hrect : Rect self) :
    runBody naCell env (DataFrame_inner_join truth) =
      some (joinFrame naCell self other bys
        (innerJoinPairs (nrow self) (leftKeys self bys) (nrow other) (rightKeys other bys))) := by
  rw [inner_join_code]; exact run_inner naCell ⟨hself, hother, hby, hne, hL, hR, hrect⟩

/-- **left_join = the model's `leftJoinPairs` read off the two frames**: the receiver's columns whole (left ids
    `0 … nrow-1`), followed by the new right columns — `nrow` copies of the missing value `naCell`, overwritten at the
    `found` positions with the reduced right column at `src[found]` — which is the model's right id of every pair, a
    missing id being the missing value. -/
theorem left_join_eval (naCell : Cell) (truth : Term → Bool) (env : Env) (self other : Frame) (bys : List ByItem)
    (hself : env.get? "self" = some (.frame self)) (hother : env.get? "other" = some (.frame other))
    (hby : env.get? "by" = some (.byspec bys)) (hne : bys ≠ [])
    (hL : ∀ c ∈ leftNames bys, c ∈ names self) (hR : ∀ c ∈ rightNames bys, c ∈ names other) (hrect : Rect self) :
    runBody naCell env (DataFrame_left_join truth) =
      some (joinFrame naCell self other bys
        (leftJoinPairs (nrow self) (leftKeys self bys) (nrow other) (rightKeys other bys))) := by
  rw [left_join_code]; exact run_left naCell ⟨hself, hother, hby, hne, hL, hR, hrect⟩

/-- what `joinFrame` says cell by cell: output row `r` of a receiver column `c` is `c[i]` for the left id `i` of pair `r`;
    of a right column it is that column at the pair's right id, or `naCell` when the pair has none. -/
theorem joinFrame_cells (naCell : Cell) (self other : Frame) (bys : List ByItem)
    (pairs : List (Option Nat × Option Nat)) :
    joinFrame naCell self other bys pairs =
      self.map (fun p => (p.1, pairs.map (fun pr => optCell naCell p.2 pr.1))) ++
      (other.filter (fun p => isNewCol self bys p.1)).map (fun p => (p.1, pairs.map (fun pr => optCell naCell p.2 pr.2))) ∧
    (∀ c j, optCell naCell c (some j) = c[j]!) ∧ (∀ c, optCell naCell c none = naCell) ∧
    (∀ name, isNewCol self bys name = (!(rightNames bys).contains name && !(names self).contains name)) :=
  ⟨rfl, fun _ _ => rfl, fun _ => rfl, fun _ => rfl⟩

/-- left_join keeps the receiver's row count in every column (one output row per left row: `C05.left_join_keeps_left`);
    a join result is rectangular for any pairs. -/
theorem left_join_rect (naCell : Cell) (self other : Frame) (bys : List ByItem) :
    ∀ p ∈ joinFrame naCell self other bys
        (leftJoinPairs (nrow self) (leftKeys self bys) (nrow other) (rightKeys other bys)), p.2.length = nrow self := by
  intro p hp
  rw [joinFrame_rect naCell self other bys _ p hp, leftJoinPairs_length]

/-- **the regenerated body of `_split_join_by`** returns (left names, right names): a plain name stands for itself on
    both sides, a pair `(a, b)` gives `a` on the left and `b` on the right — exactly the meaning the evaluator gives the
    call `self._split_join_by(*by)` inside the join bodies. -/
theorem split_join_by_eval (naCell : Cell) (truth : Term → Bool) (env : Env) (bys : List ByItem)
    (hby : env.get? "by" = some (.byspec bys)) :
    runRet naCell env (DataFrame_split_join_by truth) =
      some (.pair (.strs (leftNames bys)) (.strs (rightNames bys))) ∧
    prim naCell "._split_join_by" [.frame [], .star (.byspec bys)] =
      some (.pair (.strs (leftNames bys)) (.strs (rightNames bys))) :=
  ⟨run_split_join_by naCell env bys hby, rfl⟩

/-! ### the trusted links, stated -/

/-- **`other.drop_na(*by2).unique(*by2)`** (the meaning the evaluator gives the two calls: the frame at `dropNaIdx`, then
    at `uniqueIdx`) is `other` at the model's `rightReduced` rows — rows without a missing key, the first row of every key
    tuple, in the original order (`rightReduced_spec` / `rightReduced_complete` in `Lemmas/JoinFirst.lean`). -/
theorem reduced_frame_is_rightReduced (other : Frame) (bys : List ByItem) (hne : bys ≠ [])
    (hR : ∀ c ∈ rightNames bys, c ∈ names other) :
    (dropNaFrame other (rightNames bys)).bind (fun d => uniqueFrame d (rightNames bys)) =
      some (wholeRows other (rightReduced (nrow other) (rightKeys other bys) true)) :=
  reduced_frame (by cases bys <;> simp_all [rightNames]) hR

/-- **`self._get_join_indices(other', by1, by2)` on the reduced right frame is the model's `joinSrc`**: it returns
    `(found, src)` where `found` = the model's semi-join rows and, for every left row `i`, either `src[i]` is a valid
    position `p` of the reduced frame and `joinSrc[i]` is the ORIGINAL right row `rightReduced[p]` (the row whose cells
    the reduced frame holds at `p`), or `src[i] = -1` and `joinSrc[i]` is none. -/
theorem get_join_indices_is_joinSrc (self other : Frame) (bys : List ByItem) (hne : bys ≠ [])
    (hL : ∀ c ∈ leftNames bys, c ∈ names self) (hR : ∀ c ∈ rightNames bys, c ∈ names other) :
    joinIndices self (wholeRows other (rightReduced (nrow other) (rightKeys other bys) true))
        (leftNames bys) (rightNames bys) =
      some ((semiJoinIdx (nrow self) (leftKeys self bys) (nrow other) (rightKeys other bys)).map (fun (k : Nat) => (k : Int)),
            srcVec (nrow self) (leftKeys self bys) (nrow other) (rightKeys other bys)) ∧
    ∀ i, i < nrow self →
      (∃ p : Nat, p < (rightReduced (nrow other) (rightKeys other bys) true).length ∧
          (srcVec (nrow self) (leftKeys self bys) (nrow other) (rightKeys other bys))[i]! = (p : Int) ∧
          (joinSrc (nrow self) (leftKeys self bys) (nrow other) (rightKeys other bys))[i]! =
            some (rightReduced (nrow other) (rightKeys other bys) true)[p]!) ∨
      ((srcVec (nrow self) (leftKeys self bys) (nrow other) (rightKeys other bys))[i]! = -1 ∧
        (joinSrc (nrow self) (leftKeys self bys) (nrow other) (rightKeys other bys))[i]! = none) :=
  ⟨joinIndices_reduced self other bys hne hL hR, fun i hi => srcVec_get _ _ _ _ i hi⟩

/-! ### non-vacuity: 4 left rows (one missing key), 4 right rows (a duplicate key, a missing key), a name clash `x` -/

def lf : Frame := [("k", [some (.i 1), none, some (.i 2), some (.i 3)]),
                   ("x", [some (.i 10), some (.i 20), some (.i 30), some (.i 40)])]
def rt : Frame := [("k", [some (.i 2), none, some (.i 2), some (.i 3)]),
                   ("x", [some (.i 7), some (.i 8), some (.i 9), some (.i 6)]),
                   ("y", [some (.b true), some (.b false), none, some (.b false)])]
def jenv : Env := callEnv lf [("other", .frame rt), ("by", .byspec [.name "k"])]

example : Rect lf ∧ (∀ c ∈ leftNames [ByItem.name "k"], c ∈ names lf) ∧ (∀ c ∈ rightNames [ByItem.name "k"], c ∈ names rt) := by
  decide

example : runBody none jenv (DataFrame_semi_join (fun _ => false))
    = some [("k", [some (.i 2), some (.i 3)]), ("x", [some (.i 30), some (.i 40)])] := by decide
example : runBody none jenv (DataFrame_anti_join (fun _ => false))
    = some [("k", [some (.i 1), none]), ("x", [some (.i 10), some (.i 20)])] := by decide
example : runBody none jenv (DataFrame_inner_join (fun _ => false))
    = some [("k", [some (.i 2), some (.i 3)]), ("x", [some (.i 30), some (.i 40)]),
            ("y", [some (.b true), some (.b false)])] := by decide
example : runBody none jenv (DataFrame_left_join (fun _ => false))
    = some [("k", [some (.i 1), none, some (.i 2), some (.i 3)]), ("x", [some (.i 10), some (.i 20), some (.i 30), some (.i 40)]),
            ("y", [none, none, some (.b true), some (.b false)])] := by decide
example : joinFrame none lf rt [.name "k"] (leftJoinPairs (nrow lf) (leftKeys lf [.name "k"]) (nrow rt) (rightKeys rt [.name "k"]))
    = [("k", [some (.i 1), none, some (.i 2), some (.i 3)]), ("x", [some (.i 10), some (.i 20), some (.i 30), some (.i 40)]),
       ("y", [none, none, some (.b true), some (.b false)])] := by decide
example : leftJoinPairs (nrow lf) (leftKeys lf [.name "k"]) (nrow rt) (rightKeys rt [.name "k"])
    = [(some 0, none), (some 1, none), (some 2, some 0), (some 3, some 3)] := by decide
/-- a missing key name is a KeyError; `_split_join_by` on a name and a pair. -/
example : runBody none (callEnv lf [("other", .frame rt), ("by", .byspec [.name "z"])]) (DataFrame_left_join (fun _ => false))
    = none := by decide
example : runRet none [("by", .byspec [.name "k", .pair "a" "b"])] (DataFrame_split_join_by (fun _ => false))
    = some (.pair (.strs ["k", "a"]) (.strs ["k", "b"])) := by
  rw [(split_join_by_eval none (fun _ => false) _ [.name "k", .pair "a" "b"] rfl).1]; rfl

/-! ### why `bys ≠ []` is a hypothesis (the statements above are the `…_partial` versions) -/

/-- **counterexample without key names** (`left_join(other)` with an empty `by`): the Python code raises (IndexError in
    `_get_join_indices`: `other_ids` is empty; confirmed by running it) and so does the evaluated body as soon as it needs
    `found` — but the row-id model `leftJoinPairs` with NO key columns treats all rows as having the same (empty) key and
    pairs every left row with right row 0.  So `left_join_eval` is false for `bys = []`; the model is only meaningful with
    at least one key.  Second fact (a translator artifact, error paths only): Python evaluates `found, src = …` BEFORE the
    loops, the regenerated term has the call inlined at its uses — when no new right column exists the call is never
    evaluated and the regenerated body yields a copy of the receiver where Python raises. -/
theorem join_without_keys_counterexample :
    runBody none (callEnv lf [("other", .frame rt), ("by", .byspec [])]) (DataFrame_left_join (fun _ => false)) = none ∧
    leftJoinPairs (nrow lf) (leftKeys lf []) (nrow rt) (rightKeys rt []) =
      [(some 0, some 0), (some 1, some 0), (some 2, some 0), (some 3, some 0)] ∧
    runBody none (callEnv lf [("other", .frame lf), ("by", .byspec [])]) (DataFrame_left_join (fun _ => false)) =
      some lf := by decide

end DI.Eval.C05

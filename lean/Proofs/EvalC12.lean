/-
  Proofs/EvalC12.lean — property C12, `util.xopen` and the writers / readers that go through it EVALUATED.

  `Proofs/TieC12.lean` gives normal forms of the translated `util.xopen`, `DataFrame.write_csv / write_json / write_npz /
  read_npz / write_parquet / write_pickle / read_pickle` and `ListOfDicts.write_csv / write_json / write_pickle /
  read_pickle` (`Generated/CodeC12.lean`, regenerated from the current source on every run).  With the evaluator of
  `Model/PyEvalIO.lean` — the path a list of characters, `str(path).endswith(s)` = `s` is a SUFFIX of it, a frame the
  model's columns, a list of dicts the model's records, the third-party calls primitives (events) — running them gives

      xopen        =  the opener by the END of the path alone (`.bz2` → bz2, `.gz` → gzip, `.xz` → lzma, anything else →
                      plain `open`; at most one of the three tests can succeed, so their order is immaterial), the mode
                      handed on, `encoding="utf-8"` as a default for text modes, `compresslevel=6` for bz2 / gzip
                      (`xopen_eval`, `xopen_suffix_at_end`, `xopen_plain_without_suffix`)
      same codec   =  the opener depends on NOTHING but the path: a reader and a writer of one path — whatever their modes
                      and keyword arguments — select the same codec (`xopen_same_codec`), in particular the pickle writers
                      / readers (`pickle_same_codec`) and all three files `write_csv` opens (`df_write_csv_eval`); with the
                      codec laws of `Model/IO.lean` the round trip follows (`pickle_roundtrip_eval`, citing `Proofs/C12.lean`)
      pipelines    =  what each writer hands to the third-party writer: `write_json` the model's records `toRecords` (C13)
                      with the defaults `default=str, ensure_ascii=False, indent=2`; `write_npz` every column under its name
                      (`np.savez_compressed` iff `compress`), `read_npz` the loaded arrays in file order; `write_pickle`
                      the dict of the columns; `write_parquet` / `write_csv` the Arrow table of the frame with the caller's
                      header / separator; `ListOfDicts.write_csv` the key union as header and every item BY KEY
                      (`df_*_eval`, `lod_*_eval`).

  Third-party calls left as primitives (TRUSTED): `bz2.open`, `gzip.open`, `lzma.open`, `open`, `codecs.lookup`,
  `self.to_arrow()`, `pyarrow.csv.write_csv`, `pyarrow.parquet.write_table`, `np.savez`, `np.savez_compressed`, `np.load`,
  `np.array(v, v.dtype)`, `pickle.dump`, `pickle.load`, `json.JSONEncoder.iterencode`, `csv.DictWriter.writeheader /
  writerow`, `util.makedirs_for_file`.

  Statements only; proofs cite `Lemmas/PyEvalIO.lean` and `Proofs/C12.lean`.
-/
import Generated.CodeC12
import Model.PyEvalIO
import Lemmas.PyEvalIO
import Proofs.TieC12
import Proofs.C12

namespace DI.Eval.C12

open DI DI.Py DI.Gen DI.PyEvalIO DI.Read DI.Convert

/-! ### `util.xopen` -/

/-- **`xopen`, evaluated** on every path, mode and keyword arguments: the opener is `codecOf path` (the suffix), the mode is
    handed on unchanged, a text mode gets `encoding="utf-8"` unless the caller gave one (also for `.xz`), bz2 / gzip get
    `compresslevel=6` unless the caller gave one. -/
theorem xopen_eval (path : Path) (mode : List Char) (kw : Kwargs) :
    evalXopen path mode kw =
      some ⟨codecOf path, mode,
        { encoding := if mode.contains 'b' then kw.encoding else some (kw.encoding.getD "utf-8"),
          compresslevel := if codecOf path = .bz2 ∨ codecOf path = .gzip then some (kw.compresslevel.getD 6) else kw.compresslevel }⟩ :=
  evalXopen_eq path mode kw

/-- **the same codec for the writer and the reader**: the opener selected for a path does not depend on the mode or on
    the keyword arguments — so a file written through `xopen(path, "wb" / "wt", …)` is opened by `xopen(path, "rb" / "rt",
    …)` with the codec it was written with, for EVERY path. -/
theorem xopen_same_codec (path : Path) (m1 m2 : List Char) (k1 k2 : Kwargs) :
    (evalXopen path m1 k1).map (·.opener) = (evalXopen path m2 k2).map (·.opener) ∧
    (evalXopen path m1 k1).map (·.opener) = some (codecOf path) :=
  ⟨evalXopen_opener path m1 m2 k1 k2, by rw [evalXopen_eq]; rfl⟩

/-- **the suffix test is on the END of the path**: whatever stands before it (directories, other dots, another known
    suffix in the middle), a path ending in `.bz2` / `.gz` / `.xz` gets bz2 / gzip / lzma; and conversely each opener is
    selected ONLY by a path that ends so. -/
theorem xopen_suffix_at_end (path : Path) :
    (∀ stem : Path, codecOf (stem ++ ".bz2".toList) = .bz2 ∧ codecOf (stem ++ ".gz".toList) = .gzip ∧
      codecOf (stem ++ ".xz".toList) = .lzma) ∧
    (codecOf path = .bz2 ↔ ∃ stem, path = stem ++ ".bz2".toList) ∧
    (codecOf path = .gzip ↔ ∃ stem, path = stem ++ ".gz".toList) ∧
    (codecOf path = .lzma ↔ ∃ stem, path = stem ++ ".xz".toList) := by
  refine ⟨codecOf_append, ?_, ?_, ?_⟩
  · rw [codecOf_bz2_iff]; exact ⟨fun ⟨t, h⟩ => ⟨t, h.symm⟩, fun ⟨t, h⟩ => ⟨t, h.symm⟩⟩
  · rw [codecOf_gz_iff]; exact ⟨fun ⟨t, h⟩ => ⟨t, h.symm⟩, fun ⟨t, h⟩ => ⟨t, h.symm⟩⟩
  · rw [codecOf_xz_iff]; exact ⟨fun ⟨t, h⟩ => ⟨t, h.symm⟩, fun ⟨t, h⟩ => ⟨t, h.symm⟩⟩

/-- **a path with no known suffix is plain** (`open`), and only such a path. -/
theorem xopen_plain_without_suffix (path : Path) :
    codecOf path = .plain ↔ ¬ ".bz2".toList <:+ path ∧ ¬ ".gz".toList <:+ path ∧ ¬ ".xz".toList <:+ path :=
  codecOf_plain_iff path

/-- at most one of the three `endswith` tests succeeds, so the opener is a function of the three answers in any order
    of testing. -/
theorem xopen_tests_exclusive (path : Path) :
    (codecOf path = .bz2 ↔ ".bz2".toList.isSuffixOf path = true) ∧
    (codecOf path = .gzip ↔ ".gz".toList.isSuffixOf path = true) ∧
    (codecOf path = .lzma ↔ ".xz".toList.isSuffixOf path = true) ∧
    (codecOf path = .plain ↔ (".bz2".toList.isSuffixOf path = false ∧ ".gz".toList.isSuffixOf path = false ∧
      ".xz".toList.isSuffixOf path = false)) := codecOf_cases path

/-! ### pickle: writer, reader, round trip -/

/-- **`DataFrame.write_pickle` / `read_pickle`**, evaluated: the writer dumps the dict of the columns (every column under
    its name, as a plain array of its own dtype) into `xopen(path, "wb")`, the reader loads from `xopen(path, "rb")` into the
    constructor — and both handles have the opener of the path. -/
theorem pickle_same_codec {β : Type} (a : Args) (cols loaded : List (Col β)) :
    evalDfWritePickle a cols = some [.makedirs, .opened (handle a "wb" {}), .pickleTable cols (handle a "wb" {})] ∧
    evalDfReadPickle a loaded = some (handle a "rb" {}, loaded) ∧
    (handle a "wb" {}).opener = (handle a "rb" {}).opener ∧ (handle a "wb" {}).opener = codecOf a.path :=
  ⟨evalDfWritePickle_eq a cols, evalDfReadPickle_eq a loaded, rfl, rfl⟩

/-- the same for `ListOfDicts`: the items as plain dicts. -/
theorem lod_pickle_same_codec {β : Type} (a : Args) (recs loaded : List (Rec (Option β))) :
    evalLodWritePickle a recs = some [.makedirs, .opened (handle a "wb" {}), .pickleItems recs (handle a "wb" {})] ∧
    evalLodReadPickle a loaded = some (handle a "rb" {}, loaded) ∧
    (handle a "wb" {}).opener = (handle a "rb" {}).opener :=
  ⟨evalLodWritePickle_eq a recs, evalLodReadPickle_eq a loaded, rfl⟩

/-- **the round trip** (`Proofs/C12.lean`, `roundtrip`), now with the openers the CODE selects: for any format codec `c`
    (pickle) and any suffix-driven compressor `w` satisfying their laws, what the reader's handle decodes from what the
    writer's handle encoded is the table — for every path. -/
theorem pickle_roundtrip_eval {β B : Type} (a : Args) (cols : List (Col β)) (c : IO.Codec (List (Col β)) B) (w : IO.Wrap B) :
    IO.readVia c w true (handle a "rb" {}).opener.suffix (IO.writeVia c w true (handle a "wb" {}).opener.suffix cols) = some cols :=
  DI.C12.roundtrip c w true (codecOf a.path).suffix cols

/-! ### the other `DataFrame` pipelines -/

/-- **`write_npz`**: every column under its name goes to `np.savez` — `np.savez_compressed` exactly when `compress` — with
    the PATH (no `xopen`: the suffix does not compress an NPZ file). -/
theorem df_write_npz_eval {β : Type} (a : Args) (cols : List (Col β)) :
    evalDfWriteNpz a cols = some [.makedirs, .savez a.compress cols] := evalDfWriteNpz_eq a cols

/-- **`read_npz`** rebuilds the frame from the arrays `np.load` yields, by name, in FILE order; so reading what
    `write_npz` handed to NumPy gives the columns back, in order. -/
theorem df_read_npz_eval {β : Type} (a : Args) (loaded : List (Col β)) : evalDfReadNpz a loaded = some loaded := rfl

theorem df_npz_roundtrip_eval {β : Type} (a : Args) (cols : List (Col β)) :
    ∃ arrays, evalDfWriteNpz a cols = some [.makedirs, .savez a.compress arrays] ∧ evalDfReadNpz a arrays = some cols :=
  ⟨cols, evalDfWriteNpz_eq a cols, rfl⟩

/-- **`write_parquet`**: the Arrow table of the frame, the caller's options only, the path to Arrow. -/
theorem df_write_parquet_eval {β : Type} (a : Args) (cols : List (Col β)) :
    evalDfWriteParquet a cols = some [.makedirs, .parquet cols] := rfl

/-- **`write_csv`**: Arrow writes the table (header and separator as asked, quoting "needed") into `xopen(path, "wb")`; for
    an encoding that is not UTF-8 the file is read back as UTF-8 text and rewritten in the encoding — all three files
    through `xopen`, hence with the opener of the path (the rewritten file is compressed by suffix, too). -/
theorem df_write_csv_eval {β : Type} (a : Args) (cols : List (Col β)) :
    evalDfWriteCsv a cols =
      some ([.makedirs, .opened (handle a "wb" {}), .arrowCsv cols (handle a "wb" {}) a.header a.sep "needed"] ++
        (if a.utf8Alias then []
         else [.opened (handle a "rt" { encoding := some "utf-8" }), .opened (handle a "wt" { encoding := some a.encoding }),
               .copyText (handle a "rt" { encoding := some "utf-8" }) (handle a "wt" { encoding := some a.encoding })])) ∧
    (handle a "wb" {}).opener = codecOf a.path ∧ (handle a "rt" { encoding := some "utf-8" }).opener = codecOf a.path ∧
    (handle a "wt" { encoding := some a.encoding }).opener = codecOf a.path :=
  ⟨evalDfWriteCsv_eq a cols, rfl, rfl, rfl⟩

/-- **`write_json`** hands the model's records — `Convert.toRecords`, the `to_list_of_dicts()` of C13: every row, every
    column, `None` for a missing cell — to the `ListOfDicts` writer: streamed through `JSONEncoder` with the defaults
    `default=str, ensure_ascii=False, indent=2` into `xopen(path, "wt", encoding=encoding)`, then a newline. -/
theorem df_write_json_eval {β : Type} (a : Args) (cols : List (Col β)) (nrow : Nat) :
    evalDfWriteJson a cols nrow =
      some [.makedirs, .opened (handle a "wt" { encoding := some a.encoding }),
            .jsonEncode (toRecords cols nrow) (handle a "wt" { encoding := some a.encoding })
              [("default", "str"), ("ensure_ascii", "False"), ("indent", "2")],
            .text (handle a "wt" { encoding := some a.encoding }) ['\n']] := by
  rw [evalDfWriteJson_eq, evalLodWriteJson_eq]; rfl

/-! ### the `ListOfDicts` pipelines -/

theorem lod_write_json_eval {β : Type} (a : Args) (recs : List (Rec (Option β))) :
    evalLodWriteJson a recs =
      some [.makedirs, .opened (handle a "wt" { encoding := some a.encoding }),
            .jsonEncode recs (handle a "wt" { encoding := some a.encoding })
              [("default", "str"), ("ensure_ascii", "False"), ("indent", "2")],
            .text (handle a "wt" { encoding := some a.encoding }) ['\n']] := evalLodWriteJson_eq a recs

/-- **`ListOfDicts.write_csv`**: an empty list is refused (ValueError); otherwise the header — ALL keys of the list in
    first-seen order (`Read.unionKeys`) — when asked for, and every item written BY KEY in that one field order, `None`
    where the item lacks the key (an item's own key order does not matter). -/
theorem lod_write_csv_eval {β : Type} (a : Args) (recs : List (Rec (Option β))) :
    evalLodWriteCsv a recs =
      if recs.isEmpty then none
      else some ([.makedirs, .opened (handle a "wt" { encoding := some a.encoding })] ++
        (if a.header then [.csvHeader (unionKeys recs) (handle a "wt" { encoding := some a.encoding }) a.sep] else []) ++
        recs.map fun r => .csvRow (fillRow (unionKeys recs) r) (handle a "wt" { encoding := some a.encoding })) :=
  evalLodWriteCsv_eq a recs

/-- every row of that CSV has one cell per key of the list, named by the keys in header order; the cell of key `k` is the
    item's own value, `None` when it has none. -/
theorem lod_csv_row_shape {β : Type} (keys : List String) (r : Rec (Option β)) :
    (fillRow keys r).map (·.1) = keys ∧ ∀ k ∈ keys, (k, (lookup r k).join) ∈ fillRow keys r := by
  constructor
  · simp [fillRow, List.map_map, Function.comp_def]
  · intro k hk; exact List.mem_map.mpr ⟨k, hk, rfl⟩

/-! ### non-vacuity -/

section examples

/-- the end of the path decides: a known suffix in the middle does not count, directories and dots before do not matter. -/
example : codecOf "data/x.csv.gz".toList = .gzip ∧ codecOf "x.gz.csv".toList = .plain ∧ codecOf "a.b/x.json.bz2".toList = .bz2 ∧
    codecOf "x.xz".toList = .lzma ∧ codecOf ".gz".toList = .gzip ∧ codecOf "gz".toList = .plain ∧ codecOf "x.GZ".toList = .plain ∧
    codecOf "x.bz2.gz".toList = .gzip := by decide

/-- text modes get utf-8 unless given, binary modes get none; level 6 for bz2 / gzip only. -/
example : evalXopen "x.csv.gz".toList "wt".toList {} = some ⟨.gzip, "wt".toList, ⟨some "utf-8", some 6⟩⟩ ∧
    evalXopen "x.csv.gz".toList "rb".toList {} = some ⟨.gzip, "rb".toList, ⟨none, some 6⟩⟩ ∧
    evalXopen "x.xz".toList "rt".toList { encoding := some "latin-1" } = some ⟨.lzma, "rt".toList, ⟨some "latin-1", none⟩⟩ ∧
    evalXopen "x.txt".toList "w".toList { compresslevel := some 1 } = some ⟨.plain, "w".toList, ⟨some "utf-8", some 1⟩⟩ := by decide

def cols2 : List (Col Nat) := [("a", [some 1, none]), ("b", [some 3, some 4])]

/-- `write_csv` in latin-1 to a `.gz` path: three gzip handles; in UTF-8: one. -/
example : (evalDfWriteCsv { path := "x.csv.gz".toList, encoding := "latin-1", utf8Alias := false } cols2).map (·.length) = some 6 ∧
    evalDfWriteCsv { path := "x.csv".toList } cols2 =
      some [.makedirs, .opened ⟨.plain, "wb".toList, {}⟩, .arrowCsv cols2 ⟨.plain, "wb".toList, {}⟩ true "," "needed"] := by decide

/-- `write_json` hands the records of the frame; `ListOfDicts.write_csv` writes by key, `None` for a missing key. -/
example : evalDfWriteJson { path := "x.json.bz2".toList } cols2 2 =
      some [.makedirs, .opened ⟨.bz2, "wt".toList, ⟨some "utf-8", some 6⟩⟩,
        .jsonEncode [[("a", some 1), ("b", some 3)], [("a", none), ("b", some 4)]] ⟨.bz2, "wt".toList, ⟨some "utf-8", some 6⟩⟩
          [("default", "str"), ("ensure_ascii", "False"), ("indent", "2")],
        .text ⟨.bz2, "wt".toList, ⟨some "utf-8", some 6⟩⟩ ['\n']] ∧
    evalLodWriteCsv { path := "x.csv".toList, header := false } [[("a", some 1)], [("b", some 2), ("a", none)]] =
      some [.makedirs, .opened ⟨.plain, "wt".toList, ⟨some "utf-8", none⟩⟩,
        .csvRow [("a", some 1), ("b", none)] ⟨.plain, "wt".toList, ⟨some "utf-8", none⟩⟩,
        .csvRow [("a", none), ("b", some 2)] ⟨.plain, "wt".toList, ⟨some "utf-8", none⟩⟩] ∧
    evalLodWriteCsv (β := Nat) { path := "x.csv".toList } [] = none := by decide

/-- NPZ / pickle: the columns by name; the pickle handles of one path agree. -/
example : evalDfWriteNpz { path := "x.npz".toList, compress := true } cols2 = some [.makedirs, .savez true cols2] ∧
    evalDfReadNpz { path := "x.npz".toList } cols2 = some cols2 ∧
    evalDfWritePickle { path := "x.pkl.xz".toList } cols2 =
      some [.makedirs, .opened ⟨.lzma, "wb".toList, {}⟩, .pickleTable cols2 ⟨.lzma, "wb".toList, {}⟩] ∧
    evalDfReadPickle { path := "x.pkl.xz".toList } cols2 = some (⟨.lzma, "rb".toList, {}⟩, cols2) := by decide

end examples

end DI.Eval.C12

/-
  Proofs/TieC19.lean — obligations over `Generated/CodeC19.lean`, the translation of the *current* source of the element-wise
  lifting helpers of `dataiter/regex.py` and `dataiter/dt.py`: every public function is ONE shape —
  scalar ⇒ the stdlib call itself; vector ⇒ an output pre-filled with the missing marker, the stdlib function applied at
  exactly the non-missing positions, the input taken element by element at the same position.
-/
import Generated.CodeC19

namespace DI.Tie.C19

open DI.Py DI.Gen

/-! ### regex -/

def prep (dtype default : Term) : Term := Term.app "_prep" [Term.sym "string", dtype, default]

/-- the vector branch of a lifted `re` function: `out, na = _prep(string, dtype, default)`; for every position where the
    string is NOT missing, `out[i] = call(string[i])`; the result is `Vector.fast(out, outDtype)`. Missing positions keep
    the default they were pre-filled with — the stdlib function never sees them. -/
def liftRe (dtype default outDtype : Term) (call : Term → Term) : Out :=
  let out := Term.app "item0" [prep dtype default]
  let na := Term.app "item1" [prep dtype default]
  Out.ret [Term.app "for" [Term.sym "i", Term.app "np.flatnonzero" [Term.app "~" [na]], Term.app "block"
            [Term.app "store" [Term.app "getitem" [out, Term.sym "i"], call (Term.app "getitem" [Term.sym "string", Term.sym "i"])]]]]
          (Term.app "Vector.fast" [out, outDtype])

def reCall (f : String) (extra : List Term) (s : Term) : Term :=
  Term.app f ([Term.sym "pattern"] ++ extra.takeWhile (fun t => match t with | Term.sym "repl" => true | _ => false) ++ [s] ++
              extra.dropWhile (fun t => match t with | Term.sym "repl" => true | _ => false) ++ [Term.app "=flags" [Term.sym "flags"]])

/-- one statement for all seven functions: scalar input ⇒ the `re` call on the string itself; otherwise `liftRe`. -/
def lifted (truth : Term → Bool) (f : String) (extra : List Term) (dtype default outDtype : Term) : Out :=
  if truth (Term.app "util.is_scalar" [Term.sym "string"]) then Out.ret [] (reCall f extra (Term.sym "string"))
  else liftRe dtype default outDtype (reCall f extra)

theorem prep_code (truth : Term → Bool) :
    regex_prep truth = Out.ret
      [Term.app "assert" [Term.app "isinstance" [Term.sym "string", Term.sym "np.ndarray"]],
       Term.app "assert" [Term.app "isinstance" [Term.app ".dtype" [Term.sym "string"], Term.sym "StringDType"]]]
      (Term.app "tuple" [Term.app "np.full_like" [Term.sym "string", Term.sym "default", Term.sym "dtype"],
                         Term.app "Eq" [Term.sym "string", Term.sym "dtypes.string.na_object"]]) := rfl

theorem findall_code (truth : Term → Bool) :
    regex_findall truth = lifted truth "re.findall" [] (Term.sym "object") (Term.sym "None") (Term.sym "object") := by
  unfold regex_findall lifted; split <;> rfl
theorem fullmatch_code (truth : Term → Bool) :
    regex_fullmatch truth = lifted truth "re.fullmatch" [] (Term.sym "object") (Term.sym "None") (Term.sym "object") := by
  unfold regex_fullmatch lifted; split <;> rfl
theorem match_code (truth : Term → Bool) :
    regex_match truth = lifted truth "re.match" [] (Term.sym "object") (Term.sym "None") (Term.sym "object") := by
  unfold regex_match lifted; split <;> rfl
theorem search_code (truth : Term → Bool) :
    regex_search truth = lifted truth "re.search" [] (Term.sym "object") (Term.sym "None") (Term.sym "object") := by
  unfold regex_search lifted; split <;> rfl
theorem split_code (truth : Term → Bool) :
    regex_split truth = lifted truth "re.split" [Term.app "=maxsplit" [Term.sym "maxsplit"]] (Term.sym "object") (Term.sym "None") (Term.sym "object") := by
  unfold regex_split lifted; split <;> rfl
/-- `sub` keeps the string dtype: missing strings stay missing strings. -/
theorem sub_code (truth : Term → Bool) :
    regex_sub truth = lifted truth "re.sub" [Term.sym "repl", Term.app "=count" [Term.sym "count"]]
      (Term.sym "dtypes.string") (Term.sym "dtypes.string.na_object") (Term.sym "str") := by
  unfold regex_sub lifted; split <;> rfl
theorem subn_code (truth : Term → Bool) :
    regex_subn truth = lifted truth "re.subn" [Term.sym "repl", Term.app "=count" [Term.sym "count"]]
      (Term.sym "object") (Term.sym "None") (Term.sym "object") := by
  unfold regex_subn lifted; split <;> rfl

/-! ### dt -/

/-- the vector branch of the `_pull_*` helpers: output pre-filled with `fill` (NaN / blank / NaT …), the per-element
    function (`np.vectorize(function)`) applied to exactly the non-NaT elements, as Python objects, and stored at the same
    positions; an all-missing (or empty) input skips the call altogether. `finish` is the final conversion. -/
def pull (truth : Term → Bool) (self : String) (fill dtype : Term) (finish : Bool → Term → Term) : Out :=
  if truth (Term.app "util.is_scalar" [Term.sym "x"]) then
    Out.ret [] (Term.app "getitem" [Term.app self [Term.app "Vector" [Term.app "list" [Term.sym "x"], Term.sym "np.datetime64"], Term.sym "function"], Term.int 0])
  else
    let checks := [Term.app "assert" [Term.app "isinstance" [Term.sym "x", Term.sym "np.ndarray"]],
                   Term.app "assert" [Term.app "np.issubdtype" [Term.app ".dtype" [Term.sym "x"], Term.sym "np.datetime64"]]]
    let out := Term.app "Vector.fast" [Term.app "np.full_like" [Term.sym "x", fill, dtype], dtype]
    let na := Term.app "np.isnat" [Term.sym "x"]
    if truth (Term.app ".all" [na]) then Out.ret checks (finish false out)
    else
      Out.ret (checks ++ [Term.app "store" [Term.app "getitem" [out, Term.app "~" [na]],
                 Term.app "call" [Term.app "np.vectorize" [Term.sym "function"],
                   Term.app ".astype" [Term.app "getitem" [Term.sym "x", Term.app "~" [na]], Term.sym "object"]]]])
              (finish true out)

/-- `_pull_int`: float output filled with NaN; integers when nothing is missing (`as_integer`), floats with NaN at the
    missing positions otherwise; an all-missing input stays float. -/
theorem pull_int_code (truth : Term → Bool) :
    dt_pull_int truth = pull truth "_pull_int" (Term.sym "np.nan") (Term.sym "float")
      (fun called out => if called then (if truth (Term.app ".any" [Term.app "np.isnat" [Term.sym "x"]]) then out else Term.app ".as_integer" [out]) else out) := by
  unfold dt_pull_int pull; dsimp only; split <;> (try split) <;> simp_all

/-- `_pull_str`: object output filled with the blank (missing) string, converted to the string dtype at the end. -/
theorem pull_str_code (truth : Term → Bool) :
    dt_pull_str truth = pull truth "_pull_str" (Term.sym "dtypes.string.na_object") (Term.sym "object")
      (fun _ out => Term.app ".as_string" [out]) := by
  unfold dt_pull_str pull; dsimp only; split <;> (try split) <;> simp_all

/-- every extractor is `_pull_int` of the attribute / method of that name; `to_string` is `_pull_str` of `strftime(format)`
    (whatever Python's `strftime` gives for that element, with no rewriting of the format). -/
theorem extractor_codes (truth : Term → Bool) :
    dt_year truth = Out.ret [] (Term.app "_pull_int" [Term.sym "x", Term.app "lambda" [Term.app "params" [Term.sym "y"], Term.app ".year" [Term.sym "y"]]]) ∧
    dt_weekday truth = Out.ret [] (Term.app "_pull_int" [Term.sym "x", Term.app "lambda" [Term.app "params" [Term.sym "y"], Term.app ".weekday" [Term.sym "y"]]]) ∧
    dt_to_string truth = Out.ret [] (Term.app "_pull_str" [Term.sym "x", Term.app "lambda" [Term.app "params" [Term.sym "x"], Term.app ".strftime" [Term.sym "x", Term.sym "format"]]]) :=
  ⟨rfl, rfl, rfl⟩

/-- quarter = ceil(month / 3), integer unless a missing value makes it NaN. -/
theorem quarter_code (truth : Term → Bool) :
    dt_quarter truth =
      let y := Term.app "np.ceil" [Term.app "Div" [Term.app "month" [Term.sym "x"], Term.int 3]]
      Out.ret [] (if truth (Term.app ".any" [Term.app "np.isnan" [y]]) then y else Term.app ".astype" [y, Term.sym "int"]) := rfl

/-- **from_string as written**: `strptime(x, format)` at exactly the non-blank positions, None elsewhere, converted to
    datetimes; the result is narrowed to DATES only when there is at least one value and EVERY value has hour, minute,
    second AND microsecond equal to 0 (four separate tests on the extracted components — not a test on the tick count; the
    microsecond test is fix e3e8147: 00:00:00.5 used to lose its half second). -/
theorem from_string_code (truth : Term → Bool) :
    dt_from_string truth =
      if truth (Term.app "util.is_scalar" [Term.sym "x"]) then
        Out.ret [] (Term.app "getitem" [Term.app "from_string" [Term.app "Vector" [Term.app "list" [Term.sym "x"], Term.sym "str"], Term.sym "format"], Term.int 0])
      else
        let checks := [Term.app "assert" [Term.app "isinstance" [Term.sym "x", Term.sym "np.ndarray"]],
                       Term.app "assert" [Term.app "isinstance" [Term.app ".dtype" [Term.sym "x"], Term.sym "StringDType"]]]
        let out0 := Term.app "Vector.fast" [Term.app "np.full_like" [Term.sym "x", Term.sym "None", Term.sym "object"], Term.sym "object"]
        let na := Term.app "Eq" [Term.sym "x", Term.sym "dtypes.string.na_object"]
        let out := Term.app ".as_datetime" [out0]
        let vals := Term.app "getitem" [out, Term.app "~" [na]]
        let zero (f : String) := truth (Term.app ".all" [Term.app "Eq" [Term.app f [vals], Term.int 0]])
        let result := if truth (Term.app "Gt" [Term.app "len" [vals], Term.int 0]) && zero "hour" && zero "minute" && zero "second" && zero "microsecond"
                      then Term.app ".as_date" [out] else out
        if truth (Term.app ".all" [na]) then Out.ret checks result
        else Out.ret (checks ++ [Term.app "store" [Term.app "getitem" [out0, Term.app "~" [na]],
               Term.app "call" [Term.app "np.vectorize" [Term.app "lambda" [Term.app "params" [Term.sym "x"],
                 Term.app "datetime.datetime.strptime" [Term.sym "x", Term.sym "format"]]],
                 Term.app ".astype" [Term.app "getitem" [Term.sym "x", Term.app "~" [na]], Term.sym "object"]]]]) result := by
  unfold dt_from_string
  dsimp only
  split <;> (try split) <;> (try split) <;> simp_all

end DI.Tie.C19

/-
  Proofs/C19.lean — property C19: dt and regex functions act element-wise like datetime and re.
  Statements only; proofs cite Lemmas/DtRegex.lean; `Generated.ProxyTable` is regenerated from
  dataiter/vector.py on every run.  `datetime` / `re` functions are parameters `f`.
-/
import Model.DtRegex
import Lemmas.DtRegex
import Generated.ProxyTable

namespace DI.C19

open DI.DtRe DI.Gen

/-- every extractor / to_string / scalar replace: at each non-missing position what the datetime
    function gives for that element, missing at every NaT, length preserved; all lengths and all
    missing patterns. -/
theorem dt_elementwise {δ β : Type} (f : δ → β) (xs : List (Option δ)) :
    pull f xs = xs.map (fun x => x.map f) := pull_elementwise f xs

/-- the integer result type of the extractors: integer iff non-empty and nothing missing. -/
theorem extractor_result_type {δ : Type} (xs : List (Option δ)) :
    pullIntIsInteger xs = (!xs.isEmpty && xs.all (·.isSome)) := pull_int_typing xs

/-- quarter is cast to integers exactly when nothing is missing. -/
theorem quarter_result_type {δ : Type} (xs : List (Option δ)) :
    quarterIsInteger xs = xs.all (·.isSome) := quarter_typing xs

/-- replace: element i is replaced with the scalar components and the i-th value of every vector
    component — a scalar component behaves like the constant vector. -/
theorem replace_is_elementwise {δ γ : Type} [Inhabited γ] (repl : δ → List (String × γ) → δ)
    (xs : List (Option δ)) (comps : List (String × Comp γ)) :
    replace repl xs comps =
      xs.zipIdx.map (fun (x, i) => x.map (fun y => repl y (comps.map (fun c => (c.1, c.2.at i))))) :=
  replace_elementwise repl xs comps

/-- quarter = ceil(month / 3) for every month. -/
theorem quarter_of_month : (List.range 13).tail.map quarterOf = [1, 1, 1, 2, 2, 2, 3, 3, 3, 4, 4, 4] :=
  quarter_table

/-- regex functions: the re function's result at every non-missing position, missing elsewhere. -/
theorem re_elementwise {β : Type} (f : String → β) (xs : List (Option String)) (i : Nat) (h : i < xs.length) :
    (regexMap f xs)[i]? = some ((xs[i]).map f) := regex_elementwise f xs i h

/-- scalar arguments behave like one-element vectors. -/
theorem scalar_like_singleton {δ β : Type} (f : δ → β) (x : Option δ) :
    scalarCall (pull f) x = x.map f := scalar_eq_singleton f x

/-- the Vector proxies bind the vector and call the module function of the same name:
    `.dt.X(...)` = `dt.X(vector, ...)`, `.re.X(...)` = `regex.X(..., string=vector)`,
    `.str.X(...)` = `numpy.strings.X(vector, ...)`. -/
theorem proxies_call_module_functions :
    ∀ r ∈ proxyTable,
      (r.1 = "DtProxy" → r.2.2.1 = "dt." ++ r.2.1 ∧ r.2.2.2 = "partial-first") ∧
      (r.1 = "ReProxy" → r.2.2.1 = "regex." ++ r.2.1 ∧ r.2.2.2 = "partial-string-kw") ∧
      (r.1 = "StrProxy" → r.2.2.1 = "'" ++ r.2.1 ++ "'" ∧ r.2.2.2 = "np.strings-partial-first") := by
  decide

end DI.C19

/-
  Proofs/C19.lean — property C19: dt and regex functions act element-wise like datetime and re.
  Statements only; proofs cite Lemmas/DtRegex.lean; `Generated.ProxyTable` is regenerated from
  dataiter/vector.py on every run.  `datetime` / `re` functions are parameters `f`.
-/
import Model.DtRegex
import Lemmas.DtRegex
import Lemmas.DtRegexSpec
import Generated.ProxyTable

namespace DI.C19

open DI.DtRe DI.Gen

/-- every extractor / to_string / scalar replace: at each non-missing position what the datetime
    function gives for that element, missing at every NaT, length preserved; all lengths and all
    missing patterns. -/
theorem dt_elementwise {δ β : Type} (f : δ → β) (xs : List (Option δ)) :
    pull f xs = xs.map (fun x => x.map f) := pull_elementwise f xs

/-- the integer result type of the extractors: integer iff non-empty and nothing missing. -/
theorem extractor_result_type {δ : Type} (xs : List (Option δ)) :
    pullIntIsInteger xs = (!xs.isEmpty && xs.all (·.isSome)) := pull_int_typing xs

/-- quarter is cast to integers exactly when nothing is missing. -/
theorem quarter_result_type {δ : Type} (xs : List (Option δ)) :
    quarterIsInteger xs = xs.all (·.isSome) := quarter_typing xs

/-- replace: element i is replaced with the scalar components and the i-th value of every vector
    component — a scalar component behaves like the constant vector. -/
theorem replace_is_elementwise {δ γ : Type} [Inhabited γ] (repl : δ → List (String × γ) → δ)
    (xs : List (Option δ)) (comps : List (String × Comp γ)) :
    replace repl xs comps =
      xs.zipIdx.map (fun (x, i) => x.map (fun y => repl y (comps.map (fun c => (c.1, c.2.at i))))) :=
  replace_elementwise repl xs comps

/-- quarter = ceil(month / 3) for every month. -/
theorem quarter_of_month : (List.range 13).tail.map quarterOf = [1, 1, 1, 2, 2, 2, 3, 3, 3, 4, 4, 4] :=
  quarter_table

/-- regex functions: the re function's result at every non-missing position, missing elsewhere. -/
theorem re_elementwise {β : Type} (f : String → β) (xs : List (Option String)) (i : Nat) (h : i < xs.length) :
    (regexMap f xs)[i]? = some ((xs[i]).map f) := regex_elementwise f xs i h

/-- scalar arguments behave like one-element vectors. -/
theorem scalar_like_singleton {δ β : Type} (f : δ → β) (x : Option δ) :
    scalarCall (pull f) x = x.map f := scalar_eq_singleton f x

/-- the Vector proxies bind the vector and call the module function of the same name:
    `.dt.X(...)` = `dt.X(vector, ...)`, `.re.X(...)` = `regex.X(..., string=vector)`,
    `.str.X(...)` = `numpy.strings.X(vector, ...)`. -/
theorem proxies_call_module_functions :
    ∀ r ∈ proxyTable,
      (r.1 = "DtProxy" → r.2.2.1 = "dt." ++ r.2.1 ∧ r.2.2.2 = "partial-first") ∧
      (r.1 = "ReProxy" → r.2.2.1 = "regex." ++ r.2.1 ∧ r.2.2.2 = "partial-string-kw") ∧
      (r.1 = "StrProxy" → r.2.2.1 = "'" ++ r.2.1 ++ "'" ∧ r.2.2.2 = "np.strings-partial-first") := by
  decide

/-! ## round 3: positional statements -/

/-- the lifting combinator, generically: mapping under `Option` gives a vector of the same length
    with a missing value at position `i` iff the input has one at position `i`. -/
theorem lifting_preserves_missing {δ β : Type} (f : δ → β) (xs : List (Option δ)) :
    SameMissing (xs.map (fun x => x.map f)) xs := sameMissing_map f xs

/-- instantiated for everything built on `_pull_datetime` / `_pull_int` / `_pull_str` (the extractors,
    `to_string`, scalar `replace`, `from_string`): output position `i` is missing iff input position
    `i` is NaT; lengths are equal — the mask assignment `out[~na] = f(x[~na])` does not shift values. -/
theorem pull_missing_iff_nat {δ β : Type} (f : δ → β) (xs : List (Option δ)) :
    SameMissing (pull f xs) xs := pull_sameMissing f xs

/-- … for `replace`, with scalar and with vector components … -/
theorem replace_missing_iff_nat {δ γ : Type} [Inhabited γ] (repl : δ → List (String × γ) → δ)
    (xs : List (Option δ)) (comps : List (String × Comp γ)) : SameMissing (replace repl xs comps) xs :=
  replace_sameMissing repl xs comps

/-- … and for the regex functions (position `i` holds the default iff string `i` is missing). -/
theorem regex_missing_iff_missing {β : Type} (f : String → β) (xs : List (Option String)) :
    SameMissing (regexMap f xs) xs := regexMap_sameMissing f xs

/-- `match` / `fullmatch` / `search` return `None` for "no match", which in the object vector is the
    missing value itself: seen from Python, position `i` is missing iff string `i` is missing OR the
    pattern does not match it. -/
theorem regex_no_match_reads_as_missing {μ : Type} (f : String → Option μ) (xs : List (Option String)) (i : Nat)
    (h : i < xs.length) :
    ((regexMap f xs)[i]'(by simpa [regexMap] using h)).join = none ↔
      xs[i] = none ∨ ∃ s, xs[i] = some s ∧ f s = none := regexMap_join_none_iff f xs i h

/-- `replace` with vector components: element `i` uses, for every vector component, the value at
    position `i` of that vector (`kwargs[key][i]` with `i` from `flatnonzero(~na)`) — the position in
    the whole vector, NOT the rank among the non-missing elements; scalars are used as they are. -/
theorem replace_vector_components_positionwise {δ γ : Type} [Inhabited γ] (repl : δ → List (String × γ) → δ)
    (xs : List (Option δ)) (comps : List (String × Comp γ)) (i : Nat) (h : i < xs.length) :
    (replace repl xs comps)[i]? =
      some (xs[i].map (fun y => repl y (comps.map (fun c => (c.1, c.2.at i))))) ∧
    (∀ (vs : List γ) (hv : i < vs.length), (Comp.vector vs).at i = vs[i]) ∧
    (∀ v : γ, (Comp.scalar v).at i = v) := replace_positionwise repl xs comps i h

/-- `from_string(to_string(x, fmt), fmt)` for any format pair that round-trips on single values:
    every non-missing element parses (`some`: no `ValueError`) to itself, missing stays missing. -/
theorem from_string_inverts_to_string {δ : Type} (fmt : δ → String) (parse : String → Option δ)
    (h : ∀ x, parse (fmt x) = some x) (xs : List (Option δ)) :
    pull parse (pull fmt xs) = xs.map (fun x => x.map some) := pull_parse_pull_fmt fmt parse h xs

/-- the same with the parse result flattened: the vector comes back unchanged. -/
theorem from_string_to_string_roundtrip {δ : Type} (fmt : δ → String) (parse : String → Option δ)
    (h : ∀ x, parse (fmt x) = some x) (xs : List (Option δ)) :
    (pull parse (pull fmt xs)).map Option.join = xs := pull_parse_pull_fmt_join fmt parse h xs

end DI.C19

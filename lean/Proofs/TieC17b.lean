/-
  Proofs/TieC17b.lean — obligations over the public `ListOfDicts.copy()` / `deepcopy()` (regenerated as `ListOfDicts_copy2` /
  `ListOfDicts_deepcopy2` in `Generated/CodeC17.lean`): they are the protocol methods `__copy__` / `__deepcopy__` and
  nothing else, so that `data.copy()` and `copy.copy(data)` (`data.deepcopy()` and `copy.deepcopy(data)`) build the same
  list object — the successor of `TieC17.copy_is_new_of_self`, the chain-cutting copy of `TieC17.deepcopy_cuts_chain`.
-/
import Generated.CodeC17
import Proofs.TieC17

namespace DI.Tie.C17

open DI.Py DI.Gen

/-- **copy() as written**: `self.__copy__()`, no argument, no effect — and `__copy__` is `self._new(self)`: the SAME item
    objects in a new list whose predecessor is the receiver (a successor: editing the copy in place marks the receiver
    obsolete, `TieC17.new_links_to_receiver`). -/
theorem copy_public_code (truth : Term → Bool) :
    ListOfDicts_copy2 truth = Out.ret [] (Term.app ".__copy__" [Term.sym "self"]) ∧
    ListOfDicts_copy truth = Out.ret [] (Term.app "._new" [Term.sym "self", Term.sym "self"]) := ⟨rfl, rfl⟩

/-- **deepcopy() as written**: `self.__deepcopy__()` with NO memo (legal because of the default `memo=None`), no effect — and
    `__deepcopy__` builds `self.__class__(map(copy.deepcopy, self), as_is=True)`: every item copied by its own
    `copy.deepcopy(item)` call, the result a fresh list without predecessor carrying the receiver's group keys. -/
theorem deepcopy_public_code (truth : Term → Bool) :
    ListOfDicts_deepcopy2 truth = Out.ret [] (Term.app ".__deepcopy__" [Term.sym "self"]) ∧
    ListOfDicts_deepcopy truth =
      let new := Term.app ".__class__" [Term.sym "self", Term.app "map" [Term.sym "copy.deepcopy", Term.sym "self"], Term.app "=as_is" [Term.sym "True"]]
      Out.ret [Term.app "setattr" [new, Term.sym "_group_keys", Term.app "._group_keys" [Term.sym "self"]]] new := ⟨rfl, rfl⟩

/-- the public methods take nothing but the receiver, are not decorated (no `new_from_generator`, no `obsoletes`: copying
    marks nothing obsolete), and each makes exactly one call; `__deepcopy__` accepts the protocol's `memo` with a default. -/
theorem copy_signatures :
    ListOfDicts_copy2_signature = ["self"] ∧ ListOfDicts_deepcopy2_signature = ["self"] ∧
    ListOfDicts_copy2_decorators = [] ∧ ListOfDicts_deepcopy2_decorators = [] ∧
    ListOfDicts_copy2_call_order = ["self.__copy__"] ∧ ListOfDicts_deepcopy2_call_order = ["self.__deepcopy__"] ∧
    ListOfDicts_copy_signature = ["self"] ∧ ListOfDicts_deepcopy_signature = ["self", "memo=None"] :=
  ⟨rfl, rfl, rfl, rfl, rfl, rfl, rfl, rfl⟩

mutual
/-- does the leaf `s` occur in the term? -/
def mentions (s : String) : Term → Bool
  | .sym x => x == s
  | .app _ args => mentionsList s args
  | _ => false
def mentionsList (s : String) : List Term → Bool
  | [] => false
  | t :: ts => mentions s t || mentionsList s ts
end

def Out.mentions (s : String) : Out → Bool
  | .ret e t => mentionsList s e || DI.Tie.C17.mentions s t
  | .raise e _ => mentionsList s e
  | .fall e => mentionsList s e

/-- **`__deepcopy__` ignores its memo**: the parameter `memo` occurs nowhere in the body, so `copy.deepcopy(data)` and
    `data.deepcopy()` are the same computation, and the items are copied by SEPARATE `copy.deepcopy(item)` calls (each with a
    memo of its own).  Consequence (observable, see the report): an item that occurs twice in the list (`data * 2`) becomes
    two distinct dicts in the deep copy, and sharing between the list and anything outside it is not preserved by
    `copy.deepcopy` of an enclosing object — unlike `copy.deepcopy` of a plain `list`. -/
theorem deepcopy_ignores_memo (truth : Term → Bool) :
    Out.mentions "memo" (ListOfDicts_deepcopy truth) = false ∧ Out.mentions "copy.deepcopy" (ListOfDicts_deepcopy truth) = true := by
  constructor <;> rfl

end DI.Tie.C17

/-
  Proofs/C17.lean — property C17: shared-dict discipline of ListOfDicts (state machine).
  Statements only; proofs cite Lemmas/Obsolete.lean.

  `step w op` is one method call; `touch` is the attribute access every call starts with.
-/
import Model.Obsolete
import Lemmas.Obsolete
import Lemmas.ObsoleteHist
import Lemmas.ObsoleteRuns

namespace DI.C17

open DI.Obs

/-- `_mark_obsolete` marks exactly the lists on the receiver's `_predecessor` chain and leaves
    every other flag (and every other field) as it was. -/
theorem mark_obsolete_marks_chain (fuel : Nat) (ls : List LObj) (r i : Nat) :
    (markChain fuel ls r)[i]? =
      (ls[i]?).map (fun l => { l with obsolete := l.obsolete || decide (i ∈ chain fuel ls r) }) :=
  markChain_get fuel ls r i

/-- after an editing method: an existing list is obsolete iff it was before or lies on the
    receiver's predecessor chain — ancestors are marked, non-ancestors are not. -/
theorem edit_marks_ancestors_only (w : World) (r : Nat) (keep : List Nat) (l : LObj)
    (h : (touch w r).1.lists[r]? = some l) (i : Nat) (hi : i < w.lists.length) :
    ((step w (.editInPlace r keep)).1.lists[i]?).map (·.obsolete) =
      (w.lists[i]?).map (fun x => x.obsolete ||
        decide (i ∈ chain (touch w r).1.lists.length (touch w r).1.lists r)) :=
  editInPlace_obsolete w r keep l h i hi

/-- the list returned by the editing method is not obsolete and has the receiver as predecessor. -/
theorem edit_result_not_obsolete (w : World) (r : Nat) (keep : List Nat) (l : LObj)
    (h : (touch w r).1.lists[r]? = some l) :
    (step w (.editInPlace r keep)).1.lists[w.lists.length]? =
      some { items := pick l.items keep, pred := some r, obsolete := false, warned := false } :=
  editInPlace_result w r keep l h

/-- the warning is printed exactly when the accessed list is obsolete and has not warned yet;
    after the access it has warned, and a list that has warned does not print again. -/
theorem warn_once (w : World) (r : Nat) :
    ((touch w r).2 = true ↔ ∃ l, w.lists[r]? = some l ∧ l.obsolete = true ∧ l.warned = false) ∧
    (∀ l, w.lists[r]? = some l → l.obsolete = true →
        ∃ l', (touch w r).1.lists[r]? = some l' ∧ l'.warned = true) ∧
    (∀ l, w.lists[r]? = some l → l.warned = true → (touch w r).2 = false) :=
  ⟨touch_warn_iff w r, fun l h ho => touch_sets_warned w r l h ho,
   fun l h hw => touch_no_warn_of_warned w r l h hw⟩

/-- non-modifying methods (and plain uses, and deepcopy) write no existing dict. -/
theorem nonmodifying_write_nothing (w : World) (r : Nat) (keep : List Nat) (extra : Nat) :
    (∀ d, d < w.vers.length → (step w (.derive r keep extra)).1.vers[d]? = w.vers[d]?) ∧
    (step w (.use r)).1.vers = w.vers ∧
    (∀ d, d < w.vers.length → (step w (.deepcopy r)).1.vers[d]? = w.vers[d]?) :=
  ⟨derive_vers w r keep extra, use_vers w r, deepcopy_vers w r⟩

/-- deepcopy returns brand-new dict objects, no predecessor, not obsolete. -/
theorem deepcopy_isolated (w : World) (r : Nat) (l : LObj) (h : (touch w r).1.lists[r]? = some l) :
    ∃ new, (step w (.deepcopy r)).1.lists = (touch w r).1.lists ++ [new] ∧ new.pred = none ∧
      new.obsolete = false ∧ ∀ d ∈ new.items, w.vers.length ≤ d :=
  deepcopy_fresh w r l h

/-- an editing method writes only dicts that are items of its receiver: a list that shares no
    dict with the receiver (e.g. the original of a deep copy) cannot observe the edit. -/
theorem edit_writes_only_own_items (w : World) (r : Nat) (keep : List Nat) (l : LObj)
    (h : (touch w r).1.lists[r]? = some l) (d : Nat) (hd : d ∉ l.items) :
    (step w (.editInPlace r keep)).1.vers[d]? = w.vers[d]? :=
  editInPlace_vers w r keep l h d hd

/-- **whole histories**: along every sequence of calls from every world, the warning of a list is
    printed at most once, and never again once the list has warned. -/
theorem warning_at_most_once_ever (r : Nat) (ops : List Op) (w : World) :
    (∀ l, w.lists[r]? = some l → l.warned = true → warnCount r w ops = 0) ∧ warnCount r w ops ≤ 1 :=
  warnCount_le_one r ops w

/-- **whole histories**: any chain of non-modifying calls (derive = filter / sort / unique / head /
    tail / slicing / copy / joins that only select, plain uses, deepcopy) writes no existing dict. -/
theorem nonmodifying_histories_write_nothing (ops : List Op) (w : World)
    (h : ∀ op ∈ ops, op.nonModifying = true) : ∃ ext, (runFinal w ops).vers = w.vers ++ ext :=
  nonmodifying_history_writes_nothing ops w h

/-- one call: the `warned` flag of an existing list changes exactly when it is the receiver and the
    warning prints. -/
theorem warned_flag_step (w : World) (op : Op) (i : Nat) (l : LObj) (h : w.lists[i]? = some l) :
    ∃ l', (step w op).1.lists[i]? = some l' ∧
      l'.warned = (l.warned || (decide (i = op.recv) && (step w op).2)) := step_warned w op i l h

example : warnCount 0 (init 1) [.editInPlace 0 [0], .use 0, .use 0, .derive 0 [0] 0] = 1 := by decide

/-- non-vacuity: a chain root → filter → sort → modify marks all three ancestors, not the result. -/
example : ((run (init 2) [.derive 0 [0, 1] 0, .derive 1 [1, 0] 0, .editInPlace 2 [0, 1]]).map
    (fun p => p.2.lists.map (·.obsolete))).getLast? = some [true, true, true, false] := by decide

/-! ## whole histories (all finite call sequences) — Lemmas/ObsoleteRuns.lean

  Vocabulary (defined in Lemmas/ObsoleteRuns.lean):
  `runFinal w ops` — the world after the history `ops`; `ops = pre ++ op :: post` — the call `op`
  is made in the world `runFinal w pre`; `isObs w i` / `isWarned w i` — the `_obsolete` /
  `_obsolete_warned` flag of list `i`; `Anc ls i r` — `i` lies on the `_predecessor` chain of `r`
  (`i = r` or `i` is an ancestor of `r`), a fuel-free inductive relation; `PredOlder ls` — every
  `_predecessor` is a strictly older list; `WF w` — `PredOlder w.lists` and all items are allocated
  dicts (holds for `init n`, preserved by every call);
  `Op.isEdit` — the `@obsoletes` methods; `Op.isPoke` — a direct item write, which does not go
  through `__getattribute__`. -/

/-- the initial world is well-formed and has no obsolete list: the hypotheses below are satisfiable. -/
theorem init_wellformed (n : Nat) : WF (init n) ∧ ∀ j, isObs (init n) j = false :=
  ⟨init_WF n, init_not_obsolete n⟩

/-- **`pred_older` (invariant)**: well-formedness — every `_predecessor` is a strictly older list
    (so chains are acyclic) and every item is an allocated dict — holds after every history. -/
theorem pred_older (w : World) (hwf : WF w) (ops : List Op) : WF (runFinal w ops) :=
  run_WF ops w hwf

/-- `pred_older` spelled out for one pointer of one list of a reachable world. -/
theorem pred_older_pointwise (w : World) (hpo : PredOlder w.lists) (ops : List Op) (i : Nat)
    (l : LObj) (p : Nat) (hl : (runFinal w ops).lists[i]? = some l) (hp : l.pred = some p) : p < i :=
  run_pred_older w hpo ops i l p hl hp

/-- **`pred_stable`**: along every history an existing list keeps its `_predecessor` pointer and
    the identities of its items (no method ever re-points or re-fills an existing list). -/
theorem pred_stable (w : World) (ops : List Op) (i : Nat) (l : LObj) (h : w.lists[i]? = some l) :
    ∃ l', (runFinal w ops).lists[i]? = some l' ∧ l'.items = l.items ∧ l'.pred = l.pred :=
  run_old ops w i l h

/-- ancestry is stable: for a list `r` existing now, "`i` is on `r`'s chain" has the same truth
    value now and after any further history. -/
theorem ancestry_stable (w : World) (hpo : PredOlder w.lists) (ops : List Op) (i r : Nat) :
    Anc w.lists i r ↔ (r < w.lists.length ∧ Anc (runFinal w ops).lists i r) :=
  anc_stable hpo (run_ext w ops) i r

/-- in a well-formed world the fuelled chain walked by `_mark_obsolete` (fuel = number of lists) is
    exactly the fuel-free ancestor relation: the fuel never runs out. -/
theorem chain_is_ancestry (w : World) (hpo : PredOlder w.lists) (i r : Nat) :
    i ∈ chain w.lists.length w.lists r ↔ Anc w.lists i r :=
  mem_chain_iff_anc hpo i r

/-- **clause 1, history characterisation of obsolescence.** Along any history from a world with
    older predecessors in which no list is obsolete, list `i` is obsolete at the end IFF some `@obsoletes` call
    in the history had a receiver whose predecessor chain — at the time of the call — contained
    `i` (the receiver was `i` itself or a descendant of `i`). -/
theorem obsolete_iff_edited_descendant (w : World) (hpo : PredOlder w.lists)
    (hclean : ∀ j, isObs w j = false) (ops : List Op) (i : Nat) :
    isObs (runFinal w ops) i = true ↔
      ∃ pre op post, ops = pre ++ op :: post ∧ op.isEdit = true ∧
        Anc (runFinal w pre).lists i op.recv :=
  obsolete_iff_clean w hpo hclean ops i

/-- clause 1 with ancestry read off the *final* world (legitimate because ancestry is stable): `i`
    is obsolete iff some `@obsoletes` call was made on an already existing receiver that is, in
    the final predecessor forest, `i` or a descendant of `i`. -/
theorem obsolete_iff_edited_descendant_final (w : World) (hpo : PredOlder w.lists)
    (hclean : ∀ j, isObs w j = false) (ops : List Op) (i : Nat) :
    isObs (runFinal w ops) i = true ↔
      ∃ pre op post, ops = pre ++ op :: post ∧ op.isEdit = true ∧
        op.recv < (runFinal w pre).lists.length ∧ Anc (runFinal w ops).lists i op.recv :=
  obsolete_iff_final_clean w hpo hclean ops i

/-- clause 1 from an arbitrary well-formed start (some lists may already be obsolete): obsolete at
    the end iff obsolete at the start or edited-as-ancestor during the history. -/
theorem obsolete_iff_start_or_edited (w : World) (hpo : PredOlder w.lists) (ops : List Op) (i : Nat) :
    isObs (runFinal w ops) i = true ↔
      (isObs w i = true ∨
        ∃ pre op post, ops = pre ++ op :: post ∧ op.isEdit = true ∧
          Anc (runFinal w pre).lists i op.recv) :=
  obsolete_iff w hpo ops i

/-- clause 1 for every history from the initial world `init n` (no hypotheses left). -/
theorem obsolete_iff_edited_descendant_init (n : Nat) (ops : List Op) (i : Nat) :
    isObs (runFinal (init n) ops) i = true ↔
      ∃ pre op post, ops = pre ++ op :: post ∧ op.isEdit = true ∧
        Anc (runFinal (init n) pre).lists i op.recv :=
  obsolete_iff_init n ops i

/-- **clause 2, deepcopy isolation over whole histories (invariant + per-call form).** Let `c` be
    the list returned by `deepcopy r` in a well-formed world (`c = w0.lists.length`). After *any*
    history `pre`: (a) no dict object is shared between `c`'s family (`c` and its descendants)
    and any list outside it, and (b) any further call `op` whose receiver lies on one side of
    that boundary leaves every item of every list on the other side unwritten — edits through
    the copy (or lists derived from it) are never observed by the originals, and vice versa. -/
theorem deepcopy_never_observed (w0 : World) (hwf : WF w0) (r : Nat) (hr : r < w0.lists.length)
    (pre : List Op) :
    Iso w0.lists.length (runFinal (step w0 (.deepcopy r)).1 pre) ∧
    ∀ (op : Op) (j : Nat) (l : LObj) (d : Nat),
      (runFinal (step w0 (.deepcopy r)).1 pre).lists[j]? = some l → d ∈ l.items →
      (Anc (runFinal (step w0 (.deepcopy r)).1 pre).lists w0.lists.length op.recv ↔
        ¬ Anc (runFinal (step w0 (.deepcopy r)).1 pre).lists w0.lists.length j) →
      (step (runFinal (step w0 (.deepcopy r)).1 pre) op).1.vers[d]? =
        (runFinal (step w0 (.deepcopy r)).1 pre).vers[d]? :=
  deepcopy_isolated_forever w0 hwf r hr pre

/-- what `Iso c w` says (definitional unfolding, for the reader of clause 2). -/
theorem iso_def (c : Nat) (w : World) :
    Iso c w ↔ ∀ (j j' : Nat) (l l' : LObj), w.lists[j]? = some l → w.lists[j']? = some l' →
      Anc w.lists c j → ¬ Anc w.lists c j' → ∀ d, d ∈ l.items → d ∉ l'.items :=
  Iff.rfl

/-- **clause 2, end to end.** After `deepcopy r` (result `c`), take any list `j` and any history in
    which every call's receiver is on the other side of `c`'s family boundary than `j` (`j = c`
    and all calls on originals and lists derived from them; or `j` an original and all calls on
    the copy and lists derived from it). Then the version of every item of `j` at the end of the
    history is what it was right after the deepcopy: nothing was written. -/
theorem deepcopy_never_observed_end_to_end (w0 : World) (hwf : WF w0) (r : Nat)
    (hr : r < w0.lists.length) (ops : List Op) (j : Nat) (l : LObj)
    (hl : (step w0 (.deepcopy r)).1.lists[j]? = some l)
    (hside : ∀ pre op post, ops = pre ++ op :: post →
      (Anc (runFinal (step w0 (.deepcopy r)).1 pre).lists w0.lists.length op.recv ↔
        ¬ Anc (runFinal (step w0 (.deepcopy r)).1 pre).lists w0.lists.length j)) :
    ∀ d ∈ l.items,
      (runFinal (step w0 (.deepcopy r)).1 ops).vers[d]? = (step w0 (.deepcopy r)).1.vers[d]? :=
  deepcopy_other_side_untouched w0 hwf r hr ops j l hl hside

/-- the isolation invariant is not specific to `deepcopy`: whenever a family shares no dict with the
    rest, no history can ever make it share one. -/
theorem isolation_is_invariant (c : Nat) (w : World) (hwf : WF w) (hc : c < w.lists.length)
    (hiso : Iso c w) (ops : List Op) : Iso c (runFinal w ops) :=
  run_iso c ops w hwf hc hiso

/-- every call, whatever it is, writes only dicts that are items of its receiver at call time
    (generalises `edit_writes_only_own_items` to all six kinds of call). -/
theorem writes_only_receiver_items (w : World) (op : Op) (d : Nat) (hd : d < w.vers.length)
    (h : ∀ l, w.lists[op.recv]? = some l → d ∉ l.items) :
    (step w op).1.vers[d]? = w.vers[d]? :=
  step_vers_unchanged w op d hd h

/-- **clause 3.** The list returned by an `@obsoletes` call on an existing receiver is new, not
    obsolete, not warned, and has the receiver as predecessor; and along every later history it is
    obsolete exactly when some later `@obsoletes` call had it on its receiver's chain — i.e. was
    made on the result itself or on one of its descendants. (Apply with `w := runFinal w0 pre`,
    whose predecessors are older by `pred_older`, to place the call anywhere in a history.) -/
theorem result_of_edit_fresh_chain (w : World) (hpo : PredOlder w.lists) (op : Op) (he : op.isEdit = true)
    (hr : op.recv < w.lists.length) (post : List Op) :
    (∃ new, (step w op).1.lists[w.lists.length]? = some new ∧ new.obsolete = false ∧
        new.warned = false ∧ new.pred = some op.recv) ∧
    (isObs (runFinal (step w op).1 post) w.lists.length = true ↔
      ∃ p1 o p2, post = p1 ++ o :: p2 ∧ o.isEdit = true ∧
        Anc (runFinal (step w op).1 p1).lists w.lists.length o.recv) :=
  edit_result_chain w hpo op he hr post

/-- obsolescence is permanent: no history clears the flag. -/
theorem obsolete_forever (w : World) (ops : List Op) (i : Nat) (h : isObs w i = true) :
    isObs (runFinal w ops) i = true :=
  isObs_run_mono w ops i h

/-- when exactly one call prints the warning: it accesses an attribute of the receiver (is not a
    direct item write), the receiver is obsolete and has not warned yet. -/
theorem warning_printed_iff (w : World) (op : Op) :
    (step w op).2 = (!op.isPoke && isObs w op.recv && !isWarned w op.recv) :=
  step_printed_eq w op

/-- **clause 4, exactly once.** Along any history from any world in which `r` has not warned yet,
    the number of warnings printed for `r` is 1 if somewhere in the history an attribute-accessing
    call has receiver `r` while `r` is obsolete, and 0 if there is no such call. -/
theorem warning_exactly_once (r : Nat) (w : World) (hnw : isWarned w r = false) (ops : List Op) :
    (warnCount r w ops = 1 ↔
      ∃ pre op post, ops = pre ++ op :: post ∧ op.recv = r ∧ op.isPoke = false ∧
        isObs (runFinal w pre) r = true) ∧
    (warnCount r w ops = 0 ↔
      ¬ ∃ pre op post, ops = pre ++ op :: post ∧ op.recv = r ∧ op.isPoke = false ∧
        isObs (runFinal w pre) r = true) :=
  warnCount_exact r w hnw ops

/-- clause 4 for arbitrary worlds, in executable form. -/
theorem warning_count_formula (r : Nat) (ops : List Op) (w : World) :
    warnCount r w ops = (!isWarned w r && usedWhileObsolete r w ops).toNat :=
  warnCount_eq r ops w

/-- **clause 4, progress and safety.** Once `r` is obsolete and has not warned: after any history
    that makes no attribute access on `r`, the next attribute-accessing call on `r` prints the
    warning, and after that no history prints it again. -/
theorem warning_progress_then_never_again (w : World) (r : Nat) (ho : isObs w r = true)
    (hw : isWarned w r = false) (ops : List Op) (hno : ∀ o ∈ ops, o.recv = r → o.isPoke = true)
    (op : Op) (hr : op.recv = r) (hk : op.isPoke = false) :
    (step (runFinal w ops) op).2 = true ∧
    ∀ post, warnCount r (step (runFinal w ops) op).1 post = 0 :=
  next_use_warns w r ho hw ops hno op hr hk

/-! ### non-vacuity (clause 5): concrete short histories by `decide` -/

/-- root → filter → sort → modify → head: the three ancestors of the edited list are obsolete, the
    result and its derivative are not; the executable characterisation agrees list by list. -/
example :
    let ops : List Op := [.derive 0 [0, 1] 0, .derive 1 [1, 0] 0, .editInPlace 2 [0, 1], .derive 3 [0] 0]
    (List.range 5).map (isObs (runFinal (init 2) ops)) = [true, true, true, false, false] ∧
    (List.range 5).map (fun i => editedAnc i (init 2) ops) = [true, true, true, false, false] := by
  decide

/-- siblings are not ancestors: editing one filter result does not obsolete the other. -/
example :
    (List.range 4).map (isObs (runFinal (init 2) [.derive 0 [0] 0, .derive 0 [1] 0, .editFresh 1])) =
      [true, true, false, false] := by decide

/-- the result of an edit is fresh, and becomes obsolete through an edit on its descendant. -/
example :
    isObs (runFinal (init 1) [.editFresh 0]) 1 = false ∧
    isObs (runFinal (init 1) [.editFresh 0, .derive 1 [0] 0, .use 2]) 1 = false ∧
    isObs (runFinal (init 1) [.editFresh 0, .derive 1 [0] 0, .editInPlace 2 [0]]) 1 = true := by
  decide

/-- deepcopy isolation: edits through the copy (list 1, dicts 2 and 3) and through a list derived
    from it never touch the original's dicts 0 and 1; an edit and a direct write on the original
    never touch the copy's dicts. -/
example :
    (runFinal (init 2) [.deepcopy 0, .editInPlace 1 [0, 1], .derive 1 [1] 0, .editInPlace 3 [0]]).vers =
      [0, 0, 1, 2] ∧
    (runFinal (init 2) [.deepcopy 0, .editInPlace 0 [0], .poke 0 1, .poke 0 1]).vers = [1, 2, 0, 0] := by
  decide

/-- sharing *is* observed without deepcopy (the invariant is not trivially true): a filter result
    shares dict 0 with the root, so an in-place edit of the result writes the root's item. -/
example : (runFinal (init 2) [.derive 0 [0] 0, .editInPlace 1 [0]]).vers = [1, 0] := by decide

/-- exactly once: 0 without a use while obsolete (a direct item write does not count), 1 with one or
    many uses; a list that is never edited never warns. -/
example :
    warnCount 0 (init 1) [.editInPlace 0 [0], .use 1, .poke 0 0] = 0 ∧
    warnCount 0 (init 1) [.editInPlace 0 [0], .use 1, .use 0] = 1 ∧
    warnCount 0 (init 1) [.editInPlace 0 [0], .use 0, .derive 0 [0] 0, .editFresh 0, .use 0] = 1 ∧
    warnCount 0 (init 1) [.use 0, .derive 0 [0] 0, .use 0] = 0 ∧
    usedWhileObsolete 0 (init 1) [.editInPlace 0 [0], .use 1, .use 0] = true := by
  decide

/-- an ancestor warns too: editing a filter result makes the root warn on its next use. -/
example :
    (run (init 1) [.derive 0 [0] 0, .editInPlace 1 [0], .use 0, .use 0]).map (·.1) =
      [false, false, true, false] := by decide

end DI.C17

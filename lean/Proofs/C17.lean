/-
  Proofs/C17.lean — property C17: shared-dict discipline of ListOfDicts (state machine).
  Statements only; proofs cite Lemmas/Obsolete.lean.

  `step w op` is one method call; `touch` is the attribute access every call starts with.
-/
import Model.Obsolete
import Lemmas.Obsolete
import Lemmas.ObsoleteHist

namespace DI.C17

open DI.Obs

/-- `_mark_obsolete` marks exactly the lists on the receiver's `_predecessor` chain and leaves
    every other flag (and every other field) as it was. -/
theorem mark_obsolete_marks_chain (fuel : Nat) (ls : List LObj) (r i : Nat) :
    (markChain fuel ls r)[i]? =
      (ls[i]?).map (fun l => { l with obsolete := l.obsolete || decide (i ∈ chain fuel ls r) }) :=
  markChain_get fuel ls r i

/-- after an editing method: an existing list is obsolete iff it was before or lies on the
    receiver's predecessor chain — ancestors are marked, non-ancestors are not. -/
theorem edit_marks_ancestors_only (w : World) (r : Nat) (keep : List Nat) (l : LObj)
    (h : (touch w r).1.lists[r]? = some l) (i : Nat) (hi : i < w.lists.length) :
    ((step w (.editInPlace r keep)).1.lists[i]?).map (·.obsolete) =
      (w.lists[i]?).map (fun x => x.obsolete ||
        decide (i ∈ chain (touch w r).1.lists.length (touch w r).1.lists r)) :=
  editInPlace_obsolete w r keep l h i hi

/-- the list returned by the editing method is not obsolete and has the receiver as predecessor. -/
theorem edit_result_not_obsolete (w : World) (r : Nat) (keep : List Nat) (l : LObj)
    (h : (touch w r).1.lists[r]? = some l) :
    (step w (.editInPlace r keep)).1.lists[w.lists.length]? =
      some { items := pick l.items keep, pred := some r, obsolete := false, warned := false } :=
  editInPlace_result w r keep l h

/-- the warning is printed exactly when the accessed list is obsolete and has not warned yet;
    after the access it has warned, and a list that has warned does not print again. -/
theorem warn_once (w : World) (r : Nat) :
    ((touch w r).2 = true ↔ ∃ l, w.lists[r]? = some l ∧ l.obsolete = true ∧ l.warned = false) ∧
    (∀ l, w.lists[r]? = some l → l.obsolete = true →
        ∃ l', (touch w r).1.lists[r]? = some l' ∧ l'.warned = true) ∧
    (∀ l, w.lists[r]? = some l → l.warned = true → (touch w r).2 = false) :=
  ⟨touch_warn_iff w r, fun l h ho => touch_sets_warned w r l h ho,
   fun l h hw => touch_no_warn_of_warned w r l h hw⟩

/-- non-modifying methods (and plain uses, and deepcopy) write no existing dict. -/
theorem nonmodifying_write_nothing (w : World) (r : Nat) (keep : List Nat) (extra : Nat) :
    (∀ d, d < w.vers.length → (step w (.derive r keep extra)).1.vers[d]? = w.vers[d]?) ∧
    (step w (.use r)).1.vers = w.vers ∧
    (∀ d, d < w.vers.length → (step w (.deepcopy r)).1.vers[d]? = w.vers[d]?) :=
  ⟨derive_vers w r keep extra, use_vers w r, deepcopy_vers w r⟩

/-- deepcopy returns brand-new dict objects, no predecessor, not obsolete. -/
theorem deepcopy_isolated (w : World) (r : Nat) (l : LObj) (h : (touch w r).1.lists[r]? = some l) :
    ∃ new, (step w (.deepcopy r)).1.lists = (touch w r).1.lists ++ [new] ∧ new.pred = none ∧
      new.obsolete = false ∧ ∀ d ∈ new.items, w.vers.length ≤ d :=
  deepcopy_fresh w r l h

/-- an editing method writes only dicts that are items of its receiver: a list that shares no
    dict with the receiver (e.g. the original of a deep copy) cannot observe the edit. -/
theorem edit_writes_only_own_items (w : World) (r : Nat) (keep : List Nat) (l : LObj)
    (h : (touch w r).1.lists[r]? = some l) (d : Nat) (hd : d ∉ l.items) :
    (step w (.editInPlace r keep)).1.vers[d]? = w.vers[d]? :=
  editInPlace_vers w r keep l h d hd

/-- **whole histories**: along every sequence of calls from every world, the warning of a list is
    printed at most once, and never again once the list has warned. -/
theorem warning_at_most_once_ever (r : Nat) (ops : List Op) (w : World) :
    (∀ l, w.lists[r]? = some l → l.warned = true → warnCount r w ops = 0) ∧ warnCount r w ops ≤ 1 :=
  warnCount_le_one r ops w

/-- **whole histories**: any chain of non-modifying calls (derive = filter / sort / unique / head /
    tail / slicing / copy / joins that only select, plain uses, deepcopy) writes no existing dict. -/
theorem nonmodifying_histories_write_nothing (ops : List Op) (w : World)
    (h : ∀ op ∈ ops, op.nonModifying = true) : ∃ ext, (runFinal w ops).vers = w.vers ++ ext :=
  nonmodifying_history_writes_nothing ops w h

/-- one call: the `warned` flag of an existing list changes exactly when it is the receiver and the
    warning prints. -/
theorem warned_flag_step (w : World) (op : Op) (i : Nat) (l : LObj) (h : w.lists[i]? = some l) :
    ∃ l', (step w op).1.lists[i]? = some l' ∧
      l'.warned = (l.warned || (decide (i = op.recv) && (step w op).2)) := step_warned w op i l h

example : warnCount 0 (init 1) [.editInPlace 0 [0], .use 0, .use 0, .derive 0 [0] 0] = 1 := by decide

/-- non-vacuity: a chain root → filter → sort → modify marks all three ancestors, not the result. -/
example : ((run (init 2) [.derive 0 [0, 1] 0, .derive 1 [1, 0] 0, .editInPlace 2 [0, 1]]).map
    (fun p => p.2.lists.map (·.obsolete))).getLast? = some [true, true, true, false] := by decide

end DI.C17

/-
  Proofs/TieC01b.lean — code theorems over the part of `Generated/CodeC01.lean` that `Proofs/TieC01.lean` does not cover:
  the constructor `DataFrame.__init__` (dict construction, broadcast of every value to the common row count, placeholder
  attributes, `_check_dimensions`, `_group_colnames`), `DataFrameColumn.__init__` / `.nrow`, the attribute plumbing
  (`__setattr__`, `__hasattr`, `__is_builtin_attr`, `__list_builtin_attrs`), `clear`, `colnames` (getter and the
  positional-renaming setter), `columns`, `ncol`, `_new`, `popitem`, `__copy__` / `__deepcopy__` / `copy` / `deepcopy`,
  `__eq__`, and the helpers `util.is_scalar`, `util.sequencify`, `util.generate_colnames`, `util.yield_colnames`.

  Besides the normal forms (what the function IS: which tests decide, what is returned / raised, in which order the
  effects happen) there are refinements against the state-machine model `Model/FrameState.lean`:

  * `init_item_refines`: one round of the broadcast loop of `__init__`, run on a value described by kind and length,
    stores what the model's `FS.column v (some nrow)` stores; `init_refines`: the WHOLE translated constructor, run on
    the dict `dict.__init__` left, is the model's constructor `FS.new` (so `C01.constructor_wellformed` is about the code);
  * `sequencify_refines`: `util.sequencify` returns a sequence of the model's `Shape.length`;
  * `setattr_refines`: `data.name = value` for a column name is the model's `.setattr` step;
  * `hasattr_refines`: `__hasattr` denotes the model's `FS.hasNonColumnAttr` when attribute lookup is the model's
    `FS.lookupAttr`;
  * `colnames_set_refines`: the setter, run with the EVALUATED `pop` / `__setitem__` of `Model/PyEvalStore.lean`, is the
    model's `FS.step … (.colnames ns)`;
  * `popitem_refines`: `popitem`, run on a state with unique names, is the model's `FS.step … .popitem`.
-/
import Generated.CodeC01
import Model.FrameState
import Model.PyEvalStore
import Lemmas.PyEvalStore
import Lemmas.PyCore
import Proofs.TieC01

namespace DI.Tie.C01

open DI DI.Py DI.Gen DI.FS DI.PyEvalStore

/-! ### `DataFrameColumn.__init__`, `DataFrameColumn.nrow` -/

/-- `DataFrameColumn.__init__` as written hands `object` and `dtype` on to `Vector.__init__` and NOT `nrow`: the broadcast
    to `nrow` elements has already happened in `__new__` (`column_new_refines`), the initialiser must not see it. -/
theorem column_init_code (truth : Term → Bool) :
    DataFrameColumn_init truth = Out.fall [Term.app "super().__init__" [Term.sym "object", Term.sym "dtype"]] := rfl

/-- Python calls `__new__` and `__init__` with the same arguments, so the two signatures must agree parameter by parameter
    (names, order, defaults) after the receiver: `DataFrameColumn(value, nrow=n)` — the call `_reconcile_column` and
    `__init__` make — binds `nrow` by keyword in both. -/
theorem column_init_signature_is_new_signature :
    DataFrameColumn_init_signature.tail = DataFrameColumn_new_signature.tail ∧
    DataFrameColumn_new_signature = ["cls", "object", "dtype=None", "nrow=None"] := ⟨rfl, rfl⟩

/-- `column.nrow` is a property that reads `self.length` — `Vector.length`, which re-checks the dimension on every use
    (`vector_length_checks_dimensions`): the fast path "already a column with `nrow` elements" of `__init__` and
    `_reconcile_column` raises for a two-dimensional view of a column instead of letting it in. -/
theorem column_nrow_is_checked_length (truth : Term → Bool) :
    DataFrameColumn_nrow truth = Out.ret [] (Term.app ".length" [Term.sym "self"]) ∧
    DataFrameColumn_nrow_decorators = ["property"] ∧
    Vector_length_decorators = ["property"] ∧
    Vector_length truth = Out.ret [Term.app "._check_dimensions" [Term.sym "self"]] (Term.app ".size" [Term.sym "self"]) :=
  ⟨rfl, rfl, rfl, rfl⟩

/-! ### the constructor `DataFrame.__init__` -/

/-- `dict.__init__(self, *args, **kwargs)`: the frame takes exactly what `dict` takes (the model's `FS.dictOf`). -/
def initDict : Term := Term.app "super().__init__" [Term.app "*" [Term.sym "args"], Term.app "=**" [Term.sym "kwargs"]]

/-- `nrow = max(map(util.length, self.values()), default=0)`: the longest value (a scalar counts 1), 0 without values. -/
def initNrow : Term :=
  Term.app "max" [Term.app "map" [Term.sym "util.length", Term.app ".values" [Term.sym "self"]], Term.app "=default" [Term.int 0]]

/-- one round of the broadcast loop: a `DataFrameColumn` that already has `nrow` elements is left as it is (the SAME
    object: what makes `__copy__` shallow); every other value is replaced by `DataFrameColumn(value, nrow=nrow)`, stored
    with `dict.__setitem__` (the key exists, so its position is kept). -/
def broadcastBody : Term :=
  Term.app "block"
    [Term.app "if" [Term.app "And" [Term.app "isinstance" [Term.sym "value", Term.sym "DataFrameColumn"],
                                    Term.app "Eq" [Term.app ".nrow" [Term.sym "value"], initNrow]],
       Term.app "block" [Term.sym "continue"], Term.app "block" []],
     Term.app "assign" [Term.sym "column", Term.app "DataFrameColumn" [Term.sym "value", Term.app "=nrow" [initNrow]]],
     Term.app "super().__setitem__" [Term.sym "key", Term.sym "column"]]

def broadcastLoop : Term :=
  Term.app "for" [Term.app "tuple" [Term.sym "key", Term.sym "value"], Term.app ".items" [Term.sym "self"], broadcastBody]

/-- "the name `k` is an identifier and not otherwise an attribute": the test under which a key gets its placeholder. -/
def wantsPlaceholder (k : Term) : Term :=
  Term.app "And" [Term.app "not" [Term.app ".__hasattr" [Term.sym "self", k]], Term.app ".isidentifier" [k]]

/-- `object.__setattr__(self, k, self.COLUMN_PLACEHOLDER)`. -/
def storePlaceholder (k : Term) : Term :=
  Term.app "super().__setattr__" [k, Term.app ".COLUMN_PLACEHOLDER" [Term.sym "self"]]

def placeholderLoop : Term :=
  Term.app "for" [Term.sym "key", Term.sym "self",
    Term.app "block" [Term.app "if" [wantsPlaceholder (Term.sym "key"), Term.app "block" [storePlaceholder (Term.sym "key")],
      Term.app "block" []]]]

/-- **the constructor as written**, five steps in this order: (1) the dict is filled as `dict` fills it; (2) every value
    is broadcast to the common row count `nrow` (or the call raises, `init_item_refines`); (3) every key that is an
    identifier and not otherwise an attribute gets the placeholder attribute; (4) the dimensions are checked; (5) the
    frame starts UNGROUPED (`_group_colnames = ()`) — every method that rebuilds through the constructor (`_new`, `copy`,
    `deepcopy`, every `new_from_generator` method) therefore returns an ungrouped frame.  Nothing is returned. -/
theorem init_code (truth : Term → Bool) :
    DataFrame_init truth = Out.fall
      [initDict, broadcastLoop, placeholderLoop, Term.app "._check_dimensions" [Term.sym "self"],
       Term.app "setattr" [Term.sym "self", Term.sym "_group_colnames", Term.app "tuple" []]] := rfl

/-- what one round of the broadcast loop stores for a value `v` (kind and length) when the common row count is `nrow`:
    `value.nrow` is read for a `DataFrameColumn` only (`and` short-circuits) and raises for a two-dimensional view;
    `DataFrameColumn(value, nrow=nrow)` runs the translated `DataFrameColumn.__new__` (`PyEvalStore.columnNew`). -/
def evalInitItem (truth : Term → Bool) (v : Value) (nrow : Nat) : Term → Option Nat
  | .app "block"
      [.app "if" [.app "And" [.app "isinstance" [.sym "value", .sym "DataFrameColumn"],
                              .app "Eq" [.app ".nrow" [.sym "value"],
                                .app "max" [.app "map" [.sym "util.length", .app ".values" [.sym "self"]], .app "=default" [.int 0]]]],
         .app "block" [.sym "continue"], .app "block" []],
       .app "assign" [.sym "column", .app "DataFrameColumn" [.sym "value", .app "=nrow"
         [.app "max" [.app "map" [.sym "util.length", .app ".values" [.sym "self"]], .app "=default" [.int 0]]]]],
       .app "super().__setitem__" [.sym "key", .sym "column"]] =>
    if v.isColumn then v.vectorLen.bind fun len => if len = nrow then some len else columnNew truth v (some (nrow : Int))
    else columnNew truth v (some (nrow : Int))
  | _ => none

/-- **the broadcast loop refines the model**: for every value and every row count, one round stores what the model's
    `FS.column v (some nrow)` stores (`FS.new`: the constructor accepts the pairs iff `FS.column` accepts every value). -/
theorem init_item_refines (truth : Term → Bool) (v : Value) (nrow : Nat) :
    evalInitItem truth v nrow broadcastBody = FS.column v.shape (some nrow) := by
  have hc : columnNew truth v (some (nrow : Int)) = FS.column v.shape (some nrow) := columnNew_eq truth v (some nrow)
  show (if v.isColumn then v.vectorLen.bind fun len => if len = nrow then some len else columnNew truth v (some (nrow : Int))
    else columnNew truth v (some (nrow : Int))) = _
  rw [hc]
  cases v with
  | column n =>
    by_cases h : n = nrow
    · subst h; simp [Value.isColumn, Value.vectorLen, Value.shape, FS.column, FS.Shape.length]
    · simp [Value.isColumn, Value.vectorLen, h]
  | vector n => simp [Value.isColumn]
  | scalar => simp [Value.isColumn]
  | nd b => cases b <;> simp [Value.isColumn, Value.vectorLen, Value.shape, FS.column]

/-- every column the loop stores has exactly `nrow` elements — so the `_check_dimensions()` that follows the loops cannot
    raise for a frame built by the constructor: it is a safety net, not a decision. -/
theorem init_item_has_nrow (truth : Term → Bool) (v : Value) (nrow m : Nat)
    (h : evalInitItem truth v nrow broadcastBody = some m) :
    m = nrow ∧ v.shape ≠ .nd ∧ (v.shape.length = nrow ∨ (v.shape.length = 1 ∧ 1 ≤ nrow)) := by
  rw [init_item_refines] at h
  exact column_some v.shape nrow m h

/-! #### the whole constructor, run on the dict `super().__init__` built -/

def allSome {α : Type} : List (Option α) → Option (List α)
  | [] => some []
  | none :: _ => none
  | some a :: r => (allSome r).map (a :: ·)

/-- one round of the placeholder loop for the key `k`: `self.__hasattr(key)` is the model's `FS.hasNonColumnAttr`
    (`hasattr_refines`), `key.isidentifier()` the static `Names.ident`; `object.__setattr__` adds the instance attribute. -/
def placeholderRound (nm : Names) (s : State) (k : String) : Term → Option State
  | .app "block" [.app "if" [.app "And" [.app "not" [.app ".__hasattr" [.sym "self", .sym "key"]], .app ".isidentifier" [.sym "key"]],
      .app "block" [.app "super().__setattr__" [.sym "key", .app ".COLUMN_PLACEHOLDER" [.sym "self"]]], .app "block" []]] =>
    some (if !hasNonColumnAttr nm s k && nm.ident k then
            (if s.attrs.contains k then s else { s with attrs := s.attrs ++ [k] }) else s)
  | _ => none

def placeholderRounds (nm : Names) (body : Term) : List String → State → Option State
  | [], s => some s
  | k :: ks, s => (placeholderRound nm s k body).bind (placeholderRounds nm body ks)

/-- **the constructor run on a dict** `d` (distinct keys in dict order, every value described by kind and length — what
    `dict.__init__(*args, **kwargs)` left): the shape of the translated body is checked step by step; `nrow` is the longest
    `util.length`; the broadcast loop stores `evalInitItem` for every item or raises; the placeholder loop runs over the
    keys in order; `_check_dimensions()` passes iff all columns have the row count of the first; the frame is ungrouped. -/
def evalInit (truth : Term → Bool) (nm : Names) (d : List (String × Value)) : Out → Option State
  | .fall [.app "super().__init__" [.app "*" [.sym "args"], .app "=**" [.sym "kwargs"]],
           .app "for" [.app "tuple" [.sym "key", .sym "value"], .app ".items" [.sym "self"], body],
           .app "for" [.sym "key", .sym "self", pbody],
           .app "._check_dimensions" [.sym "self"],
           .app "setattr" [.sym "self", .sym "_group_colnames", .app "tuple" []]] =>
    let nrow := (d.map (fun p => p.2.shape.length)).foldl max 0
    (allSome (d.map fun p => (evalInitItem truth p.2 nrow body).map fun n => (p.1, n))).bind fun cols =>
      (placeholderRounds nm pbody (d.map (·.1)) ⟨cols, []⟩).bind fun s =>
        if s.cols.all (fun c => c.2 == s.nrow) then some s else none
  | _ => none

theorem allSome_columns (d : List (String × Value)) (nrow : Nat) :
    allSome (d.map fun p => (FS.column p.2.shape (some nrow)).map fun n => (p.1, n)) =
      if d.all (fun p => (FS.column p.2.shape (some nrow)).isSome) then some (d.map fun p => (p.1, nrow)) else none := by
  induction d with
  | nil => rfl
  | cons p d ih =>
    simp only [List.map_cons, List.all_cons]
    cases h : FS.column p.2.shape (some nrow) with
    | none => simp [allSome]
    | some m =>
      have hm : m = nrow := (column_some p.2.shape nrow m h).1
      subst hm
      simp only [Option.map_some, allSome, ih, Option.isSome_some, Bool.true_and]
      split <;> rfl

theorem placeholderRounds_eq (nm : Names) (cols : List (String × Nat)) (rest : List String) :
    ∀ done : List String, (done ++ rest).Nodup →
      placeholderRounds nm (Term.app "block" [Term.app "if" [wantsPlaceholder (Term.sym "key"),
          Term.app "block" [storePlaceholder (Term.sym "key")], Term.app "block" []]]) rest
        ⟨cols, done.filter (fun k => nm.ident k && !nm.classAttr k)⟩ =
      some ⟨cols, (done ++ rest).filter (fun k => nm.ident k && !nm.classAttr k)⟩ := by
  induction rest with
  | nil => intro done _; simp [placeholderRounds]
  | cons k rest ih =>
    intro done hnd
    have hk : k ∉ done := by
      intro hm
      rw [List.nodup_append] at hnd
      exact hnd.2.2 k hm k (by simp) rfl
    have hc : (done.filter (fun k => nm.ident k && !nm.classAttr k)).contains k = false := by
      simp only [List.contains_eq_mem, decide_eq_false_iff_not, List.mem_filter, not_and]
      intro hm; exact absurd hm hk
    have hround : placeholderRound nm ⟨cols, done.filter (fun k => nm.ident k && !nm.classAttr k)⟩ k
        (Term.app "block" [Term.app "if" [wantsPlaceholder (Term.sym "key"),
          Term.app "block" [storePlaceholder (Term.sym "key")], Term.app "block" []]]) =
        some ⟨cols, (done ++ [k]).filter (fun k => nm.ident k && !nm.classAttr k)⟩ := by
      show some (if !hasNonColumnAttr nm ⟨cols, done.filter (fun k => nm.ident k && !nm.classAttr k)⟩ k && nm.ident k then
            (if (done.filter (fun k => nm.ident k && !nm.classAttr k)).contains k then _ else _) else _) = _
      unfold hasNonColumnAttr
      simp only [hc, Bool.false_eq_true, if_false, List.filter_append]
      cases hcl : nm.classAttr k <;> cases hid : nm.ident k <;> simp [hcl, hid]
    unfold placeholderRounds
    rw [hround]
    have := ih (done ++ [k]) (by simpa [List.append_assoc] using hnd)
    simpa [List.append_assoc] using this

theorem dictOf_foldl_fresh (l : List (String × Shape)) : ∀ acc : List (String × Shape), ((acc ++ l).map (·.1)).Nodup →
    l.foldl (fun d p => if d.any (fun q => q.1 == p.1) then d.map (fun q => if q.1 == p.1 then p else q) else d ++ [p]) acc =
      acc ++ l := by
  induction l with
  | nil => intro acc _; simp
  | cons p l ih =>
    intro acc hnd
    have hfresh : acc.any (fun q => q.1 == p.1) = false := by
      rw [List.any_eq_false]
      intro q hq
      simp only [beq_iff_eq]
      intro e
      rw [List.map_append, List.nodup_append] at hnd
      exact hnd.2.2 q.1 (List.mem_map.mpr ⟨q, hq, rfl⟩) p.1 (by simp) e
    simp only [List.foldl_cons, hfresh, Bool.false_eq_true, if_false]
    rw [ih (acc ++ [p]) (by simpa [List.append_assoc] using hnd)]
    simp [List.append_assoc]

theorem dictOf_of_nodup (l : List (String × Shape)) (h : (l.map (·.1)).Nodup) : dictOf l = l := by
  unfold dictOf
  simpa using dictOf_foldl_fresh l [] (by simpa using h)

/-- **the constructor refines `FS.new`**: for every dict with distinct keys, running the translated `__init__` gives the
    model's constructor on the shapes of the values — the same acceptance (every value one-dimensional and of the common
    length, or of length one with a common length ≥ 1), the same columns (all of the common length, dict order kept), the
    same placeholder attributes (the identifier keys that are not class attributes).  With `C01.constructor_wellformed`:
    every frame the code constructs is well-formed. -/
theorem init_refines (truth : Term → Bool) (nm : Names) (d : List (String × Value)) (hnd : (d.map (·.1)).Nodup) :
    evalInit truth nm d (DataFrame_init truth) = FS.new nm (d.map fun p => (p.1, p.2.shape)) := by
  show (allSome (d.map fun p => (evalInitItem truth p.2 ((d.map (fun p => p.2.shape.length)).foldl max 0) broadcastBody).map
        fun n => (p.1, n))).bind (fun cols =>
      (placeholderRounds nm (Term.app "block" [Term.app "if" [wantsPlaceholder (Term.sym "key"),
          Term.app "block" [storePlaceholder (Term.sym "key")], Term.app "block" []]]) (d.map (·.1)) ⟨cols, []⟩).bind fun s =>
        if s.cols.all (fun c => c.2 == s.nrow) then some s else none) = _
  simp only [init_item_refines, allSome_columns]
  have hd : dictOf (d.map fun p => (p.1, p.2.shape)) = d.map fun p => (p.1, p.2.shape) := by
    apply dictOf_of_nodup
    simpa [List.map_map, Function.comp_def] using hnd
  unfold FS.new
  simp only [hd, List.map_map, List.all_map, Function.comp_def]
  generalize (d.map (fun p => p.2.shape.length)).foldl max 0 = nrow
  cases hall : d.all (fun p => (FS.column p.2.shape (some nrow)).isSome) with
  | false => simp
  | true =>
    simp only [if_true, Option.bind_some]
    have hr := placeholderRounds_eq nm (d.map fun p => (p.1, nrow)) (d.map (·.1)) [] (by simpa using hnd)
    simp only [List.filter_nil, List.nil_append] at hr
    rw [hr]
    simp only [Option.bind_some]
    have hdim : (d.map fun p => (p.1, nrow)).all (fun c => c.2 == State.nrow ⟨d.map fun p => (p.1, nrow),
        (d.map (·.1)).filter (fun k => nm.ident k && !nm.classAttr k)⟩) = true := by
      cases d with
      | nil => rfl
      | cons p d => simp [State.nrow]
    simp only [hdim, if_true]

/-- non-vacuity: a vector defines the row count, a scalar and a length-one column are repeated, a ready column of the row
    count passes as it is; a second length is rejected; the empty dict gives the empty frame. -/
example :
    let nm : Names := ⟨fun k => k != "a b", fun k => k == "sort"⟩
    let run := fun d => evalInit (fun _ => false) nm d (DataFrame_init (fun _ => false))
    run [("a", .vector 3), ("b", .scalar), ("a b", .column 1), ("sort", .column 3)] =
      some ⟨[("a", 3), ("b", 3), ("a b", 3), ("sort", 3)], ["a", "b"]⟩ ∧
    run [("a", .vector 3), ("b", .vector 2)] = none ∧ run [("a", .vector 0), ("b", .scalar)] = none ∧
    run [("a", .nd false)] = none ∧ run [] = some ⟨[], []⟩ := by decide

/-- the placeholder rule of the constructor is the placeholder rule of `__setitem__` (`setitem_normal_form`): the same
    test, the same store — a key gets the attribute in the same cases whichever way the column came in (the model's
    `FS.new` / `FS.addPlaceholder` give `attrs` = the identifier names that are not class attributes, both ways). -/
theorem setitem_placeholder_is_init_placeholder (truth : Term → Bool) :
    DataFrame_setitem truth =
      Out.ret (if !truth (Term.app ".__hasattr" [Term.sym "self", Term.sym "key"]) && truth (Term.app ".isidentifier" [Term.sym "key"])
               then [storePlaceholder (Term.sym "key")] else [])
        (Term.app "super().__setitem__" [Term.sym "key", Term.app "._reconcile_column" [Term.sym "self", Term.sym "value"]]) ∧
    wantsPlaceholder (Term.sym "key") =
      Term.app "And" [Term.app "not" [Term.app ".__hasattr" [Term.sym "self", Term.sym "key"]], Term.app ".isidentifier" [Term.sym "key"]] := by
  refine ⟨?_, rfl⟩
  unfold DataFrame_setitem storePlaceholder
  cases truth (Term.app ".__hasattr" [Term.sym "self", Term.sym "key"]) <;>
    cases truth (Term.app ".isidentifier" [Term.sym "key"]) <;> rfl

/-- the constructor takes what `dict` takes; the order of its steps along the source: dict first, the checks last. -/
theorem init_signature_and_order :
    DataFrame_init_signature = ["self", "*args", "**kwargs"] ∧ DataFrame_init_decorators = [] ∧
    DataFrame_init_call_order = ["super", "super().__init__", "self.values", "map", "max", "self.items", "isinstance",
      "DataFrameColumn", "super", "super().__setitem__", "self.__hasattr", "key.isidentifier", "super", "super().__setattr__",
      "self._check_dimensions"] := ⟨rfl, rfl, rfl⟩

/-! ### attribute plumbing -/

/-- `data.name = value` as written: one of the two REAL attributes (`colnames`, `_group_colnames`: `ATTRIBUTES`) is set as
    an attribute (for `colnames`: through the property setter); every other name is a COLUMN assignment and takes the
    `__setitem__` path — reconciled to the row count or rejected (the model's `.setattr k v => setitem nm s k v`). -/
theorem setattr_dispatch (truth : Term → Bool) :
    DataFrame_setattr truth =
      if truth (Term.app "In" [Term.sym "name", Term.app ".ATTRIBUTES" [Term.sym "self"]])
      then Out.ret [] (Term.app "super().__setattr__" [Term.sym "name", Term.sym "value"])
      else Out.ret [] (Term.app ".__setitem__" [Term.sym "self", Term.sym "name", Term.sym "value"]) := by
  unfold DataFrame_setattr; rfl

/-- `data.name = value` on a state, for a name that is not one of `ATTRIBUTES`: the call `self.__setitem__(name, value)`
    is the evaluated `__setitem__` of `Model/PyEvalStore.lean`. -/
def evalSetattr (nm : Names) (s : State) (k : String) (v : Value) : Out → Option State
  | .ret [] (.app ".__setitem__" [.sym "self", .sym "name", .sym "value"]) => evalSetitem nm s k v
  | _ => none

/-- **attribute assignment of a column refines the model's `.setattr` step** (= the `.setitem` step): same reconciliation
    to the row count, same rejection, same position, same placeholder. -/
theorem setattr_refines (truth : Term → Bool) (nm : Names) (s : State) (k : String) (v : Value)
    (h : truth (Term.app "In" [Term.sym "name", Term.app ".ATTRIBUTES" [Term.sym "self"]]) = false) :
    evalSetattr nm s k v (DataFrame_setattr truth) = step nm s (.setattr k v.shape) := by
  rw [setattr_dispatch, h]
  exact evalSetitem_eq nm s k v

/-- the Boolean a returned `a and not b` denotes under an interpretation of its two leaves. -/
def andNotDenotes (truth : Term → Bool) : Out → Option Bool
  | .ret [] (.app "And" [a, .app "not" [b]]) => some (truth a && !truth b)
  | _ => none

/-- `__hasattr(name)` as written: "an attribute of that name exists and is not a column". -/
theorem hasattr_code (truth : Term → Bool) :
    DataFrame_hasattr truth = Out.ret [] (Term.app "And" [Term.app "hasattr" [Term.sym "self", Term.sym "name"],
      Term.app "not" [Term.app "isinstance" [Term.app "getattr" [Term.sym "self", Term.sym "name"], Term.sym "DataFrameColumn"]]]) := rfl

/-- attribute lookup as the model has it (`FS.lookupAttr`): `hasattr` fails only on AttributeError, `getattr` gives a
    `DataFrameColumn` exactly when the lookup resolves to the column. -/
def attrTruth (nm : Names) (s : State) (k : String) : Term → Bool
  | .app "hasattr" [.sym "self", .sym "name"] => lookupAttr nm s k != Attr.attributeError
  | .app "isinstance" [.app "getattr" [.sym "self", .sym "name"], .sym "DataFrameColumn"] => lookupAttr nm s k == Attr.column
  | _ => false

/-- **`__hasattr` refines `FS.hasNonColumnAttr`** (the test that decides who gets a placeholder): with attribute lookup
    as in the model, and no placeholder on a class-attribute name (part of the invariant `FS.Inv`), the expression
    `__hasattr` returns denotes the model's function — true for a class attribute and for a placeholder whose column is
    gone, false for a column (reached through its placeholder or through `__getattr__`) and for an unknown name. -/
theorem hasattr_refines (nm : Names) (s : State) (k : String)
    (h : nm.classAttr k = true → s.attrs.contains k = false) :
    andNotDenotes (attrTruth nm s k) (DataFrame_hasattr (attrTruth nm s k)) = some (hasNonColumnAttr nm s k) := by
  show some ((lookupAttr nm s k != Attr.attributeError) && !(lookupAttr nm s k == Attr.column)) = _
  unfold lookupAttr hasNonColumnAttr
  cases hc : nm.classAttr k <;> cases ha : s.attrs.contains k <;> cases hh : s.has k <;> simp_all

/-- `__is_builtin_attr(name)` is membership in `set(dir(cls()))` — the attributes of a FRESH, EMPTY instance, so no column
    name is ever "builtin"; the set is computed once per class (`classmethod` outermost, then `functools.lru_cache(None)`:
    the cache key is the class). -/
theorem builtin_attrs_code (truth : Term → Bool) :
    DataFrame_is_builtin_attr truth =
      Out.ret [] (Term.app "In" [Term.sym "name", Term.app ".__list_builtin_attrs" [Term.sym "cls"]]) ∧
    DataFrame_list_builtin_attrs truth = Out.ret [] (Term.app "set()" [Term.app "dir" [Term.app "cls" []]]) ∧
    DataFrame_is_builtin_attr_decorators = ["classmethod"] ∧
    DataFrame_list_builtin_attrs_decorators = ["classmethod", "functools.lru_cache(None)"] ∧
    DataFrame_list_builtin_attrs_signature = ["cls"] := ⟨rfl, rfl, rfl, rfl, rfl⟩

/-! ### `clear`, `_new`, `colnames`, `columns`, `ncol` -/

/-- `clear()` as written RETURNS a new empty frame (`self._new()`) and has no effect on the receiver — unlike
    `dict.clear`, which empties in place and returns None. -/
theorem clear_returns_new_frame (truth : Term → Bool) :
    DataFrame_clear truth = Out.ret [] (Term.app "._new" [Term.sym "self"]) ∧ (DataFrame_clear truth).effs = [] ∧
    DataFrame_clear_signature = ["self"] := ⟨rfl, rfl, rfl⟩

/-- `_new` is the constructor of the receiver's class, arguments passed through unchanged (a classmethod: subclasses such
    as `GeoJSON` rebuild as themselves). -/
theorem new_is_constructor (truth : Term → Bool) :
    DataFrame_new truth = Out.ret [] (Term.app "cls" [Term.app "*" [Term.sym "args"], Term.app "=**" [Term.sym "kwargs"]]) ∧
    DataFrame_new_decorators = ["classmethod"] ∧ DataFrame_new_signature = ["cls", "*args", "**kwargs"] := ⟨rfl, rfl, rfl⟩

/-- `colnames` (getter): the keys in dict order, as a new list; `columns`: the values in dict order, as a new list;
    `ncol`: the dimensions are checked first, then the number of keys.  All three are properties. -/
theorem colnames_columns_ncol_code (truth : Term → Bool) :
    DataFrame_colnames_get truth = Out.ret [] (Term.app "list()" [Term.sym "self"]) ∧
    DataFrame_columns truth = Out.ret [] (Term.app "list()" [Term.app ".values" [Term.sym "self"]]) ∧
    DataFrame_ncol truth = Out.ret [Term.app "._check_dimensions" [Term.sym "self"]] (Term.app "len" [Term.sym "self"]) ∧
    DataFrame_colnames_get_decorators = ["property"] ∧ DataFrame_columns_decorators = ["property"] ∧
    DataFrame_ncol_decorators = ["property"] := ⟨rfl, rfl, rfl, rfl, rfl, rfl⟩

/-- `pairs = list(zip(list(self.keys()), colnames))`: old name i with new name i — as many pairs as the SHORTER of the two
    lists has (no length check). -/
def renamePairs : Term :=
  Term.app "list()" [Term.app "zip" [Term.app "list()" [Term.app ".keys" [Term.sym "self"]], Term.sym "colnames"]]

/-- `columns = [self.pop(fm) for fm, to in pairs]`: every paired column is popped (with the placeholder clean-up of
    `pop_drops_placeholder`) BEFORE anything is assigned, so swapped names do not overwrite each other. -/
def poppedColumns : Term :=
  Term.app "ListComp" [Term.app ".pop" [Term.sym "self", Term.sym "fm"],
    Term.app "in" [Term.app "tuple" [Term.sym "fm", Term.sym "to"], renamePairs, Term.app "if" []]]

/-- **the `colnames` setter as written** (the model's `.colnames ns` step: `FS.popAll`, then `FS.assignAll`): all paired
    columns are popped first; then, pair by pair in the original order, `self[to] = column` — an item assignment, so the
    column is appended under its new name and gets its placeholder through `__setitem__`.  Nothing is returned. -/
theorem colnames_set_code (truth : Term → Bool) :
    DataFrame_colnames_set truth = Out.fall
      [Term.app "for" [Term.app "tuple" [Term.app "tuple" [Term.sym "fm", Term.sym "to"], Term.sym "column"],
        Term.app "zip" [renamePairs, poppedColumns],
        Term.app "block" [Term.app "store" [Term.app "getitem" [Term.sym "self", Term.sym "to"], Term.sym "column"]]]] ∧
    DataFrame_colnames_set_decorators = ["colnames.setter"] ∧
    DataFrame_colnames_set_call_order = ["self.keys", "list", "zip", "list", "self.pop", "zip"] := ⟨rfl, rfl, rfl⟩

/-- `[self.pop(fm) for fm, to in pairs]` with the evaluated `pop` of `Model/PyEvalStore.lean` (which runs the translated
    `DataFrame.pop`): the state after all pops and the lengths of the popped columns; `none` = KeyError. -/
def popAllCode (nm : Names) : State → List String → Option (State × List Nat)
  | s, [] => some (s, [])
  | s, k :: ks =>
    match s.cols.find? (fun c => c.1 == k) with
    | none => none
    | some c =>
      match evalPop nm s k with
      | none => none
      | some s' => (popAllCode nm s' ks).map (fun r => (r.1, c.2 :: r.2))

/-- `for (fm, to), column in …: self[to] = column` with the evaluated `__setitem__` (which runs the translated
    `DataFrame.__setitem__`, `_reconcile_column` and `DataFrameColumn.__new__`); a popped column is a `DataFrameColumn`. -/
def assignAllCode (nm : Names) : State → List (String × Nat) → Option State
  | s, [] => some s
  | s, (k, n) :: rest =>
    match evalSetitem nm s k (.column n) with
    | none => none
    | some s' => assignAllCode nm s' rest

/-- the setter run on a state: the shape of the translated body is checked, its two calls are the evaluated ones. -/
def evalColnamesSet (nm : Names) (s : State) (ns : List String) : Out → Option State
  | .fall [.app "for" [.app "tuple" [.app "tuple" [.sym "fm", .sym "to"], .sym "column"],
      .app "zip" [.app "list()" [.app "zip" [.app "list()" [.app ".keys" [.sym "self"]], .sym "colnames"]],
        .app "ListComp" [.app ".pop" [.sym "self", .sym "fm"],
          .app "in" [.app "tuple" [.sym "fm", .sym "to"],
            .app "list()" [.app "zip" [.app "list()" [.app ".keys" [.sym "self"]], .sym "colnames"]], .app "if" []]]],
      .app "block" [.app "store" [.app "getitem" [.sym "self", .sym "to"], .sym "column"]]]] =>
    let pairs := s.names.zip ns
    match popAllCode nm s (pairs.map (·.1)) with
    | none => none
    | some (st, lens) => assignAllCode nm st ((pairs.map (·.2)).zip lens)
  | _ => none

theorem popAllCode_eq (nm : Names) (ks : List String) : ∀ s : State, popAllCode nm s ks = popAll nm s ks := by
  induction ks with
  | nil => intro s; rfl
  | cons k ks ih =>
    intro s
    unfold popAllCode popAll
    rw [evalPop_eq]
    cases s.cols.find? (fun c => c.1 == k) with
    | none => rfl
    | some c =>
      cases delitem nm s k with
      | none => rfl
      | some s' => simp only [ih]

theorem assignAllCode_eq (nm : Names) (ps : List (String × Nat)) : ∀ s : State, assignAllCode nm s ps = assignAll nm s ps := by
  induction ps with
  | nil => intro s; rfl
  | cons p ps ih =>
    intro s
    obtain ⟨k, n⟩ := p
    unfold assignAllCode assignAll
    rw [evalSetitem_eq]
    show (match setitem nm s k (.seq n) with | none => none | some s' => assignAllCode nm s' ps) = _
    cases setitem nm s k (.seq n) with
    | none => rfl
    | some s' => simp only [ih]

/-- **the `colnames` setter refines the model**: the translated setter, run with the evaluated `pop` and `__setitem__`, is
    the model's `.colnames ns` step — for every state and every list of new names (too short, too long, repeated: the
    theorems `C01.colnames_positional` / `colnames_general` say what that step does). -/
theorem colnames_set_refines (truth : Term → Bool) (nm : Names) (s : State) (ns : List String) :
    evalColnamesSet nm s ns (DataFrame_colnames_set truth) = step nm s (.colnames ns) := by
  show (match popAllCode nm s ((s.names.zip ns).map (fun p : String × String => p.1)) with
        | none => none
        | some (st, lens) => assignAllCode nm st (((s.names.zip ns).map (fun p : String × String => p.2)).zip lens)) = _
  rw [popAllCode_eq]
  show _ = (match popAll nm s ((s.names.zip ns).map (fun p : String × String => p.1)) with
        | none => none
        | some (st, lens) => assignAll nm st (((s.names.zip ns).map (fun p : String × String => p.2)).zip lens))
  cases popAll nm s ((s.names.zip ns).map (fun p : String × String => p.1)) with
  | none => rfl
  | some r => obtain ⟨st, lens⟩ := r; simp only [assignAllCode_eq]

/-- non-vacuity, and three things the setter does NOT guard against: with FEWER names than columns the renamed columns move
    behind the untouched ones (they are popped and re-appended); surplus names are ignored; a REPEATED new name silently
    drops a column (the second assignment overwrites the first).  Swapping works (pop all first). -/
example :
    let nm : Names := ⟨fun _ => true, fun _ => false⟩
    let run := fun (s : State) (ns : List String) => evalColnamesSet nm s ns (DataFrame_colnames_set (fun _ => false))
    run ⟨[("a", 3), ("b", 3), ("c", 3)], ["a", "b", "c"]⟩ ["x"] = some ⟨[("b", 3), ("c", 3), ("x", 3)], ["b", "c", "x"]⟩ ∧
    run ⟨[("a", 3), ("b", 3)], ["a", "b"]⟩ ["x", "y", "z"] = some ⟨[("x", 3), ("y", 3)], ["x", "y"]⟩ ∧
    run ⟨[("a", 3), ("b", 3)], ["a", "b"]⟩ ["q", "q"] = some ⟨[("q", 3)], ["q"]⟩ ∧
    run ⟨[("a", 3), ("b", 3)], ["a", "b"]⟩ ["b", "a"] = some ⟨[("b", 3), ("a", 3)], ["b", "a"]⟩ := by decide

/-! ### `popitem` -/

/-- the pair `dict.popitem()` returned: the LAST key and its column. -/
def poppedItem : Term := Term.app "super().popitem" []
def poppedKey : Term := Term.app "item0" [poppedItem]
def poppedValue : Term := Term.app "item1" [poppedItem]

/-- `popitem` as written: the last dict entry goes first; then the clean-up of `__delitem__` / `pop`
    (`delitem_drops_placeholder`) for the POPPED key — the instance attribute of that name is deleted exactly when one
    exists and it is not a class attribute; the pair is returned. -/
theorem popitem_drops_placeholder (truth : Term → Bool) :
    DataFrame_popitem truth =
      Out.ret (if truth (Term.app "hasattr" [Term.sym "self", poppedKey]) &&
                  !truth (Term.app ".__is_builtin_attr" [Term.sym "self", poppedKey])
               then [Term.app "super().__delattr__" [poppedKey]] else [])
        (Term.app "tuple" [poppedKey, poppedValue]) := by
  unfold DataFrame_popitem poppedKey poppedValue poppedItem
  dsimp only
  cases truth (Term.app "hasattr" [Term.sym "self", Term.app "item0" [Term.app "super().popitem" []]]) <;>
    cases truth (Term.app ".__is_builtin_attr" [Term.sym "self", Term.app "item0" [Term.app "super().popitem" []]]) <;> rfl

/-- the dict entry is removed BEFORE `hasattr` is asked (so the name no longer resolves to the column). -/
theorem popitem_call_order :
    DataFrame_popitem_call_order = ["super", "super().popitem", "hasattr", "self.__is_builtin_attr", "super", "super().__delattr__"] := rfl

/-- the tests of `popitem` answered in the state AFTER the dict entry is gone, for the popped key `k` (as
    `PyEvalStore.truthOf` answers them for `__delitem__` / `pop`). -/
def popitemTruth (nm : Names) (s1 : State) (k : String) : Term → Bool
  | .app "hasattr" [.sym "self", .app "item0" [.app "super().popitem" []]] => nm.classAttr k || s1.attrs.contains k || s1.has k
  | .app ".__is_builtin_attr" [.sym "self", .app "item0" [.app "super().popitem" []]] => nm.classAttr k
  | _ => false

def evalPopitemEffs (k : String) : List Term → State → Option State
  | [], s => some s
  | .app "super().__delattr__" [.app "item0" [.app "super().popitem" []]] :: ts, s =>
    if s.attrs.contains k then evalPopitemEffs k ts { s with attrs := s.attrs.filter (· != k) } else none
  | _ :: _, _ => none

/-- `data.popitem()` on a state: KeyError (`none`) on a frame without columns; otherwise `dict.popitem` drops the LAST
    entry and the translated body runs in the state after it. -/
def evalPopitem (nm : Names) (s : State) : Option State :=
  match s.cols.getLast? with
  | none => none
  | some c =>
    let s1 : State := { s with cols := s.cols.dropLast }
    match DataFrame_popitem (popitemTruth nm s1 c.1) with
    | .ret effs (.app "tuple" [.app "item0" [.app "super().popitem" []], .app "item1" [.app "super().popitem" []]]) =>
      evalPopitemEffs c.1 effs s1
    | _ => none

theorem filter_ne_last (l : List (String × Nat)) (c : String × Nat) (hl : l.getLast? = some c)
    (hnd : (l.map (·.1)).Nodup) : l.filter (fun x => x.1 != c.1) = l.dropLast := by
  obtain ⟨d, rfl⟩ := List.getLast?_eq_some_iff.mp hl
  rw [List.map_append, List.nodup_append] at hnd
  obtain ⟨_, _, hdis⟩ := hnd
  rw [List.filter_append, List.dropLast_concat]
  have h1 : d.filter (fun x => x.1 != c.1) = d := by
    rw [List.filter_eq_self]
    intro x hx
    have := hdis x.1 (List.mem_map.mpr ⟨x, hx, rfl⟩) c.1 (by simp)
    simpa [bne_iff_ne] using this
  simp [h1]

/-- **`popitem` refines the model** on every state with unique names (a dict): the translated `popitem`, run on the
    state, is the model's `.popitem` step — the last column and, unless the name is a class attribute, its placeholder
    are removed; KeyError on an empty frame. -/
theorem popitem_refines (nm : Names) (s : State) (hnd : s.names.Nodup) :
    evalPopitem nm s = step nm s .popitem := by
  unfold evalPopitem step
  cases hl : s.cols.getLast? with
  | none => rfl
  | some c =>
    have hfil := filter_ne_last s.cols c hl hnd
    have hmem : c ∈ s.cols := List.mem_of_getLast? hl
    have hhas : s.has c.1 = true := by
      simp only [State.has, List.any_eq_true]; exact ⟨c, hmem, by simp⟩
    have hhas1 : State.has { s with cols := s.cols.dropLast } c.1 = false := by
      rw [← hfil]; exact has_filter_ne s c.1
    simp only [popitem_drops_placeholder]
    show evalPopitemEffs c.1 (if ((nm.classAttr c.1 || s.attrs.contains c.1 ||
        State.has { s with cols := s.cols.dropLast } c.1) && !nm.classAttr c.1) = true
      then [Term.app "super().__delattr__" [poppedKey]] else []) { s with cols := s.cols.dropLast } = delitem nm s c.1
    unfold delitem dropAttr
    rw [hhas1, hhas, hfil]
    by_cases hm : c.1 ∈ s.attrs <;> cases h1 : nm.classAttr c.1 <;>
      simp [evalPopitemEffs, poppedKey, poppedItem, hm]
    rw [filter_ne_of_not_mem c.1 s.attrs hm]

example :
    let nm : Names := ⟨fun k => k != "a b", fun k => k == "sort"⟩
    evalPopitem nm ⟨[("a", 3), ("b", 3)], ["a", "b"]⟩ = some ⟨[("a", 3)], ["a"]⟩ ∧
    evalPopitem nm ⟨[("a", 3), ("sort", 3)], ["a"]⟩ = some ⟨[("a", 3)], ["a"]⟩ ∧
    evalPopitem nm ⟨[], []⟩ = none := by decide

/-! ### copies and equality -/

/-- `__copy__` goes through the constructor with the receiver itself as the dict argument: a column that is a
    `DataFrameColumn` of the frame's row count takes the `continue` branch of the broadcast loop (`broadcastBody`) and is
    SHARED with the receiver; `copy()` is `__copy__()`. -/
theorem copy_is_shallow (truth : Term → Bool) :
    DataFrame_copy truth = Out.ret [] (Term.app ".__class__" [Term.sym "self", Term.sym "self"]) ∧
    DataFrame_copy2 truth = Out.ret [] (Term.app ".__copy__" [Term.sym "self"]) := ⟨rfl, rfl⟩

/-- `__deepcopy__` rebuilds from `{k: v.copy()}`: every column is copied, names and order kept; `memo` is optional (and
    unused), so `deepcopy()` can call `__deepcopy__()` without it. -/
theorem deepcopy_copies_every_column (truth : Term → Bool) :
    DataFrame_deepcopy truth = Out.ret [] (Term.app ".__class__" [Term.sym "self",
      Term.app "DictComp" [Term.app "pair" [Term.sym "k", Term.app ".copy" [Term.sym "v"]],
        Term.app "in" [Term.app "tuple" [Term.sym "k", Term.sym "v"], Term.app ".items" [Term.sym "self"], Term.app "if" []]]]) ∧
    DataFrame_deepcopy2 truth = Out.ret [] (Term.app ".__deepcopy__" [Term.sym "self"]) ∧
    DataFrame_deepcopy_signature = ["self", "memo=None"] := ⟨rfl, rfl, rfl⟩

/-- `a == b` as written, five conjuncts in this order (`and` short-circuits: the type test comes first, so `.nrow` of a
    non-frame is never read; the column comparison comes last, so `other[x]` is read only when the name sets agree): the
    other is a DataFrame, same row count, same column count, same SET of names (column ORDER is not compared), and every
    column `equal` (missing values equal each other, `equal_normal_form`). -/
theorem eq_code (truth : Term → Bool) :
    DataFrame_eq truth = Out.ret [] (Term.app "And"
      [Term.app "isinstance" [Term.sym "other", Term.sym "DataFrame"],
       Term.app "Eq" [Term.app ".nrow" [Term.sym "self"], Term.app ".nrow" [Term.sym "other"]],
       Term.app "Eq" [Term.app ".ncol" [Term.sym "self"], Term.app ".ncol" [Term.sym "other"]],
       Term.app "Eq" [Term.app "set()" [Term.app ".colnames" [Term.sym "self"]], Term.app "set()" [Term.app ".colnames" [Term.sym "other"]]],
       Term.app "all" [Term.app "GeneratorExp"
         [Term.app ".equal" [Term.app "getitem" [Term.sym "self", Term.sym "x"], Term.app "getitem" [Term.sym "other", Term.sym "x"]],
          Term.app "in" [Term.sym "x", Term.sym "self", Term.app "if" []]]]]) := rfl

/-! ### `util.is_scalar`, `util.sequencify`, `util.generate_colnames`, `util.yield_colnames` -/

/-- `is_scalar` as written: NumPy's scalars, None, and the eight Python types listed — `str` and `bytes` among them, so a
    string is ONE value, never a sequence of characters. -/
theorem is_scalar_code (truth : Term → Bool) :
    util_is_scalar truth = Out.ret [] (Term.app "Or"
      [Term.app "np.isscalar" [Term.sym "value"], Term.app "Is" [Term.sym "value", Term.sym "None"],
       Term.app "isinstance" [Term.sym "value", Term.app "tuple" [Term.sym "bytes", Term.sym "bool", Term.sym "float",
         Term.sym "int", Term.sym "str", Term.sym "datetime.date", Term.sym "datetime.datetime", Term.sym "datetime.timedelta"]]]) := rfl

def isSequenceT : Term := Term.app "isinstance" [Term.sym "value", Term.app "tuple" [Term.sym "np.ndarray", Term.sym "list", Term.sym "tuple"]]
def isScalarT : Term := Term.app "is_scalar" [Term.sym "value"]
def isIterableT : Term := Term.app "hasattr" [Term.sym "value", Term.sym "'__iter__'"]

/-- `sequencify` as written, the tests in THIS order: an array / list / tuple is returned as it is; a scalar is wrapped
    into a list of one; any other iterable is evaluated into a list; everything else is a ValueError. -/
theorem sequencify_code (truth : Term → Bool) :
    util_sequencify truth =
      if truth isSequenceT then Out.ret [] (Term.sym "value")
      else if truth isScalarT then Out.ret [] (Term.app "list" [Term.sym "value"])
      else if truth isIterableT then Out.ret [] (Term.app "list()" [Term.sym "value"])
      else Out.raise [] "ValueError" := by
  unfold util_sequencify isSequenceT isScalarT isIterableT; rfl

/-- the scalar test comes BEFORE the `__iter__` test: a string (scalar AND iterable) becomes `[value]` whatever the
    answer to `hasattr(value, "__iter__")` — it is never split into characters. -/
theorem sequencify_scalar_before_iterable (truth : Term → Bool) (h1 : truth isSequenceT = false) (h2 : truth isScalarT = true) :
    util_sequencify truth = Out.ret [] (Term.app "list" [Term.sym "value"]) := by
  rw [sequencify_code]; simp [h1, h2]

/-- what `sequencify` is given. -/
inductive Given where
  | sequence (len : Nat)          -- `np.ndarray`, `list`, `tuple`
  | scalar (iterable : Bool)      -- `util.is_scalar` (a `str` / `bytes` is iterable as well)
  | iterable (len : Nat)          -- a generator, `range`, `dict`, `set`, …: `len` items when iterated
  | other                         -- nothing of the above
  deriving Repr, DecidableEq

def givenTruth : Given → Term → Bool
  | g, .app "isinstance" [.sym "value", .app "tuple" [.sym "np.ndarray", .sym "list", .sym "tuple"]] =>
    (match g with | .sequence _ => true | _ => false)
  | g, .app "is_scalar" [.sym "value"] => (match g with | .scalar _ => true | _ => false)
  | g, .app "hasattr" [.sym "value", .sym "'__iter__'"] =>
    (match g with | .sequence _ => true | .scalar b => b | .iterable _ => true | .other => false)
  | _, _ => false

/-- the length of the sequence an outcome of `sequencify` returns (`none` = it raises). -/
def sequencifiedLen (g : Given) : Out → Option Nat
  | .ret [] (.sym "value") => (match g with | .sequence n => some n | .iterable n => some n | _ => none)
  | .ret [] (.app "list" [.sym "value"]) => some 1
  | .ret [] (.app "list()" [.sym "value"]) => (match g with | .sequence n => some n | .iterable n => some n | _ => none)
  | _ => none

/-- the model's shape of what was given (`FS.Shape`, one-dimensional case). -/
def Given.shape : Given → Option Shape
  | .sequence n => some (.seq n)
  | .scalar _ => some .scalar
  | .iterable n => some (.seq n)
  | .other => none

/-- **`sequencify` refines `FS.Shape.length`**: under the interpretation of its three tests by what was given, the
    sequence it returns has the model's length of that shape — 1 for a scalar (string or not), the own length for a
    sequence or an iterable — and it raises exactly for a value that is none of these. -/
theorem sequencify_refines (g : Given) :
    sequencifiedLen g (util_sequencify (givenTruth g)) = g.shape.map Shape.length := by
  cases g with
  | sequence n => rfl
  | scalar b => cases b <;> rfl
  | iterable n => rfl
  | other => rfl

/-- `generate_colnames(n)`: the first `n` names of `yield_colnames()`. -/
theorem generate_colnames_code (truth : Term → Bool) :
    util_generate_colnames truth =
      Out.ret [] (Term.app "list()" [Term.app "itertools.islice" [Term.app "yield_colnames" [], Term.sym "n"]]) := rfl

/-- `yield_colnames` as written: for `batch` = 1, 2, …, 999 and, inside, for every lowercase ASCII letter in alphabet
    order, the letter repeated `batch` times: a, b, …, z, aa, bb, …, zz, aaa, … — pairwise distinct names (distinct
    letter or distinct length).  The generator is FINITE (999 batches), so `generate_colnames(n)` silently returns fewer
    than `n` names for `n > 999 · 26`. -/
theorem yield_colnames_code (truth : Term → Bool) :
    util_yield_colnames truth = Out.fall
      [Term.app "for" [Term.sym "batch", Term.rows (arange 1 1000),
        Term.app "block" [Term.app "for" [Term.sym "letter", Term.sym "string.ascii_lowercase",
          Term.app "block" [Term.app "yield" [Term.app "Mult" [Term.sym "letter", Term.sym "batch"]]]]]]] ∧
    (arange 1 1000).length = 999 ∧ (arange 1 1000).head? = some 1 := by
  refine ⟨rfl, ?_, ?_⟩
  · rw [arange_length]; rfl
  · unfold arange
    have h : ((1000 : Int) - 1).toNat = 998 + 1 := by omega
    rw [h, List.range_succ_eq_map]
    rfl

end DI.Tie.C01

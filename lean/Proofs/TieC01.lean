/-
  Proofs/TieC01.lean — refinement obligations over `Generated/CodeC01.lean`, the translation of the
  *current* source of `DataFrameColumn.__new__` (the broadcast rule), `DataFrame._reconcile_column`,
  `DataFrame.__setitem__`, `DataFrame._check_dimensions`, `Vector._check_dimensions` and `util.length`:
  the decisions the code takes are the decisions of the state-machine model `Model/FrameState.lean`
  (`FS.column`, `FS.setitem`, `Shape.length`) that the C01 invariant theorems are proved about.
-/
import Generated.CodeC01
import Model.FrameState
import Lemmas.PyCore

namespace DI.Tie.C01

open DI DI.Py DI.Gen

/-- the length of the column an outcome of `DataFrameColumn.__new__` stores (`none` = rejected):
    `column[np.zeros(nrow, int)]` has `nrow` elements, the untouched vector has its own length. -/
def storedLen (len : Nat) : Out → Option Nat
  | .ret _ (.app ".view" [.app "getitem" [_, .app "np.zeros" [.int n, _]], _]) => some n.toNat
  | .ret _ (.app ".view" [.app "Vector" _, _]) => some len
  | _ => none

/-- **broadcast rule**: `DataFrameColumn(value, nrow=…)` as written accepts a one-dimensional value of
    length `len` exactly as the model's `FS.column` does — as is when `nrow` is None or equal, repeated
    `nrow` times iff `len = 1` and `nrow ≥ 1`, rejected otherwise — for every `len` and `nrow`. -/
theorem column_new_refines (truth : Term → Bool) (nrowNone : Bool) (nrow len : Nat) :
    storedLen len (DataFrameColumn_new truth nrowNone nrow len) =
      FS.column (.seq len) (if nrowNone then none else some nrow) := by
  unfold DataFrameColumn_new FS.column
  cases nrowNone
  · by_cases h1 : nrow = len
    · subst h1; simp [storedLen, FS.Shape.length]
    · have h1' : ((nrow : Int) ≠ (len : Int)) := by omega
      by_cases h2 : len = 1
      · subst h2
        have h1'' : ¬ ((nrow : Int) = 1) := by omega
        by_cases h3 : nrow < 1
        · have : ((nrow : Int) < 1) := by omega
          simp [storedLen, FS.Shape.length, h1, h1'', h3, this]
        · have : ¬ ((nrow : Int) < 1) := by omega
          simp [storedLen, FS.Shape.length, h1, h1'', h3, this]
      · have h2' : ((len : Int) ≠ 1) := by omega
        simp [storedLen, FS.Shape.length, h1, h1', h2, h2']
  · simp [storedLen, FS.Shape.length]

/-- normal form of `_reconcile_column` as written: a `DataFrameColumn` that already has the frame's row
    count is returned as is; anything else goes through `DataFrameColumn(column, nrow=…)` with
    `nrow = None` exactly when the frame has no columns (`not self`). -/
theorem reconcile_normal_form (truth : Term → Bool) (cn sn : Int) :
    DataFrame_reconcile_column truth cn sn =
      if truth (Term.app "isinstance" [Term.sym "column", Term.sym "DataFrameColumn"]) && decide (cn = sn)
      then Out.ret [] (Term.sym "column")
      else Out.ret [] (Term.app "DataFrameColumn" [Term.sym "column",
        Term.app "=nrow" [if truth (Term.sym "self") then Term.int sn else Term.sym "None"]]) := by
  unfold DataFrame_reconcile_column
  by_cases h1 : truth (Term.app "isinstance" [Term.sym "column", Term.sym "DataFrameColumn"]) = true
  · by_cases h2 : cn = sn <;> simp [h1, h2]
  · simp [h1]

/-- the length `data[key] = value` stores for a one-dimensional value of length `len`, composed from the
    two translated functions: the short cut of `_reconcile_column` (taken only by a column that already
    has `nrow` elements) and the broadcast rule. -/
def setitemLen (truth : Term → Bool) (isColumn : Bool) (len nrow : Nat) : Option Nat :=
  if isColumn && decide ((len : Int) = (nrow : Int)) then some len
  else storedLen len (DataFrameColumn_new truth (!truth (Term.sym "self")) nrow len)

/-- `__setitem__` stores what the model's `FS.setitem` stores: `FS.column v nrow?` with `nrow? = none` for
    a frame without columns.  (`truth (sym "self")` is the truthiness of the dict: non-empty.) -/
theorem setitem_len_refines (truth : Term → Bool) (isColumn : Bool) (len nrow : Nat) :
    setitemLen truth isColumn len nrow =
      FS.column (.seq len) (if truth (Term.sym "self") then some nrow else none) := by
  unfold setitemLen
  rw [column_new_refines]
  by_cases h : isColumn = true ∧ len = nrow
  · obtain ⟨h1, h2⟩ := h
    subst h2
    cases hs : truth (Term.sym "self") <;> simp [h1, FS.column, FS.Shape.length]
  · have : (isColumn && decide ((len : Int) = (nrow : Int))) = false := by
      cases isColumn
      · simp
      · have : len ≠ nrow := fun e => h ⟨rfl, e⟩
        have : ((len : Int) ≠ (nrow : Int)) := by omega
        simp [this]
    rw [this]
    cases hs : truth (Term.sym "self") <;> simp

/-- `__setitem__` as written: reconcile first (a rejected value raises before anything is stored), then
    the placeholder attribute exactly when the name is an identifier and not otherwise an attribute,
    then the dict assignment. -/
theorem setitem_normal_form (truth : Term → Bool) :
    DataFrame_setitem truth =
      let value := Term.app "._reconcile_column" [Term.sym "self", Term.sym "value"]
      if !truth (Term.app ".__hasattr" [Term.sym "self", Term.sym "key"]) &&
          truth (Term.app ".isidentifier" [Term.sym "key"])
      then Out.ret [Term.app "super().__setattr__" [Term.sym "key", Term.app ".COLUMN_PLACEHOLDER" [Term.sym "self"]]]
             (Term.app "super().__setitem__" [Term.sym "key", value])
      else Out.ret [] (Term.app "super().__setitem__" [Term.sym "key", value]) := by
  unfold DataFrame_setitem
  rfl

/-- `DataFrame._check_dimensions` raises exactly for a non-empty frame whose columns do not all have one
    and the same row count. -/
theorem frame_check_dimensions (truth : Term → Bool) (distinctLens : Nat) :
    (DataFrame_check_dimensions truth distinctLens = Out.raise [] "ValueError") ↔
      (truth (Term.sym "self") = true ∧ distinctLens ≠ 1) := by
  unfold DataFrame_check_dimensions
  cases hs : truth (Term.sym "self")
  · simp
  · by_cases h : distinctLens = 1
    · subst h; simp
    · have : ((distinctLens : Int) ≠ 1) := by omega
      simp [h, this]

/-- `Vector._check_dimensions` raises exactly when the array is not one-dimensional (`Shape.nd`). -/
theorem vector_check_dimensions (truth : Term → Bool) (ndim : Nat) :
    (Vector_check_dimensions truth ndim = Out.raise [] "ValueError") ↔ ndim ≠ 1 := by
  unfold Vector_check_dimensions
  by_cases h : ndim = 1
  · subst h; simp
  · have : ((ndim : Int) ≠ 1) := by omega
    simp [h, this]

/-- `util.length` is the model's `Shape.length`: 1 for a scalar, `len` otherwise. -/
theorem util_length_refines (truth : Term → Bool) (len : Nat) :
    util_length truth len = Out.ret [] (Term.int
      ((if truth (Term.app "is_scalar" [Term.sym "value"]) then FS.Shape.scalar else FS.Shape.seq len).length : Nat)) := by
  unfold util_length
  cases truth (Term.app "is_scalar" [Term.sym "value"]) <;> simp [FS.Shape.length]

/-- `Vector.length` as written re-checks the dimension on every use: the fast paths of `DataFrame.__init__`
    and `_reconcile_column` ("already a column with `nrow` elements") read `.nrow` = `.length`, so this
    check is what keeps a two-dimensional view of a column (`column[:, None]`, `reshape`) out of a frame. -/
theorem vector_length_checks_dimensions (truth : Term → Bool) :
    Vector_length truth =
      Out.ret [Term.app "._check_dimensions" [Term.sym "self"]] (Term.app ".size" [Term.sym "self"]) := rfl

/-- `DataFrame.nrow` as written: 0 for a frame without columns; otherwise the dimensions are checked
    first and the answer is the row count of the first column (all are equal, by the check). -/
theorem frame_nrow_normal_form (truth : Term → Bool) :
    DataFrame_nrow truth =
      if !truth (Term.sym "self") then Out.ret [] (Term.int 0)
      else Out.ret [Term.app "._check_dimensions" [Term.sym "self"]]
        (Term.app ".nrow" [Term.app "getitem" [Term.sym "self", Term.app "next" [Term.app "iter" [Term.sym "self"]]]]) := by
  unfold DataFrame_nrow
  cases truth (Term.sym "self") <;> rfl

/-! ### key / attribute coherence: `__delitem__`, `pop`, `__delattr__`, `__getattr__`, `__getattribute__` -/

def hasAttr : Term := Term.app "hasattr" [Term.sym "self", Term.sym "key"]
def builtinAttr : Term := Term.app ".__is_builtin_attr" [Term.sym "self", Term.sym "key"]
def dropPlaceholder : Term := Term.app "super().__delattr__" [Term.sym "key"]

/-- `del data[key]` as written: the dict entry goes first; then the instance attribute of that name is deleted
    exactly when one exists and it is not a class attribute — the model's `dropAttr` ("once removed it is
    reachable by neither", fixed a662945). -/
theorem delitem_drops_placeholder (truth : Term → Bool) :
    DataFrame_delitem truth =
      Out.ret (if truth hasAttr && !truth builtinAttr then [dropPlaceholder] else [])
        (Term.app "super().__delitem__" [Term.sym "key"]) := by
  unfold DataFrame_delitem hasAttr builtinAttr dropPlaceholder
  cases truth (Term.app "hasattr" [Term.sym "self", Term.sym "key"]) <;>
    cases truth (Term.app ".__is_builtin_attr" [Term.sym "self", Term.sym "key"]) <;> rfl

/-- `pop` does the same clean-up as `del`. -/
theorem pop_drops_placeholder (truth : Term → Bool) :
    DataFrame_pop truth =
      Out.ret (if truth hasAttr && !truth builtinAttr then [dropPlaceholder] else [])
        (Term.app "super().pop" [Term.sym "key", Term.app "*" [Term.sym "args"], Term.app "=**" [Term.sym "kwargs"]]) := by
  unfold DataFrame_pop hasAttr builtinAttr dropPlaceholder
  cases truth (Term.app "hasattr" [Term.sym "self", Term.sym "key"]) <;>
    cases truth (Term.app ".__is_builtin_attr" [Term.sym "self", Term.sym "key"]) <;> rfl

/-- `del data.name` deletes the column of that name when there is one (through `__delitem__`, hence with the
    clean-up above), and is ordinary attribute deletion otherwise. -/
theorem delattr_dispatch (truth : Term → Bool) :
    DataFrame_delattr truth =
      if truth (Term.app "In" [Term.sym "name", Term.sym "self"])
      then Out.ret [] (Term.app ".__delitem__" [Term.sym "self", Term.sym "name"])
      else Out.ret [] (Term.app "super().__delattr__" [Term.sym "name"]) := by
  unfold DataFrame_delattr; rfl

/-- attribute lookup that found nothing: the column of that name, or AttributeError — never a default. -/
theorem getattr_column_or_error (truth : Term → Bool) :
    DataFrame_getattr truth =
      if truth (Term.app "In" [Term.sym "name", Term.sym "self"])
      then Out.ret [] (Term.app ".__getitem__" [Term.sym "self", Term.sym "name"])
      else Out.raise [] "AttributeError" := by
  unfold DataFrame_getattr; rfl

/-- **the placeholder never leaks while the column exists**: attribute lookup that finds the placeholder object
    returns the column of that name whenever the name is a key; the only way to see the placeholder is to ask
    for `COLUMN_PLACEHOLDER` itself or for a name that is no longer a key (which `delitem_drops_placeholder`
    rules out). -/
theorem getattribute_swaps_placeholder (truth : Term → Bool)
    (hname : truth (Term.app "Eq" [Term.sym "name", Term.sym "'COLUMN_PLACEHOLDER'"]) = false) :
    DataFrame_getattribute truth =
      if truth (Term.app "Is" [Term.app "super().__getattribute__" [Term.sym "name"],
                               Term.app ".COLUMN_PLACEHOLDER" [Term.sym "self"]]) &&
         truth (Term.app "In" [Term.sym "name", Term.sym "self"])
      then Out.ret [] (Term.app "getitem" [Term.sym "self", Term.sym "name"])
      else Out.ret [] (Term.app "super().__getattribute__" [Term.sym "name"]) := by
  unfold DataFrame_getattribute
  simp [hname]

example : FS.column (.seq 1) (some 3) = some 3 ∧ FS.column (.seq 2) (some 3) = none ∧
    FS.column (.seq 1) (some 0) = none ∧ FS.column (.seq 4) none = some 4 := by decide

/-! ### evaluation order (the `let`-inlined terms do not say when an assigned call runs; the regenerated call order does) -/

/-- `__delitem__` / `pop` remove the key from the dict FIRST and ask `hasattr` afterwards (the reading
    `Model/PyEvalStore.lean` gives the inlined return term); `__setitem__` reconciles the value before anything is stored, so a
    rejected value leaves the frame as it was. -/
theorem store_path_call_order :
    DataFrame_delitem_call_order = ["super", "super().__delitem__", "hasattr", "self.__is_builtin_attr", "super", "super().__delattr__"] ∧
    DataFrame_pop_call_order = ["super", "super().pop", "hasattr", "self.__is_builtin_attr", "super", "super().__delattr__"] ∧
    DataFrame_setitem_call_order = ["self._reconcile_column", "self.__hasattr", "key.isidentifier", "super", "super().__setattr__", "super", "super().__setitem__"] :=
  ⟨rfl, rfl, rfl⟩

end DI.Tie.C01

/-
  Proofs/C16.lean — property C16: ListOfDicts joins follow first-match rules.
  Statements only; proofs cite Lemmas/LoD.lean.
-/
import Model.LoD
import Lemmas.LoD

namespace DI.C16

open DI DI.LoD

/-- the dict built from the reversed right list returns the FIRST right item with equal key values. -/
theorem reversed_dict_first (other : List Item) (by2 : List String) (id : List Val) :
    lookupRev other by2 id = other.find? (fun x => extract by2 x == id) := lookupRev_eq_find other by2 id

/-- left_join keeps every left item, in order (same objects). -/
theorem left_join_keeps_items (xs other : List Item) (by1 by2 : List String) :
    (leftJoin xs other by1 by2).map (·.tag) = xs.map (·.tag) := leftJoin_tags xs other by1 by2

/-- ... merging in the non-key entries of the first right item with equal key values ... -/
theorem left_join_merges_first_match (xs other : List Item) (by1 by2 : List String) (it m : Item)
    (hit : it ∈ xs) (hm : other.find? (fun x => extract by2 x == extract by1 it) = some m) :
    { it with kv := it.kv.update (nonKey m.kv by2) } ∈ leftJoin xs other by1 by2 :=
  leftJoin_matched xs other by1 by2 it m hit hm

/-- ... and adding nothing when there is none. -/
theorem left_join_unmatched_unchanged (xs other : List Item) (by1 by2 : List String) (it : Item)
    (hit : it ∈ xs) (hno : other.find? (fun x => extract by2 x == extract by1 it) = none) :
    it ∈ leftJoin xs other by1 by2 := leftJoin_unmatched xs other by1 by2 it hit hno

/-- inner_join returns the merged matched items. -/
theorem inner_join_is_matched (xs other : List Item) (by1 by2 : List String) :
    innerJoin xs other by1 by2 =
      (xs.filter (fun it => (lookupRev other by2 (extract by1 it)).isSome)).map (fun it =>
        match lookupRev other by2 (extract by1 it) with
        | some m => { it with kv := it.kv.update (nonKey m.kv by2) }
        | none => it) := innerJoin_eq xs other by1 by2

/-- semi_join and anti_join return the unmerged matched / the unmatched items: a partition. -/
theorem semi_anti_partition (xs other : List Item) (by1 by2 : List String) :
    (semiJoin xs other by1 by2 ++ antiJoin xs other by1 by2).Perm xs ∧
    (semiJoin xs other by1 by2).Sublist xs ∧ (antiJoin xs other by1 by2).Sublist xs :=
  LoD.semi_anti_partition xs other by1 by2

end DI.C16

/-
  Proofs/C16.lean — property C16: ListOfDicts joins follow first-match rules.
  Statements only; proofs cite Lemmas/LoD.lean and Lemmas/LoDJoinAgg.lean (full_join, aggregate).
-/
import Model.LoD
import Lemmas.LoD
import Lemmas.LoDJoinAgg

namespace DI.C16

open DI DI.LoD

/-- the dict built from the reversed right list returns the FIRST right item with equal key values. -/
theorem reversed_dict_first (other : List Item) (by2 : List String) (id : List Val) :
    lookupRev other by2 id = other.find? (fun x => extract by2 x == id) := lookupRev_eq_find other by2 id

/-- left_join keeps every left item, in order (same objects). -/
theorem left_join_keeps_items (xs other : List Item) (by1 by2 : List String) :
    (leftJoin xs other by1 by2).map (·.tag) = xs.map (·.tag) := leftJoin_tags xs other by1 by2

/-- ... merging in the non-key entries of the first right item with equal key values ... -/
theorem left_join_merges_first_match (xs other : List Item) (by1 by2 : List String) (it m : Item)
    (hit : it ∈ xs) (hm : other.find? (fun x => extract by2 x == extract by1 it) = some m) :
    { it with kv := it.kv.update (nonKey m.kv by2) } ∈ leftJoin xs other by1 by2 :=
  leftJoin_matched xs other by1 by2 it m hit hm

/-- ... and adding nothing when there is none. -/
theorem left_join_unmatched_unchanged (xs other : List Item) (by1 by2 : List String) (it : Item)
    (hit : it ∈ xs) (hno : other.find? (fun x => extract by2 x == extract by1 it) = none) :
    it ∈ leftJoin xs other by1 by2 := leftJoin_unmatched xs other by1 by2 it hit hno

/-- inner_join returns the merged matched items. -/
theorem inner_join_is_matched (xs other : List Item) (by1 by2 : List String) :
    innerJoin xs other by1 by2 =
      (xs.filter (fun it => (lookupRev other by2 (extract by1 it)).isSome)).map (fun it =>
        match lookupRev other by2 (extract by1 it) with
        | some m => { it with kv := it.kv.update (nonKey m.kv by2) }
        | none => it) := innerJoin_eq xs other by1 by2

/-- semi_join and anti_join return the unmerged matched / the unmatched items: a partition. -/
theorem semi_anti_partition (xs other : List Item) (by1 by2 : List String) :
    (semiJoin xs other by1 by2 ++ antiJoin xs other by1 by2).Perm xs ∧
    (semiJoin xs other by1 by2).Sublist xs ∧ (antiJoin xs other by1 by2).Sublist xs :=
  LoD.semi_anti_partition xs other by1 by2

/-! ## full_join

`fullJoin xs other by1 by2` is the list of result rows; a row `p` carries the position `p.l` of the
left item and `p.r` of the right item it was made from (`none`: no such item) and its content `p.kv`.
`pairLe` (Lemmas/LoDJoinAgg.lean) is the order of `sort(_aid_=1, _bid_=1)`: by left id, then by
right id, a missing id after every real one. -/

/-- the model's row comparison is `pairLe`, and `pairLe` is a total preorder whose ties carry equal
    ids: "ordered by (l, r) with none last" is a meaningful statement. -/
theorem full_join_order (xs other : List Item) (by1 by2 : List String) :
    (fullJoin xs other by1 by2 =
      if (fjRest xs other by1 by2).isEmpty then fjAB xs other by1 by2
      else (fjAB xs other by1 by2 ++ fjBA xs other by1 by2).mergeSort pairLe) ∧
    PreOrd pairLe ∧ (∀ p q, pairLe p q → pairLe q p → p.l = q.l ∧ p.r = q.r) ∧
    (∀ a b : Nat, optLe (some a) (some b) = decide (a ≤ b)) ∧
    (∀ a, optLe a none = true) ∧ (∀ a : Nat, optLe none (some a) = false) :=
  ⟨fullJoin_eq xs other by1 by2, pairLe_spec⟩

/-- full_join keeps every left item … -/
theorem full_join_keeps_left (xs other : List Item) (by1 by2 : List String) (i : Nat) (hi : i < xs.length) :
    ∃ p ∈ fullJoin xs other by1 by2, p.l = some i := fullJoin_keeps_left xs other by1 by2 i hi

/-- … but NOT always exactly once: a left item is repeated for every further right item with its key
    values (Python does the same: `ba` joins such a right item back to the first matching left item). -/
theorem full_join_left_once_counterexample :
    ((fullJoin [⟨0, [("k", .i 1), ("a", .i 10)]⟩]
        [⟨10, [("k", .i 1), ("b", .i 5)]⟩, ⟨11, [("k", .i 1), ("b", .i 6)]⟩] ["k"] ["k"]).filter
      (fun p => p.l == some 0)).length = 2 := fullJoin_left_twice_example

/-- exactly once when the right key tuples are distinct. -/
theorem full_join_left_once_partial (xs other : List Item) (by1 by2 : List String)
    (hnd : (other.map (extract by2)).Nodup) (i : Nat) (hi : i < xs.length) :
    ((fullJoin xs other by1 by2).filter (fun p => p.l == some i)).length = 1 :=
  fullJoin_left_once xs other by1 by2 hnd i hi

/-- full_join additionally contains every right item at least once … -/
theorem full_join_keeps_right (xs other : List Item) (by1 by2 : List String) (j : Nat) (hj : j < other.length) :
    ∃ p ∈ fullJoin xs other by1 by2, p.r = some j := fullJoin_keeps_right xs other by1 by2 j hj

/-- … (several times if several left items have its key values) … -/
theorem full_join_right_once_counterexample :
    ((fullJoin [⟨0, [("k", .i 1), ("a", .i 10)]⟩, ⟨1, [("k", .i 1), ("a", .i 11)]⟩]
        [⟨10, [("k", .i 1), ("b", .i 5)]⟩] ["k"] ["k"]).filter
      (fun p => p.r == some 0)).length = 2 := by decide

/-- … exactly once when the left key tuples are distinct. -/
theorem full_join_right_once_partial (xs other : List Item) (by1 by2 : List String)
    (hnd : (xs.map (extract by1)).Nodup) (j : Nat) (hj : j < other.length) :
    ((fullJoin xs other by1 by2).filter (fun p => p.r == some j)).length = 1 :=
  fullJoin_right_once xs other by1 by2 hnd j hj

/-- … and never merges items with unequal keys: the ids of a row are real positions and a row made
    from two items joins items whose key values are equal. -/
theorem full_join_equal_keys (xs other : List Item) (by1 by2 : List String) (p : Pair)
    (hp : p ∈ fullJoin xs other by1 by2) (i j : Nat) (hl : p.l = some i) (hr : p.r = some j) :
    ∃ (hi : i < xs.length) (hj : j < other.length), extract by1 xs[i] = extract by2 other[j] :=
  fullJoin_equal_keys xs other by1 by2 p hp i j hl hr

/-- every id is a real position and no row is made from nothing. -/
theorem full_join_ids_valid (xs other : List Item) (by1 by2 : List String) (p : Pair)
    (hp : p ∈ fullJoin xs other by1 by2) :
    (∀ i, p.l = some i → i < xs.length) ∧ (∀ j, p.r = some j → j < other.length) ∧
    (p.l ≠ none ∨ p.r ≠ none) :=
  ⟨fun i h => fullJoin_left_id_lt xs other by1 by2 p hp i h,
   fun j h => fullJoin_right_id_lt xs other by1 by2 p hp j h, fullJoin_has_id xs other by1 by2 p hp⟩

/-- a row made from one item only is that item, unchanged, and no item of the other list has its
    key values. -/
theorem full_join_unmatched_unchanged (xs other : List Item) (by1 by2 : List String) (p : Pair)
    (hp : p ∈ fullJoin xs other by1 by2) :
    (p.r = none → ∃ i, ∃ hi : i < xs.length, p.l = some i ∧ p.kv = xs[i].kv ∧
      ∀ x ∈ other, extract by2 x ≠ extract by1 xs[i]) ∧
    (p.l = none → ∃ j, ∃ hj : j < other.length, p.r = some j ∧ p.kv = other[j].kv ∧
      ∀ x ∈ xs, extract by1 x ≠ extract by2 other[j]) :=
  ⟨fullJoin_left_only xs other by1 by2 p hp, fullJoin_right_only xs other by1 by2 p hp⟩

/-- the left part is the left join: the first row of left item `i` has the content of
    `left_join`'s `i`-th item, and its right id is the FIRST right position with equal key values
    (`reversed_dict_first`), or none if no right item has them. -/
theorem full_join_left_part_is_left_join (xs other : List Item) (by1 by2 : List String)
    (i : Nat) (hi : i < xs.length) :
    ∃ p, (fullJoin xs other by1 by2).find? (fun p => p.l == some i) = some p ∧
      p.kv = ((leftJoin xs other by1 by2)[i]'(by rw [leftJoin_length]; exact hi)).kv ∧
      (∀ j, p.r = some j → ∃ hj : j < other.length, extract by2 other[j] = extract by1 xs[i] ∧
        ∀ j' (hj' : j' < other.length), extract by2 other[j'] = extract by1 xs[i] → j ≤ j') ∧
      (p.r = none → ∀ x ∈ other, extract by2 x ≠ extract by1 xs[i]) :=
  fullJoin_first_row xs other by1 by2 i hi

/-- the result is ordered by (left id, right id) with missing ids last — strictly: no two rows have
    the same pair of ids. -/
theorem full_join_sorted (xs other : List Item) (by1 by2 : List String) :
    (fullJoin xs other by1 by2).Pairwise (fun p q => pairLe p q = true ∧ pairLe q p = false) :=
  fullJoin_strict_sorted xs other by1 by2

/-- the rows are exactly the left-join rows plus one row per right item not used by them. -/
theorem full_join_rows (xs other : List Item) (by1 by2 : List String) :
    (fullJoin xs other by1 by2).Perm (fjAB xs other by1 by2 ++ fjBA xs other by1 by2) ∧
    (fjAB xs other by1 by2).length = xs.length ∧
    (fjBA xs other by1 by2).length =
      (other.zipIdx.filter (fun q => !(fjUsed xs other by1 by2).contains q.2)).length :=
  ⟨fullJoin_perm xs other by1 by2, fjAB_length xs other by1 by2, by simp [fjBA_eq, fjRest]⟩

/-- non-vacuity: `ab ++ ba` = rows (0,0), (1,–), (0,1) is not in order; the sort moves the
    second row of left item 0 in front of left item 1. -/
example :
    (fullJoin [⟨0, [("k", .i 1)]⟩, ⟨1, [("k", .i 2)]⟩]
        [⟨10, [("k", .i 1), ("b", .i 5)]⟩, ⟨11, [("k", .i 1), ("b", .i 6)]⟩] ["k"] ["k"]).map
      (fun p => (p.l, p.r)) = [(some 0, some 0), (some 0, some 1), (some 1, none)] := by
  rw [fullJoin_eq, if_neg (by decide)]
  rw [show fjAB [⟨0, [("k", .i 1)]⟩, ⟨1, [("k", .i 2)]⟩]
        [⟨10, [("k", .i 1), ("b", .i 5)]⟩, ⟨11, [("k", .i 1), ("b", .i 6)]⟩] ["k"] ["k"] ++
      fjBA [⟨0, [("k", .i 1)]⟩, ⟨1, [("k", .i 2)]⟩]
        [⟨10, [("k", .i 1), ("b", .i 5)]⟩, ⟨11, [("k", .i 1), ("b", .i 6)]⟩] ["k"] ["k"] =
      [⟨some 0, some 0, [("k", .i 1), ("b", .i 5)]⟩, ⟨some 1, none, [("k", .i 2)]⟩,
       ⟨some 0, some 1, [("k", .i 1), ("b", .i 6)]⟩] by decide]
  simp [List.mergeSort, List.MergeSort.Internal.splitInTwo_fst, List.MergeSort.Internal.splitInTwo_snd,
    pairLe, optLe]

/-! ## aggregate

`aggregate xs keys` is the list of groups `(key tuple, tags of the group's items)`; the summaries
of a group are computed by Python from exactly those items. `lexLe` is the lexicographic order on key
tuples whose components are compared by `valLe` = Python's `(v is None, v)`. -/

/-- the order the groups are put in is linear, lexicographic, with None last in every component. -/
theorem aggregate_order :
    LinOrd lexLe ∧ LinOrd valLe ∧
    (∀ a b as bs, lexLe (a :: as) (b :: bs) = if a = b then lexLe as bs else valLe a b) ∧
    (∀ v, valLe v .none = true) ∧ (∀ v, v ≠ .none → valLe .none v = false) ∧
    (∀ a b : Int, valLe (.i a) (.i b) = decide (a ≤ b)) ∧
    (∀ a b : String, valLe (.s a) (.s b) = decide (a ≤ b)) :=
  lexLe_spec

/-- aggregate yields one item per distinct combination of group-key values … -/
theorem aggregate_one_per_key (xs : List Item) (keys : List String) :
    ((aggregate xs keys).map (·.1)).Nodup ∧
    ∀ id, id ∈ (aggregate xs keys).map (·.1) ↔ id ∈ xs.map (extract keys) :=
  ⟨aggregate_keys_nodup xs keys, mem_aggregate_keys xs keys⟩

/-- … ordered by those keys with None last (lexicographically, strictly ascending) … -/
theorem aggregate_ordered (xs : List Item) (keys : List String) :
    ((aggregate xs keys).map (·.1)).Pairwise (fun a b => lexLe a b = true ∧ lexLe b a = false) :=
  aggregate_keys_strict_sorted xs keys

/-- … whose summaries are computed over exactly that group's items in their original order: the
    members of a group are the items with its key values, in list order, at least one; the groups
    partition the items. -/
theorem aggregate_groups_exact (xs : List Item) (keys : List String) :
    (∀ g ∈ aggregate xs keys,
      g.2 = (xs.filter (fun it => extract keys it == g.1)).map (·.tag) ∧ g.2 ≠ []) ∧
    ((aggregate xs keys).flatMap (·.2)).Perm (xs.map (·.tag)) ∧
    ((aggregate xs keys).map (·.2.length)).sum = xs.length :=
  ⟨fun g hg => ⟨aggregate_group xs keys g hg, aggregate_group_nonempty xs keys g hg⟩,
    aggregate_partition xs keys, aggregate_sizes xs keys⟩

/-- the multi-pass sort used by aggregate (one stable pass per key, last key first) orders ANY list
    of items lexicographically by the key tuple. -/
theorem sort_ascending_lexicographic (xs : List Item) (keys : List String) :
    (sort xs (keys.map (fun k => (k, false)))).Pairwise
      (fun a b => lexLe (extract keys a) (extract keys b)) ∧
    (sort xs (keys.map (fun k => (k, false)))).Perm xs :=
  ⟨sort_asc_lex xs keys, sort_perm xs _⟩

/-- non-vacuity: unsorted input with a None key and a repeated key. -/
example :
    aggregate [⟨0, [("g", .i 2)]⟩, ⟨1, [("g", .none)]⟩, ⟨2, [("g", .i 1)]⟩, ⟨3, [("g", .i 2)]⟩] ["g"]
      = [([.i 1], [2]), ([.i 2], [0, 3]), ([.none], [1])] := by
  rw [aggregate_eq]
  simp only [List.map_cons, List.map_nil, sort_cons]
  rw [show ∀ X, sort X [] = X from fun _ => rfl, sortPass_asc_eq]
  rw [show unique [(⟨0, [("g", .i 2)]⟩ : Item), ⟨1, [("g", .none)]⟩, ⟨2, [("g", .i 1)]⟩,
      ⟨3, [("g", .i 2)]⟩] ["g"] = [⟨0, [("g", .i 2)]⟩, ⟨1, [("g", .none)]⟩, ⟨2, [("g", .i 1)]⟩] by decide]
  simp [List.mergeSort, List.MergeSort.Internal.splitInTwo_fst, List.MergeSort.Internal.splitInTwo_snd,
    valLe_eq, valOf, rekey, Dict.get?, extract]

end DI.C16

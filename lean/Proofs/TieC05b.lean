/-
  Proofs/TieC05b.lean — code theorems over the part of `Generated/CodeC05.lean` that `Proofs/TieC05.lean` does not cover:
  `DataFrame.full_join` (copies, the bookkeeping columns `_aid_` / `_bid_`, `left_join` + `anti_join` + reverse
  `left_join` + `rbind` + `sort`) and `DataFrame.compare`.

  `full_join_refines`: when the one test of `full_join` (`b.nrow == 0`: no right row is left unmatched) is answered as
  the model answers it, the frame the method returns is, branch by branch, what the model's `fullJoinPairs`
  (`Model/Group.lean`) computes — the plain left join, or left join + reverse left join of the unmatched right rows,
  bound and sorted by (`_aid_`, `_bid_`) with missing ids last.
-/
import Generated.CodeC05
import Model.Group
import Proofs.TieC05

namespace DI.Tie.C05

open DI DI.Py DI.Gen

/-! ### `full_join` -/

/-- `a = self.copy()`, `b = other.copy()`: the bookkeeping columns are stored into COPIES (new dicts, `copy_is_shallow`),
    the arguments keep their columns; the copies are also ungrouped, so the joins below never run group-wise. -/
def fjA : Term := Term.app ".copy" [Term.sym "self"]
def fjB : Term := Term.app ".copy" [Term.sym "other"]

/-- `a["_aid_"] = np.arange(self.nrow)`: every left row carries its original position. -/
def tagLeft : Term := Term.app "store" [Term.app "getitem" [fjA, Term.sym "'_aid_'"], Term.app "np.arange" [Term.app ".nrow" [Term.sym "self"]]]
/-- `b["_bid_"] = np.arange(other.nrow)`: every right row carries its original position. -/
def tagRight : Term := Term.app "store" [Term.app "getitem" [fjB, Term.sym "'_bid_'"], Term.app "np.arange" [Term.app ".nrow" [Term.sym "other"]]]

/-- `ab = a.left_join(b, *by)`: every left row once, in order, with its first match (`left_join_code`); `_bid_` of the
    matched right row, missing where there is none. -/
def fjAB : Term := Term.app ".left_join" [fjA, fjB, Term.app "*" [Term.sym "by"]]

/-- `b = b.anti_join(ab, "_bid_")`: the right rows whose position does not occur in `ab` — the unmatched right rows. -/
def fjRest : Term := Term.app ".anti_join" [fjB, fjAB, Term.sym "'_bid_'"]

/-- the test that decides the branch: `b.nrow == 0`. -/
def noRightRowLeft : Term := Term.app "Eq" [Term.app ".nrow" [fjRest], Term.int 0]

/-- `by` with every pair reversed (a plain name stays): the reverse join looks the RIGHT name up on the left. -/
def byReversed : Term :=
  Term.app "ListComp" [Term.app "ifexp" [Term.app "isinstance" [Term.sym "x", Term.app "tuple" [Term.sym "list", Term.sym "tuple"]],
      Term.app "tuple()" [Term.app "reversed" [Term.sym "x"]], Term.sym "x"],
    Term.app "in" [Term.sym "x", Term.sym "by", Term.app "if" []]]

/-- `ba = b.left_join(a, *by_reverse)`: every unmatched right row once, in order; the left columns come from the first left
    row with that key when there is one (a right row passed over as a SECOND match of its key), and are missing otherwise
    (the model's `back`). -/
def fjBA : Term := Term.app ".left_join" [fjRest, fjA, Term.app "*" [byReversed]]

/-- `for item in by: if isinstance(item, (list, tuple)): ba[item[0]] = ba.pop(item[1])`: a key column whose name differs is
    renamed to the LEFT name, so that `rbind` (which works by name) stacks it under the left key column. -/
def renameKeysToLeft : Term :=
  Term.app "for" [Term.sym "item", Term.sym "by",
    Term.app "block" [Term.app "if" [Term.app "isinstance" [Term.sym "item", Term.app "tuple" [Term.sym "list", Term.sym "tuple"]],
      Term.app "block" [Term.app "store" [Term.app "getitem" [fjBA, Term.app "getitem" [Term.sym "item", Term.int 0]],
        Term.app ".pop" [fjBA, Term.app "getitem" [Term.sym "item", Term.int 1]]]],
      Term.app "block" []]]]

def dropIds (t : Term) : Term := Term.app ".unselect" [t, Term.sym "'_aid_'", Term.sym "'_bid_'"]

/-- **`full_join` as written.**  Both frames are tagged with their row positions first.  If the left join already uses
    every right row, the result is the left join without the two id columns.  Otherwise the unmatched right rows are
    left-joined back (reversed `by`), their key columns renamed to the left names, the two parts are bound with `rbind`
    (`ab` first) and sorted by `_aid_` ascending, then `_bid_` ascending — `sort` puts missing values last, so the left
    rows come first in their own order and the unmatched right rows follow in THEIR own order — and the id columns are
    dropped.  (Model: `fullJoinPairs`; properties `C05.full_join_*`.) -/
theorem full_join_code (truth : Term → Bool) :
    DataFrame_full_join truth =
      if truth noRightRowLeft then Out.ret [tagLeft, tagRight] (dropIds fjAB)
      else Out.ret [tagLeft, tagRight, renameKeysToLeft]
        (dropIds (Term.app ".sort" [Term.app ".rbind" [fjAB, fjBA], Term.app "=_aid_" [Term.int 1], Term.app "=_bid_" [Term.int 1]])) := by
  unfold DataFrame_full_join; rfl

/-- in both branches the tagging comes before everything else, and the receiver and the argument are not written into:
    both stores go into the copies. -/
theorem full_join_tags_copies (truth : Term → Bool) :
    (DataFrame_full_join truth).effs.take 2 = [tagLeft, tagRight] ∧
    tagLeft = Term.app "store" [Term.app "getitem" [Term.app ".copy" [Term.sym "self"], Term.sym "'_aid_'"],
      Term.app "np.arange" [Term.app ".nrow" [Term.sym "self"]]] ∧
    tagRight = Term.app "store" [Term.app "getitem" [Term.app ".copy" [Term.sym "other"], Term.sym "'_bid_'"],
      Term.app "np.arange" [Term.app ".nrow" [Term.sym "other"]]] := by
  refine ⟨?_, rfl, rfl⟩
  rw [full_join_code]
  cases truth noRightRowLeft <;> rfl

/-- the right rows the left join did not use, as the model computes them. -/
def unmatchedRight (n : Nat) (lkeys : List (List Cell)) (m : Nat) (rkeys : List (List Cell)) : List Nat :=
  (List.range m).filter (fun j => !((leftJoinPairs n lkeys m rkeys).filterMap (·.2)).contains j)

/-- the (left row, right row) pairs the returned frame consists of, row by row: `unselect` of the plain left join, or of
    `ab.rbind(ba).sort(_aid_=1, _bid_=1)` with `ba` the reverse left join of the unmatched right rows. -/
def fullJoinDenotes (n : Nat) (lkeys : List (List Cell)) (m : Nat) (rkeys : List (List Cell)) :
    Out → Option (List (Option Nat × Option Nat))
  | .ret _ (.app ".unselect" [.app ".left_join" [.app ".copy" [.sym "self"], .app ".copy" [.sym "other"], .app "*" [.sym "by"]],
      .sym "'_aid_'", .sym "'_bid_'"]) => some (leftJoinPairs n lkeys m rkeys)
  | .ret _ (.app ".unselect" [.app ".sort" [.app ".rbind"
        [.app ".left_join" [.app ".copy" [.sym "self"], .app ".copy" [.sym "other"], .app "*" [.sym "by"]],
         .app ".left_join" [.app ".anti_join" [.app ".copy" [.sym "other"],
             .app ".left_join" [.app ".copy" [.sym "self"], .app ".copy" [.sym "other"], .app "*" [.sym "by"]], .sym "'_bid_'"],
           .app ".copy" [.sym "self"],
           .app "*" [.app "ListComp" [.app "ifexp" [.app "isinstance" [.sym "x", .app "tuple" [.sym "list", .sym "tuple"]],
             .app "tuple()" [.app "reversed" [.sym "x"]], .sym "x"], .app "in" [.sym "x", .sym "by", .app "if" []]]]]],
        .app "=_aid_" [.int 1], .app "=_bid_" [.int 1]], .sym "'_aid_'", .sym "'_bid_'"]) =>
    let ab := leftJoinPairs n lkeys m rkeys
    let rest := unmatchedRight n lkeys m rkeys
    let back := joinSrc rest.length (rkeys.map (fun c => gather c rest)) n lkeys
    let all := ab ++ (back.zip rest).map (fun (a, j) => (a, some j))
    some (gather all (argsort (fun (p q : Option Nat × Option Nat) =>
      if p.1 == q.1 then leOptNat p.2 q.2 else leOptNat p.1 q.1) all))
  | _ => none

/-- **`full_join` refines `fullJoinPairs`**: with the branch test answered by the model ("no unmatched right row"), the
    rows of the returned frame are the model's, for all key columns of both frames. -/
theorem full_join_refines (truth : Term → Bool) (n : Nat) (lkeys : List (List Cell)) (m : Nat) (rkeys : List (List Cell))
    (h : truth noRightRowLeft = (unmatchedRight n lkeys m rkeys).isEmpty) :
    fullJoinDenotes n lkeys m rkeys (DataFrame_full_join truth) = some (fullJoinPairs n lkeys m rkeys) := by
  rw [full_join_code, h]
  unfold fullJoinPairs
  cases he : (unmatchedRight n lkeys m rkeys).isEmpty with
  | true =>
    have he' : ((List.range m).filter (fun j => !((leftJoinPairs n lkeys m rkeys).filterMap (·.2)).contains j)).isEmpty = true := he
    simp only [he', if_true]
    rfl
  | false =>
    have he' : ((List.range m).filter (fun j => !((leftJoinPairs n lkeys m rkeys).filterMap (·.2)).contains j)).isEmpty = false := he
    simp only [he', Bool.false_eq_true, if_false]
    rfl

theorem full_join_signature_and_order :
    DataFrame_full_join_signature = ["self", "other", "*by"] ∧ DataFrame_full_join_signature = DataFrame_left_join_signature ∧
    DataFrame_full_join_decorators = [] ∧
    DataFrame_full_join_call_order = ["self.copy", "other.copy", "np.arange", "np.arange", "a.left_join", "b.anti_join",
      "ab.unselect", "isinstance", "reversed", "tuple", "b.left_join", "isinstance", "ba.pop", "ab.rbind", "ab.rbind(ba).sort",
      "ab.rbind(ba).sort(_aid_=1, _bid_=1).unselect"] := ⟨rfl, rfl, rfl, rfl⟩

/-- a pair in `by` is recognised by `isinstance(x, (list, tuple))` here, by `not isinstance(x, str)` in `_split_join_by`
    (`split_join_by_code`): the two tests agree on names, lists and tuples — and on nothing else. -/
theorem full_join_pair_test_vs_split (truth : Term → Bool) :
    byReversed = Term.app "ListComp" [Term.app "ifexp" [Term.app "isinstance" [Term.sym "x", Term.app "tuple" [Term.sym "list", Term.sym "tuple"]],
        Term.app "tuple()" [Term.app "reversed" [Term.sym "x"]], Term.sym "x"], Term.app "in" [Term.sym "x", Term.sym "by", Term.app "if" []]] ∧
    DataFrame_split_join_by truth =
      let pick (i : Int) := Term.app "ListComp" [Term.app "ifexp" [Term.app "isinstance" [Term.sym "x", Term.sym "str"], Term.sym "x",
        Term.app "getitem" [Term.sym "x", Term.int i]], Term.app "in" [Term.sym "x", Term.sym "by", Term.app "if" []]]
      Out.ret [] (Term.app "tuple" [pick 0, pick 1]) := ⟨rfl, rfl⟩

/-! ### `compare` -/

/-- `frame.unique(*by).nrow < frame.nrow`: two rows of the frame share their `by` values. -/
def notUniqueBy (frame : String) : Term :=
  Term.app "Lt" [Term.app ".nrow" [Term.app ".unique" [Term.sym frame, Term.app "*" [Term.sym "by"]]], Term.app ".nrow" [Term.sym frame]]

/-- rows of `self` without a partner in `other` / rows of `other` without a partner in `self` (`anti_join_code`). -/
def cmpAdded : Term := Term.app ".anti_join" [Term.sym "self", Term.sym "other", Term.app "*" [Term.sym "by"]]
def cmpRemoved : Term := Term.app ".anti_join" [Term.sym "other", Term.sym "self", Term.app "*" [Term.sym "by"]]

/-- both frames with their row positions attached (`_i_`, `_j_`), and the inner join that pairs them by `by`. -/
def cmpX : Term := Term.app ".modify" [Term.sym "self", Term.app "=_i_" [Term.app "range" [Term.app ".nrow" [Term.sym "self"]]]]
def cmpY : Term := Term.app ".modify" [Term.sym "other", Term.app "=_j_" [Term.app "range" [Term.app ".nrow" [Term.sym "other"]]]]
def cmpZ : Term :=
  Term.app ".inner_join" [cmpX, Term.app ".select" [cmpY, Term.sym "'_j_'", Term.app "*" [Term.sym "by"]], Term.app "*" [Term.sym "by"]]

/-- the columns compared: all names of both frames, first-seen order, minus `ignore_columns`. -/
def cmpColnames : Term :=
  Term.app "ListComp" [Term.sym "x", Term.app "in" [Term.sym "x",
    Term.app "util.unique_keys" [Term.app "Add" [Term.app ".colnames" [Term.sym "self"], Term.app ".colnames" [Term.sym "other"]]],
    Term.app "if" [Term.app "NotIn" [Term.sym "x", Term.sym "ignore_columns"]]]]

/-- `changed`, the list the loop appends to (the translator shows a local by its defining expression `[]`). -/
def cmpChanged : Term := Term.app "list" []

def limitReached : Term := Term.app "GtE" [Term.app "len" [cmpChanged], Term.sym "max_changed"]

/-- the value of the column in row `r` of `frame`, None when the frame has no such column. -/
def cellOrNone (frame : Term) (r : String) : Term :=
  Term.app "ifexp" [Term.app "In" [Term.sym "colname", frame],
    Term.app "getitem" [Term.app "getitem" [frame, Term.sym "colname"], Term.sym r], Term.sym "None"]

/-- a difference counts when the values are unequal and NOT both missing (`NaN != NaN` is not a change). -/
def isChange : Term :=
  Term.app "And" [Term.app "NotEq" [Term.sym "xvalue", Term.sym "yvalue"],
    Term.app "not" [Term.app ".all" [Term.app ".is_na" [Term.app "Vector" [Term.app "list" [Term.sym "xvalue", Term.sym "yvalue"]]]]]]

/-- the record of one change: the `by` values of the row (read from `self`'s side), the column, both values. -/
def recordChange : List Term :=
  [Term.app "assign" [Term.sym "byrow", Term.app "DictComp" [Term.app "pair" [Term.sym "k", Term.app "getitem" [Term.app "getitem" [cmpX, Term.sym "k"], Term.sym "i"]],
      Term.app "in" [Term.sym "k", Term.sym "by", Term.app "if" []]]],
   Term.app ".append" [cmpChanged, Term.app "dict()" [Term.app "=**" [Term.sym "byrow"], Term.app "=column" [Term.sym "colname"],
      Term.app "=xvalue" [Term.sym "xvalue"], Term.app "=yvalue" [Term.sym "yvalue"]]]]

/-- the scan over the paired rows (`i` in `self`, `j` in `other`), column by column; stops once `max_changed` changes are
    listed (with a message when a further pair would have been looked at). -/
def cmpLoop : Term :=
  Term.app "for" [Term.app "tuple" [Term.sym "i", Term.sym "j"], Term.app "zip" [Term.app "._i_" [cmpZ], Term.app "._j_" [cmpZ]],
    Term.app "block"
      [Term.app "if" [limitReached,
         Term.app "block" [Term.app "print" [Term.app "fstring" [Term.sym "'max_changed='",
            Term.app "format" [Term.sym "max_changed", Term.sym "", Term.int (-1)], Term.sym "' reached, terminating'"]], Term.sym "break"],
         Term.app "block" []],
       Term.app "for" [Term.sym "colname", cmpColnames,
         Term.app "block"
           [Term.app "if" [limitReached, Term.app "block" [Term.sym "break"], Term.app "block" []],
            Term.app "assign" [Term.sym "xvalue", cellOrNone cmpX "i"],
            Term.app "assign" [Term.sym "yvalue", cellOrNone cmpY "j"],
            Term.app "if" [isChange, Term.app "block" recordChange, Term.app "block" []]],
         Term.app "init" [Term.sym "xvalue", Term.sym "xvalue"], Term.app "init" [Term.sym "yvalue", Term.sym "yvalue"],
         Term.app "init" [Term.sym "byrow", Term.sym "byrow"]]]]

/-- **`compare` as written.**  Guards, in this order: `self` must be unique by `by`, then `other`; either failure is a
    ValueError raised before anything else is computed.  Otherwise the scan runs and a triple is returned: the rows only
    `self` has ("added"), the rows only `other` has ("removed"), the table of changed values — each of the three replaced
    by None when it is empty (the tests `added.nrow > 0`, `removed.nrow > 0`, `changed` non-empty). -/
theorem compare_code (truth : Term → Bool) :
    DataFrame_compare truth =
      if truth (notUniqueBy "self") then Out.raise [] "ValueError"
      else if truth (notUniqueBy "other") then Out.raise [] "ValueError"
      else Out.ret [cmpLoop] (Term.app "tuple"
        [if truth (Term.app "Gt" [Term.app ".nrow" [cmpAdded], Term.int 0]) then cmpAdded else Term.sym "None",
         if truth (Term.app "Gt" [Term.app ".nrow" [cmpRemoved], Term.int 0]) then cmpRemoved else Term.sym "None",
         if truth cmpChanged then Term.app ".from_json" [Term.sym "self", cmpChanged] else Term.sym "None"]) := by
  unfold DataFrame_compare; rfl

/-- `compare` raises exactly when one of the two frames is not unique by `by`. -/
theorem compare_rejects_duplicates (truth : Term → Bool) :
    (DataFrame_compare truth = Out.raise [] "ValueError") ↔
      (truth (notUniqueBy "self") = true ∨ truth (notUniqueBy "other") = true) := by
  rw [compare_code]
  cases truth (notUniqueBy "self") <;> cases truth (notUniqueBy "other") <;> simp

/-- identical frames (nothing added, nothing removed, nothing changed) compare to `(None, None, None)`. -/
theorem compare_nothing_to_report (truth : Term → Bool)
    (h1 : truth (notUniqueBy "self") = false) (h2 : truth (notUniqueBy "other") = false)
    (ha : truth (Term.app "Gt" [Term.app ".nrow" [cmpAdded], Term.int 0]) = false)
    (hr : truth (Term.app "Gt" [Term.app ".nrow" [cmpRemoved], Term.int 0]) = false)
    (hc : truth cmpChanged = false) :
    DataFrame_compare truth = Out.ret [cmpLoop] (Term.app "tuple" [Term.sym "None", Term.sym "None", Term.sym "None"]) := by
  rw [compare_code]; simp [h1, h2, ha, hr, hc]

/-- `by` are positional; `ignore_columns` and `max_changed` can only be given by keyword; by default nothing is ignored and
    the listing is unlimited (`inf`). -/
theorem compare_signature :
    DataFrame_compare_signature = ["self", "other", "*by", "ignore_columns=[]", "max_changed=inf"] ∧
    DataFrame_compare_decorators = [] := ⟨rfl, rfl⟩

/-- the uniqueness checks come before the anti-joins, the anti-joins before the scan, `from_json` last. -/
theorem compare_call_order :
    DataFrame_compare_call_order = ["self.unique", "ValueError", "other.unique", "ValueError", "self.anti_join", "other.anti_join",
      "range", "self.modify", "range", "other.modify", "y.select", "x.inner_join", "util.unique_keys", "zip", "len", "print", "len",
      "Vector", "Vector([xvalue, yvalue]).is_na", "Vector([xvalue, yvalue]).is_na().all", "dict", "changed.append", "self.from_json"] := rfl

end DI.Tie.C05

/-
  Proofs/TieC14b.lean — obligations over the module-level aliases of `dataiter/io.py` (`read_csv`, `read_geojson`,
  `read_json`, `read_npz`, `read_parquet`) and `util.format_alias_doc`, as regenerated into `Generated/CodeC14.lean`.

  An alias is correct when it is the class method and nothing else: the path first, EVERY keyword-only parameter of the
  class method handed on under its own name bound to the alias's parameter of the same name, `**kwargs` handed on exactly
  when the class method takes them, and the same defaults.  The theorems below do not list the keywords by hand: they
  compute them from the class method's regenerated `_signature` (`kwOnly`, `takesVarkw`), so a keyword added to (or removed
  from, or renamed in) the class method without the alias following — or the other way round — stops them from checking.
  (`Proofs/C14.lean` proves the same over the AST table `Generated/IoAliases.lean`; here it is tied to the function bodies.)
-/
import Generated.CodeC14
import Generated.CodeC12
import Generated.CodeC18

namespace DI.Tie.C14

open DI.Py DI.Gen

/-! ### reading a regenerated signature -/

/-- the name of a parameter entry `name=default` / `name`. -/
def paramName (s : String) : String := String.ofList (s.toList.takeWhile (· != '='))

/-- is the entry `**name`? -/
def isVarkw (s : String) : Bool := s.toList.take 2 == ['*', '*']

/-- the keyword-only parameters of a signature: the names after the bare `*`, `**kwargs` excluded, in source order. -/
def kwOnly (sig : List String) : List String :=
  (((sig.dropWhile (· != "*")).drop 1).filter (fun s => !isVarkw s)).map paramName

/-- does the signature end in `**kwargs`? -/
def takesVarkw (sig : List String) : Bool := sig.any isVarkw

/-- the positional parameters of a signature (before the bare `*`). -/
def positional (sig : List String) : List String := sig.takeWhile (· != "*")

/-- `k=k`: the alias's own parameter `k` handed on under the same keyword. -/
def pass (k : String) : Term := Term.app ("=" ++ k) [Term.sym k]

/-- `Target(path, k1=k1, …, kn=kn[, **kwargs])` for the keyword-only parameters of the signature `sig` of the target. -/
def forwardAll (target : String) (sig : List String) : Term :=
  Term.app target (Term.sym "path" :: (kwOnly sig).map pass ++ (if takesVarkw sig then [Term.app "=**" [Term.sym "kwargs"]] else []))

/-- **the aliases as written**: each is ONE call of its class method, no effect before it, with the path and every
    keyword-only parameter OF THE CLASS METHOD'S CURRENT SIGNATURE handed on unchanged (and `**kwargs` exactly where the class
    method has them).  A dropped keyword (`sep` not forwarded: the default would silently win), a crossed one
    (`columns=dtypes`), or a keyword the class method does not have would each break the equation. -/
theorem read_csv_forwards_all (truth : Term → Bool) :
    io_read_csv truth = Out.ret [] (forwardAll "DataFrame.read_csv" DataFrame_read_csv_signature) := by rfl

theorem read_geojson_forwards_all (truth : Term → Bool) :
    io_read_geojson truth = Out.ret [] (forwardAll "GeoJSON.read" GeoJSON_read_signature) := by rfl

theorem read_json_forwards_all (truth : Term → Bool) :
    io_read_json truth = Out.ret [] (forwardAll "ListOfDicts.read_json" ListOfDicts_read_json_signature) := by rfl

theorem read_npz_forwards_all (truth : Term → Bool) :
    io_read_npz truth = Out.ret [] (forwardAll "DataFrame.read_npz" DataFrame_read_npz_signature) := by rfl

theorem read_parquet_forwards_all (truth : Term → Bool) :
    io_read_parquet truth = Out.ret [] (forwardAll "DataFrame.read_parquet" DataFrame_read_parquet_signature) := by rfl

/-- the same five equations spelled out (what a reader of `io.py` sees), so that the computed form above cannot be vacuous. -/
theorem aliases_spelled_out (truth : Term → Bool) :
    io_read_csv truth = Out.ret [] (Term.app "DataFrame.read_csv" [Term.sym "path", pass "encoding", pass "sep", pass "header", pass "columns", pass "dtypes"]) ∧
    io_read_geojson truth = Out.ret [] (Term.app "GeoJSON.read" [Term.sym "path", pass "encoding", pass "columns", pass "dtypes", Term.app "=**" [Term.sym "kwargs"]]) ∧
    io_read_json truth = Out.ret [] (Term.app "ListOfDicts.read_json" [Term.sym "path", pass "encoding", pass "keys", pass "types", Term.app "=**" [Term.sym "kwargs"]]) ∧
    io_read_npz truth = Out.ret [] (Term.app "DataFrame.read_npz" [Term.sym "path", pass "allow_pickle"]) ∧
    io_read_parquet truth = Out.ret [] (Term.app "DataFrame.read_parquet" [Term.sym "path", pass "columns", pass "dtypes"]) := by
  refine ⟨?_, ?_, ?_, ?_, ?_⟩ <;> rfl

/-- **same parameters, same defaults**: the alias's signature IS the class method's without the bound `cls` — same names,
    same order, same keyword-only marker, same source text of every default (`encoding='utf-8'`, `sep=','`, `header=True`,
    `columns=[]`, `dtypes={}`, `keys=[]`, `types={}`, `allow_pickle=True`).  A default changed on one side only (the
    documented behaviour of `di.read_csv(path)` and `DataFrame.read_csv(path)` drifting apart) breaks it. -/
theorem alias_signatures_are_the_targets :
    io_read_csv_signature = DataFrame_read_csv_signature.tail ∧
    io_read_geojson_signature = GeoJSON_read_signature.tail ∧
    io_read_json_signature = ListOfDicts_read_json_signature.tail ∧
    io_read_npz_signature = DataFrame_read_npz_signature.tail ∧
    io_read_parquet_signature = DataFrame_read_parquet_signature.tail := ⟨rfl, rfl, rfl, rfl, rfl⟩

/-- the targets are class methods (so `Class.method(path, …)` binds `cls` and `path` is the first free parameter — the
    `.tail` above drops exactly `cls`), the aliases are plain functions (nothing wraps the call), and `path` is the one
    positional parameter of each. -/
theorem alias_targets_are_classmethods :
    DataFrame_read_csv_decorators = ["classmethod"] ∧ GeoJSON_read_decorators = ["classmethod"] ∧
    ListOfDicts_read_json_decorators = ["classmethod"] ∧ DataFrame_read_npz_decorators = ["classmethod"] ∧
    DataFrame_read_parquet_decorators = ["classmethod"] ∧
    DataFrame_read_csv_signature.head? = some "cls" ∧ GeoJSON_read_signature.head? = some "cls" ∧
    ListOfDicts_read_json_signature.head? = some "cls" ∧ DataFrame_read_npz_signature.head? = some "cls" ∧
    DataFrame_read_parquet_signature.head? = some "cls" ∧
    io_read_csv_decorators = [] ∧ io_read_geojson_decorators = [] ∧ io_read_json_decorators = [] ∧
    io_read_npz_decorators = [] ∧ io_read_parquet_decorators = [] ∧
    positional io_read_csv_signature = ["path"] ∧ positional io_read_geojson_signature = ["path"] ∧
    positional io_read_json_signature = ["path"] ∧ positional io_read_npz_signature = ["path"] ∧
    positional io_read_parquet_signature = ["path"] := by
  refine ⟨rfl, rfl, rfl, rfl, rfl, rfl, rfl, rfl, rfl, rfl, rfl, rfl, rfl, rfl, rfl, ?_, ?_, ?_, ?_, ?_⟩ <;> decide

/-- the keyword-only parameters the computed form ranges over, spelled out (a regression anchor for `kwOnly` itself). -/
theorem target_keywords :
    kwOnly DataFrame_read_csv_signature = ["encoding", "sep", "header", "columns", "dtypes"] ∧
    kwOnly GeoJSON_read_signature = ["encoding", "columns", "dtypes"] ∧ takesVarkw GeoJSON_read_signature = true ∧
    kwOnly ListOfDicts_read_json_signature = ["encoding", "keys", "types"] ∧ takesVarkw ListOfDicts_read_json_signature = true ∧
    kwOnly DataFrame_read_npz_signature = ["allow_pickle"] ∧ takesVarkw DataFrame_read_npz_signature = false ∧
    kwOnly DataFrame_read_parquet_signature = ["columns", "dtypes"] ∧ takesVarkw DataFrame_read_parquet_signature = false ∧
    takesVarkw DataFrame_read_csv_signature = false := by
  refine ⟨?_, ?_, ?_, ?_, ?_, ?_, ?_, ?_, ?_, ?_⟩ <;> decide

/-- each alias makes exactly one call. -/
theorem alias_call_orders :
    io_read_csv_call_order = ["DataFrame.read_csv"] ∧ io_read_geojson_call_order = ["GeoJSON.read"] ∧
    io_read_json_call_order = ["ListOfDicts.read_json"] ∧ io_read_npz_call_order = ["DataFrame.read_npz"] ∧
    io_read_parquet_call_order = ["DataFrame.read_parquet"] := ⟨rfl, rfl, rfl, rfl, rfl⟩

/-- **format_alias_doc as written**: the TARGET's docstring first (unchanged), a blank line, eight spaces (the indentation
    of a method docstring, so that the note is part of the same reST block), then the note naming the alias by `__name__`
    and the target by `__qualname__` — in that order (`{}` filled positionally: alias first). -/
theorem format_alias_doc_code (truth : Term → Bool) :
    (util_format_alias_doc truth =
      let fmt (t : Term) := Term.app "format" [t, Term.sym "", Term.int (-1)]
      Out.ret [] (Term.app "Add"
        [Term.app "fstring" [fmt (Term.app ".__doc__" [Term.sym "target"]), Term.sym "'\\n\\n'", fmt (Term.app "Mult" [Term.sym "' '", Term.int 8])],
         Term.app ".format" [Term.sym "'.. note:: :func:`{}` is a convenience alias for :meth:`{}`.'",
           Term.app ".__name__" [Term.sym "alias"], Term.app ".__qualname__" [Term.sym "target"]]])) ∧
    util_format_alias_doc_signature = ["alias", "target"] := ⟨rfl, rfl⟩

end DI.Tie.C14

/-
  Proofs/TieC10.lean — refinement obligations over `Generated/CodeC10.lean`, the translation of the
  *current* source of the `Vector.na_value` and `Vector.na_dtype` decision chains.  The dtype predicates
  are interpreted as NumPy defines them (`dtypeTruth`: note that `np.issubdtype(timedelta64, np.integer)`
  holds, so `is_integer()` is true of a timedelta vector and the *order* of the tests matters); under
  that interpretation the chains return the model's `naOfClass`, and the class of `na_dtype` holds that
  value as its own missing value ("a vector cast to its na_dtype can hold its na_value as missing").
-/
import Generated.CodeC10
import Model.Construct

namespace DI.Tie.C10

open DI DI.Py DI.Gen DI.Construct

/-- NumPy's answer to the dtype predicates of `dataiter/vector.py` for a vector of class `c`. -/
def dtypeTruth (c : DClass) : Term → Bool
  | .app ".is_datetime" [.sym "self"] => c == .date || c == .datetime
  | .app ".is_timedelta" [.sym "self"] => c == .timedelta
  | .app ".is_float" [.sym "self"] => c == .float
  | .app ".is_integer" [.sym "self"] => c == .int || c == .timedelta
  | .app ".is_string" [.sym "self"] => c == .str
  | .app "._is_string_fixed" [.sym "self"] => c == .ustr
  | .app ".is_boolean" [.sym "self"] => c == .bool
  | .app ".is_bytes" [.sym "self"] => c == .bytes
  | .app ".is_object" [.sym "self"] => c == .object
  | _ => false

/-- the missing value a returned expression denotes. -/
def decodeNa : Out → Option NaVal
  | .ret [] (.app "np.datetime64" [.sym "'NaT'"]) => some .nat
  | .ret [] (.app "np.timedelta64" [.sym "'NaT'"]) => some .nat
  | .ret [] (.sym "np.nan") => some .nan
  | .ret [] (.sym "dtypes.string.na_object") => some .emptyStr
  | .ret [] (.sym "None") => some .pyNone
  | _ => none

/-- the dtype class a returned expression of `na_dtype` denotes for a vector of class `c`. -/
def decodeDtype (c : DClass) : Out → Option DClass
  | .ret [] (.app ".dtype" [.sym "self"]) => some c
  | .ret [] (.sym "float") => some .float
  | .ret [] (.sym "object") => some .object
  | _ => none

/-- `Vector.na_value` as written is the model's `naOfClass`, for every dtype class. -/
theorem na_value_refines (c : DClass) :
    decodeNa (Vector_na_value (dtypeTruth c)) = some (naOfClass c) := by
  cases c <;> simp [Vector_na_value, dtypeTruth, decodeNa, naOfClass]

/-- `Vector.na_dtype` as written: the same dtype for float / string / date / datetime / timedelta,
    float for integers, object for everything else. -/
theorem na_dtype_refines (c : DClass) :
    decodeDtype c (Vector_na_dtype (dtypeTruth c)) = some (match c with
      | .int => .float
      | .float | .str | .ustr | .date | .datetime | .timedelta => c
      | _ => .object) := by
  cases c <;> simp [Vector_na_dtype, dtypeTruth, decodeDtype]

/-- **a vector cast to its na_dtype can hold its na_value as missing**: the missing value of the
    `na_dtype` class is the vector's own `na_value`, for every dtype class. -/
theorem na_dtype_holds_na_value (c d : DClass)
    (h : decodeDtype c (Vector_na_dtype (dtypeTruth c)) = some d) :
    decodeNa (Vector_na_value (dtypeTruth d)) = decodeNa (Vector_na_value (dtypeTruth c)) := by
  rw [na_dtype_refines] at h
  cases c <;> simp at h <;> subst h <;> simp [na_value_refines, naOfClass]

end DI.Tie.C10

/-
  Proofs/TieC10.lean — refinement obligations over `Generated/CodeC10.lean`, the translation of the
  *current* source of the `Vector.na_value` and `Vector.na_dtype` decision chains.  The dtype predicates
  are interpreted as NumPy defines them (`dtypeTruth`: note that `np.issubdtype(timedelta64, np.integer)`
  holds, so `is_integer()` is true of a timedelta vector and the *order* of the tests matters); under
  that interpretation the chains return the model's `naOfClass`, and the class of `na_dtype` holds that
  value as its own missing value ("a vector cast to its na_dtype can hold its na_value as missing").
-/
import Generated.CodeC10
import Model.Construct

namespace DI.Tie.C10

open DI DI.Py DI.Gen DI.Construct

/-- NumPy's answer to the dtype predicates of `dataiter/vector.py` for a vector of class `c`. -/
def dtypeTruth (c : DClass) : Term → Bool
  | .app ".is_datetime" [.sym "self"] => c == .date || c == .datetime
  | .app ".is_timedelta" [.sym "self"] => c == .timedelta
  | .app ".is_float" [.sym "self"] => c == .float
  | .app ".is_integer" [.sym "self"] => c == .int || c == .timedelta
  | .app ".is_string" [.sym "self"] => c == .str
  | .app "._is_string_fixed" [.sym "self"] => c == .ustr
  | .app ".is_boolean" [.sym "self"] => c == .bool
  | .app ".is_bytes" [.sym "self"] => c == .bytes
  | .app ".is_object" [.sym "self"] => c == .object
  | _ => false

/-- the missing value a returned expression denotes. -/
def decodeNa : Out → Option NaVal
  | .ret [] (.app "np.datetime64" [.sym "'NaT'"]) => some .nat
  | .ret [] (.app "np.timedelta64" [.sym "'NaT'"]) => some .nat
  | .ret [] (.sym "np.nan") => some .nan
  | .ret [] (.sym "dtypes.string.na_object") => some .emptyStr
  | .ret [] (.sym "None") => some .pyNone
  | _ => none

/-- the dtype class a returned expression of `na_dtype` denotes for a vector of class `c`. -/
def decodeDtype (c : DClass) : Out → Option DClass
  | .ret [] (.app ".dtype" [.sym "self"]) => some c
  | .ret [] (.sym "float") => some .float
  | .ret [] (.sym "object") => some .object
  | _ => none

/-- `Vector.na_value` as written is the model's `naOfClass`, for every dtype class. -/
theorem na_value_refines (c : DClass) :
    decodeNa (Vector_na_value (dtypeTruth c)) = some (naOfClass c) := by
  cases c <;> simp [Vector_na_value, dtypeTruth, decodeNa, naOfClass]

/-- `Vector.na_dtype` as written: the same dtype for float / string / date / datetime / timedelta,
    float for integers, object for everything else. -/
theorem na_dtype_refines (c : DClass) :
    decodeDtype c (Vector_na_dtype (dtypeTruth c)) = some (match c with
      | .int => .float
      | .float | .str | .ustr | .date | .datetime | .timedelta => c
      | _ => .object) := by
  cases c <;> simp [Vector_na_dtype, dtypeTruth, decodeDtype]

/-- **a vector cast to its na_dtype can hold its na_value as missing**: the missing value of the
    `na_dtype` class is the vector's own `na_value`, for every dtype class. -/
theorem na_dtype_holds_na_value (c d : DClass)
    (h : decodeDtype c (Vector_na_dtype (dtypeTruth c)) = some d) :
    decodeNa (Vector_na_value (dtypeTruth d)) = decodeNa (Vector_na_value (dtypeTruth c)) := by
  rw [na_dtype_refines] at h
  cases c <;> simp at h <;> subst h <;> simp [na_value_refines, naOfClass]

/-! ### `is_na`, `drop_na`, `tolist`, `equal` -/

/-- the elementwise test `is_na` applies. -/
inductive NaTest where
  | isnat | isnan | eqEmpty | isNone
  deriving Repr, DecidableEq

def decodeTest : Out → Option NaTest
  | .ret [] (.app "np.isnat" [.sym "self"]) => some .isnat
  | .ret [] (.app "np.isnan" [.sym "self"]) => some .isnan
  | .ret [] (.app "Eq" [.sym "self", .sym "dtypes.string.na_object"]) => some .eqEmpty
  | .ret [] (.app ".fast" [.sym "self", .app "ListComp" [.app "Is" [.sym "x", .sym "None"],
      .app "in" [.sym "x", .sym "self", .app "if" []]], .sym "bool"]) => some .isNone     -- [x is None for x in self]
  | _ => none

/-- which missing value a test recognises. -/
def NaTest.recognises : NaTest → NaVal
  | .isnat => .nat | .isnan => .nan | .eqEmpty => .emptyStr | .isNone => .pyNone

/-- `Vector.is_na` as written: NaT test for date / datetime / timedelta, NaN test for float, comparison with
    the blank string for *both* string dtypes (StringDType and fixed-width `<U`), `is None` otherwise. -/
theorem is_na_refines (c : DClass) :
    decodeTest (Vector_is_na (dtypeTruth c)) = some (match c with
      | .date | .datetime | .timedelta => .isnat
      | .float => .isnan
      | .str | .ustr => .eqEmpty
      | _ => .isNone) := by
  cases c <;> simp [Vector_is_na, dtypeTruth, decodeTest]

/-- **is_na flags exactly the vector's own missing value**: for every dtype class that can hold its missing
    value (all but int / bool / bytes, whose `na_dtype` is another class), the test `is_na` applies recognises
    precisely `na_value` — the two decision chains are coherent. -/
theorem is_na_recognises_na_value (c : DClass) (t : NaTest)
    (hself : decodeDtype c (Vector_na_dtype (dtypeTruth c)) = some c)
    (ht : decodeTest (Vector_is_na (dtypeTruth c)) = some t) :
    decodeNa (Vector_na_value (dtypeTruth c)) = some t.recognises := by
  rw [na_dtype_refines] at hself
  rw [is_na_refines] at ht
  cases c <;> simp at hself ht <;> subst ht <;> simp [na_value_refines, naOfClass, NaTest.recognises]

/-- `drop_na` keeps exactly the positions `is_na` does not flag, in order, as a copy. -/
theorem drop_na_normal_form (truth : Term → Bool) :
    Vector_drop_na truth = Out.ret [] (Term.app ".copy"
      [Term.app "getitem" [Term.sym "self", Term.app "~" [Term.app ".is_na" [Term.sym "self"]]]]) := rfl

/-- `tolist` puts None exactly where `is_na` flags. -/
theorem tolist_normal_form (truth : Term → Bool) :
    Vector_tolist truth = Out.ret [] (Term.app ".tolist" [Term.app "np.where" [Term.app ".is_na" [Term.sym "self"], Term.sym "None", Term.sym "self"]]) := rfl

/-- `equal` as written: False unless the other is a Vector of the same length with the same kind of missing
    value; otherwise "same missing positions and equal values at the non-missing positions" — missing values
    equal each other and nothing else, which makes it an equivalence (`C10.equal_is_equivalence`). -/
theorem equal_normal_form (truth : Term → Bool) (n m : Int) :
    Vector_equal truth n m =
      if truth (Term.app "isinstance" [Term.sym "other", Term.sym "Vector"]) && decide (n = m) &&
         truth (Term.app "Eq" [Term.app "str" [Term.app ".na_value" [Term.sym "self"]],
                               Term.app "str" [Term.app ".na_value" [Term.sym "other"]]])
      then Out.ret [] (Term.app "And"
        [Term.app "np.all" [Term.app "Eq" [Term.app ".is_na" [Term.sym "self"], Term.app ".is_na" [Term.sym "other"]]],
         Term.app "np.all" [Term.app "Eq"
           [Term.app "getitem" [Term.sym "self", Term.app "~" [Term.app ".is_na" [Term.sym "self"]]],
            Term.app "getitem" [Term.sym "other", Term.app "~" [Term.app ".is_na" [Term.sym "other"]]]]]])
      else Out.ret [] (Term.sym "False") := by
  unfold Vector_equal
  cases truth (Term.app "isinstance" [Term.sym "other", Term.sym "Vector"]) <;>
    by_cases h : n = m <;>
    cases truth (Term.app "Eq" [Term.app "str" [Term.app ".na_value" [Term.sym "self"]],
                               Term.app "str" [Term.app ".na_value" [Term.sym "other"]]]) <;> simp [h]

end DI.Tie.C10

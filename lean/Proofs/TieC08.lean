/-
  Proofs/TieC08.lean — obligation over `Generated/CodeC08.lean`, the translation of the *current* source
  of `aggregate.use_numba`: acceleration is chosen iff `dataiter.USE_NUMBA` and the column dtype is a
  sub-dtype of exactly bool / datetime64 / floating / integer — the classes property C08 names as
  eligible (and the ones the Numba kernel model covers).
-/
import Generated.CodeC08

namespace DI.Tie.C08

open DI.Py DI.Gen

def sub (cls : String) : Term := Term.app "np.issubdtype" [Term.app ".dtype" [Term.sym "x"], Term.sym cls]

/-- the eligibility test as written. -/
theorem use_numba_eligibility (truth : Term → Bool) :
    aggregate_use_numba truth = Out.ret [] (Term.app "And" [Term.sym "dataiter.USE_NUMBA",
      Term.app "Or" [sub "np.bool_", sub "np.datetime64", sub "np.floating", sub "np.integer"]]) := rfl

end DI.Tie.C08

/-
  Proofs/TieC08.lean — obligation over `Generated/CodeC08.lean`, the translation of the *current* source
  of `aggregate.use_numba`.  With NumPy's sub-dtype facts as the interpretation (`subTruth`; note that
  `timedelta64` is a sub-dtype of `integer`), acceleration is chosen exactly for boolean, integer, float,
  date and datetime columns — the classes property C08 names as eligible and the ones the Numba kernel
  model covers — and never for timedelta, string or object columns.
-/
import Generated.CodeC08
import Model.Construct

namespace DI.Tie.C08

open DI.Py DI.Gen DI.Construct

def sub (cls : String) : Term := Term.app "np.issubdtype" [Term.app ".dtype" [Term.sym "x"], Term.sym cls]

/-- `np.issubdtype(x.dtype, ·)` for a column of class `c`, and `dataiter.USE_NUMBA = True`. -/
def subTruth (c : DClass) : Term → Bool
  | .sym "dataiter.USE_NUMBA" => true
  | .app "np.issubdtype" [.app ".dtype" [.sym "x"], .sym "np.bool_"] => c == .bool
  | .app "np.issubdtype" [.app ".dtype" [.sym "x"], .sym "np.datetime64"] => c == .date || c == .datetime
  | .app "np.issubdtype" [.app ".dtype" [.sym "x"], .sym "np.floating"] => c == .float
  | .app "np.issubdtype" [.app ".dtype" [.sym "x"], .sym "np.integer"] => c == .int || c == .timedelta
  | .app "np.issubdtype" [.app ".dtype" [.sym "x"], .sym "np.timedelta64"] => c == .timedelta
  | .app "np.issubdtype" [.app ".dtype" [.sym "x"], .sym "np.str_"] => c == .ustr
  | .app "np.issubdtype" [.app ".dtype" [.sym "x"], .sym "np.object_"] => c == .object
  | _ => false

/-- the value of the returned Boolean expression `switch and (t1 or t2 or …) and not t`. -/
def eligible (truth : Term → Bool) : Out → Option Bool
  | .ret [] (.app "And" [u, .app "Or" xs, .app "not" [t]]) => some (truth u && xs.any truth && !truth t)
  | _ => none

/-- the eligibility test as written. -/
theorem use_numba_shape (truth : Term → Bool) :
    aggregate_use_numba truth = Out.ret [] (Term.app "And" [Term.sym "dataiter.USE_NUMBA",
      Term.app "Or" [sub "np.bool_", sub "np.datetime64", sub "np.floating", sub "np.integer"],
      Term.app "not" [sub "np.timedelta64"]]) := rfl

/-- **eligibility**: with the switch on, exactly boolean, integer, float, date and datetime columns take
    the Numba path. -/
theorem use_numba_eligibility (c : DClass) :
    eligible (subTruth c) (aggregate_use_numba (subTruth c)) =
      some (c == .bool || c == .int || c == .float || c == .date || c == .datetime) := by
  cases c <;> simp [aggregate_use_numba, eligible, subTruth] <;> decide

/-- with the switch off nothing takes the Numba path. -/
theorem use_numba_off (truth : Term → Bool) (h : truth (Term.sym "dataiter.USE_NUMBA") = false) :
    eligible truth (aggregate_use_numba truth) = some false := by
  simp [aggregate_use_numba, eligible, h]

/-! ### the duplicated kernels: the Numba versions have the SAME shape as the Python ones

  `groupScan` (below, the same scan as `Tie.C07.groupScan`, restated here so that C08's obligations need only C08's
  regenerated file) is instantiated twice in the source: with `x.is_na()` / `yield` (Python) and with `is_na_numba(x)` /
  `out.append` (Numba).  What differs between the two paths is therefore exactly: the missing-value test, and NumPy's
  functions as compiled by Numba. -/

def groupScan (isNa emit : Term → Term) : Term :=
  Term.app "for" [Term.sym "j", Term.app "range" [Term.int 1, Term.app "Add" [Term.app "len" [Term.sym "x"], Term.int 1]], Term.app "block"
    [Term.app "if" [Term.app "And" [Term.app "Lt" [Term.sym "j", Term.app "len" [Term.sym "x"]],
        Term.app "Eq" [Term.app "getitem" [Term.sym "group", Term.sym "j"], Term.app "getitem" [Term.sym "group", Term.sym "i"]]],
      Term.app "block" [Term.sym "continue"], Term.app "block" []],
     Term.app "assign" [Term.sym "xij", Term.app "getitem" [Term.sym "x", Term.app "slice" [Term.sym "i", Term.sym "j"]]],
     Term.app "if" [Term.sym "drop_na", Term.app "block" [Term.app "assign" [Term.sym "xij",
        Term.app "getitem" [Term.sym "xij", Term.app "~" [isNa (Term.sym "xij")]]]], Term.app "block" []],
     emit (Term.sym "xij"),
     Term.app "assign" [Term.sym "i", Term.sym "j"]],
    Term.app "init" [Term.sym "i", Term.int 0]]

/-- the Numba group scan: the same cut into runs, the same place of the NA drop; the runs are collected into a list. -/
theorem yield_groups_numba_code (truth : Term → Bool) :
    agg_yield_groups_numba truth =
      Out.ret [groupScan (fun r => Term.app "is_na_numba" [r]) (fun r => Term.app ".append" [Term.app "list" [], r])] (Term.app "list" []) := rfl

/-- `for xg in yield_groups_numba(...): out.append(<value xg>)`; the kernel returns `out`. -/
def perGroupNumba (value : Term) : Out :=
  Out.ret [Term.app "for" [Term.sym "xg", Term.app "yield_groups_numba" [Term.sym "x", Term.sym "group", Term.sym "drop_na"],
    Term.app "block" [Term.app ".append" [Term.app "list" [], value]]]] (Term.app "list" [])

/-- count_unique under Numba (since fix fd6a701): per run, the number of distinct NON-missing elements — `np.unique` sorts, and
    NaN / NaT compare false to everything, so they must not reach it — plus the number of missing elements, each counting as an
    element of its own: `Numba.countUniqueNumba`, and what `len(set(xg))` gives on the Python path for float / datetime columns. -/
theorem count_unique_numba_code (truth : Term → Bool) :
    agg_count_unique_apply_numba truth =
      Out.ret [Term.app "for" [Term.sym "xg", Term.app "yield_groups_numba" [Term.sym "x", Term.sym "group", Term.sym "drop_na"],
        Term.app "block" [Term.app "assign" [Term.sym "na", Term.app "is_na_numba" [Term.sym "xg"]],
          Term.app ".append" [Term.app "list" [],
            Term.app "Add" [Term.app "len" [Term.app "np.unique" [Term.app "getitem" [Term.sym "xg", Term.app "~" [Term.sym "na"]]]],
                            Term.app ".sum" [Term.sym "na"]]]]]] (Term.app "list" []) := rfl

theorem quantile_numba_code (truth : Term → Bool) :
    agg_quantile_apply_numba truth = perGroupNumba (Term.app "ifexp" [Term.app "GtE" [Term.app "len" [Term.sym "xg"], Term.int 1],
      Term.app "np.quantile" [Term.sym "xg", Term.sym "q"], Term.sym "np.nan"]) := rfl

/-- nth under Numba: the element at `index` when `0 <= index < len` or `-len <= index < 0` — the two ranges in which Python's
    `xg[index]` does not raise — None otherwise: the same function of (run, index) as the Python kernel's try / except. -/
theorem nth_numba_code (truth : Term → Bool) :
    agg_nth_apply_numba truth = Out.ret [Term.app "for" [Term.sym "xg", Term.app "yield_groups_numba" [Term.sym "x", Term.sym "group", Term.sym "drop_na"],
      Term.app "block" [Term.app "if" [Term.app "Or" [Term.app "LtE/Lt" [Term.int 0, Term.sym "index", Term.app "len" [Term.sym "xg"]],
          Term.app "LtE/Lt" [Term.app "neg" [Term.app "len" [Term.sym "xg"]], Term.sym "index", Term.int 0]],
        Term.app "block" [Term.app ".append" [Term.app "list" [], Term.app "getitem" [Term.sym "xg", Term.sym "index"]]],
        Term.app "block" [Term.app ".append" [Term.app "list" [], Term.sym "None"]]]]]] (Term.app "list" []) := rfl

/-- mode under Numba: for EVERY size of run, count for each position how many elements equal it and take the element at
    the FIRST position with the greatest count (`np.argmax`): most common, ties by first occurrence in the run's order —
    the tie rule of `statistics.mode`; None for an empty run. -/
theorem mode_numba_code (truth : Term → Bool) :
    agg_mode_apply_numba truth = Out.ret [Term.app "for" [Term.sym "xg", Term.app "yield_groups_numba" [Term.sym "x", Term.sym "group", Term.sym "drop_na"],
      Term.app "block" [Term.app "if" [Term.app "Gt" [Term.app "len" [Term.sym "xg"], Term.int 0],
        Term.app "block"
          [Term.app "assign" [Term.sym "ng", Term.app "np.full" [Term.app "len" [Term.sym "xg"], Term.int 0]],
           Term.app "for" [Term.sym "i", Term.app "range" [Term.app "len" [Term.sym "xg"]], Term.app "block"
             [Term.app "for" [Term.sym "j", Term.app "range" [Term.app "len" [Term.sym "xg"]], Term.app "block"
               [Term.app "if" [Term.app "Eq" [Term.app "getitem" [Term.sym "xg", Term.sym "j"], Term.app "getitem" [Term.sym "xg", Term.sym "i"]],
                  Term.app "block" [Term.app "store" [Term.app "getitem" [Term.sym "ng", Term.sym "i"],
                    Term.app "Add=" [Term.app "getitem" [Term.sym "ng", Term.sym "i"], Term.int 1]]], Term.app "block" []]]]]],
           Term.app ".append" [Term.app "list" [], Term.app "getitem" [Term.sym "xg", Term.app "np.argmax" [Term.sym "ng"]]]],
        Term.app "block" [Term.app ".append" [Term.app "list" [], Term.sym "None"]]]]]] (Term.app "list" []) := rfl

/-- the generic Numba kernel: the same guard (`len(xg) >= nrequired`, after the drop) and the same default as `generic`. -/
theorem generic_numba_code (truth : Term → Bool) :
    agg_generic_numba truth = Out.ret [] (Term.app "local-def" [Term.app "def"
      [Term.app "decorator" [Term.app "njit" [Term.app "=cache" [Term.sym "dataiter.USE_NUMBA_CACHE"]]], Term.sym "aggregate",
       Term.app "params" [Term.sym "x", Term.sym "group", Term.sym "drop_na", Term.sym "default", Term.sym "nrequired"],
       Term.app "block" [Term.app "assign" [Term.sym "out", Term.app "list" []],
         Term.app "for" [Term.sym "xg", Term.app "yield_groups_numba" [Term.sym "x", Term.sym "group", Term.sym "drop_na"],
           Term.app "block" [Term.app ".append" [Term.sym "out", Term.app "ifexp" [Term.app "GtE" [Term.app "len" [Term.sym "xg"], Term.sym "nrequired"],
             Term.app "function" [Term.sym "xg"], Term.sym "default"]]]],
         Term.app "return" [Term.sym "out"]]]]) := rfl

/-- the Numba missing-value test is element-wise (`is_na_item_numba` per element, dispatched on the element type). -/
theorem is_na_numba_code (truth : Term → Bool) :
    agg_is_na_numba truth =
      let na := Term.app "np.full" [Term.app "len" [Term.sym "x"], Term.sym "False"]
      Out.ret [Term.app "for" [Term.sym "i", Term.app "range" [Term.app "len" [Term.sym "x"]], Term.app "block"
        [Term.app "store" [Term.app "getitem" [na, Term.sym "i"], Term.app "is_na_item_numba" [Term.app "getitem" [Term.sym "x", Term.sym "i"]]]]]] na := rfl

/-! ### the Python kernels of the same helpers, side by side (C08 compares the two paths: both shapes are its obligations) -/

def perGroupPy (value : Term) : Term :=
  Term.app "for" [Term.sym "xg", Term.app "yield_groups" [Term.sym "x", Term.sym "group", Term.sym "drop_na"],
    Term.app "block" [Term.app "yield" [value]]]

/-- the two quantile kernels apply the SAME expression to a run (`np.quantile(xg, q)`, NaN for an empty run); the two
    count_unique kernels differ only in `len(set(xg))` vs `len(np.unique(xg))`; the two scans are one scan. -/
theorem python_kernels_same_shape (truth : Term → Bool) :
    agg_quantile_apply_py truth = Out.fall [perGroupPy (Term.app "ifexp" [Term.app "GtE" [Term.app "len" [Term.sym "xg"], Term.int 1],
      Term.app "np.quantile" [Term.sym "xg", Term.sym "q"], Term.sym "np.nan"])] ∧
    agg_count_unique_apply_py truth = Out.fall [perGroupPy (Term.app "len" [Term.app "set()" [Term.sym "xg"]])] ∧
    agg_yield_groups_py truth = Out.fall [groupScan (fun r => Term.app ".is_na" [r]) (fun r => Term.app "yield" [r])] ∧
    agg_generic_py truth = Out.ret [] (Term.app "local-def" [Term.app "def" [Term.app "decorator" [Term.sym "deco.listify"], Term.sym "aggregate",
      Term.app "params" [Term.sym "x", Term.sym "group", Term.sym "drop_na", Term.sym "default", Term.sym "nrequired"],
      Term.app "block" [perGroupPy (Term.app "ifexp" [Term.app "GtE" [Term.app "len" [Term.sym "xg"], Term.sym "nrequired"],
        Term.app "function" [Term.sym "xg", Term.app "=**" [Term.sym "kwargs"]], Term.sym "default"])]]]) := ⟨rfl, rfl, rfl, rfl⟩

end DI.Tie.C08

/-
  Proofs/TieC08.lean — obligation over `Generated/CodeC08.lean`, the translation of the *current* source
  of `aggregate.use_numba`.  With NumPy's sub-dtype facts as the interpretation (`subTruth`; note that
  `timedelta64` is a sub-dtype of `integer`), acceleration is chosen exactly for boolean, integer, float,
  date and datetime columns — the classes property C08 names as eligible and the ones the Numba kernel
  model covers — and never for timedelta, string or object columns.
-/
import Generated.CodeC08
import Model.Construct

namespace DI.Tie.C08

open DI.Py DI.Gen DI.Construct

def sub (cls : String) : Term := Term.app "np.issubdtype" [Term.app ".dtype" [Term.sym "x"], Term.sym cls]

/-- `np.issubdtype(x.dtype, ·)` for a column of class `c`, and `dataiter.USE_NUMBA = True`. -/
def subTruth (c : DClass) : Term → Bool
  | .sym "dataiter.USE_NUMBA" => true
  | .app "np.issubdtype" [.app ".dtype" [.sym "x"], .sym "np.bool_"] => c == .bool
  | .app "np.issubdtype" [.app ".dtype" [.sym "x"], .sym "np.datetime64"] => c == .date || c == .datetime
  | .app "np.issubdtype" [.app ".dtype" [.sym "x"], .sym "np.floating"] => c == .float
  | .app "np.issubdtype" [.app ".dtype" [.sym "x"], .sym "np.integer"] => c == .int || c == .timedelta
  | .app "np.issubdtype" [.app ".dtype" [.sym "x"], .sym "np.timedelta64"] => c == .timedelta
  | .app "np.issubdtype" [.app ".dtype" [.sym "x"], .sym "np.str_"] => c == .ustr
  | .app "np.issubdtype" [.app ".dtype" [.sym "x"], .sym "np.object_"] => c == .object
  | _ => false

/-- the value of the returned Boolean expression `switch and (t1 or t2 or …) and not t`. -/
def eligible (truth : Term → Bool) : Out → Option Bool
  | .ret [] (.app "And" [u, .app "Or" xs, .app "not" [t]]) => some (truth u && xs.any truth && !truth t)
  | _ => none

/-- the eligibility test as written. -/
theorem use_numba_shape (truth : Term → Bool) :
    aggregate_use_numba truth = Out.ret [] (Term.app "And" [Term.sym "dataiter.USE_NUMBA",
      Term.app "Or" [sub "np.bool_", sub "np.datetime64", sub "np.floating", sub "np.integer"],
      Term.app "not" [sub "np.timedelta64"]]) := rfl

/-- **eligibility**: with the switch on, exactly boolean, integer, float, date and datetime columns take
    the Numba path. -/
theorem use_numba_eligibility (c : DClass) :
    eligible (subTruth c) (aggregate_use_numba (subTruth c)) =
      some (c == .bool || c == .int || c == .float || c == .date || c == .datetime) := by
  cases c <;> simp [aggregate_use_numba, eligible, subTruth] <;> decide

/-- with the switch off nothing takes the Numba path. -/
theorem use_numba_off (truth : Term → Bool) (h : truth (Term.sym "dataiter.USE_NUMBA") = false) :
    eligible truth (aggregate_use_numba truth) = some false := by
  simp [aggregate_use_numba, eligible, h]

end DI.Tie.C08

/-
  Proofs/EvalC09.lean — what the REGENERATED generator bodies of `DataFrame.select` / `unselect` / `rename`
  (`Generated/CodeC09.lean`, translated from the current Python source on every run) DENOTE under the evaluator of
  `Model/PyEvalFrame.lean`, for every frame and every argument, and that this is the cell-provenance model of
  `Model/Bind.lean` (`Bind.select` / `Bind.unselect` / `Bind.rename`, the functions the theorems of `Proofs/C09.lean` are
  about) read off the receiver (`realize`: the provenance `Src.cell 0 c r` stands for row `r` of the receiver's column `c`).

  Statements only; the proofs cite `Lemmas/PyEvalFrame.lean`.  The bodies are first rewritten to their normal forms with
  the theorems of `Proofs/TieC09.lean`.  The result of a body is the list of yielded pairs; the constructor's `dict(...)`
  (`dictOfG`, of which `Bind.dictOf` is an instance) is applied where the model applies it.
-/
import Generated.CodeC09
import Proofs.TieC09
import Proofs.C09
import Lemmas.PyEvalFrame

namespace DI.Eval.C09

open DI DI.Py DI.Gen DI.PyEval DI.Tie.C09

/-- **select(*colnames)**: exactly the requested names, in the requested order, each with the receiver's WHOLE column of
    that name; a name that is not a column raises (KeyError) — nothing else does. -/
theorem select_eval (truth : Term → Bool) (env : Env) (self : Frame) (cols : List String)
    (hself : env.get? "self" = some (.frame self)) (hcols : env.get? "colnames" = some (.strs cols)) :
    runBody env (DataFrame_select truth) =
      if ∀ c ∈ cols, c ∈ names self then some (cols.map (fun c => (c, colOf self c))) else none := by
  rw [select_code]; exact run_select env self cols hself hcols

/-- the columns `select` yields are the receiver's own: for a frame with distinct names, `colOf self name` is the column
    stored under that name. -/
theorem select_columns_are_own (self : Frame) (hnd : (names self).Nodup) (p : String × List Cell) (hp : p ∈ self) :
    colOf self p.1 = p.2 := colOf_of_mem hnd hp

/-- **select = the Bind model's `select`**: after the constructor's `dict`, the yielded pairs are the model's output
    columns read off the receiver, for ANY list of names (repeated or not); the body raises exactly when the model
    rejects. -/
theorem select_refines_model (truth : Term → Bool) (env : Env) (self : Frame) (cols : List String)
    (hself : env.get? "self" = some (.frame self)) (hcols : env.get? "colnames" = some (.strs cols))
    (hrect : Rect self) :
    (runBody env (DataFrame_select truth)).map dictOfG =
      (Bind.select (shape self) cols).map (List.map (realize self)) := by
  rw [select_code]; exact run_select_model env self cols hself hcols hrect

/-- **unselect(*colnames)**: the receiver's columns, in their own order, minus the named ones — every kept column whole,
    under its own name. -/
theorem unselect_eval (truth : Term → Bool) (env : Env) (self : Frame) (cols : List String)
    (hself : env.get? "self" = some (.frame self)) (hcols : env.get? "colnames" = some (.strs cols))
    (hnd : (names self).Nodup) :
    runBody env (DataFrame_unselect truth) = some (self.filter (fun p => !cols.contains p.1)) := by
  rw [unselect_code]; exact run_unselect env self cols hself hcols hnd

/-- **unselect = the Bind model's `unselect`** read off the receiver. -/
theorem unselect_refines_model (truth : Term → Bool) (env : Env) (self : Frame) (cols : List String)
    (hself : env.get? "self" = some (.frame self)) (hcols : env.get? "colnames" = some (.strs cols))
    (hnd : (names self).Nodup) (hrect : Rect self) :
    runBody env (DataFrame_unselect truth) = some ((Bind.unselect (shape self) cols).map (realize self)) := by
  rw [unselect_eval truth env self cols hself hcols hnd, unselect_model self cols hnd hrect]

/-- **rename(**to_from_pairs)**: the same columns, whole, in the same order; column `c` under `from_to.get(c, c)` where
    `from_to` inverts ALL the pairs at once (`renameName`), so a swap `a ↔ b` exchanges the two names. -/
theorem rename_eval (truth : Term → Bool) (env : Env) (self : Frame) (tf : List (String × String))
    (hself : env.get? "self" = some (.frame self)) (htf : env.get? "to_from_pairs" = some (.sdict tf))
    (hnd : (names self).Nodup) :
    runBody env (DataFrame_rename truth) = some (self.map (fun p => (renameName tf p.1, p.2))) := by
  rw [rename_code]; exact run_rename env self tf hself htf hnd

/-- the new name is the requested one (`Lemmas/Cbind.lean`'s `renameTo`, the name `C09.rename_requested_names` is
    about) when the `from` names are distinct. -/
theorem rename_name_is_requested (tf : List (String × String)) (hfrom : (tf.map (·.2)).Nodup) (c : String) :
    renameName tf c = DI.Bind.renameTo tf c := renameName_eq_renameTo tf hfrom c

/-- **rename = the Bind model's `rename`**: after the constructor's `dict`, the yielded pairs are the model's output
    columns read off the receiver — for ANY pairs (also colliding ones, where the model and the code drop a column). -/
theorem rename_refines_model (truth : Term → Bool) (env : Env) (self : Frame) (tf : List (String × String))
    (hself : env.get? "self" = some (.frame self)) (htf : env.get? "to_from_pairs" = some (.sdict tf))
    (hnd : (names self).Nodup) (hrect : Rect self) :
    (runBody env (DataFrame_rename truth)).map dictOfG = some ((Bind.rename (shape self) tf).map (realize self)) := by
  rw [rename_eval truth env self tf hself htf hnd, ← rename_model self tf hnd hrect]; rfl

/-- a swap: `rename(a="b", b="a")` exchanges the names of the two columns and moves no value. -/
theorem rename_swap (a b : String) (hab : a ≠ b) :
    renameName [(a, b), (b, a)] a = b ∧ renameName [(a, b), (b, a)] b = a ∧
    ∀ c, c ≠ a → c ≠ b → renameName [(a, b), (b, a)] c = c := renameName_swap a b hab

/-! ### non-vacuity: a frame with 2 columns and 3 rows -/

def fr : Frame := [("a", [some (.i 1), none, some (.i 3)]), ("b", [some (.b true), some (.b false), none])]

example : Rect fr ∧ (names fr).Nodup := by decide

example : runBody (callEnv fr [("colnames", .strs ["b", "a"])]) (DataFrame_select (fun _ => false))
    = some [("b", [some (.b true), some (.b false), none]), ("a", [some (.i 1), none, some (.i 3)])] := by decide
example : runBody (callEnv fr [("colnames", .strs ["b", "z"])]) (DataFrame_select (fun _ => false)) = none := by decide
example : (Bind.select (shape fr) ["b", "a"]).map (List.map (realize fr))
    = some [("b", [some (.b true), some (.b false), none]), ("a", [some (.i 1), none, some (.i 3)])] := by decide
example : runBody (callEnv fr [("colnames", .strs ["b"])]) (DataFrame_unselect (fun _ => false))
    = some [("a", [some (.i 1), none, some (.i 3)])] := by decide
example : runBody (callEnv fr [("to_from_pairs", .sdict [("a", "b"), ("b", "a")])]) (DataFrame_rename (fun _ => false))
    = some [("b", [some (.i 1), none, some (.i 3)]), ("a", [some (.b true), some (.b false), none])] := by decide
example : runBody (callEnv fr [("to_from_pairs", .sdict [("z", "b")])]) (DataFrame_rename (fun _ => false))
    = some [("a", [some (.i 1), none, some (.i 3)]), ("z", [some (.b true), some (.b false), none])] := by decide
example : (Bind.rename (shape fr) [("a", "b"), ("b", "a")]).map (realize fr)
    = [("b", [some (.i 1), none, some (.i 3)]), ("a", [some (.b true), some (.b false), none])] := by decide

end DI.Eval.C09

/-
  Proofs/EvalC06.lean — property C06 (operations neither mutate nor alias their inputs), the CODE side: the provenance of
  every result and of every store target, read off the regenerated method bodies (`Generated/CodeCxx.lean`, written by
  `harness/py2lean.py`) by the classifier of `Model/PyEvalProv.lean`, agrees with what the site table
  (`Generated/Sites.lean`, written by the independent AST reader `harness/extract_sites.py`) records — for every
  interpretation `truth` of the library predicates, i.e. in every branch.  Statements only; proofs cite
  `Lemmas/PyEvalProv.lean`.

  The allocation rules (the trusted reading of NumPy) are the definitions R1–R9 in the header of `Model/PyEvalProv.lean`.
  `Proofs/C06.lean` proves the frame theorems GIVEN the table (`result_sites_fresh`, `stores_are_local`,
  `table_effects_clean`); `table_agrees_with_code` below says the same hypotheses hold of the regenerated code.

  NOT decided by the classifier (reported, not forced):
  * `Vector.to_strings` — the non-empty results are `self.__class__.fast(pad(strings), str)`: the data argument is the value
    of a helper call (`util.upad` or an identity lambda held in a local), `unknown` (`to_strings_result_undecided`); the table
    calls them "fresh" (its rule: any constructor call).  On the real library the result shares no memory with the receiver.
  * `DataFrame.aggregate` — the store `column[i] = default` goes into the value `function(data)` of a group-aware
    aggregation callable, `unknown` (`aggregate_store_undecided`); the table calls it "local" (its rule: a local name bound to
    an external call).  `data` is `self.sort(…)`, a delegated (fresh) frame, so the callable is never handed the receiver.
  Label differences that are not disagreements: `Vector.sort` ends in `….concat(…)` — `delegate "concat"` here, "fresh" in
  the table (every result of `concat` is fresh in the table: `agrees`); `DataFrame.copy` is `delegate "__copy__"` here and
  `__copy__` itself is `receiver` (`copy_is_shallow_in_code`), "shallow" in the table.
-/
import Model.PyEvalProv
import Model.HeapSites
import Lemmas.PyEvalProv
import Proofs.C06

namespace DI.Eval.C06

open DI.Py DI.Gen DI.Heap DI.PyEvalProv

/-! ### the classifier is not trivially "fresh" -/

example : prov (Term.sym "self") = Prov.receiver := by decide
example : prov (Term.sym "other") = Prov.argument := by decide
example : prov (Term.app "getitem" [Term.sym "self", Term.slice (some 1) none]) = Prov.receiver := by decide
example : prov (Term.app "getitem" [Term.app "getitem" [Term.sym "self", Term.sym "'x'"], Term.slice none (some 3)]) ≠ Prov.fresh := by decide
example : prov (Term.app "getitem" [Term.sym "self", Term.rows [0, 2]]) = Prov.fresh := by decide
example : prov (Term.app ".view" [Term.sym "self", Term.sym "cls"]) = Prov.receiver := by decide
example : prov (Term.app "np.asarray" [Term.sym "values"]) = Prov.argument := by decide
example : prov (Term.app ".__class__" [Term.sym "self", Term.sym "self"]) = Prov.receiver := by decide
example : prov (Term.app "Vector.fast" [Term.sym "rows", Term.sym "int"]) = Prov.argument := by decide
example : prov (Term.app ".copy" [Term.sym "self"]) = Prov.fresh := by decide
example : prov (Term.app "getitem" [Term.app ".copy" [Term.sym "self"], Term.sym "'x'"]) = Prov.unknown := by decide
example : prov (Term.app "call" [Term.sym "function", Term.sym "self"]) = Prov.unknown := by decide
/-- a mutated body is caught: `yield colname, column` instead of `column.copy()` is the receiver's column … -/
example : resultProvs (Out.fall [perColumn (fun c => c)]) = [Prov.receiver] := by decide
/-- … and `self[colname][i] = v` is a store into the receiver. -/
example : storeProvs (Out.fall [Term.app "store" [Term.app "getitem" [Term.app "getitem" [Term.sym "self", Term.sym "colname"],
    Term.sym "i"], Term.sym "v"]]) = [Prov.receiver] := by decide
/-- a store through a column of a SHALLOW copy is not called local. -/
example : storeProvs (Out.fall [Term.app "store" [Term.app "getitem" [Term.app "getitem" [Term.app ".copy" [Term.sym "self"],
    Term.sym "'x'"], Term.sym "i"], Term.sym "v"]]) = [Prov.unknown] := by decide

/-! ### the rules, for all terms -/

/-- `x.copy()` is fresh for every expression `x` (not itself a `copy=` keyword), in every environment; a view / element
    (`x[a:b]`, `x[key]`) never is. -/
theorem copy_fresh_view_not (env : Env) (x i : Term) (h : isIndexArray i = false) (hx : mayNotCopy [x] = false) :
    provIn env (Term.app ".copy" [x]) = Prov.fresh ∧ provIn env (Term.app "getitem" [x, i]) ≠ Prov.fresh ∧
    provIn env (Term.app "getitem" [x, i]) = elemOf (provIn env x) :=
  ⟨prov_copy env x hx, prov_getitem_view_ne_fresh env x i h, prov_getitem_view env x i h⟩

/-- `x.astype(dtype)` is fresh, `x.astype(dtype, copy=False)` is not: it is whatever `x` is — the receiver, when a
    conversion method writes `self.astype(dtype, copy=False)` (NumPy hands back `self` when the dtype is already right). -/
theorem astype_fresh_unless_copy_false (env : Env) (x d : Term) (h : mayNotCopy [x, d] = false) :
    provIn env (Term.app ".astype" [x, d]) = Prov.fresh ∧
    provIn env (Term.app ".astype" [x, d, Term.app "=copy" [Term.sym "False"]]) = provIn env x :=
  ⟨prov_astype env [x, d] h, prov_astype_nocopy env x d⟩

/-- a conversion written `return self.astype(bool, copy=False)` has a RECEIVER result site. -/
example : resultProvs (Out.ret [] (Term.app ".astype" [Term.sym "self", Term.sym "bool", Term.app "=copy" [Term.sym "False"]])) = [Prov.receiver] := by decide

/-- `for colname, column in self.items(): yield colname, g(column)`: exactly one result site — `g(column)` with `column`
    a column of the receiver — and no store, for every `g`. -/
theorem perColumn_one_site (g : Term → Term) :
    ∃ env : Env, env.lookup "column" = some Prov.receiver ∧
      resultProvs (Out.fall [perColumn g]) = [provIn env (g (Term.sym "column"))] ∧
      storeProvs (Out.fall [perColumn g]) = [] := perColumn_site g

/-! ### every method of the table that is regenerated: per method -/

/-- `DataFrame.filter`: in every branch, every term the regenerated body yields / returns is newly allocated. -/
theorem filter_results_fresh (truth : Term → Bool) (b : Bool) :
    ∀ p ∈ resultProvs (DataFrame_filter truth b), p = Prov.fresh := (filter_sites truth b).1

/-- `DataFrame.filter`: in every branch, every object the regenerated body stores into is one it allocated (or got from a method of
    the table) — never `self`, never a parameter. -/
theorem filter_writes_local (truth : Term → Bool) (b : Bool) :
    ∀ p ∈ storeProvs (DataFrame_filter truth b), p.isLocal = true := (filter_sites truth b).2

/-- `DataFrame.filter_out`: in every branch, every term the regenerated body yields / returns is newly allocated. -/
theorem filter_out_results_fresh (truth : Term → Bool) (b : Bool) :
    ∀ p ∈ resultProvs (DataFrame_filter_out truth b), p = Prov.fresh := (filter_out_sites truth b).1

/-- `DataFrame.filter_out`: in every branch, every object the regenerated body stores into is one it allocated (or got from a method of
    the table) — never `self`, never a parameter. -/
theorem filter_out_writes_local (truth : Term → Bool) (b : Bool) :
    ∀ p ∈ storeProvs (DataFrame_filter_out truth b), p.isLocal = true := (filter_out_sites truth b).2

/-- `DataFrame.slice`: in every branch, every term the regenerated body yields / returns is newly allocated. -/
theorem slice_results_fresh (truth : Term → Bool) (b : Bool) (c : Bool) :
    ∀ p ∈ resultProvs (DataFrame_slice truth b c), p = Prov.fresh := (slice_sites truth b c).1

/-- `DataFrame.slice`: in every branch, every object the regenerated body stores into is one it allocated (or got from a method of
    the table) — never `self`, never a parameter. -/
theorem slice_writes_local (truth : Term → Bool) (b : Bool) (c : Bool) :
    ∀ p ∈ storeProvs (DataFrame_slice truth b c), p.isLocal = true := (slice_sites truth b c).2

/-- `DataFrame.slice_off`: in every branch, every term the regenerated body yields / returns is newly allocated. -/
theorem slice_off_results_fresh (truth : Term → Bool) (b : Bool) (c : Bool) :
    ∀ p ∈ resultProvs (DataFrame_slice_off truth b c), p = Prov.fresh := (slice_off_sites truth b c).1

/-- `DataFrame.slice_off`: in every branch, every object the regenerated body stores into is one it allocated (or got from a method of
    the table) — never `self`, never a parameter. -/
theorem slice_off_writes_local (truth : Term → Bool) (b : Bool) (c : Bool) :
    ∀ p ∈ storeProvs (DataFrame_slice_off truth b c), p.isLocal = true := (slice_off_sites truth b c).2

/-- `DataFrame.sort`: in every branch, every term the regenerated body yields / returns is newly allocated. -/
theorem sort_results_fresh (truth : Term → Bool) :
    ∀ p ∈ resultProvs (DataFrame_sort truth), p = Prov.fresh := (sort_sites truth).1

/-- `DataFrame.sort`: in every branch, every object the regenerated body stores into is one it allocated (or got from a method of
    the table) — never `self`, never a parameter. -/
theorem sort_writes_local (truth : Term → Bool) :
    ∀ p ∈ storeProvs (DataFrame_sort truth), p.isLocal = true := (sort_sites truth).2

/-- `DataFrame.unique`: in every branch, every term the regenerated body yields / returns is newly allocated. -/
theorem unique_results_fresh (truth : Term → Bool) :
    ∀ p ∈ resultProvs (DataFrame_unique truth), p = Prov.fresh := (unique_sites truth).1

/-- `DataFrame.unique`: in every branch, every object the regenerated body stores into is one it allocated (or got from a method of
    the table) — never `self`, never a parameter. -/
theorem unique_writes_local (truth : Term → Bool) :
    ∀ p ∈ storeProvs (DataFrame_unique truth), p.isLocal = true := (unique_sites truth).2

/-- `DataFrame.select`: in every branch, every term the regenerated body yields / returns is newly allocated. -/
theorem select_results_fresh (truth : Term → Bool) :
    ∀ p ∈ resultProvs (DataFrame_select truth), p = Prov.fresh := (select_sites truth).1

/-- `DataFrame.select`: in every branch, every object the regenerated body stores into is one it allocated (or got from a method of
    the table) — never `self`, never a parameter. -/
theorem select_writes_local (truth : Term → Bool) :
    ∀ p ∈ storeProvs (DataFrame_select truth), p.isLocal = true := (select_sites truth).2

/-- `DataFrame.unselect`: in every branch, every term the regenerated body yields / returns is newly allocated. -/
theorem unselect_results_fresh (truth : Term → Bool) :
    ∀ p ∈ resultProvs (DataFrame_unselect truth), p = Prov.fresh := (unselect_sites truth).1

/-- `DataFrame.unselect`: in every branch, every object the regenerated body stores into is one it allocated (or got from a method of
    the table) — never `self`, never a parameter. -/
theorem unselect_writes_local (truth : Term → Bool) :
    ∀ p ∈ storeProvs (DataFrame_unselect truth), p.isLocal = true := (unselect_sites truth).2

/-- `DataFrame.rename`: in every branch, every term the regenerated body yields / returns is newly allocated. -/
theorem rename_results_fresh (truth : Term → Bool) :
    ∀ p ∈ resultProvs (DataFrame_rename truth), p = Prov.fresh := (rename_sites truth).1

/-- `DataFrame.rename`: in every branch, every object the regenerated body stores into is one it allocated (or got from a method of
    the table) — never `self`, never a parameter. -/
theorem rename_writes_local (truth : Term → Bool) :
    ∀ p ∈ storeProvs (DataFrame_rename truth), p.isLocal = true := (rename_sites truth).2

/-- `DataFrame.cbind`: in every branch, every term the regenerated body yields / returns is newly allocated. -/
theorem cbind_results_fresh (truth : Term → Bool) :
    ∀ p ∈ resultProvs (DataFrame_cbind truth), p = Prov.fresh := (cbind_sites truth).1

/-- `DataFrame.cbind`: in every branch, every object the regenerated body stores into is one it allocated (or got from a method of
    the table) — never `self`, never a parameter. -/
theorem cbind_writes_local (truth : Term → Bool) :
    ∀ p ∈ storeProvs (DataFrame_cbind truth), p.isLocal = true := (cbind_sites truth).2

/-- `DataFrame.update`: in every branch, every term the regenerated body yields / returns is newly allocated. -/
theorem update_results_fresh (truth : Term → Bool) :
    ∀ p ∈ resultProvs (DataFrame_update truth), p = Prov.fresh := (update_sites truth).1

/-- `DataFrame.update`: in every branch, every object the regenerated body stores into is one it allocated (or got from a method of
    the table) — never `self`, never a parameter. -/
theorem update_writes_local (truth : Term → Bool) :
    ∀ p ∈ storeProvs (DataFrame_update truth), p.isLocal = true := (update_sites truth).2

/-- `DataFrame.modify`: in every branch, every term the regenerated body yields / returns is newly allocated. -/
theorem modify_results_fresh (truth : Term → Bool) :
    ∀ p ∈ resultProvs (DataFrame_modify truth), p = Prov.fresh := (modify_sites truth).1

/-- `DataFrame.modify`: in every branch, every object the regenerated body stores into is one it allocated (or got from a method of
    the table) — never `self`, never a parameter. -/
theorem modify_writes_local (truth : Term → Bool) :
    ∀ p ∈ storeProvs (DataFrame_modify truth), p.isLocal = true := (modify_sites truth).2

/-- `DataFrame.rbind`: in every branch, every term the regenerated body yields / returns is newly allocated. -/
theorem rbind_results_fresh (truth : Term → Bool) :
    ∀ p ∈ resultProvs (DataFrame_rbind truth), p = Prov.fresh := (rbind_sites truth).1

/-- `DataFrame.rbind`: in every branch, every object the regenerated body stores into is one it allocated (or got from a method of
    the table) — never `self`, never a parameter. -/
theorem rbind_writes_local (truth : Term → Bool) :
    ∀ p ∈ storeProvs (DataFrame_rbind truth), p.isLocal = true := (rbind_sites truth).2

/-- `DataFrame.left_join`: in every branch, every term the regenerated body yields / returns is newly allocated. -/
theorem left_join_results_fresh (truth : Term → Bool) :
    ∀ p ∈ resultProvs (DataFrame_left_join truth), p = Prov.fresh := (left_join_sites truth).1

/-- `DataFrame.left_join`: in every branch, every object the regenerated body stores into is one it allocated (or got from a method of
    the table) — never `self`, never a parameter. -/
theorem left_join_writes_local (truth : Term → Bool) :
    ∀ p ∈ storeProvs (DataFrame_left_join truth), p.isLocal = true := (left_join_sites truth).2

/-- `DataFrame.inner_join`: in every branch, every term the regenerated body yields / returns is newly allocated. -/
theorem inner_join_results_fresh (truth : Term → Bool) :
    ∀ p ∈ resultProvs (DataFrame_inner_join truth), p = Prov.fresh := (inner_join_sites truth).1

/-- `DataFrame.inner_join`: in every branch, every object the regenerated body stores into is one it allocated (or got from a method of
    the table) — never `self`, never a parameter. -/
theorem inner_join_writes_local (truth : Term → Bool) :
    ∀ p ∈ storeProvs (DataFrame_inner_join truth), p.isLocal = true := (inner_join_sites truth).2

/-- `DataFrame.semi_join`: in every branch, every term the regenerated body yields / returns is newly allocated. -/
theorem semi_join_results_fresh (truth : Term → Bool) :
    ∀ p ∈ resultProvs (DataFrame_semi_join truth), p = Prov.fresh := (semi_join_sites truth).1

/-- `DataFrame.semi_join`: in every branch, every object the regenerated body stores into is one it allocated (or got from a method of
    the table) — never `self`, never a parameter. -/
theorem semi_join_writes_local (truth : Term → Bool) :
    ∀ p ∈ storeProvs (DataFrame_semi_join truth), p.isLocal = true := (semi_join_sites truth).2

/-- `DataFrame.anti_join`: in every branch, every term the regenerated body yields / returns is newly allocated. -/
theorem anti_join_results_fresh (truth : Term → Bool) :
    ∀ p ∈ resultProvs (DataFrame_anti_join truth), p = Prov.fresh := (anti_join_sites truth).1

/-- `DataFrame.anti_join`: in every branch, every object the regenerated body stores into is one it allocated (or got from a method of
    the table) — never `self`, never a parameter. -/
theorem anti_join_writes_local (truth : Term → Bool) :
    ∀ p ∈ storeProvs (DataFrame_anti_join truth), p.isLocal = true := (anti_join_sites truth).2

/-- `DataFrame.full_join`: in every branch, every term the regenerated body yields / returns is the result of `unselect`, a method of the table. -/
theorem full_join_results_delegated (truth : Term → Bool) :
    ∀ p ∈ resultProvs (DataFrame_full_join truth), p = Prov.delegate "unselect" := (full_join_sites truth).1

/-- `DataFrame.full_join`: in every branch, every object the regenerated body stores into is one it allocated (or got from a method of
    the table) — never `self`, never a parameter. -/
theorem full_join_writes_local (truth : Term → Bool) :
    ∀ p ∈ storeProvs (DataFrame_full_join truth), p.isLocal = true := (full_join_sites truth).2

/-- `DataFrame.sample`: in every branch, every term the regenerated body yields / returns is the result of `slice`, a method of the table. -/
theorem sample_results_delegated (truth : Term → Bool) (b : Bool) :
    ∀ p ∈ resultProvs (DataFrame_sample truth b), p = Prov.delegate "slice" := (sample_sites truth b).1

/-- `DataFrame.sample`: in every branch, every object the regenerated body stores into is one it allocated (or got from a method of
    the table) — never `self`, never a parameter. -/
theorem sample_writes_local (truth : Term → Bool) (b : Bool) :
    ∀ p ∈ storeProvs (DataFrame_sample truth b), p.isLocal = true := (sample_sites truth b).2

/-- `DataFrame.drop_na`: in every branch, every term the regenerated body yields / returns is the result of `filter_out`, a method of the table. -/
theorem drop_na_results_delegated (truth : Term → Bool) :
    ∀ p ∈ resultProvs (DataFrame_drop_na truth), p = Prov.delegate "filter_out" := (drop_na_sites truth).1

/-- `DataFrame.drop_na`: in every branch, every object the regenerated body stores into is one it allocated (or got from a method of
    the table) — never `self`, never a parameter. -/
theorem drop_na_writes_local (truth : Term → Bool) :
    ∀ p ∈ storeProvs (DataFrame_drop_na truth), p.isLocal = true := (drop_na_sites truth).2

/-- `DataFrame.count`: in every branch, every term the regenerated body yields / returns is the result of `aggregate`, a method of the table. -/
theorem count_results_delegated (truth : Term → Bool) :
    ∀ p ∈ resultProvs (DataFrame_count truth), p = Prov.delegate "aggregate" := (count_sites truth).1

/-- `DataFrame.count`: in every branch, every object the regenerated body stores into is one it allocated (or got from a method of
    the table) — never `self`, never a parameter. -/
theorem count_writes_local (truth : Term → Bool) :
    ∀ p ∈ storeProvs (DataFrame_count truth), p.isLocal = true := (count_sites truth).2

/-- `DataFrame.deepcopy`: in every branch, every term the regenerated body yields / returns is the result of `__deepcopy__`, a method of the table. -/
theorem deepcopy_results_delegated (truth : Term → Bool) :
    ∀ p ∈ resultProvs (DataFrame_deepcopy2 truth), p = Prov.delegate "__deepcopy__" := (deepcopy_sites truth).1

/-- `DataFrame.deepcopy`: in every branch, every object the regenerated body stores into is one it allocated (or got from a method of
    the table) — never `self`, never a parameter. -/
theorem deepcopy_writes_local (truth : Term → Bool) :
    ∀ p ∈ storeProvs (DataFrame_deepcopy2 truth), p.isLocal = true := (deepcopy_sites truth).2

/-- `DataFrame.copy`: in every branch, every term the regenerated body yields / returns is the result of `__copy__`, a method of the table. -/
theorem copy_results_delegated (truth : Term → Bool) :
    ∀ p ∈ resultProvs (DataFrame_copy2 truth), p = Prov.delegate "__copy__" := (copy_sites truth).1

/-- `DataFrame.copy`: in every branch, every object the regenerated body stores into is one it allocated (or got from a method of
    the table) — never `self`, never a parameter. -/
theorem copy_writes_local (truth : Term → Bool) :
    ∀ p ∈ storeProvs (DataFrame_copy2 truth), p.isLocal = true := (copy_sites truth).2

/-- `Vector.concat`: in every branch, every term the regenerated body yields / returns is newly allocated. -/
theorem vector_concat_results_fresh (truth : Term → Bool) :
    ∀ p ∈ resultProvs (Vector_concat truth), p = Prov.fresh := (vector_concat_sites truth).1

/-- `Vector.concat`: in every branch, every object the regenerated body stores into is one it allocated (or got from a method of
    the table) — never `self`, never a parameter. -/
theorem vector_concat_writes_local (truth : Term → Bool) :
    ∀ p ∈ storeProvs (Vector_concat truth), p.isLocal = true := (vector_concat_sites truth).2

/-- `Vector.range`: in every branch, every term the regenerated body yields / returns is newly allocated. -/
theorem vector_range_results_fresh (truth : Term → Bool) :
    ∀ p ∈ resultProvs (Vector_range truth), p = Prov.fresh := (vector_range_sites truth).1

/-- `Vector.range`: in every branch, every object the regenerated body stores into is one it allocated (or got from a method of
    the table) — never `self`, never a parameter. -/
theorem vector_range_writes_local (truth : Term → Bool) :
    ∀ p ∈ storeProvs (Vector_range truth), p.isLocal = true := (vector_range_sites truth).2

/-- `Vector.sample`: in every branch, every term the regenerated body yields / returns is newly allocated. -/
theorem vector_sample_results_fresh (truth : Term → Bool) (b : Bool) :
    ∀ p ∈ resultProvs (Vector_sample truth b), p = Prov.fresh := (vector_sample_sites truth b).1

/-- `Vector.sample`: in every branch, every object the regenerated body stores into is one it allocated (or got from a method of
    the table) — never `self`, never a parameter. -/
theorem vector_sample_writes_local (truth : Term → Bool) (b : Bool) :
    ∀ p ∈ storeProvs (Vector_sample truth b), p.isLocal = true := (vector_sample_sites truth b).2

/-- `Vector.map`: in every branch, every term the regenerated body yields / returns is newly allocated. -/
theorem vector_map_results_fresh (truth : Term → Bool) :
    ∀ p ∈ resultProvs (Vector_map truth), p = Prov.fresh := (vector_map_sites truth).1

/-- `Vector.map`: in every branch, every object the regenerated body stores into is one it allocated (or got from a method of
    the table) — never `self`, never a parameter. -/
theorem vector_map_writes_local (truth : Term → Bool) :
    ∀ p ∈ storeProvs (Vector_map truth), p.isLocal = true := (vector_map_sites truth).2

/-- `Vector.replace_na`: in every branch, every term the regenerated body yields / returns is newly allocated. -/
theorem vector_replace_na_results_fresh (truth : Term → Bool) :
    ∀ p ∈ resultProvs (Vector_replace_na truth), p = Prov.fresh := (vector_replace_na_sites truth).1

/-- `Vector.replace_na`: in every branch, every object the regenerated body stores into is one it allocated (or got from a method of
    the table) — never `self`, never a parameter. -/
theorem vector_replace_na_writes_local (truth : Term → Bool) :
    ∀ p ∈ storeProvs (Vector_replace_na truth), p.isLocal = true := (vector_replace_na_sites truth).2

/-- `Vector.is_na`: in every branch, every term the regenerated body yields / returns is newly allocated. -/
theorem vector_is_na_results_fresh (truth : Term → Bool) :
    ∀ p ∈ resultProvs (Vector_is_na truth), p = Prov.fresh := (vector_is_na_sites truth).1

/-- `Vector.is_na`: in every branch, every object the regenerated body stores into is one it allocated (or got from a method of
    the table) — never `self`, never a parameter. -/
theorem vector_is_na_writes_local (truth : Term → Bool) :
    ∀ p ∈ storeProvs (Vector_is_na truth), p.isLocal = true := (vector_is_na_sites truth).2

/-- `Vector.drop_na`: in every branch, every term the regenerated body yields / returns is newly allocated. -/
theorem vector_drop_na_results_fresh (truth : Term → Bool) :
    ∀ p ∈ resultProvs (Vector_drop_na truth), p = Prov.fresh := (vector_drop_na_sites truth).1

/-- `Vector.drop_na`: in every branch, every object the regenerated body stores into is one it allocated (or got from a method of
    the table) — never `self`, never a parameter. -/
theorem vector_drop_na_writes_local (truth : Term → Bool) :
    ∀ p ∈ storeProvs (Vector_drop_na truth), p.isLocal = true := (vector_drop_na_sites truth).2

/-- `Vector.as_boolean`: in every branch, every term the regenerated body yields / returns is newly allocated. -/
theorem vector_as_boolean_results_fresh (truth : Term → Bool) :
    ∀ p ∈ resultProvs (Vector_as_boolean truth), p = Prov.fresh := (vector_as_boolean_sites truth).1

/-- `Vector.as_boolean`: in every branch, every object the regenerated body stores into is one it allocated (or got from a method of
    the table) — never `self`, never a parameter. -/
theorem vector_as_boolean_writes_local (truth : Term → Bool) :
    ∀ p ∈ storeProvs (Vector_as_boolean truth), p.isLocal = true := (vector_as_boolean_sites truth).2

/-- `Vector.as_bytes`: in every branch, every term the regenerated body yields / returns is newly allocated. -/
theorem vector_as_bytes_results_fresh (truth : Term → Bool) :
    ∀ p ∈ resultProvs (Vector_as_bytes truth), p = Prov.fresh := (vector_as_bytes_sites truth).1

/-- `Vector.as_bytes`: in every branch, every object the regenerated body stores into is one it allocated (or got from a method of
    the table) — never `self`, never a parameter. -/
theorem vector_as_bytes_writes_local (truth : Term → Bool) :
    ∀ p ∈ storeProvs (Vector_as_bytes truth), p.isLocal = true := (vector_as_bytes_sites truth).2

/-- `Vector.as_date`: in every branch, every term the regenerated body yields / returns is newly allocated. -/
theorem vector_as_date_results_fresh (truth : Term → Bool) :
    ∀ p ∈ resultProvs (Vector_as_date truth), p = Prov.fresh := (vector_as_date_sites truth).1

/-- `Vector.as_date`: in every branch, every object the regenerated body stores into is one it allocated (or got from a method of
    the table) — never `self`, never a parameter. -/
theorem vector_as_date_writes_local (truth : Term → Bool) :
    ∀ p ∈ storeProvs (Vector_as_date truth), p.isLocal = true := (vector_as_date_sites truth).2

/-- `Vector.as_datetime`: in every branch, every term the regenerated body yields / returns is newly allocated. -/
theorem vector_as_datetime_results_fresh (truth : Term → Bool) :
    ∀ p ∈ resultProvs (Vector_as_datetime truth), p = Prov.fresh := (vector_as_datetime_sites truth).1

/-- `Vector.as_datetime`: in every branch, every object the regenerated body stores into is one it allocated (or got from a method of
    the table) — never `self`, never a parameter. -/
theorem vector_as_datetime_writes_local (truth : Term → Bool) :
    ∀ p ∈ storeProvs (Vector_as_datetime truth), p.isLocal = true := (vector_as_datetime_sites truth).2

/-- `Vector.as_float`: in every branch, every term the regenerated body yields / returns is newly allocated. -/
theorem vector_as_float_results_fresh (truth : Term → Bool) :
    ∀ p ∈ resultProvs (Vector_as_float truth), p = Prov.fresh := (vector_as_float_sites truth).1

/-- `Vector.as_float`: in every branch, every object the regenerated body stores into is one it allocated (or got from a method of
    the table) — never `self`, never a parameter. -/
theorem vector_as_float_writes_local (truth : Term → Bool) :
    ∀ p ∈ storeProvs (Vector_as_float truth), p.isLocal = true := (vector_as_float_sites truth).2

/-- `Vector.as_integer`: in every branch, every term the regenerated body yields / returns is newly allocated. -/
theorem vector_as_integer_results_fresh (truth : Term → Bool) :
    ∀ p ∈ resultProvs (Vector_as_integer truth), p = Prov.fresh := (vector_as_integer_sites truth).1

/-- `Vector.as_integer`: in every branch, every object the regenerated body stores into is one it allocated (or got from a method of
    the table) — never `self`, never a parameter. -/
theorem vector_as_integer_writes_local (truth : Term → Bool) :
    ∀ p ∈ storeProvs (Vector_as_integer truth), p.isLocal = true := (vector_as_integer_sites truth).2

/-- `Vector.as_object`: in every branch, every term the regenerated body yields / returns is newly allocated. -/
theorem vector_as_object_results_fresh (truth : Term → Bool) :
    ∀ p ∈ resultProvs (Vector_as_object truth), p = Prov.fresh := (vector_as_object_sites truth).1

/-- `Vector.as_object`: in every branch, every object the regenerated body stores into is one it allocated (or got from a method of
    the table) — never `self`, never a parameter. -/
theorem vector_as_object_writes_local (truth : Term → Bool) :
    ∀ p ∈ storeProvs (Vector_as_object truth), p.isLocal = true := (vector_as_object_sites truth).2

/-- `Vector.as_string`: in every branch, every term the regenerated body yields / returns is newly allocated. -/
theorem vector_as_string_results_fresh (truth : Term → Bool) :
    ∀ p ∈ resultProvs (Vector_as_string truth), p = Prov.fresh := (vector_as_string_sites truth).1

/-- `Vector.as_string`: in every branch, every object the regenerated body stores into is one it allocated (or got from a method of
    the table) — never `self`, never a parameter. -/
theorem vector_as_string_writes_local (truth : Term → Bool) :
    ∀ p ∈ storeProvs (Vector_as_string truth), p.isLocal = true := (vector_as_string_sites truth).2

/-- `Vector.sort`: in every branch, every term the regenerated body yields / returns is the result of `concat`, a method of the table. -/
theorem vector_sort_results_delegated (truth : Term → Bool) :
    ∀ p ∈ resultProvs (Vector_sort truth), p = Prov.delegate "concat" := (vector_sort_sites truth).1

/-- `Vector.sort`: in every branch, every object the regenerated body stores into is one it allocated (or got from a method of
    the table) — never `self`, never a parameter. -/
theorem vector_sort_writes_local (truth : Term → Bool) :
    ∀ p ∈ storeProvs (Vector_sort truth), p.isLocal = true := (vector_sort_sites truth).2

/-- `Vector.rank`: in every branch, every term the regenerated body yields / returns is newly allocated. -/
theorem vector_rank_results_fresh (truth : Term → Bool) :
    ∀ p ∈ resultProvs (Vector_rank truth), p = Prov.fresh := (vector_rank_sites truth).1

/-- `Vector.rank`: in every branch, every object the regenerated body stores into is one it allocated (or got from a method of
    the table) — never `self`, never a parameter. -/
theorem vector_rank_writes_local (truth : Term → Bool) :
    ∀ p ∈ storeProvs (Vector_rank truth), p.isLocal = true := (vector_rank_sites truth).2

/-- `Vector.unique`: in every branch, every term the regenerated body yields / returns is newly allocated. -/
theorem vector_unique_results_fresh (truth : Term → Bool) :
    ∀ p ∈ resultProvs (Vector_unique truth), p = Prov.fresh := (vector_unique_sites truth).1

/-- `Vector.unique`: in every branch, every object the regenerated body stores into is one it allocated (or got from a method of
    the table) — never `self`, never a parameter. -/
theorem vector_unique_writes_local (truth : Term → Bool) :
    ∀ p ∈ storeProvs (Vector_unique truth), p.isLocal = true := (vector_unique_sites truth).2

/-- `DataFrame.head` / `tail`: delegated to `slice`, for every `n` and row count; no store. -/
theorem head_tail_results_delegated (truth : Term → Bool) (b : Bool) (d nrow n : Int) :
    resultProvs (DataFrame_head truth b d nrow n) = [Prov.delegate "slice"] ∧ storeProvs (DataFrame_head truth b d nrow n) = [] ∧
    resultProvs (DataFrame_tail truth b d nrow n) = [Prov.delegate "slice"] ∧ storeProvs (DataFrame_tail truth b d nrow n) = [] :=
  ⟨(head_sites truth b d nrow n).1, (head_sites truth b d nrow n).2, (tail_sites truth b d nrow n).1, (tail_sites truth b d nrow n).2⟩

/-- `Vector.head` / `tail`: `self[np.arange(…)].copy()` — fresh, for every `n` and length; no store. -/
theorem vector_head_tail_results_fresh (truth : Term → Bool) (b : Bool) (d len n : Int) :
    resultProvs (Vector_head truth b d len n) = [Prov.fresh] ∧ storeProvs (Vector_head truth b d len n) = [] ∧
    resultProvs (Vector_tail truth b d len n) = [Prov.fresh] ∧ storeProvs (Vector_tail truth b d len n) = [] :=
  ⟨(vector_head_sites truth b d len n).1, (vector_head_sites truth b d len n).2, (vector_tail_sites truth b d len n).1,
   (vector_tail_sites truth b d len n).2⟩

/-! ### the documented exceptions, in the code as in the table -/

/-- `group_by` returns the receiver and its one store is on the receiver — the table's "receiver" /
    "self-attribute:_group_colnames" (`C06.group_by_marks_receiver`). -/
theorem group_by_is_receiver_in_code (truth : Term → Bool) :
    resultProvs (DataFrame_group_by truth) = [Prov.receiver] ∧ storeProvs (DataFrame_group_by truth) = [Prov.receiver] ∧
    agreesWithTable "DataFrame" "group_by" Prov.receiver = true ∧ storeAgrees "DataFrame" "group_by" Prov.receiver = true :=
  ⟨(group_by_sites truth).1, (group_by_sites truth).2, by decide, by decide⟩

/-- `copy` delegates to `__copy__`, whose body `self.__class__(self)` hands the receiver's own columns to the constructor —
    the table's "shallow" (`C06.copy_is_documented_shallow`); `deepcopy` delegates to `__deepcopy__`, whose body builds the
    frame from `{k: v.copy() …}` — fresh values. -/
theorem copy_is_shallow_in_code (truth : Term → Bool) :
    resultProvs (DataFrame_copy truth) = [Prov.receiver] ∧ storeProvs (DataFrame_copy truth) = [] ∧
    resultProvs (DataFrame_deepcopy truth) = [Prov.fresh] ∧ storeProvs (DataFrame_deepcopy truth) = [] ∧
    agreesWithTable "DataFrame" "copy" Prov.receiver = true :=
  ⟨(dunder_copy_sites truth).1, (dunder_copy_sites truth).2, (dunder_deepcopy_sites truth).1, (dunder_deepcopy_sites truth).2, by decide⟩

/-! ### what the classifier does not decide -/

/-- `aggregate`: the result is delegated to `unselect` (as the table says) and every store is local or undecided … -/
theorem aggregate_sites_in_code (truth : Term → Bool) :
    (∀ p ∈ resultProvs (DataFrame_aggregate truth), p = Prov.delegate "unselect") ∧
    (∀ p ∈ storeProvs (DataFrame_aggregate truth), p.isLocal = true ∨ p = Prov.unknown) := aggregate_sites truth

/-- … the undecided one, in every branch, being the store into the bare name `column`, bound to `function(data)`. -/
theorem aggregate_store_undecided (truth : Term → Bool) :
    (((collect (DataFrame_aggregate truth)).filter (fun s => !s.isResult && s.prov == Prov.unknown)).map
      (fun s => match s.term with | Term.sym x => x | _ => "")) = ["column"] := aggregate_unknown_target truth

/-- `to_strings`: every store is local; a result is fresh (the empty vector) or undecided … -/
theorem to_strings_sites_in_code (truth : Term → Bool) (b : Bool) :
    (∀ p ∈ resultProvs (Vector_to_strings truth b), p = Prov.fresh ∨ p = Prov.unknown) ∧
    (∀ p ∈ storeProvs (Vector_to_strings truth b), p.isLocal = true) := vector_to_strings_sites truth b

/-- … the undecided ones, in every branch, being `self.__class__.fast(<callable>(<strings>), str)`: built in a helper. -/
theorem to_strings_result_undecided (truth : Term → Bool) (b : Bool) :
    ((collect (Vector_to_strings truth b)).filter (fun s => s.isResult && s.prov == Prov.unknown)).all
      (fun s => isHelperBuilt s.term) = true := vector_to_strings_unknown_term truth b

/-- the classifier does reach `unknown` there (the exception is not vacuous): the float branch. -/
example : resultProvs (Vector_to_strings (fun t => match t with | Term.app ".is_float" _ => true | _ => false) true) = [Prov.unknown] := by
  decide

/-! ### all of them at once, against the table -/

/-- the regenerated bodies of the methods of the table whose sites the classifier decides, every Boolean parameter both
    ways (`head` / `tail` have integer parameters: `head_tail_results_delegated`, `vector_head_tail_results_fresh`). -/
def regenerated (truth : Term → Bool) : List (String × String × Out) :=
  [
   ("DataFrame", "filter", DataFrame_filter truth true),
   ("DataFrame", "filter", DataFrame_filter truth false),
   ("DataFrame", "filter_out", DataFrame_filter_out truth true),
   ("DataFrame", "filter_out", DataFrame_filter_out truth false),
   ("DataFrame", "slice", DataFrame_slice truth true true),
   ("DataFrame", "slice", DataFrame_slice truth true false),
   ("DataFrame", "slice", DataFrame_slice truth false true),
   ("DataFrame", "slice", DataFrame_slice truth false false),
   ("DataFrame", "slice_off", DataFrame_slice_off truth true true),
   ("DataFrame", "slice_off", DataFrame_slice_off truth true false),
   ("DataFrame", "slice_off", DataFrame_slice_off truth false true),
   ("DataFrame", "slice_off", DataFrame_slice_off truth false false),
   ("DataFrame", "sort", DataFrame_sort truth),
   ("DataFrame", "unique", DataFrame_unique truth),
   ("DataFrame", "select", DataFrame_select truth),
   ("DataFrame", "unselect", DataFrame_unselect truth),
   ("DataFrame", "rename", DataFrame_rename truth),
   ("DataFrame", "cbind", DataFrame_cbind truth),
   ("DataFrame", "update", DataFrame_update truth),
   ("DataFrame", "modify", DataFrame_modify truth),
   ("DataFrame", "rbind", DataFrame_rbind truth),
   ("DataFrame", "left_join", DataFrame_left_join truth),
   ("DataFrame", "inner_join", DataFrame_inner_join truth),
   ("DataFrame", "semi_join", DataFrame_semi_join truth),
   ("DataFrame", "anti_join", DataFrame_anti_join truth),
   ("DataFrame", "full_join", DataFrame_full_join truth),
   ("DataFrame", "sample", DataFrame_sample truth true),
   ("DataFrame", "sample", DataFrame_sample truth false),
   ("DataFrame", "drop_na", DataFrame_drop_na truth),
   ("DataFrame", "count", DataFrame_count truth),
   ("DataFrame", "deepcopy", DataFrame_deepcopy2 truth),
   ("DataFrame", "copy", DataFrame_copy2 truth),
   ("Vector", "concat", Vector_concat truth),
   ("Vector", "range", Vector_range truth),
   ("Vector", "sample", Vector_sample truth true),
   ("Vector", "sample", Vector_sample truth false),
   ("Vector", "map", Vector_map truth),
   ("Vector", "replace_na", Vector_replace_na truth),
   ("Vector", "is_na", Vector_is_na truth),
   ("Vector", "drop_na", Vector_drop_na truth),
   ("Vector", "as_boolean", Vector_as_boolean truth),
   ("Vector", "as_bytes", Vector_as_bytes truth),
   ("Vector", "as_date", Vector_as_date truth),
   ("Vector", "as_datetime", Vector_as_datetime truth),
   ("Vector", "as_float", Vector_as_float truth),
   ("Vector", "as_integer", Vector_as_integer truth),
   ("Vector", "as_object", Vector_as_object truth),
   ("Vector", "as_string", Vector_as_string truth),
   ("Vector", "sort", Vector_sort truth),
   ("Vector", "rank", Vector_rank truth),
   ("Vector", "unique", Vector_unique truth)
  ]

/-- the (class, method) pairs of `regenerated`, in order. -/
def regeneratedNames : List (String × String) :=
  [("DataFrame", "filter"), ("DataFrame", "filter"), ("DataFrame", "filter_out"), ("DataFrame", "filter_out"),
   ("DataFrame", "slice"), ("DataFrame", "slice"), ("DataFrame", "slice"), ("DataFrame", "slice"),
   ("DataFrame", "slice_off"), ("DataFrame", "slice_off"), ("DataFrame", "slice_off"), ("DataFrame", "slice_off"),
   ("DataFrame", "sort"), ("DataFrame", "unique"), ("DataFrame", "select"), ("DataFrame", "unselect"), ("DataFrame", "rename"),
   ("DataFrame", "cbind"), ("DataFrame", "update"), ("DataFrame", "modify"), ("DataFrame", "rbind"), ("DataFrame", "left_join"),
   ("DataFrame", "inner_join"), ("DataFrame", "semi_join"), ("DataFrame", "anti_join"), ("DataFrame", "full_join"),
   ("DataFrame", "sample"), ("DataFrame", "sample"), ("DataFrame", "drop_na"), ("DataFrame", "count"), ("DataFrame", "deepcopy"),
   ("DataFrame", "copy"), ("Vector", "concat"), ("Vector", "range"), ("Vector", "sample"), ("Vector", "sample"), ("Vector", "map"),
   ("Vector", "replace_na"), ("Vector", "is_na"), ("Vector", "drop_na"), ("Vector", "as_boolean"), ("Vector", "as_bytes"),
   ("Vector", "as_date"), ("Vector", "as_datetime"), ("Vector", "as_float"), ("Vector", "as_integer"), ("Vector", "as_object"),
   ("Vector", "as_string"), ("Vector", "sort"), ("Vector", "rank"), ("Vector", "unique")]

theorem regenerated_names (truth : Term → Bool) : (regenerated truth).map (fun e => (e.1, e.2.1)) = regeneratedNames := rfl

/-- the list is about table methods only, and misses no method of the table but the separately stated ones
    (`head` / `tail`: integer parameters; `group_by`: documented; `aggregate`, `to_strings`: a site the classifier does not decide). -/
theorem regenerated_covers_table :
    (regeneratedNames.all (fun m => !(tableClasses m.1 m.2).isEmpty)) = true ∧
    (resultSites.all (fun s => regeneratedNames.contains (s.1, s.2.1) ||
      [("DataFrame", "head"), ("DataFrame", "tail"), ("Vector", "head"), ("Vector", "tail"), ("DataFrame", "group_by"),
       ("DataFrame", "aggregate"), ("Vector", "to_strings")].contains (s.1, s.2.1))) = true := by
  constructor <;> decide

/-- **results**: every term a regenerated body yields / returns, in every branch, has a provenance that agrees with a class
    the table records for that method — fresh where the table says "fresh" (or delegated to a method all of whose results
    the table calls fresh), delegated where it says "delegate". -/
theorem results_agree_with_table (truth : Term → Bool) :
    ∀ e ∈ regenerated truth, ∀ p ∈ resultProvs e.2.2, agreesWithTable e.1 e.2.1 p = true := by
  intro e he
  simp only [regenerated, List.mem_cons, List.mem_nil_iff, or_false] at he
  rcases he with rfl | rfl | rfl | rfl | rfl | rfl | rfl | rfl | rfl | rfl | rfl | rfl | rfl | rfl | rfl | rfl | rfl | rfl | rfl | rfl | rfl | rfl | rfl | rfl | rfl | rfl | rfl | rfl | rfl | rfl | rfl | rfl | rfl | rfl | rfl | rfl | rfl | rfl | rfl | rfl | rfl | rfl | rfl | rfl | rfl | rfl | rfl | rfl | rfl | rfl | rfl
  · intro p hp; rw [(filter_sites truth true).1 p hp]; dsimp only; decide
  · intro p hp; rw [(filter_sites truth false).1 p hp]; dsimp only; decide
  · intro p hp; rw [(filter_out_sites truth true).1 p hp]; dsimp only; decide
  · intro p hp; rw [(filter_out_sites truth false).1 p hp]; dsimp only; decide
  · intro p hp; rw [(slice_sites truth true true).1 p hp]; dsimp only; decide
  · intro p hp; rw [(slice_sites truth true false).1 p hp]; dsimp only; decide
  · intro p hp; rw [(slice_sites truth false true).1 p hp]; dsimp only; decide
  · intro p hp; rw [(slice_sites truth false false).1 p hp]; dsimp only; decide
  · intro p hp; rw [(slice_off_sites truth true true).1 p hp]; dsimp only; decide
  · intro p hp; rw [(slice_off_sites truth true false).1 p hp]; dsimp only; decide
  · intro p hp; rw [(slice_off_sites truth false true).1 p hp]; dsimp only; decide
  · intro p hp; rw [(slice_off_sites truth false false).1 p hp]; dsimp only; decide
  · intro p hp; rw [(sort_sites truth).1 p hp]; dsimp only; decide
  · intro p hp; rw [(unique_sites truth).1 p hp]; dsimp only; decide
  · intro p hp; rw [(select_sites truth).1 p hp]; dsimp only; decide
  · intro p hp; rw [(unselect_sites truth).1 p hp]; dsimp only; decide
  · intro p hp; rw [(rename_sites truth).1 p hp]; dsimp only; decide
  · intro p hp; rw [(cbind_sites truth).1 p hp]; dsimp only; decide
  · intro p hp; rw [(update_sites truth).1 p hp]; dsimp only; decide
  · intro p hp; rw [(modify_sites truth).1 p hp]; dsimp only; decide
  · intro p hp; rw [(rbind_sites truth).1 p hp]; dsimp only; decide
  · intro p hp; rw [(left_join_sites truth).1 p hp]; dsimp only; decide
  · intro p hp; rw [(inner_join_sites truth).1 p hp]; dsimp only; decide
  · intro p hp; rw [(semi_join_sites truth).1 p hp]; dsimp only; decide
  · intro p hp; rw [(anti_join_sites truth).1 p hp]; dsimp only; decide
  · intro p hp; rw [(full_join_sites truth).1 p hp]; dsimp only; decide
  · intro p hp; rw [(sample_sites truth true).1 p hp]; dsimp only; decide
  · intro p hp; rw [(sample_sites truth false).1 p hp]; dsimp only; decide
  · intro p hp; rw [(drop_na_sites truth).1 p hp]; dsimp only; decide
  · intro p hp; rw [(count_sites truth).1 p hp]; dsimp only; decide
  · intro p hp; rw [(deepcopy_sites truth).1 p hp]; dsimp only; decide
  · intro p hp; rw [(copy_sites truth).1 p hp]; dsimp only; decide
  · intro p hp; rw [(vector_concat_sites truth).1 p hp]; dsimp only; decide
  · intro p hp; rw [(vector_range_sites truth).1 p hp]; dsimp only; decide
  · intro p hp; rw [(vector_sample_sites truth true).1 p hp]; dsimp only; decide
  · intro p hp; rw [(vector_sample_sites truth false).1 p hp]; dsimp only; decide
  · intro p hp; rw [(vector_map_sites truth).1 p hp]; dsimp only; decide
  · intro p hp; rw [(vector_replace_na_sites truth).1 p hp]; dsimp only; decide
  · intro p hp; rw [(vector_is_na_sites truth).1 p hp]; dsimp only; decide
  · intro p hp; rw [(vector_drop_na_sites truth).1 p hp]; dsimp only; decide
  · intro p hp; rw [(vector_as_boolean_sites truth).1 p hp]; dsimp only; decide
  · intro p hp; rw [(vector_as_bytes_sites truth).1 p hp]; dsimp only; decide
  · intro p hp; rw [(vector_as_date_sites truth).1 p hp]; dsimp only; decide
  · intro p hp; rw [(vector_as_datetime_sites truth).1 p hp]; dsimp only; decide
  · intro p hp; rw [(vector_as_float_sites truth).1 p hp]; dsimp only; decide
  · intro p hp; rw [(vector_as_integer_sites truth).1 p hp]; dsimp only; decide
  · intro p hp; rw [(vector_as_object_sites truth).1 p hp]; dsimp only; decide
  · intro p hp; rw [(vector_as_string_sites truth).1 p hp]; dsimp only; decide
  · intro p hp; rw [(vector_sort_sites truth).1 p hp]; dsimp only; decide
  · intro p hp; rw [(vector_rank_sites truth).1 p hp]; dsimp only; decide
  · intro p hp; rw [(vector_unique_sites truth).1 p hp]; dsimp only; decide

/-- **stores**: every object a regenerated body stores into (item / attribute store, `del`, mutating container method), in
    every branch, is one the method allocated itself or received from a method of the table — never `self`, never a
    parameter: what `C06.stores_are_local` says of the table. -/
theorem writes_agree_with_table (truth : Term → Bool) :
    ∀ e ∈ regenerated truth, ∀ p ∈ storeProvs e.2.2, p.isLocal = true := by
  intro e he
  simp only [regenerated, List.mem_cons, List.mem_nil_iff, or_false] at he
  rcases he with rfl | rfl | rfl | rfl | rfl | rfl | rfl | rfl | rfl | rfl | rfl | rfl | rfl | rfl | rfl | rfl | rfl | rfl | rfl | rfl | rfl | rfl | rfl | rfl | rfl | rfl | rfl | rfl | rfl | rfl | rfl | rfl | rfl | rfl | rfl | rfl | rfl | rfl | rfl | rfl | rfl | rfl | rfl | rfl | rfl | rfl | rfl | rfl | rfl | rfl | rfl
  · intro p hp; exact (filter_sites truth true).2 p hp
  · intro p hp; exact (filter_sites truth false).2 p hp
  · intro p hp; exact (filter_out_sites truth true).2 p hp
  · intro p hp; exact (filter_out_sites truth false).2 p hp
  · intro p hp; exact (slice_sites truth true true).2 p hp
  · intro p hp; exact (slice_sites truth true false).2 p hp
  · intro p hp; exact (slice_sites truth false true).2 p hp
  · intro p hp; exact (slice_sites truth false false).2 p hp
  · intro p hp; exact (slice_off_sites truth true true).2 p hp
  · intro p hp; exact (slice_off_sites truth true false).2 p hp
  · intro p hp; exact (slice_off_sites truth false true).2 p hp
  · intro p hp; exact (slice_off_sites truth false false).2 p hp
  · intro p hp; exact (sort_sites truth).2 p hp
  · intro p hp; exact (unique_sites truth).2 p hp
  · intro p hp; exact (select_sites truth).2 p hp
  · intro p hp; exact (unselect_sites truth).2 p hp
  · intro p hp; exact (rename_sites truth).2 p hp
  · intro p hp; exact (cbind_sites truth).2 p hp
  · intro p hp; exact (update_sites truth).2 p hp
  · intro p hp; exact (modify_sites truth).2 p hp
  · intro p hp; exact (rbind_sites truth).2 p hp
  · intro p hp; exact (left_join_sites truth).2 p hp
  · intro p hp; exact (inner_join_sites truth).2 p hp
  · intro p hp; exact (semi_join_sites truth).2 p hp
  · intro p hp; exact (anti_join_sites truth).2 p hp
  · intro p hp; exact (full_join_sites truth).2 p hp
  · intro p hp; exact (sample_sites truth true).2 p hp
  · intro p hp; exact (sample_sites truth false).2 p hp
  · intro p hp; exact (drop_na_sites truth).2 p hp
  · intro p hp; exact (count_sites truth).2 p hp
  · intro p hp; exact (deepcopy_sites truth).2 p hp
  · intro p hp; exact (copy_sites truth).2 p hp
  · intro p hp; exact (vector_concat_sites truth).2 p hp
  · intro p hp; exact (vector_range_sites truth).2 p hp
  · intro p hp; exact (vector_sample_sites truth true).2 p hp
  · intro p hp; exact (vector_sample_sites truth false).2 p hp
  · intro p hp; exact (vector_map_sites truth).2 p hp
  · intro p hp; exact (vector_replace_na_sites truth).2 p hp
  · intro p hp; exact (vector_is_na_sites truth).2 p hp
  · intro p hp; exact (vector_drop_na_sites truth).2 p hp
  · intro p hp; exact (vector_as_boolean_sites truth).2 p hp
  · intro p hp; exact (vector_as_bytes_sites truth).2 p hp
  · intro p hp; exact (vector_as_date_sites truth).2 p hp
  · intro p hp; exact (vector_as_datetime_sites truth).2 p hp
  · intro p hp; exact (vector_as_float_sites truth).2 p hp
  · intro p hp; exact (vector_as_integer_sites truth).2 p hp
  · intro p hp; exact (vector_as_object_sites truth).2 p hp
  · intro p hp; exact (vector_as_string_sites truth).2 p hp
  · intro p hp; exact (vector_sort_sites truth).2 p hp
  · intro p hp; exact (vector_rank_sites truth).2 p hp
  · intro p hp; exact (vector_unique_sites truth).2 p hp

/-- where the table calls EVERY result of a method fresh, the code's results are fresh, or delegated to a method for which
    the table does the same. -/
theorem results_fresh_where_table_says_fresh (truth : Term → Bool) :
    ∀ e ∈ regenerated truth, allFreshInTable e.1 e.2.1 = true →
      ∀ p ∈ resultProvs e.2.2, p = Prov.fresh ∨ ∃ m, p = Prov.delegate m ∧ allFreshInTable e.1 m = true :=
  fun e he hf p hp => agrees_fresh e.1 e.2.1 p (results_agree_with_table truth e he p hp) hf

/-- a result that agrees with the table is never the receiver's or a parameter's memory, the two documented methods aside. -/
theorem agreeing_result_is_local (cls m : String) (p : Prov) (h : agreesWithTable cls m p = true)
    (hx : ∀ c ∈ tableClasses cls m, c ≠ "shallow" ∧ c ≠ "receiver") : p.isLocal = true := by
  simp only [agreesWithTable, List.any_eq_true] at h
  obtain ⟨c, hc, ha⟩ := h
  have := hx c hc
  cases p <;> simp_all [agrees, Prov.isLocal]

/-- **the table agrees with the code**: for every regenerated method body (the documented `copy` aside) and every branch,
    (1) the effect READ OFF THE CODE is clean — so `C06.call_frame_condition`, `C06.operands_unchanged` and
    `C06.sequences_frame_condition` apply to it as they stand; (2) the effect the table gives the same method is clean too
    (`C06.table_effects_clean`); (3) result by result the two agree; (4) every store is local.  The hypotheses the frame
    theorems take from the table (`C06.result_sites_fresh`, `C06.stores_are_local`) hold of the regenerated code. -/
theorem table_agrees_with_code (truth : Term → Bool) :
    ∀ e ∈ regenerated truth, (e.1, e.2.1) ≠ ("DataFrame", "copy") →
      (codeEffect e.2.2).clean ∧ (effectOf e.1 e.2.1).clean ∧
      (∀ p ∈ resultProvs e.2.2, agreesWithTable e.1 e.2.1 p = true) ∧ (∀ p ∈ storeProvs e.2.2, p.isLocal = true) := by
  intro e he hne
  have hr := results_agree_with_table truth e he
  have hw := writes_agree_with_table truth e he
  have hm : (e.1, e.2.1) ∈ methodsOfTable := by
    simp only [regenerated, List.mem_cons, List.mem_nil_iff, or_false] at he
    revert hne
    rcases he with rfl | rfl | rfl | rfl | rfl | rfl | rfl | rfl | rfl | rfl | rfl | rfl | rfl | rfl | rfl | rfl | rfl | rfl | rfl | rfl | rfl | rfl | rfl | rfl | rfl | rfl | rfl | rfl | rfl | rfl | rfl | rfl | rfl | rfl | rfl | rfl | rfl | rfl | rfl | rfl | rfl | rfl | rfl | rfl | rfl | rfl | rfl | rfl | rfl | rfl | rfl <;> (dsimp only; decide)
  have hx : ∀ c ∈ tableClasses e.1 e.2.1, c ≠ "shallow" ∧ c ≠ "receiver" := by
    simp only [regenerated, List.mem_cons, List.mem_nil_iff, or_false] at he
    revert hne
    rcases he with rfl | rfl | rfl | rfl | rfl | rfl | rfl | rfl | rfl | rfl | rfl | rfl | rfl | rfl | rfl | rfl | rfl | rfl | rfl | rfl | rfl | rfl | rfl | rfl | rfl | rfl | rfl | rfl | rfl | rfl | rfl | rfl | rfl | rfl | rfl | rfl | rfl | rfl | rfl | rfl | rfl | rfl | rfl | rfl | rfl | rfl | rfl | rfl | rfl | rfl | rfl <;> (dsimp only; decide)
  refine ⟨codeEffect_clean e.2.2 (fun p hp => agreeing_result_is_local e.1 e.2.1 p (hr p hp) hx) hw, ?_, hr, hw⟩
  exact DI.C06.table_effects_clean (e.1, e.2.1) hm

/-- the frame condition, for the code: a call of any of these methods, as regenerated, leaves every existing buffer as it
    was and hands out only buffers beyond the old heap — for every heap, receiver, argument and branch. -/
theorem code_call_frame_condition (truth : Term → Bool) (h : Heap) (recv arg : Frame) :
    ∀ e ∈ regenerated truth, (e.1, e.2.1) ≠ ("DataFrame", "copy") →
      ∃ ext, (exec h recv arg (codeEffect e.2.2)).1 = h ++ ext ∧
        ∀ c ∈ (exec h recv arg (codeEffect e.2.2)).2.cols, h.length ≤ c.2 ∧ c.2 < (h ++ ext).length :=
  fun e he hne => DI.C06.call_frame_condition h recv arg _ (table_agrees_with_code truth e he hne).1

/-- … and the operands are observed unchanged. -/
theorem code_operands_unchanged (truth : Term → Bool) (h : Heap) (recv arg f : Frame) (hf : ∀ c ∈ f.cols, c.2 < h.length) :
    ∀ e ∈ regenerated truth, (e.1, e.2.1) ≠ ("DataFrame", "copy") →
      view (exec h recv arg (codeEffect e.2.2)).1 f = view h f :=
  fun e he hne => DI.C06.operands_unchanged h recv arg f _ (table_agrees_with_code truth e he hne).1 hf

/-- non-vacuity: `filter`, as regenerated, on a one-column frame. -/
example : (exec [7] { cols := [("a", 0)], group := [] } emptyFrame (codeEffect (DataFrame_filter (fun _ => false) false))).1 = [7, 0] := by
  decide

end DI.Eval.C06

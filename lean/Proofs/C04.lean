/-
  Proofs/C04.lean — property C04: grouping partitions the rows; one summary row per distinct
  key.  Statements only; proofs cite Lemmas/Group.lean, Lemmas/DfSort.lean.

  `groupsOf n keys` transcribes `aggregate` / `split`:
  sort by the group columns ascending, `unique` on the sorted frame, `np.split`.
-/
import Model.Group
import Lemmas.Group

namespace DI.C04

open DI

/-- the groups are pairwise disjoint and cover every row exactly once. -/
theorem groups_partition (n : Nat) (keys : List (ColKind × List Cell)) :
    (groupsOf n keys).flatten.Perm (List.range n) := groupsOf_partition n keys

/-- group sizes sum to nrow. -/
theorem group_sizes_sum (n : Nat) (keys : List (ColKind × List Cell)) :
    ((groupsOf n keys).map List.length).sum = n := groupsOf_sizes n keys

/-- concatenated, the groups are exactly the frame sorted by the group columns (ascending,
    missing last, stable): groups come out in ascending key order and every group lists its
    rows in their original relative order (by `C03.sort_ordered` and `C03.sort_stable`). -/
theorem groups_are_sorted_runs (n : Nat) (keys : List (ColKind × List Cell)) :
    (groupsOf n keys).flatten = dfSortIdx n (keys.map (fun k => (k.1, false, k.2))) :=
  groupsOf_flatten n keys

/-- `np.split` neither loses nor duplicates positions for any increasing in-range start list. -/
theorem split_lossless (arr : List Nat) (starts : List Nat)
    (hsorted : starts.Pairwise (· ≤ ·)) (hrange : ∀ s ∈ starts, s ≤ arr.length) :
    (splitAt arr starts).flatten = arr := splitAt_flatten arr starts hsorted hrange

example : splitAt [4, 2, 0, 3, 1] [0, 2, 3] = [[4, 2], [0], [3, 1]] := by decide

end DI.C04

/-
  Proofs/C04.lean — property C04: grouping partitions the rows; one summary row per distinct
  key.  Statements only; proofs cite Lemmas/Group.lean, Lemmas/DfSort.lean,
  Lemmas/GroupRuns.lean, Lemmas/GroupOrder.lean.

  `groupsOf n keys` transcribes `aggregate` / `split`:
  sort by the group columns ascending, `unique` on the sorted frame, `np.split`.
-/
import Model.Group
import Lemmas.Group
import Lemmas.GroupRuns
import Lemmas.GroupOrder

namespace DI.C04

open DI

/-- the groups are pairwise disjoint and cover every row exactly once. -/
theorem groups_partition (n : Nat) (keys : List (ColKind × List Cell)) :
    (groupsOf n keys).flatten.Perm (List.range n) := groupsOf_partition n keys

/-- group sizes sum to nrow. -/
theorem group_sizes_sum (n : Nat) (keys : List (ColKind × List Cell)) :
    ((groupsOf n keys).map List.length).sum = n := groupsOf_sizes n keys

/-- concatenated, the groups are exactly the frame sorted by the group columns (ascending,
    missing last, stable): groups come out in ascending key order and every group lists its
    rows in their original relative order (by `C03.sort_ordered` and `C03.sort_stable`). -/
theorem groups_are_sorted_runs (n : Nat) (keys : List (ColKind × List Cell)) :
    (groupsOf n keys).flatten = dfSortIdx n (keys.map (fun k => (k.1, false, k.2))) :=
  groupsOf_flatten n keys

/-- `np.split` neither loses nor duplicates positions for any increasing in-range start list. -/
theorem split_lossless (arr : List Nat) (starts : List Nat)
    (hsorted : starts.Pairwise (· ≤ ·)) (hrange : ∀ s ∈ starts, s ≤ arr.length) :
    (splitAt arr starts).flatten = arr := splitAt_flatten arr starts hsorted hrange

/-- all rows of a group carry the same key tuple (a missing value equals a missing value and nothing
    else) — for every frame size, number of key columns, dtype flags and missing pattern. -/
theorem groups_homogeneous (n : Nat) (keys : List (ColKind × List Cell)) (hwf : WfKeys n (ascKeys keys))
    (g : List Nat) (hg : g ∈ groupsOf n keys) (a b : Nat) (ha : a ∈ g) (hb : b ∈ g) :
    keyRow keys a = keyRow keys b := groupsOf_homogeneous n keys hwf g hg a b ha hb

/-- one group per distinct key combination: rows with equal key tuples are never split over two groups.
    With `groups_partition` and `groups_homogeneous`: two rows are in the same group iff their key
    tuples are equal, so `aggregate` yields exactly one summary row per distinct key. -/
theorem one_group_per_key (n : Nat) (keys : List (ColKind × List Cell)) (hwf : WfKeys n (ascKeys keys))
    (g1 g2 : List Nat) (h1 : g1 ∈ groupsOf n keys) (h2 : g2 ∈ groupsOf n keys)
    (a b : Nat) (ha : a ∈ g1) (hb : b ∈ g2) (heq : keyRow keys a = keyRow keys b) : g1 = g2 :=
  groupsOf_separate n keys hwf g1 g2 h1 h2 a b ha hb heq

/-- a frame with rows has no empty group. -/
theorem groups_nonempty (n : Nat) (keys : List (ColKind × List Cell)) (hwf : WfKeys n (ascKeys keys)) (hn : 0 < n)
    (g : List Nat) (hg : g ∈ groupsOf n keys) : g ≠ [] := groupsOf_nonempty n keys hwf hn g hg

example : splitAt [4, 2, 0, 3, 1] [0, 2, 3] = [[4, 2], [0], [3, 1]] := by decide

/-! ### order properties (Lemmas/GroupOrder.lean) -/

/-- **grouped modify puts every value back on its row**: `modifyPlan` has one entry per original
    row, and if row `i` takes the value computed at position `p` of group `g`, then that slot of the
    groups is row `i` itself (`restore = argsort(concatenate(slices))` inverts the grouping). -/
theorem modify_plan_aligned (n : Nat) (keys : List (ColKind × List Cell)) :
    (modifyPlan n keys).length = n ∧
    ∀ i, i < n → ∀ g p, (modifyPlan n keys)[i]! = (g, p) →
      g < (groupsOf n keys).length ∧ p < ((groupsOf n keys)[g]!).length ∧
        ((groupsOf n keys)[g]!)[p]! = i :=
  ⟨modifyPlan_length n keys, fun i hi g p h => modifyPlan_aligned n keys i hi g p h⟩

/-- … and every computed value (every slot of every group) is used exactly once. -/
theorem modify_plan_uses_each_value_once (n : Nat) (keys : List (ColKind × List Cell)) :
    (modifyPlan n keys).Perm (groupTags (groupsOf n keys) 0) := modifyPlan_perm n keys

/-- **groups ascending**: for group numbers `g1 < g2`, every row of group `g1` has a key tuple strictly
    before the key tuple of every row of group `g2` in the specification order (ascending per key,
    first key primary, missing last): `≤` holds, the reverse `≤` fails, and the tuples differ. -/
theorem groups_ascending (n : Nat) (keys : List (ColKind × List Cell)) (hwf : WfKeys n (ascKeys keys))
    (g1 g2 : Nat) (h12 : g1 < g2) (h2 : g2 < (groupsOf n keys).length)
    (a b : Nat) (ha : a ∈ (groupsOf n keys)[g1]!) (hb : b ∈ (groupsOf n keys)[g2]!) :
    leLexBy (specLts (ascKeys keys)) (keyRow keys a) (keyRow keys b) = true ∧
    leLexBy (specLts (ascKeys keys)) (keyRow keys b) (keyRow keys a) = false ∧
    keyRow keys a ≠ keyRow keys b :=
  groupsOf_ascending n keys hwf g1 g2 h12 h2 a b ha hb

/-- the specification order used above is the plain ascending, missing-last order on every key. -/
theorem group_order_is_ascending (keys : List (ColKind × List Cell)) :
    ∀ lt ∈ specLts (ascKeys keys), lt = ltNaLast Key.le := specLts_asc keys

/-- **original order inside a group**: every group lists its rows with strictly increasing original
    row ids (stability of the sort). -/
theorem group_rows_in_original_order (n : Nat) (keys : List (ColKind × List Cell)) (hwf : WfKeys n (ascKeys keys))
    (g : List Nat) (hg : g ∈ groupsOf n keys) : g.Pairwise (· < ·) :=
  groupsOf_rows_increasing n keys hwf g hg

/- non-vacuity: one integer key column [2, 1, 2, none, 1]. -/
example : groupsOf 5 [({ isString := false, fastAsc := true, isNumber := true, isInteger := true },
      [some (.i 2), some (.i 1), some (.i 2), none, some (.i 1)])] = [[1, 4], [0, 2], [3]] ∧
    modifyPlan 5 [({ isString := false, fastAsc := true, isNumber := true, isInteger := true },
      [some (.i 2), some (.i 1), some (.i 2), none, some (.i 1)])]
      = [(1, 0), (0, 0), (1, 1), (2, 0), (0, 1)] := by
  have hs : groupSortIdx 5 [({ isString := false, fastAsc := true, isNumber := true, isInteger := true },
      [some (.i 2), some (.i 1), some (.i 2), none, some (.i 1)])] = [1, 4, 0, 2, 3] := by
    simp [groupSortIdx, dfSortIdx, lexsortIdx, argsort, sortPairs, sortKey, rowsOf, List.mergeSort,
      List.range, List.range.loop, List.zipIdx, leLex, ltNaLast, ltOf, Key.le]
  have hg : groupsOf 5 [({ isString := false, fastAsc := true, isNumber := true, isInteger := true },
      [some (.i 2), some (.i 1), some (.i 2), none, some (.i 1)])] = [[1, 4], [0, 2], [3]] := by
    simp only [groupsOf, hs]; decide
  refine ⟨hg, ?_⟩
  rw [modifyPlan_eq, hg]
  simp [argsort, sortPairs, List.mergeSort, List.zipIdx, gather, groupTags, List.range, List.range.loop]

example : WfKeys 5 (ascKeys [({ isString := false, fastAsc := true, isNumber := true, isInteger := true },
      [some (.i 2), some (.i 1), some (.i 2), none, some (.i 1)])]) := by
  intro k hk
  simp [ascKeys] at hk; subst hk
  refine ⟨rfl, fun _ c hc => ?_⟩
  simp at hc
  rcases hc with rfl | rfl | rfl | rfl | rfl <;> first | exact Or.inl rfl | exact Or.inr ⟨_, rfl⟩

end DI.C04

/-
  Proofs/C04.lean — property C04: grouping partitions the rows; one summary row per distinct
  key.  Statements only; proofs cite Lemmas/Group.lean, Lemmas/DfSort.lean.

  `groupsOf n keys` transcribes `aggregate` / `split`:
  sort by the group columns ascending, `unique` on the sorted frame, `np.split`.
-/
import Model.Group
import Lemmas.Group
import Lemmas.GroupRuns

namespace DI.C04

open DI

/-- the groups are pairwise disjoint and cover every row exactly once. -/
theorem groups_partition (n : Nat) (keys : List (ColKind × List Cell)) :
    (groupsOf n keys).flatten.Perm (List.range n) := groupsOf_partition n keys

/-- group sizes sum to nrow. -/
theorem group_sizes_sum (n : Nat) (keys : List (ColKind × List Cell)) :
    ((groupsOf n keys).map List.length).sum = n := groupsOf_sizes n keys

/-- concatenated, the groups are exactly the frame sorted by the group columns (ascending,
    missing last, stable): groups come out in ascending key order and every group lists its
    rows in their original relative order (by `C03.sort_ordered` and `C03.sort_stable`). -/
theorem groups_are_sorted_runs (n : Nat) (keys : List (ColKind × List Cell)) :
    (groupsOf n keys).flatten = dfSortIdx n (keys.map (fun k => (k.1, false, k.2))) :=
  groupsOf_flatten n keys

/-- `np.split` neither loses nor duplicates positions for any increasing in-range start list. -/
theorem split_lossless (arr : List Nat) (starts : List Nat)
    (hsorted : starts.Pairwise (· ≤ ·)) (hrange : ∀ s ∈ starts, s ≤ arr.length) :
    (splitAt arr starts).flatten = arr := splitAt_flatten arr starts hsorted hrange

/-- all rows of a group carry the same key tuple (a missing value equals a missing value and nothing
    else) — for every frame size, number of key columns, dtype flags and missing pattern. -/
theorem groups_homogeneous (n : Nat) (keys : List (ColKind × List Cell)) (hwf : WfKeys n (ascKeys keys))
    (g : List Nat) (hg : g ∈ groupsOf n keys) (a b : Nat) (ha : a ∈ g) (hb : b ∈ g) :
    keyRow keys a = keyRow keys b := groupsOf_homogeneous n keys hwf g hg a b ha hb

/-- one group per distinct key combination: rows with equal key tuples are never split over two groups.
    With `groups_partition` and `groups_homogeneous`: two rows are in the same group iff their key
    tuples are equal, so `aggregate` yields exactly one summary row per distinct key. -/
theorem one_group_per_key (n : Nat) (keys : List (ColKind × List Cell)) (hwf : WfKeys n (ascKeys keys))
    (g1 g2 : List Nat) (h1 : g1 ∈ groupsOf n keys) (h2 : g2 ∈ groupsOf n keys)
    (a b : Nat) (ha : a ∈ g1) (hb : b ∈ g2) (heq : keyRow keys a = keyRow keys b) : g1 = g2 :=
  groupsOf_separate n keys hwf g1 g2 h1 h2 a b ha hb heq

/-- a frame with rows has no empty group. -/
theorem groups_nonempty (n : Nat) (keys : List (ColKind × List Cell)) (hwf : WfKeys n (ascKeys keys)) (hn : 0 < n)
    (g : List Nat) (hg : g ∈ groupsOf n keys) : g ≠ [] := groupsOf_nonempty n keys hwf hn g hg

example : splitAt [4, 2, 0, 3, 1] [0, 2, 3] = [[4, 2], [0], [3, 1]] := by decide

end DI.C04

/-
  Proofs/TieC18b.lean — obligation over `GeoJSON.__init__` as regenerated into `Generated/CodeC18.lean`.
-/
import Generated.CodeC18
import Proofs.TieC18

namespace DI.Tie.C18

open DI.Py DI.Gen

/-- the metadata a GeoJSON object built from scratch starts with: `AttributeDict(type="FeatureCollection")`. -/
def freshMetadata : Term := Term.app "AttributeDict" [Term.app "=type" [Term.sym "'FeatureCollection'"]]

/-- **GeoJSON.__init__ as written**: FIRST the data frame constructor with every positional and keyword argument handed on
    (`super().__init__(*args, **kwargs)`: a GeoJSON is built like a DataFrame, like a dict), THEN `self.metadata` set to a
    fresh `AttributeDict(type="FeatureCollection")` — a new object per instance, whose one member is the top-level type
    that `write` emits through `self.metadata.items()` (`TieC18.writeMembers`) and that `_check_raw_data` demands on reading
    (`TOP_LEVEL_TYPES`): a frame built from scratch writes a file `read` accepts.  Nothing is returned.  (`read` calls
    `cls(**cols)` and only afterwards replaces this default by the file's own members: `TieC18.read_code`, last effect.) -/
theorem init_code (truth : Term → Bool) :
    GeoJSON_init truth = Out.fall
      [Term.app "super().__init__" [Term.app "*" [Term.sym "args"], Term.app "=**" [Term.sym "kwargs"]],
       Term.app "setattr" [Term.sym "self", Term.sym "metadata", freshMetadata]] := rfl

/-- the constructor takes anything (`*args, **kwargs`), has no parameter of its own that could shadow a column name, and
    runs the base constructor before it touches `metadata`. -/
theorem init_signature :
    GeoJSON_init_signature = ["self", "*args", "**kwargs"] ∧ GeoJSON_init_decorators = [] ∧
    GeoJSON_init_call_order = ["super", "super().__init__", "AttributeDict"] := ⟨rfl, rfl, rfl⟩

/-- `read` and `__init__` write the SAME attribute (`metadata`), `read` after constructing: the value a reader sees is the
    file's, never the constructor's default. -/
theorem read_overrides_init_metadata (truth : Term → Bool) :
    (∃ frame v, (GeoJSON_read truth).effs.getLast? = some (Term.app "setattr" [frame, Term.sym "metadata", v]) ∧
        GeoJSON_read truth = Out.ret (GeoJSON_read truth).effs frame ∧ v = raw) ∧
    (GeoJSON_init truth).effs.getLast? = some (Term.app "setattr" [Term.sym "self", Term.sym "metadata", freshMetadata]) := by
  refine ⟨?_, rfl⟩
  rw [read_code]
  cases truth (Term.sym "columns") <;> exact ⟨_, _, rfl, rfl, rfl⟩

end DI.Tie.C18

/-
  Proofs/TieC05.lean — obligations over `Generated/CodeC05.lean`, the translation of the *current* source of the column
  assembly of `left_join`, `inner_join`, `semi_join`, `anti_join` and of the helpers `_split_join_by` and
  `_get_join_indices` (generator bodies and loops are translated symbolically: `for` / `yield` / `if` / `continue` nodes).

  All four joins reduce the right frame to its non-missing, first-occurrence keys (`other.drop_na(*by2).unique(*by2)`:
  the model's `rightReduced`) and take `(found, src)` from one `_get_join_indices` call (the model's `joinSrc`); they
  differ only in how every column is assembled from `found` / `src`, which is what the theorems below pin down.
-/
import Generated.CodeC05

namespace DI.Tie.C05

open DI.Py DI.Gen

def split : Term := Term.app "._split_join_by" [Term.sym "self", Term.app "*" [Term.sym "by"]]
def by1 : Term := Term.app "item0" [split]
def by2 : Term := Term.app "item1" [split]
/-- `other.drop_na(*by2).unique(*by2)`: rows with a missing key never match; of equal keys the first right row is kept. -/
def reducedOther : Term := Term.app ".unique" [Term.app ".drop_na" [Term.sym "other", Term.app "*" [by2]], Term.app "*" [by2]]
def joinIdx : Term := Term.app "._get_join_indices" [Term.sym "self", reducedOther, by1, by2]
def found : Term := Term.app "item0" [joinIdx]
def src : Term := Term.app "item1" [joinIdx]

/-- the loop over the reduced right frame's columns that skips the key columns and the names the left frame has. -/
def rightColumns (body : List Term) : Term :=
  Term.app "for" [Term.app "tuple" [Term.sym "colname", Term.sym "column"], Term.app ".items" [reducedOther],
    Term.app "block" ([Term.app "if" [Term.app "In" [Term.sym "colname", by2], Term.app "block" [Term.sym "continue"], Term.app "block" []],
                       Term.app "if" [Term.app "In" [Term.sym "colname", Term.sym "self"], Term.app "block" [Term.sym "continue"], Term.app "block" []]] ++ body)]

/-- semi_join: every left column indexed with the matched positions, copied. -/
theorem semi_join_code (truth : Term → Bool) :
    DataFrame_semi_join truth = Out.fall [perColumn (fun c => Term.app ".copy" [Term.app "getitem" [c, found]])] := rfl

/-- anti_join: the same positions deleted from every left column — with `semi_join_code`: a partition of the left rows. -/
theorem anti_join_code (truth : Term → Bool) :
    DataFrame_anti_join truth = Out.fall [perColumn (fun c => Term.app "np.delete" [c, found])] := rfl

/-- inner_join: the matched left rows, then every new right column read at `src[found]` (the matched right row of each
    kept left row). -/
theorem inner_join_code (truth : Term → Bool) :
    DataFrame_inner_join truth = Out.fall
      [perColumn (fun c => Term.app ".copy" [Term.app "getitem" [c, found]]),
       rightColumns [Term.app "yield" [Term.app "tuple" [Term.sym "colname",
         Term.app ".copy" [Term.app "getitem" [Term.sym "column", Term.app "getitem" [src, found]]]]]]] := rfl

/-- **left_join**: every left column whole (a copy: every left row once, in order, own columns unchanged); every new
    right column starts as `nrow` copies of the column's own missing value in its NA-capable dtype, receives the matched
    right values at the matched positions only (`new[found] = column[src[found]]`), and is copied out. -/
theorem left_join_code (truth : Term → Bool) :
    DataFrame_left_join truth = Out.fall
      [perColumn (fun c => Term.app ".copy" [c]),
       rightColumns
        [Term.app "assign" [Term.sym "value", Term.app ".na_value" [Term.sym "column"]],
         Term.app "assign" [Term.sym "dtype", Term.app ".na_dtype" [Term.sym "column"]],
         Term.app "assign" [Term.sym "new", Term.app ".repeat" [Term.app "Vector.fast" [Term.app "list" [Term.sym "value"], Term.sym "dtype"], Term.app ".nrow" [Term.sym "self"]]],
         Term.app "store" [Term.app "getitem" [Term.sym "new", found], Term.app "getitem" [Term.sym "column", Term.app "getitem" [src, found]]],
         Term.app "yield" [Term.app "tuple" [Term.sym "colname", Term.app ".copy" [Term.sym "new"]]]]] := rfl

/-- `_split_join_by`: a plain name stands for itself on both sides, a pair gives (left name, right name). -/
theorem split_join_by_code (truth : Term → Bool) :
    DataFrame_split_join_by truth =
      let pick (i : Int) := Term.app "ListComp" [Term.app "ifexp" [Term.app "isinstance" [Term.sym "x", Term.sym "str"], Term.sym "x",
        Term.app "getitem" [Term.sym "x", Term.int i]], Term.app "in" [Term.sym "x", Term.sym "by", Term.app "if" []]]
      Out.ret [] (Term.app "tuple" [pick 0, pick 1]) := rfl

/-- `_get_join_indices` (after fix c09ead9): the key columns of both sides, in `by` order; for a pair of datetime key columns
    of DIFFERENT units the lookup uses casts of BOTH to the promoted (finer) unit — and only when casting back gives the
    original values on both sides (nothing overflowed), so equal keys are equal instants; the frames' own columns are not
    written.  Then: key tuple → position in the (reduced) right frame, written front to back; for every left row, in order,
    the position of its key tuple or -1; `found` = the left positions with a match. -/
theorem get_join_indices_code (truth : Term → Bool) :
    DataFrame_get_join_indices truth =
      let keysOf (frame byv : String) := Term.app "ListComp"
        [Term.app "getitem" [Term.sym frame, Term.sym "x"], Term.app "in" [Term.sym "x", Term.sym byv, Term.app "if" []]]
      let dt (k : String) := Term.app ".dtype" [Term.sym k]
      let back (n k : String) := Term.app ".all" [Term.app ".equal" [Term.app ".astype" [Term.sym n, dt k], Term.sym k]]
      let unify := Term.app "for" [Term.app "tuple" [Term.sym "i", Term.app "tuple" [Term.sym "key1", Term.sym "key2"]],
        Term.app "enumerate" [Term.app "zip" [keysOf "self" "by1", keysOf "other" "by2"]],
        Term.app "block" [Term.app "if" [Term.app "And" [Term.app ".is_datetime" [Term.sym "key1"], Term.app ".is_datetime" [Term.sym "key2"],
            Term.app "NotEq" [dt "key1", dt "key2"]],
          Term.app "block"
            [Term.app "assign" [Term.sym "dtype", Term.app "np.promote_types" [dt "key1", dt "key2"]],
             Term.app "assign" [Term.app "tuple" [Term.sym "new1", Term.sym "new2"],
               Term.app "tuple" [Term.app ".astype" [Term.sym "key1", Term.sym "dtype"], Term.app ".astype" [Term.sym "key2", Term.sym "dtype"]]],
             Term.app "if" [Term.app "And" [back "new1" "key1", back "new2" "key2"],
               Term.app "block" [Term.app "assign" [Term.app "tuple" [Term.app "getitem" [Term.sym "keys1", Term.sym "i"], Term.app "getitem" [Term.sym "keys2", Term.sym "i"]],
                 Term.app "tuple" [Term.sym "new1", Term.sym "new2"]]],
               Term.app "block" []]],
          Term.app "block" []]]]
      let otherIds := Term.app "list()" [Term.app "zip" [Term.app "*" [keysOf "other" "by2"]]]
      let byId := Term.app "DictComp" [Term.app "pair" [Term.app "getitem" [otherIds, Term.sym "i"], Term.sym "i"],
        Term.app "in" [Term.sym "i", Term.app "range" [Term.app ".nrow" [Term.sym "other"]], Term.app "if" []]]
      let srcv := Term.app "np.fromiter" [Term.app "map" [Term.app "lambda" [Term.app "params" [Term.sym "x"],
        Term.app ".get" [byId, Term.sym "x", Term.int (-1)]], Term.app "zip" [Term.app "*" [keysOf "self" "by1"]]], Term.sym "int",
        Term.app "=count" [Term.app ".nrow" [Term.sym "self"]]]
      Out.ret [unify] (Term.app "tuple" [Term.app "np.where" [Term.app "Gt" [srcv, Term.int (-1)]], srcv]) := rfl

end DI.Tie.C05

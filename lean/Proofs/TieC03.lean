/-
  Proofs/TieC03.lean — refinement obligation over `Generated/CodeC03.lean`, the translation of the
  *current* source of the inner `sort_key(colname, dir)` of `DataFrame.sort`.

  `sort_key_code`: for every interpretation `truth` of the dtype predicates and both directions, the code
  returns the term `skTerm s` whose shape `s` (ranked before / after `_optimize_for_argsort`, inverted by
  `~` or by unary minus) is determined by the truth values of the tests exactly as written below.
  `sort_key_refines`: when those truth values are the facts about the column that `ColKind` records
  (and a rank vector is an int64 vector), the denoted key column is the model's `sortKey k desc col` —
  the function the C03 theorems (`sort_key_branches`, `sort_ordered`, `sort_stable`) are proved about.
-/
import Generated.CodeC03
import Model.Frame

set_option linter.unusedSimpArgs false

namespace DI.Tie.C03

open DI DI.Py DI.Gen

/-- which transformations `sort_key` applied to the column. -/
structure SK where
  rank1 : Bool            -- ranked because it is a string column with missing values
  rank2 : Bool            -- ranked because it is not a number
  inv : Option Bool       -- `some true`: `~column`, `some false`: `-column`, `none`: as is
  deriving Repr, DecidableEq

def c0 : Term := Term.app "getitem" [Term.sym "self", Term.sym "colname"]
def rankT (t : Term) : Term := Term.app ".rank" [t, Term.app "=method" [Term.sym "'min'"]]
def optT (t : Term) : Term := Term.app "._optimize_for_argsort" [t]

/-- the returned expression for a shape. -/
def skTerm (s : SK) : Term :=
  let c2 := optT (if s.rank1 then rankT c0 else c0)
  let c3 := if s.rank2 then rankT c2 else c2
  match s.inv with
  | none => c3
  | some true => Term.app "~" [c3]
  | some false => Term.app "neg" [c3]

/-- the key column a shape denotes (`_optimize_for_argsort` preserves values and their order). -/
def skEval (s : SK) (col : List Cell) : List Cell :=
  let c1 := if s.rank1 then rankKey col else col
  let c3 := if s.rank2 then rankKey c1 else c1
  match s.inv with
  | none => c3
  | some b => c3.map (invertKey b)

/-- the tests of `sort_key`, as truth values of the interpretation. -/
def strNa (truth : Term → Bool) : Bool :=
  (truth (Term.app ".is_string" [c0]) || truth (Term.app "._is_string_fixed" [c0])) &&
    truth (Term.app ".any" [Term.app ".is_na" [c0]])

def col2 (truth : Term → Bool) : Term := optT (if strNa truth then rankT c0 else c0)

def fast (truth : Term → Bool) : Bool :=
  let c := col2 truth
  truth (Term.app "._is_string_fixed" [c]) || truth (Term.app ".is_boolean" [c]) || truth (Term.app ".is_bytes" [c]) ||
  truth (Term.app ".is_datetime" [c]) || truth (Term.app ".is_float" [c]) || truth (Term.app ".is_integer" [c]) ||
  truth (Term.app ".is_timedelta" [c])

def isNum (truth : Term → Bool) : Bool := truth (Term.app ".is_number" [col2 truth])

def col3 (truth : Term → Bool) : Term := if !isNum truth then rankT (col2 truth) else col2 truth

def intInv (truth : Term → Bool) : Bool :=
  truth (Term.app ".is_integer" [col3 truth]) && !truth (Term.app ".is_timedelta" [col3 truth])

/-- the shape the code takes, from the truth values of its tests. -/
def shapeOf (truth : Term → Bool) (desc : Bool) : SK :=
  { rank1 := strNa truth,
    rank2 := !(!desc && fast truth) && !isNum truth,
    inv := if desc then some (intInv truth) else none }

/-- `sort_key` as written rejects every `dir` other than 1 and -1 … -/
theorem sort_key_rejects (truth : Term → Bool) (dir : Int) (h : dir ≠ 1 ∧ dir ≠ -1) :
    DataFrame_sort_key truth dir = Out.raise [] "ValueError" := by
  unfold DataFrame_sort_key
  simp [h.1, h.2]

/-- … and for `dir = 1` (`desc = false`) / `dir = -1` (`desc = true`) returns the expression of `shapeOf`. -/
theorem sort_key_code (truth : Term → Bool) (desc : Bool) :
    DataFrame_sort_key truth (if desc then -1 else 1) = Out.ret [] (skTerm (shapeOf truth desc)) := by
  cases desc
  · cases hs : strNa truth <;> cases hf : fast truth <;> cases hn : isNum truth <;>
      simp only [shapeOf, skTerm, hs, hf, hn, Bool.false_eq_true, if_false, if_true, Bool.not_false, Bool.not_true,
        Bool.true_and, Bool.and_true, Bool.false_and, Bool.and_false] <;>
      simp only [strNa, c0] at hs <;>
      simp only [fast, col2, strNa, c0, rankT, optT, hs, Bool.false_eq_true, if_false, if_true] at hf <;>
      simp only [isNum, col2, strNa, c0, rankT, optT, hs, Bool.false_eq_true, if_false, if_true] at hn <;>
      simp only [DataFrame_sort_key, c0, rankT, optT, hs, hf, hn, Int.reduceNeg, Int.reduceLT, Int.reduceGT, Int.reduceEq,
        decide_true, decide_false, Bool.true_and, Bool.false_and, Bool.or_false, Bool.true_or, Bool.or_true, Bool.not_true,
        Bool.not_false, Bool.false_eq_true, if_false, if_true]
  · cases hs : strNa truth <;> cases hn : isNum truth <;> cases hi : intInv truth <;>
      simp only [shapeOf, skTerm, hs, hn, hi, Bool.false_eq_true, if_false, if_true, Bool.not_false, Bool.not_true,
        Bool.true_and, Bool.and_true, Bool.false_and, Bool.and_false] <;>
      simp only [strNa, c0] at hs <;>
      simp only [isNum, col2, strNa, c0, rankT, optT, hs, Bool.false_eq_true, if_false, if_true] at hn <;>
      simp only [intInv, col3, isNum, col2, strNa, c0, rankT, optT, hs, hn, Bool.false_eq_true, if_false, if_true,
        Bool.not_false, Bool.not_true] at hi <;>
      simp only [DataFrame_sort_key, c0, rankT, optT, hs, hn, hi, Int.reduceNeg, Int.reduceLT, Int.reduceGT, Int.reduceEq,
        decide_true, decide_false, Bool.true_and, Bool.false_and, Bool.or_false, Bool.true_or, Bool.or_true, Bool.not_true,
        Bool.not_false, Bool.false_eq_true, if_false, if_true]

/-- what NumPy says about the column (`ColKind` of the model) and about a rank vector (int64: a fast
    ascending key, a number, an integer, not a timedelta). -/
structure Faithful (truth : Term → Bool) (k : ColKind) (col : List Cell) : Prop where
  hStr : strNa truth = (k.isString && col.any isNa)
  hFast : fast truth = (if strNa truth then true else k.fastAsc)
  hNum : isNum truth = (if strNa truth then true else k.isNumber)
  hInt : intInv truth = (if strNa truth || !isNum truth then true else k.isInteger)

/-- **refinement**: under a faithful interpretation the key column the code builds is the model's. -/
theorem sort_key_refines (truth : Term → Bool) (k : ColKind) (col : List Cell) (desc : Bool)
    (h : Faithful truth k col) :
    skEval (shapeOf truth desc) col = sortKey k desc col := by
  obtain ⟨h1, h2, h3, h4⟩ := h
  unfold shapeOf skEval sortKey
  rw [h3, h1] at h4
  rw [h1] at h2 h3
  simp only [h1, h2, h3, h4]
  generalize (k.isString && col.any isNa) = r
  cases r <;> cases desc <;> cases k.fastAsc <;> cases k.isNumber <;> cases k.isInteger <;> simp

/-- non-vacuity: the interpretation "int64 column without missing values" is faithful for the integer `ColKind`. -/
example : shapeOf (fun t => match t with
    | .app ".is_integer" _ => true | .app ".is_number" _ => true | _ => false) true
    = { rank1 := false, rank2 := false, inv := some true } := by decide

/-! ### the outer body of `sort`: ONE `np.lexsort` over the per-key sort keys, LAST given key first in the tuple, every column
      gathered at the same permutation -/

/-- **sort as written** (for any local `sort_key` definition `k`, which `sort_key_code` above characterises): the keys are
    `sort_key(*x)` for the (column, direction) pairs taken in REVERSED order — `np.lexsort` sorts by its LAST key first, so
    the first pair the caller gave is the primary key, the second breaks its ties, and so on for any number of keys —;
    every column of the receiver, in dict order, is `column[indices].copy()` for that ONE index vector. -/
theorem sort_outer_code (truth : Term → Bool) :
    ∃ k : Term, DataFrame_sort truth =
      let indices := Term.app "np.lexsort" [Term.app "tuple()" [Term.app "GeneratorExp" [Term.app "call" [k, Term.app "*" [Term.sym "x"]],
        Term.app "in" [Term.sym "x", Term.app "reversed" [Term.app ".items" [Term.sym "colname_dir_pairs"]], Term.app "if" []]]]]
      Out.fall [perColumn (fun c => Term.app ".copy" [Term.app "getitem" [c, indices]])] :=
  ⟨_, rfl⟩

theorem sort_signature : DataFrame_sort_signature = ["self", "**colname_dir_pairs"] ∧ DataFrame_sort_decorators = ["deco.new_from_generator"] := ⟨rfl, rfl⟩

/-! ### evaluation order -/

/-- `sort` computes the ONE index vector (keys of the reversed pairs, `np.lexsort`) before the loop over the columns. -/
theorem sort_call_order :
    DataFrame_sort_call_order = ["sort_key", "colname_dir_pairs.items", "reversed", "tuple", "np.lexsort", "self.items", "column[indices].copy"] := rfl

end DI.Tie.C03

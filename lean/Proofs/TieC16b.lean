/-
  Proofs/TieC16b.lean — obligations over `ListOfDicts.split` as regenerated into `Generated/CodeC16.lean`: the code as
  written, and a meaning for its one loop (`setdefault(id, []).append(i)` over the enumerated items) with an exact
  characterisation of the result — the buckets of `aggregate` (`TieC16.aggregate_code`) are filled by the same statement.
-/
import Generated.CodeC16
import Proofs.TieC16

namespace DI.Tie.C16

open DI.Py DI.Gen

/-- `for i, item in enumerate(self): id = itemgetter(*by)(item); buckets.setdefault(id, []).append(i)`: ONE pass over the
    receiver in list order; the bucket of an id is created the first time the id is seen and the POSITION `i` (not the
    item) is appended to it. -/
def fillBuckets : Term :=
  Term.app "for" [Term.app "tuple" [Term.sym "i", Term.sym "item"], Term.app "enumerate" [Term.sym "self"], Term.app "block"
    [Term.app "assign" [Term.sym "id", Term.app "call" [extract (Term.sym "by"), Term.sym "item"]],
     Term.app ".append" [Term.app ".setdefault" [Term.sym "{}", Term.sym "id", Term.app "list" []], Term.sym "i"]]]

/-- **split as written**: the buckets start EMPTY (`{}`), are filled by the one pass above, and the result is
    `list(buckets.values())`: the lists of positions only (the ids are not returned), in bucket-creation order — nothing is
    sorted, no item is touched; the key extraction is `operator.itemgetter(*by)`, the one of `aggregate` and the joins
    (KeyError for an item that lacks a key). -/
theorem split_code (truth : Term → Bool) :
    ListOfDicts_split truth = Out.ret [fillBuckets] (Term.app "list()" [Term.app ".values" [Term.sym "{}"]]) := rfl

/-- `split` is a plain method (it returns a list of lists of integers, not a ListOfDicts: no `new_from_generator`, nothing
    marked obsolete), with the keys as the variadic positional parameter. -/
theorem split_signature :
    ListOfDicts_split_signature = ["self", "*by"] ∧ ListOfDicts_split_decorators = [] ∧
    ListOfDicts_split_call_order = ["operator.itemgetter", "enumerate", "extract", "indices_by_group.setdefault",
      "indices_by_group.setdefault(id, []).append", "indices_by_group.values", "list"] := ⟨rfl, rfl, rfl⟩

theorem split_leaves_items (truth : Term → Bool) : (ListOfDicts_split truth).writesItems = false := rfl

/-! ### the meaning of the loop

  `ids` are the values `itemgetter(*by)(item)` of the items in list order (any type with decidable equality: a value for
  one key, a tuple for several).  A dict is an insertion-ordered association list. -/

section Buckets

variable {α : Type} [DecidableEq α]

/-- `d.setdefault(id, []).append(i)`. -/
def bucketAdd (d : List (α × List Nat)) (id : α) (i : Nat) : List (α × List Nat) :=
  if id ∈ d.map (·.1) then d.map (fun p => if p.1 = id then (p.1, p.2 ++ [i]) else p) else d ++ [(id, [i])]

/-- the loop of `split` from the empty dict. -/
def splitRun (ids : List α) : List (α × List Nat) := ids.zipIdx.foldl (fun d p => bucketAdd d p.1 p.2) []

/-- the distinct ids in first-seen order (`dict.fromkeys`). -/
def firstSeenIds (ids : List α) : List α := ids.foldl (fun acc k => if k ∈ acc then acc else acc ++ [k]) []

/-- the positions at which `k` occurs, increasing. -/
def positionsOf (ids : List α) (k : α) : List Nat := (ids.zipIdx.filter (fun p => p.1 = k)).map (·.2)

/-- the dict after the prefix `pre` has been processed. -/
def bucketsOf (pre : List α) : List (α × List Nat) := (firstSeenIds pre).map (fun k => (k, positionsOf pre k))

theorem firstSeenIds_snoc (pre : List α) (k : α) :
    firstSeenIds (pre ++ [k]) = if k ∈ firstSeenIds pre then firstSeenIds pre else firstSeenIds pre ++ [k] := by
  unfold firstSeenIds
  rw [List.foldl_append]
  rfl

theorem mem_firstSeenIds (ids : List α) (k : α) : k ∈ firstSeenIds ids ↔ k ∈ ids := by
  suffices h : ∀ (ids acc : List α), k ∈ ids.foldl (fun acc k => if k ∈ acc then acc else acc ++ [k]) acc ↔ k ∈ acc ∨ k ∈ ids by
    unfold firstSeenIds
    simpa using h ids []
  intro ids
  induction ids with
  | nil => simp
  | cons a t ih =>
    intro acc
    rw [List.foldl_cons, ih]
    by_cases ha : a ∈ acc
    · simp only [ha, if_true, List.mem_cons]
      constructor
      · rintro (h | h); exact Or.inl h; exact Or.inr (Or.inr h)
      · rintro (h | h | h); exact Or.inl h; exact Or.inl (h ▸ ha); exact Or.inr h
    · simp only [ha, if_false, List.mem_append, List.mem_cons, List.not_mem_nil, or_false]
      constructor
      · rintro ((h | h) | h); exact Or.inl h; exact Or.inr (Or.inl h); exact Or.inr (Or.inr h)
      · rintro (h | h | h); exact Or.inl (Or.inl h); exact Or.inl (Or.inr h); exact Or.inr h

theorem positionsOf_snoc (pre : List α) (id k : α) :
    positionsOf (pre ++ [id]) k = positionsOf pre k ++ (if id = k then [pre.length] else []) := by
  unfold positionsOf
  rw [List.zipIdx_append, List.filter_append, List.map_append]
  by_cases h : id = k <;> simp [h]

/-- one step of the loop takes the dict of a prefix to the dict of the prefix extended by the item. -/
theorem bucketAdd_bucketsOf (pre : List α) (id : α) :
    bucketAdd (bucketsOf pre) id pre.length = bucketsOf (pre ++ [id]) := by
  have hk : (bucketsOf pre).map (·.1) = firstSeenIds pre := by
    simp [bucketsOf, List.map_map, Function.comp_def]
  unfold bucketAdd
  rw [hk]
  unfold bucketsOf
  rw [firstSeenIds_snoc]
  by_cases h : id ∈ firstSeenIds pre
  · simp only [h, if_true, List.map_map]
    apply List.map_congr_left
    intro k _
    simp only [Function.comp_def, positionsOf_snoc]
    by_cases e : k = id
    · subst e; simp
    · have e' : ¬ id = k := fun x => e x.symm
      simp [e, e']
  · simp only [h, if_false, List.map_append, List.map_cons, List.map_nil]
    congr 1
    · apply List.map_congr_left
      intro k hk'
      have e : ¬ id = k := fun x => h (x ▸ hk')
      simp [positionsOf_snoc, e]
    · have : positionsOf pre id = [] := by
        unfold positionsOf
        rw [List.map_eq_nil_iff, List.filter_eq_nil_iff]
        intro p hp
        have hm : p.1 ∈ pre := List.mem_of_getElem? (List.mem_zipIdx_iff_getElem?.1 hp)
        have : ¬ id ∈ pre := fun x => h ((mem_firstSeenIds pre id).2 x)
        simp only [decide_eq_true_eq]
        intro e; exact this (e ▸ hm)
      simp [positionsOf_snoc, this]

theorem foldl_bucketsOf (rest pre : List α) :
    (rest.zipIdx pre.length).foldl (fun d p => bucketAdd d p.1 p.2) (bucketsOf pre) = bucketsOf (pre ++ rest) := by
  induction rest generalizing pre with
  | nil => simp
  | cons a t ih =>
    rw [List.zipIdx_cons, List.foldl_cons]
    have := ih (pre ++ [a])
    simp only [List.length_append, List.length_singleton, List.append_assoc, List.singleton_append] at this
    rw [← this, bucketAdd_bucketsOf]

/-- **refinement (the loop)**: what the dict of `split` holds after the pass: one bucket per DISTINCT id, in first-seen
    order of the ids, each bucket holding exactly the positions at which its id occurs, in increasing order. -/
theorem splitRun_eq (ids : List α) :
    splitRun ids = (firstSeenIds ids).map (fun k => (k, positionsOf ids k)) := by
  have := foldl_bucketsOf ids ([] : List α)
  simpa [splitRun, bucketsOf, firstSeenIds, positionsOf] using this

/-- so: position `i` is in the bucket of `k` iff the `i`-th item's id is `k` (every position in exactly the bucket of its
    own id, none lost, none invented) … -/
theorem mem_bucket_iff (ids : List α) (k : α) (i : Nat) :
    i ∈ positionsOf ids k ↔ ids[i]? = some k := by
  unfold positionsOf
  simp only [List.mem_map, List.mem_filter, decide_eq_true_eq]
  constructor
  · rintro ⟨p, ⟨hp, hk⟩, rfl⟩
    rw [List.mem_zipIdx_iff_getElem?.1 hp, hk]
  · intro h
    refine ⟨(k, i), ⟨?_, rfl⟩, rfl⟩
    rw [List.mem_zipIdx_iff_getElem?]
    exact h

/-- … and the buckets come in first-seen order of their ids: the ids of `split`'s dict are `dict.fromkeys` of the ids. -/
theorem splitRun_keys (ids : List α) : (splitRun ids).map (·.1) = firstSeenIds ids := by
  rw [splitRun_eq]; simp [List.map_map, Function.comp_def]

/-- the value returned, `list(buckets.values())`. -/
theorem splitRun_values (ids : List α) : (splitRun ids).map (·.2) = (firstSeenIds ids).map (positionsOf ids) := by
  rw [splitRun_eq]; simp [List.map_map, Function.comp_def]

end Buckets

/-- the docstring's example: `[1, 2, 2, 3, 3, 3]` splits into `[[0], [1, 2], [3, 4, 5]]`. -/
theorem split_example : (splitRun [1, 2, 2, 3, 3, 3]).map (·.2) = [[0], [1, 2], [3, 4, 5]] := by decide

/-- first-seen, not sorted: `[3, 1, 3]` gives `[[0, 2], [1]]`. -/
theorem split_order_example : (splitRun [3, 1, 3]).map (·.2) = [[0, 2], [1]] := by decide

end DI.Tie.C16

/-
  Proofs/C03.lean — property C03: DataFrame.sort is a stable, key-ordered permutation of
  whole rows.  Statements only; proofs cite Lemmas/DfSort.lean.

  `keys : List (ColKind × Bool × List Cell)` are the sort keys in the order given
  (dtype flags, descending?, the column's cells); `dfSortIdx n keys` is the transcription of
  `sort_key` for every key followed by `np.lexsort`.  `WfKeys` says that every key column has
  `n` cells and that numeric columns are integer-coded (the harness codec).
-/
import Model.Frame
import Lemmas.DfSort
import Lemmas.Frame

namespace DI.C03

open DI

/-- every input row exactly once (with `C02.whole_rows`: no value altered in any column). -/
theorem sort_perm (n : Nat) (keys : List (ColKind × Bool × List Cell)) :
    (dfSortIdx n keys).Perm (List.range n) := dfSortIdx_perm n keys

/-- ordered lexicographically by the named columns in the requested directions
    (numbers numerically, strings by code point, false before true, missing last when
    ascending, together at one end when descending). -/
theorem sort_ordered (n : Nat) (keys : List (ColKind × Bool × List Cell)) (hwf : WfKeys n keys) :
    (gather (rowsOf n (origCols keys)) (dfSortIdx n keys)).Pairwise
      (fun a b => leLexBy (specLts keys) a b) := dfSortIdx_sorted_spec n keys hwf

/-- rows that the key order does not separate keep their original relative order. -/
theorem sort_stable (n : Nat) (keys : List (ColKind × Bool × List Cell)) (hwf : WfKeys n keys)
    (i j : Nat) (hij : i < j) (hj : j < n)
    (hle : leLexBy (specLts keys) (rowsOf n (origCols keys))[i]! (rowsOf n (origCols keys))[j]!) :
    [i, j].Sublist (dfSortIdx n keys) := dfSortIdx_stable n keys hwf i j hij hj hle

/-- each `sort_key` branch (raw column, rank, `~rank`, `-column`) orders any two rows like the
    specification order of that column and direction. -/
theorem sort_key_branches (k : ColKind) (desc : Bool) (col : List Cell)
    (hwf : k.isNumber = true → IntCoded col) (i j : Nat) (hi : i < col.length) (hj : j < col.length) :
    ltNaLast Key.le (sortKey k desc col)[i]! (sortKey k desc col)[j]! = specLt k desc col col[i]! col[j]! :=
  sortKey_spec k desc col hwf i j hi hj

/-- ascending keys put missing values last (instance of the specification order). -/
theorem asc_missing_last (k : ColKind) (col : List Cell) (a : Key) :
    specLt k false col (some a) none = true ∧ specLt k false col none (some a) = false := by
  simp [specLt, ltNaLast]

/-- non-vacuity: a well-formed key set exists and the specification distinguishes rows. -/
example : WfKeys 3 [({ isString := false, fastAsc := true, isNumber := true, isInteger := true }, true,
    [some (.i 1), some (.i 3), some (.i 2)])] := by
  intro k hk
  simp at hk; subst hk
  refine ⟨rfl, fun _ => ?_⟩
  intro c hc; simp at hc
  rcases hc with rfl | rfl | rfl <;> exact Or.inr ⟨_, rfl⟩

end DI.C03

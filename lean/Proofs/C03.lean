/-
  Proofs/C03.lean — property C03: DataFrame.sort is a stable, key-ordered permutation of
  whole rows.  Statements only; proofs cite Lemmas/DfSort.lean.

  `keys : List (ColKind × Bool × List Cell)` are the sort keys in the order given
  (dtype flags, descending?, the column's cells); `dfSortIdx n keys` is the transcription of
  `sort_key` for every key followed by `np.lexsort`.  `WfKeys` says that every key column has
  `n` cells and that numeric columns are integer-coded (the harness codec).
-/
import Model.Frame
import Lemmas.DfSort
import Lemmas.Frame
import Lemmas.DfSortMore

namespace DI.C03

open DI DI.SortMore

/-- every input row exactly once (with `C02.whole_rows`: no value altered in any column). -/
theorem sort_perm (n : Nat) (keys : List (ColKind × Bool × List Cell)) :
    (dfSortIdx n keys).Perm (List.range n) := dfSortIdx_perm n keys

/-- ordered lexicographically by the named columns in the requested directions
    (numbers numerically, strings by code point, false before true, missing last when
    ascending, together at one end when descending). -/
theorem sort_ordered (n : Nat) (keys : List (ColKind × Bool × List Cell)) (hwf : WfKeys n keys) :
    (gather (rowsOf n (origCols keys)) (dfSortIdx n keys)).Pairwise
      (fun a b => leLexBy (specLts keys) a b) := dfSortIdx_sorted_spec n keys hwf

/-- rows that the key order does not separate keep their original relative order. -/
theorem sort_stable (n : Nat) (keys : List (ColKind × Bool × List Cell)) (hwf : WfKeys n keys)
    (i j : Nat) (hij : i < j) (hj : j < n)
    (hle : leLexBy (specLts keys) (rowsOf n (origCols keys))[i]! (rowsOf n (origCols keys))[j]!) :
    [i, j].Sublist (dfSortIdx n keys) := dfSortIdx_stable n keys hwf i j hij hj hle

/-- each `sort_key` branch (raw column, rank, `~rank`, `-column`) orders any two rows like the
    specification order of that column and direction. -/
theorem sort_key_branches (k : ColKind) (desc : Bool) (col : List Cell)
    (hwf : k.isNumber = true → IntCoded col) (i j : Nat) (hi : i < col.length) (hj : j < col.length) :
    ltNaLast Key.le (sortKey k desc col)[i]! (sortKey k desc col)[j]! = specLt k desc col col[i]! col[j]! :=
  sortKey_spec k desc col hwf i j hi hj

/-- ascending keys put missing values last (instance of the specification order). -/
theorem asc_missing_last (k : ColKind) (col : List Cell) (a : Key) :
    specLt k false col (some a) none = true ∧ specLt k false col none (some a) = false := by
  simp [specLt, ltNaLast]

/-- non-vacuity: a well-formed key set exists and the specification distinguishes rows. -/
example : WfKeys 3 [({ isString := false, fastAsc := true, isNumber := true, isInteger := true }, true,
    [some (.i 1), some (.i 3), some (.i 2)])] := by
  intro k hk
  simp at hk; subst hk
  refine ⟨rfl, fun _ => ?_⟩
  intro c hc; simp at hc
  rcases hc with rfl | rfl | rfl <;> exact Or.inr ⟨_, rfl⟩

/-! ### round 3: missing values inside tie groups, degenerate frames, idempotence

    `sortRow n keys i` is the tuple of key cells of input row `i`; `[i, j].Sublist (dfSortIdx n keys)`
    says that row `i` comes before row `j` in the sorted frame; two rows are in the same tie group
    of the first `m` keys when `(sortRow … i).take m = (sortRow … j).take m` (the specification
    orders are strict linear orders on cells, `sort_orders_are_linear`, so "not separated by the
    earlier keys" is "equal on the earlier keys").  `naLast k desc col` says at which end a key puts
    its missing values: last when ascending, and when descending last for a negated numeric
    column (float, timedelta) but first for a ranked column (string, bool, date, object). -/

theorem sort_orders_are_linear (k : ColKind) (desc : Bool) (col : List Cell) :
    StrictLin (specLt k desc col) := specLt_strictLin k desc col

/-- the cells of a key row are the cells of the key columns. -/
theorem key_row_cells (n : Nat) (keys : List (ColKind × Bool × List Cell)) (i : Nat) (hi : i < n)
    (m : Nat) (hm : m < keys.length) : (sortRow n keys i)[m]! = (keys[m]).2.2[i]! :=
  sortRow_cell n keys i hi m hm

/-- within a tie group of the earlier keys, the rows whose key `m` is missing are together at
    one end and contiguous:
    (1) a key with `naLast` (every ascending key; descending float / timedelta): after a row
        with a missing key come only rows with a missing key — the missing values are after all
        non-missing rows of the group;
    (2) a key without `naLast` (descending ranked key): before a row with a missing key come
        only rows with a missing key — the missing values are before all non-missing rows;
    (3) in every case a row of the result between two tied rows with a missing key is tied
        with them and has a missing key. -/
theorem sort_missing_together (n : Nat) (keys : List (ColKind × Bool × List Cell)) (hwf : WfKeys n keys)
    (m : Nat) (hm : m < keys.length) :
    (naLast keys[m].1 keys[m].2.1 keys[m].2.2 = true →
      ∀ i j, [i, j].Sublist (dfSortIdx n keys) →
        (sortRow n keys i).take m = (sortRow n keys j).take m →
        (sortRow n keys i)[m]! = none → (sortRow n keys j)[m]! = none) ∧
    (naLast keys[m].1 keys[m].2.1 keys[m].2.2 = false →
      ∀ i j, [i, j].Sublist (dfSortIdx n keys) →
        (sortRow n keys i).take m = (sortRow n keys j).take m →
        (sortRow n keys j)[m]! = none → (sortRow n keys i)[m]! = none) ∧
    (∀ i j k, [i, j, k].Sublist (dfSortIdx n keys) →
        (sortRow n keys i).take m = (sortRow n keys k).take m →
        (sortRow n keys i)[m]! = none → (sortRow n keys k)[m]! = none →
        (sortRow n keys j).take m = (sortRow n keys i).take m ∧ (sortRow n keys j)[m]! = none) :=
  ⟨fun hl i j hs ht hna => dfSort_missing_last n keys hwf m hm hl i j hs ht hna,
   fun hf i j hs ht hna => dfSort_missing_first n keys hwf m hm hf i j hs ht hna,
   fun i j k hs ht hi hk => dfSort_missing_contiguous n keys hwf m hm i j k hs ht hi hk⟩

/-- which end, per dtype and direction: ascending keys put missing values last; descending keys
    put them last exactly when `sort_key` never ranks the column (a numeric dtype that is not a
    string column with missing values). -/
theorem sort_missing_end (k : ColKind) (col : List Cell) :
    naLast k false col = true ∧
    (naLast k true col = true ↔ (k.isNumber = true ∧ (k.isString && col.any isNa) = false)) :=
  naLast_cases k col

/-- tie groups of the leading keys are contiguous in the result. -/
theorem sort_tie_groups_contiguous (n : Nat) (keys : List (ColKind × Bool × List Cell)) (hwf : WfKeys n keys)
    (m : Nat) (hm : m ≤ keys.length) (i j k : Nat) (hs : [i, j, k].Sublist (dfSortIdx n keys))
    (htie : (sortRow n keys i).take m = (sortRow n keys k).take m) :
    (sortRow n keys j).take m = (sortRow n keys i).take m :=
  dfSort_tie_contiguous n keys hwf m hm i j k hs htie

/-- sort of an empty frame and of a one-row frame. -/
theorem sort_empty_and_single (keys : List (ColKind × Bool × List Cell)) :
    dfSortIdx 0 keys = [] ∧ dfSortIdx 1 keys = [0] := ⟨dfSortIdx_zero keys, dfSortIdx_one keys⟩

/-- without keys the order is unchanged. -/
theorem sort_no_keys (n : Nat) : dfSortIdx n [] = List.range n := dfSortIdx_no_keys n

/-- sorting the sorted frame by the same keys changes nothing: on the key columns of the
    sorted frame (`gatherKeys keys (dfSortIdx n keys)`: every key column gathered by the sort
    permutation) the sort permutation is the identity. -/
theorem sort_idempotent (n : Nat) (keys : List (ColKind × Bool × List Cell)) (hwf : WfKeys n keys) :
    dfSortIdx n (gatherKeys keys (dfSortIdx n keys)) = List.range n := dfSortIdx_idempotent n keys hwf

/-- more generally, a frame already in key order is left as it is (stability). -/
theorem sort_of_sorted (n : Nat) (keys : List (ColKind × Bool × List Cell))
    (h : (rowsOf n (keys.map (fun k => sortKey k.1 k.2.1 k.2.2))).Pairwise (fun a b => leLex a b = true)) :
    dfSortIdx n keys = List.range n := dfSortIdx_of_sorted n keys h

/-- non-vacuity: the three ends. -/
example : naLast { isString := false, fastAsc := true, isNumber := true, isInteger := false } true
    [some (.i 1), none] = true := by decide
example : naLast { isString := true, fastAsc := false, isNumber := false, isInteger := false } true
    [some (.s [97]), none] = false := by decide
example : gatherKeys [({ isString := false, fastAsc := true, isNumber := true, isInteger := true }, false,
    [some (.i 3), some (.i 1)])] [1, 0] =
    [({ isString := false, fastAsc := true, isNumber := true, isInteger := true }, false,
    [some (.i 1), some (.i 3)])] := by decide

end DI.C03

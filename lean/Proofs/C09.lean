/-
  Proofs/C09.lean — property C09: combining and reshaping columns preserves every untouched
  value.  Statements only; proofs cite Lemmas/Bind.lean.

  Outputs are lists of (name, provenance of every cell): `Src.cell i c r` is row `r` of column `c`
  of input frame `i`, `Src.na` a synthesised missing value.
-/
import Model.Bind
import Lemmas.Bind
import Lemmas.BindMore

namespace DI.C09

open DI.Bind

/-- rbind: the union of the columns in first-seen order (no name twice). -/
theorem rbind_columns (frames : List Frame) :
    (rbind frames).map (·.1) = uniqueKeys (frames.flatMap (·.names)) ∧
    (uniqueKeys (frames.flatMap (·.names))).Nodup ∧
    ∀ k, k ∈ uniqueKeys (frames.flatMap (·.names)) ↔ k ∈ frames.flatMap (·.names) :=
  ⟨rbind_names frames, uniqueKeys_nodup _, mem_uniqueKeys _⟩

/-- rbind: the result has the sum of the row counts. -/
theorem rbind_row_count (frames : List Frame) (c : String) (cells : List Src)
    (h : (c, cells) ∈ rbind frames) : cells.length = (frames.map (·.nrow)).sum :=
  rbind_nrow frames c cells h

/-- rbind stacks in argument order: each input's rows are recoverable by position, and an
    input lacking a column contributes missing values there. -/
theorem rbind_rows_by_position (frames : List Frame) (c : String) (cells : List Src)
    (h : (c, cells) ∈ rbind frames) (i r : Nat) (hi : i < frames.length) (hr : r < (frames[i]).nrow) :
    cells[((frames.take i).map (·.nrow)).sum + r]? =
      some (if (frames[i]).names.contains c then Src.cell i c r else Src.na) :=
  rbind_block frames c cells h i r hi hr

/-- select honours the requested order and names and never touches values. -/
theorem select_order_and_values (self : Frame) (cols : List String) (out : List OutCol)
    (h : select self cols = some out) :
    (∀ p ∈ out, p.2 = colCells 0 p.1 self.nrow ∧ p.1 ∈ cols) ∧ (cols.Nodup → out.map (·.1) = cols) :=
  select_spec self cols out h

/-- unselect drops exactly the named columns; the others keep order and values. -/
theorem unselect_rest_untouched (self : Frame) (cols : List String) :
    (unselect self cols).map (·.1) = self.names.filter (fun c => !cols.contains c) ∧
    ∀ p ∈ unselect self cols, p.2 = colCells 0 p.1 self.nrow := unselect_spec self cols

/-- rename changes names only: every output column is a whole, unaltered input column, and
    no name occurs twice. -/
theorem rename_values_untouched (self : Frame) (toFrom : List (String × String)) :
    (∀ p ∈ rename self toFrom, ∃ c ∈ self.names, p.2 = colCells 0 c self.nrow) ∧
    ((rename self toFrom).map (·.1)).Nodup :=
  ⟨rename_sources self toFrom, rename_names_nodup self toFrom⟩

/-- update: self's columns that `other` does not replace come first, whole and in order; then
    other's columns in order, each taken whole or as one row broadcast (nothing else is accepted). -/
theorem update_untouched_and_fitted (self other : Frame) (out : List OutCol) (h : update self other = some out) :
    ∃ o, out = (self.names.filter (fun c => !other.names.contains c)).map (fun c => (c, colCells 0 c self.nrow)) ++ o ∧
      o.length = other.names.length ∧
      ∀ i (h1 : i < other.names.length) (h2 : i < o.length),
        (o[i]).1 = other.names[i] ∧ Fitted 1 other.names[i] other.nrow self.nrow (o[i]).2 :=
  update_spec self other out h

/-- ungrouped modify: every column that is not assigned is in the result, whole; every result column
    is an untouched own column or one of the assigned names; no name occurs twice. -/
theorem modify_untouched (self : Frame) (kvs : List (String × Nat)) (out : List OutCol)
    (h : modify self kvs = some out) :
    (∀ c ∈ self.names, c ∉ kvs.map (·.1) → (c, colCells 0 c self.nrow) ∈ out) ∧
    (∀ p ∈ out, (p.1 ∈ self.names ∧ p.2 = colCells 0 p.1 self.nrow) ∨ p.1 ∈ kvs.map (·.1)) ∧
    (out.map (·.1)).Nodup := modify_spec self kvs out h

/-- a column is fitted to a frame only whole (same length) or by broadcasting a single row. -/
theorem reconcile_whole_or_broadcast (i : Nat) (c : String) (len nrow : Nat) (e : Bool) (s : List Src)
    (h : reconcile i c len nrow e = some s) : Fitted i c len nrow s := reconcile_fitted i c len nrow e s h

example : rbind [⟨1, ["a", "b"]⟩, ⟨2, ["c", "a"]⟩] =
    [("a", [Src.cell 0 "a" 0, Src.cell 1 "a" 0, Src.cell 1 "a" 1]),
     ("b", [Src.cell 0 "b" 0, Src.na, Src.na]),
     ("c", [Src.na, Src.cell 1 "c" 0, Src.cell 1 "c" 1])] := by decide

end DI.C09

/-
  Proofs/C09.lean — property C09: combining and reshaping columns preserves every untouched
  value.  Statements only; proofs cite Lemmas/Bind.lean.

  Outputs are lists of (name, provenance of every cell): `Src.cell i c r` is row `r` of column `c`
  of input frame `i`, `Src.na` a synthesised missing value.
-/
import Model.Bind
import Lemmas.Bind
import Lemmas.BindMore
import Lemmas.Cbind

namespace DI.C09

open DI.Bind

/-- rbind: the union of the columns in first-seen order (no name twice). -/
theorem rbind_columns (frames : List Frame) :
    (rbind frames).map (·.1) = uniqueKeys (frames.flatMap (·.names)) ∧
    (uniqueKeys (frames.flatMap (·.names))).Nodup ∧
    ∀ k, k ∈ uniqueKeys (frames.flatMap (·.names)) ↔ k ∈ frames.flatMap (·.names) :=
  ⟨rbind_names frames, uniqueKeys_nodup _, mem_uniqueKeys _⟩

/-- rbind: the result has the sum of the row counts. -/
theorem rbind_row_count (frames : List Frame) (c : String) (cells : List Src)
    (h : (c, cells) ∈ rbind frames) : cells.length = (frames.map (·.nrow)).sum :=
  rbind_nrow frames c cells h

/-- rbind stacks in argument order: each input's rows are recoverable by position, and an
    input lacking a column contributes missing values there. -/
theorem rbind_rows_by_position (frames : List Frame) (c : String) (cells : List Src)
    (h : (c, cells) ∈ rbind frames) (i r : Nat) (hi : i < frames.length) (hr : r < (frames[i]).nrow) :
    cells[((frames.take i).map (·.nrow)).sum + r]? =
      some (if (frames[i]).names.contains c then Src.cell i c r else Src.na) :=
  rbind_block frames c cells h i r hi hr

/-- select honours the requested order and names and never touches values. -/
theorem select_order_and_values (self : Frame) (cols : List String) (out : List OutCol)
    (h : select self cols = some out) :
    (∀ p ∈ out, p.2 = colCells 0 p.1 self.nrow ∧ p.1 ∈ cols) ∧ (cols.Nodup → out.map (·.1) = cols) :=
  select_spec self cols out h

/-- unselect drops exactly the named columns; the others keep order and values. -/
theorem unselect_rest_untouched (self : Frame) (cols : List String) :
    (unselect self cols).map (·.1) = self.names.filter (fun c => !cols.contains c) ∧
    ∀ p ∈ unselect self cols, p.2 = colCells 0 p.1 self.nrow := unselect_spec self cols

/-- rename changes names only: every output column is a whole, unaltered input column, and
    no name occurs twice. -/
theorem rename_values_untouched (self : Frame) (toFrom : List (String × String)) :
    (∀ p ∈ rename self toFrom, ∃ c ∈ self.names, p.2 = colCells 0 c self.nrow) ∧
    ((rename self toFrom).map (·.1)).Nodup :=
  ⟨rename_sources self toFrom, rename_names_nodup self toFrom⟩

/-- update: self's columns that `other` does not replace come first, whole and in order; then
    other's columns in order, each taken whole or as one row broadcast (nothing else is accepted). -/
theorem update_untouched_and_fitted (self other : Frame) (out : List OutCol) (h : update self other = some out) :
    ∃ o, out = (self.names.filter (fun c => !other.names.contains c)).map (fun c => (c, colCells 0 c self.nrow)) ++ o ∧
      o.length = other.names.length ∧
      ∀ i (h1 : i < other.names.length) (h2 : i < o.length),
        (o[i]).1 = other.names[i] ∧ Fitted 1 other.names[i] other.nrow self.nrow (o[i]).2 :=
  update_spec self other out h

/-- ungrouped modify: every column that is not assigned is in the result, whole; every result column
    is an untouched own column or one of the assigned names; no name occurs twice. -/
theorem modify_untouched (self : Frame) (kvs : List (String × Nat)) (out : List OutCol)
    (h : modify self kvs = some out) :
    (∀ c ∈ self.names, c ∉ kvs.map (·.1) → (c, colCells 0 c self.nrow) ∈ out) ∧
    (∀ p ∈ out, (p.1 ∈ self.names ∧ p.2 = colCells 0 p.1 self.nrow) ∨ p.1 ∈ kvs.map (·.1)) ∧
    (out.map (·.1)).Nodup := modify_spec self kvs out h

/-- a column is fitted to a frame only whole (same length) or by broadcasting a single row. -/
theorem reconcile_whole_or_broadcast (i : Nat) (c : String) (len nrow : Nat) (e : Bool) (s : List Src)
    (h : reconcile i c len nrow e = some s) : Fitted i c len nrow s := reconcile_fitted i c len nrow e s h

example : rbind [⟨1, ["a", "b"]⟩, ⟨2, ["c", "a"]⟩] =
    [("a", [Src.cell 0 "a" 0, Src.cell 1 "a" 0, Src.cell 1 "a" 1]),
     ("b", [Src.cell 0 "b" 0, Src.na, Src.na]),
     ("c", [Src.na, Src.cell 1 "c" 0, Src.cell 1 "c" 1])] := by decide

/-! ### cbind -/

/-- cbind: the result's column names are all column names of all frames (receiver first, then the
    others in argument order), each name once, at its first-seen position. -/
theorem cbind_names (frames : List Frame) (out : List OutCol) (h : cbind frames = some out) :
    out.map (·.1) = uniqueKeys (frames.flatMap (·.names)) ∧ (out.map (·.1)).Nodup :=
  cbind_names_eq frames out h

/-- cbind keeps the first of duplicate names: every output column `c` consists of cells of the FIRST
    frame `i` (in argument order, receiver = 0) that has a column named `c` — that column taken whole,
    or its single row broadcast to the receiver's row count; no later frame's `c` is ever used. -/
theorem cbind_keeps_first_of_duplicates (self : Frame) (others : List Frame) (out : List OutCol)
    (h : cbind (self :: others) = some out) (c : String) (cells : List Src) (hc : (c, cells) ∈ out) :
    ∃ i, ∃ hi : i < (self :: others).length,
      c ∈ ((self :: others)[i]).names ∧ (∀ i' (h' : i' < i), c ∉ ((self :: others)[i']).names) ∧
      Fitted i c ((self :: others)[i]).nrow self.nrow cells :=
  cbind_first self others out h c cells hc

/-- cbind leaves the receiver untouched: its own columns come first, in their order, every one whole
    (all `self.nrow` cells, in row order).  No guard is needed for a receiver without columns: then
    both sides are empty (see `cbind_empty_receiver` for what happens to the others' columns). -/
theorem cbind_self_untouched (self : Frame) (others : List Frame) (out : List OutCol)
    (h : cbind (self :: others) = some out) (hnd : self.names.Nodup) :
    out.take self.names.length = self.names.map (fun c => (c, colCells 0 c self.nrow)) :=
  cbind_self_first self others out h hnd

/-- a receiver without columns (`if self` is false in `_reconcile_column`) imposes no row count:
    the cbind generator never rejects and every first-occurrence column is taken whole, never broadcast
    (ragged lengths are then left to the constructor's own check, C01 `constructor_wellformed`). -/
theorem cbind_empty_receiver (self : Frame) (others : List Frame) (hemp : self.names = []) :
    ∃ out, cbind (self :: others) = some out ∧
      ∀ c cells, (c, cells) ∈ out → ∃ i, ∃ hi : i < (self :: others).length,
        c ∈ ((self :: others)[i]).names ∧ (∀ i' (h' : i' < i), c ∉ ((self :: others)[i']).names) ∧
        cells = colCells i c ((self :: others)[i]).nrow :=
  cbind_empty_self self others hemp

/-- the exact rejection condition of cbind: the receiver has columns, and some column that is used
    (a first occurrence of its name) has a length that is neither the receiver's row count nor a
    broadcastable 1 (broadcasting needs a receiver with at least one row).  Lengths of columns
    shadowed by an earlier frame never matter. -/
theorem cbind_rejects_mismatch (self : Frame) (others : List Frame) :
    cbind (self :: others) = none ↔
      self.names ≠ [] ∧ ∃ c i, ∃ hi : i < (self :: others).length,
        c ∈ ((self :: others)[i]).names ∧ (∀ i' (h' : i' < i), c ∉ ((self :: others)[i']).names) ∧
        ((self :: others)[i]).nrow ≠ self.nrow ∧ ¬ (((self :: others)[i]).nrow = 1 ∧ 1 ≤ self.nrow) :=
  cbind_none_iff self others

example : cbind [⟨2, ["a", "b"]⟩, ⟨1, ["b", "c"]⟩, ⟨2, ["c", "d"]⟩] =
    some [("a", [Src.cell 0 "a" 0, Src.cell 0 "a" 1]), ("b", [Src.cell 0 "b" 0, Src.cell 0 "b" 1]),
          ("c", [Src.cell 1 "c" 0, Src.cell 1 "c" 0]), ("d", [Src.cell 2 "d" 0, Src.cell 2 "d" 1])] := by decide

/-- rejected: the used column "c" has 3 rows against 2; accepted when that column is shadowed. -/
example : cbind [⟨2, ["a"]⟩, ⟨3, ["c"]⟩] = none ∧
    cbind [⟨2, ["a", "c"]⟩, ⟨3, ["c"]⟩] =
      some [("a", [Src.cell 0 "a" 0, Src.cell 0 "a" 1]), ("c", [Src.cell 0 "c" 0, Src.cell 0 "c" 1])] := by decide

/-- a receiver without columns takes columns of any lengths as they are. -/
example : cbind [⟨0, []⟩, ⟨2, ["a"]⟩, ⟨3, ["b"]⟩] =
    some [("a", colCells 1 "a" 2), ("b", colCells 2 "b" 3)] := by decide

/-! ### rename -/

/-- rename honours the requested names: with distinct `from` names and non-colliding resulting names,
    the result has the receiver's columns in the same order, column `c` under the name `renameTo toFrom c`
    (the `to` paired with `from = c`, else `c` itself — see `rename_target`), every column whole. -/
theorem rename_requested_names (self : Frame) (toFrom : List (String × String))
    (hfrom : (toFrom.map (·.2)).Nodup) (hnames : (self.names.map (renameTo toFrom)).Nodup) :
    rename self toFrom = self.names.map (fun c => (renameTo toFrom c, colCells 0 c self.nrow)) :=
  rename_spec self toFrom hfrom hnames

/-- what the requested name is: every pair `(to, from)` sends `from` to `to`; a name that is no
    `from` stays. -/
theorem rename_target (toFrom : List (String × String)) (hfrom : (toFrom.map (·.2)).Nodup) :
    (∀ p ∈ toFrom, renameTo toFrom p.2 = p.1) ∧ (∀ c, c ∉ toFrom.map (·.2) → renameTo toFrom c = c) :=
  ⟨renameTo_of_mem toFrom hfrom, renameTo_of_not_mem toFrom⟩

/-- the resulting names do not collide when the receiver's names are distinct, the new names are
    distinct, and a new name equals an existing column name only if that column is itself renamed
    away (so swaps are fine). -/
theorem rename_names_do_not_collide (self : Frame) (toFrom : List (String × String))
    (hnd : self.names.Nodup) (hto : (toFrom.map (·.1)).Nodup)
    (hclash : ∀ p ∈ toFrom, p.2 ∈ self.names → p.1 ∈ self.names → p.1 ∈ toFrom.map (·.2)) :
    (self.names.map (renameTo toFrom)).Nodup :=
  renameTo_nodup self.names toFrom hnd hto hclash

/-- a swap and a plain rename in one call. -/
example : rename ⟨1, ["a", "b", "c"]⟩ [("b", "a"), ("a", "b"), ("z", "c")] =
    [("b", [Src.cell 0 "a" 0]), ("a", [Src.cell 0 "b" 0]), ("z", [Src.cell 0 "c" 0])] := by decide

/-- why the non-collision hypothesis is needed: renaming onto a remaining name silently drops the
    renamed column's values (the constructor's dict keeps the first position and the last value). -/
example : rename ⟨1, ["a", "b"]⟩ [("b", "a")] = [("b", [Src.cell 0 "b" 0])] := by decide

end DI.C09
